#!/usr/bin/env python3
"""Regenerate MANIFEST.json from the table below (kept in one place so it is always valid)."""
import json

CLAIMED = {
    'C01': dict(
        text='Theorems over a Gallina model of encode/decode/__len__/hex/from_hex for ALL valid messages (sysex of any '
             'length, any time value): round trip, well-formedness, exact standard layout stated with + * / mod only, '
             'length, hex round trip. The model is tied to /repo on every run by generated table-agreement lemmas and a '
             'correspondence run against the real mido (thorough: the complete 1 331 463-message space).',
        note='Coq kernel; no axioms; model of messages/{specs,encode,decode,messages}.py is hand-written and tied by '
             'correspondence; C01_hex proved for empty / one-character separators (multi-character: correspondence only).',
        technique='Coq proof (induction + finite sweeps by vm_compute) + exhaustive model/implementation correspondence',
        design='5/C01'),
}
CLAIMED['C02'] = dict(
    text='Theorem C02_exact over ALL integer lists of any length and any integers: the decoder either returns a valid message '
         'whose encoding is exactly the input or raises ValueError, never anything else. Tied to /repo by the table lemmas and a '
         'correspondence run that is exhaustive over the 16 843 009 byte strings of length <= 3 in the thorough tier.',
    note='Coq kernel; no axioms; hand-written model of decode_message tied by correspondence; the clause about items that are not integers is theorem C02_types over a typed item model (ints, bools, floats, strings, None, other), '
         'tied by its own correspondence; Fractions / complex numbers are exercised on the implementation only.',
    technique='Coq proof (case analysis + finite sweeps by vm_compute) + exhaustive model/implementation correspondence',
    design='5/C02')
CLAIMED['C04'] = dict(
    text='Theorems for byte streams of ANY length over 0..255: parse_all never raises and yields only valid messages; the encodings of the '
         'real-time messages are exactly the defined real-time bytes of the input in order; the bytes of all other messages are an ordered '
         'subsequence of the non-real-time input. Proved by a step invariant on the tokenizer model lifted by induction. Tied to /repo by '
         'exhaustive enumeration over a 17-class alphabet and random streams.',
    note='Coq kernel; no axioms; model collapses stale tokenizer buffers to Idle (unobservable; validated by correspondence); inputs outside 0..255 are outside the model.',
    technique='Coq proof (step invariant + induction over the byte list) + model/implementation correspondence', design='5/C04')
CLAIMED['C05'] = dict(
    text='Theorems over ALL chunkings and ALL histories of feed/feed_byte/get_message/pending/iteration: chunked feeding reaches the same '
         'parser state as feeding at once; retrieved ++ queued == parse_all(everything fed) (FIFO, nothing lost or duplicated); pending/get '
         'contracts; ParserQueue histories reduce to Parser histories. Correspondence compares real Parser/ParserQueue step by step.',
    note='Coq kernel; no axioms; any number of iterators kept alive across other calls and advanced in any order are modelled (C05_live_iterator); ParserQueue put(), Parser(data) followed by feeds and ParserQueue chunking are covered by correspondence and an oracle.',
    technique='Coq proof (induction over operation histories) + model/implementation correspondence', design='5/C05')
CLAIMED['C06'] = dict(
    text='Theorems: for ANY byte prefix P and ANY valid message M, parse_all(P ++ enc M) = parse_all(P) ++ [M]; any concatenation of encodings '
         'parses back; any number of bytes >= 0xF8 at any positions strictly inside a sysex are delivered ahead of it with the payload unchanged '
         '(inductive interleaving relation, unbounded).',
    note='Coq kernel; no axioms; same model as C04.',
    technique='Coq proof (state-independence lemma on status bytes + induction) + model/implementation correspondence', design='5/C06')
CLAIMED['C03'] = dict(
    text='Theorems over a model of checks.py and of every checked entry point (constructor/from_dict/from_str, copy with overrides, attribute '
         'assignment and deletion, data += ...) with ARBITRARY Python values (ints, bools, floats, strings, None, opaque objects, sequences, bytes): a '
         'constructed message is valid; any operation on a valid object keeps it valid and of the same type; a rejected operation leaves it unchanged '
         'and raises only ValueError/TypeError/AttributeError; lifted to ALL operation histories by induction; the checks accept exactly the documented domain.',
    note='Coq kernel; no axioms; message objects are modelled as typed values, so "the attribute set cannot change" is structural in the model and is '
         'what the correspondence compares on the real object (vars() after every step); the three exception classes are one outcome in the correspondence, as the property allows.',
    technique='Coq proof (case analysis per type/attribute + induction over histories) + model/implementation correspondence', design='5/C03')
CLAIMED['C19'] = dict(
    text='Theorems: for ANY list of valid messages and both formats, read(write(ms)) is exactly the sysex messages of ms (any payload length, empty list, '
         'no sysex); the text reader accepts ANY whitespace layout (every character Python\'s \\s matches) and either letter case and denotes the same bytes; '
         'reading arbitrary bytes returns only valid sysex messages or raises ValueError. Built on the parser theorems (C04/C06) and the hex lemmas (C01).',
    note='Coq kernel; no axioms; the file system is modelled as byte-exact storage (the harness uses real files in a scratch directory).',
    technique='Coq proof (induction over message lists and layouts) + model/implementation correspondence on real files', design='5/C19')
CLAIMED['C07'] = dict(
    text='Theorem C07_roundtrip over a byte-level model of save/load (chunks, variable-length quantities, running status, meta and sysex events, '
         'end_of_track folding): for ANY file whose events are valid, if save succeeds then load returns the same type, ticks_per_beat, track count and '
         'every track normalised to exactly one trailing end_of_track; proved by a per-event lemma under the running-status invariant and an induction over '
         'the event list, with no bound on sizes. Plus: save refuses real-time messages / negative or non-integer times / a type-0 file without exactly one '
         'track, and raises nothing but ValueError or struct.error. The saved bytes are compared byte for byte with the real save(), and the model reader '
         'with the real reader on saved and mutated files.',
    note='Coq kernel; no axioms; text codecs are a parameter with the hypothesis "decodes what it encodes" (latin-1 and ASCII are concrete instances); the '
         'load-save-load clause is theorem C07_fixed_point for ANY byte string that loads (hypothesis sysex_room = the known finding sysex-at-limit) and is also '
         'checked on the implementation for every string that loads; unstorable times are judged after end_of_track folding.',
    technique='Coq proof (invariant + induction over events, tracks, files) + byte-exact model/implementation correspondence', design='5/C07')
CLAIMED['C09'] = dict(
    text='Theorems over the model of meta.py: every accepted value of the 17 known meta types and of unknown meta types encodes to FF type <length> payload '
         'with a correct, minimal variable-length length (proved for every n >= 0) and byte payload, and decodes back to itself both through '
         'MetaMessage.from_bytes and through the track reader (C07), text and data of any length; a Coq witness refutes the one documented range that does '
         'not survive (smpte_offset hours 32..255, a known finding). The finite documented domains are enumerated completely against the real constructor.',
    note='Coq kernel; no axioms; text codec as in C07; ill-typed attribute values are tested on the implementation only; UnknownMetaMessage does no checks by design.',
    technique='Coq proof (bit-level lemmas, finite sweeps, induction on base-128 digits) + exhaustive model/implementation correspondence', design='5/C09')
CLAIMED['C08'] = dict(
    text='An independent description of the SMF format in Coq (reference decoder + reference encoder indexed by the choices the format leaves open). '
         'Theorems: (write) the bytes of save() decode under the reference decoder to exactly the in-memory header and events, and equal the reference '
         'encoder\'s canonical rendering (minimal quantities, running status exactly between equal consecutive channel statuses, F0 len data F7, FF 2F 00 last, '
         'exact chunk lengths); (read) EVERY legal rendering - any padding of any quantity, running status used or not wherever legal, longer header chunk - '
         'loads to exactly the file; the reference pair is coherent; clip=True is the identity on input that loads without it. All for unbounded sizes. '
         'The correspondence drives the real save()/reader through the reference components, clip and debug on/off.',
    note='Coq kernel; no axioms; layouts in the reference are restated with + * / mod only; debug output (printing) is not modelled: debug on/off is compared on the implementation; '
         'the clip clause for data bytes above 127 (they become 127) is covered by correspondence, the theorem covers the no-change half.',
    technique='Coq proof (refinement to an independent format specification, induction over events/tracks) + correspondence through the reference codec', design='5/C08')
CLAIMED['C12'] = dict(
    text='Theorems over the model of _to_abstime/_to_reltime/fix_end_of_track/merge_tracks for ANY number of tracks and ANY deltas: the non-end_of_track '
         'messages of the result at their absolute ticks are exactly those of the inputs, in the (unique) order sorted by absolute time, then track, then '
         'in-track index; the result ends in exactly one end_of_track; for non-negative deltas its duration is that of the longest input track.',
    note='Coq kernel; no axioms; list.sort is assumed stable (its result is then unique and equal to the model\'s insertion sort); immutability of the inputs '
         'and skip_checks are compared on the implementation (the model is functional).',
    technique='Coq proof (stable-sort characterisation, telescoping sums, induction) + model/implementation correspondence', design='5/C12')
CLAIMED['C13'] = dict(
    text='Exact-arithmetic theorems over the model of MidiFile.__iter__/length/play and units: the cumulative time of every message is the tempo-map integral '
         'of its absolute tick (a set_tempo applies only to later deltas), length is the time of the last message, play never yields before the scheduled time for '
         'ANY pattern of oversleeps and consumer holds, yields with exact sleeps at max(scheduled, consumer back) - no drift - and yields exactly the iteration messages '
         '(meta only on request); tick2second/second2tick are exact inverses for any positive tempo. The binary64 behaviour is tied by a PrimFloat model compared BIT FOR BIT '
         'with CPython (kernel vm_compute) and the exact model within n*2^-50.',
    note='Coq kernel; no axioms (PrimFloat primitives are kernel primitives, used only in the tested float model, not in the theorems); real clock and sleep are replaced by a '
         'scripted clock; float rounding is outside the theorems (known finding for ticks >= 2**53).',
    technique='Coq proof over rationals (induction, lra/field) + bit-exact PrimFloat model evaluated by the kernel + correspondence with a scripted clock', design='5/C13')
CLAIMED['C16'] = dict(
    text='Theorems over a model of a MidiFile object (type, ticks_per_beat, tracks, merged_track memo): for ANY history of documented edits interleaved with '
         'observations, an observation equals that of a freshly built file with the same contents, and earlier observations change nothing; the memoised variant of '
         'the tree before the repair is refuted by a Coq witness. The correspondence runs the same histories on a real MidiFile and compares merged_track with the '
         'model and merged_track/iteration/length/play/save with a fresh deep copy.',
    note='Coq kernel; no axioms; the theorem is about the model of the repaired code (no hidden state), so its weight is in the correspondence, which would expose any reintroduced caching.',
    technique='Coq proof (induction over edit/observe histories) + model/implementation correspondence against a freshly built object', design='5/C16')
CLAIMED['C17'] = dict(
    text='Theorems over a model of the process-wide charset and the meta_charset context manager around _load/_save: for EVERY assignment of codecs to charsets and '
         'every call, succeeding or raising at any point, the charset afterwards is what it was before (lifted to all call histories), so text encoded elsewhere uses '
         'latin1 again; inside the call the file charset is in force; text survives save/load with any codec that decodes what it encodes, and the payload bytes are the '
         'encoded text. The unguarded context manager of the tree before the repair is refuted. The correspondence fails loads at EVERY byte offset and saves at the n-th message for 9 charsets.',
    note='Coq kernel; no axioms; Python codecs other than latin-1/ASCII are assumed to decode what they encode (hypothesis of the theorem).',
    technique='Coq proof (state-passing model of the context manager, all outcomes) + fault-point enumeration on the implementation', design='5/C17')
CLAIMED['C15'] = dict(
    text='Theorems over a heap model of message objects (class, frozen flag, attributes) for copy / freeze_message / thaw_message / assignment / deletion: copy is a new '
         'equal object of the same class and leaves the original; freeze and thaw map None to None, freeze returns a frozen message unchanged (same object), thaw(freeze(m)) '
         'equals m with m\'s class; frozen objects reject every mutation and the heap is unchanged; ANY sequence of assignments on other objects leaves an object unchanged; '
         'equal messages have equal hash keys. The correspondence runs operation histories on real objects and compares class, frozen flag, attributes of EVERY object and '
         'object identity after every step.',
    note='Coq kernel; no axioms; the heap model carries integer attributes (sysex data, text, keys are exercised on the implementation only); invalid values are C03\'s subject.',
    technique='Coq proof (heap frame lemmas, induction over assignment sequences) + model/implementation correspondence on object histories', design='5/C15')
CLAIMED['C14'] = dict(
    text='Theorems over a character-level model of msg2str / str2msg / _parse_time / _parse_data / parse_string / parse_string_stream: from_str(str(m)) = m for EVERY '
         'valid message (sysex of any length) and every integer time (int(str(z)) = z comes from the standard library\'s decimal conversions) or float token; '
         'from_dict(m.dict()) and eval(repr(m)) denote the constructor call with the message\'s own values, which returns m; parse_string on ANY ASCII text returns a valid '
         'message or raises ValueError, nothing else; the stream parser skips blank and comment lines, numbers lines correctly and carries on after an error. '
         'str()/repr() text is compared character by character with the model, malformed lines through the model\'s int/float grammar.',
    note='Coq kernel; no axioms; floats are carried as repr tokens with the premise that repr() of a finite float is float syntax and never an int literal (CPython); '
         'ASCII only (Unicode digits are outside the model); repr/eval of meta messages, tracks and files are checked on the implementation (Python\'s eval is not modelled).',
    technique='Coq proof (decimal round trip, split/join lemmas, case analysis over all attributes) + character-exact model/implementation correspondence', design='5/C14')
CLAIMED['C20'] = dict(
    text='Theorems over a model of Backend (name/API resolution, lazy import, open_input/open_output/open_ioport, name listings): for EVERY configuration (all strings '
         'quantified) and after ANY earlier operations the constructor, port name and API that reach the module follow the precedence explicit > environment (when '
         'use_environ) > default, resp. caller api > Backend(api) > name suffix; the module is imported only when first needed, exactly once; I/O names are the inputs that '
         'are also outputs, in input order. The COMPLETE finite grid (15 552 configurations) runs against a recording fake backend module.',
    note='Coq kernel; no axioms; strings are tokens; the import system is observed through the import log of a fake module; set_backend rebinding is checked on the implementation.',
    technique='Coq proof (finite case analysis under universally quantified strings) + exhaustive configuration grid correspondence', design='5/C20')
CLAIMED['C11'] = dict(
    text='Theorems over a sequential model of BasePort/BaseInput/BaseOutput/EchoPort/MultiPort for EVERY device script (messages, nothing, pushes into the queue, the device '
         'closing itself inside _receive) and EVERY sequence of send/receive/poll/iter_pending/iteration/close/with/__del__: the device is released exactly once iff closed; '
         'autoreset messages go out once, contiguous, just before the release; send on a closed port raises ValueError unchanged; a closed port drains in order then stops; '
         'iteration never ends with an exception because of a close; blocking receive returns after exactly k sleeps when the device delivers at call k+1, non-blocking calls '
         'never sleep; MultiPort returns without sleeping when anything is deliverable. Correspondence drives real port classes over scripted device doubles with a fake sleep.',
    note='Coq kernel; no axioms; the IOPort wrapper over two device ports has its own model (IOPortM.v: every call forwarded, the wrapped ports also closed directly) with the same '
         'theorems, and close() from any number of threads under any schedule has one (ConcClose.v: at most one release, exactly one once a call has returned; refuted without the '
         'lock), both tied by correspondence; other concurrent use is C10\'s; "never returns" is fuel exhaustion in the model and a bounded hang guard on the fake sleep in the harness; '
         'PortServer/SocketPort are covered under C18.',
    technique='Coq proof (invariant by induction over operation histories and device scripts) + model/implementation correspondence', design='5/C11')
CLAIMED['C18'] = dict(
    text='Theorem C18_cut over a model of SocketPort (BaseInput.receive / iteration over a device that reads the connection byte by byte into the stream parser): for EVERY list '
         'of valid messages, EVERY cut offset of their byte stream, EVERY segmentation of the bytes before the cut and a peer that closes or dies, iteration yields exactly the '
         'messages that arrived completely, ends normally and leaves the port closed with the connection released; close is seen by the peer; format_address / parse_address '
         'are mutually inverse for every colon-free host and port 1..65535; the server port never waits in non-blocking calls. The correspondence drives real TCP connections on '
         '127.0.0.1 (every cut offset, FIN and RST, random segmentations) under a scheduler that decides the arrival pattern per _is_readable() call.',
    note='Coq kernel; no axioms; the kernel TCP stack and CPython socket objects appear in the model as the event list and the three open/closed flags (assumptions recorded in '
         'the evidence); the behaviour before the three repairs of this tree is kept as refuted theorems.',
    technique='Coq proof (induction over the event list with a what-is-still-owed invariant; reuse of the tokenizer theorems) + model/implementation correspondence over real sockets', design='5/C18')
CLAIMED['C10'] = dict(
    text='Theorems over a model of threads using one port at the granularity of the accesses to what they share (lock acquire/release, deque truth test / popleft / append, one device '
         'write per byte, device read into the stream parser, sleep): for ANY number of threads, ANY programs of send / receive(block) / poll / iter_pending and ANY schedule (list of '
         'thread ids of any length), on an EchoPort, a one-lock device port and the IOPort wrapper (two locks): no call raises; received ++ queued is exactly the messages in the '
         'order their senders obtained the port (device: the complete ones among the bytes read - never mixed byte-wise), each once; every sender\'s messages keep their order. '
         'One step invariant, lifted over the schedule by induction. The tie runs REAL threads on the real ports.py under a deterministic scheduler (yield points = the same '
         'accesses) and replays every executed schedule on the model; small programs get every schedule with at most 2 (thorough: 3) preemptions.',
    note='Coq kernel; no axioms; atomicity of deque/RLock methods under the GIL and "nothing shared is touched between yield points" are assumptions. Further models, each with '
         'its own theorems and the same schedule replay: MultiPort fan-in (ConcMulti.v: no raise, exactly once), MultiPort fan-out (ConcFan.v: no raise, every sub-port gets every '
         'message exactly once and all in one order, per-sender order), ANY mix of uses of a MultiPort at once (ConcMix.v: no raise, every deque hands out exactly what was put into it and in that order, what the sweep takes off the sub-ports is what reaches the MultiPort\'s own deque, mutual exclusion on every lock), ParserQueue fed by several threads (ConcPQ.v: FIFO, per-feeder order), and the copy clause (SendCopy.v, a '
         'heap of objects with identity: what is received holds the value at send time whatever caller and receivers edit afterwards, for every history and any number of '
         'queues). The helper functions multi_send / multi_receive(block=False) on a caller\'s list of ports, mixed with every other use, are ConcHelpers.v (a call expanded into the sends / drains it spells out and run on ConcMix.v: no raise, per-sender order, each listed sub-port exactly once; every scheduled helper run replayed), '
         'except in programs that also receive on the MultiPort itself and multi_receive(block=True), which run on the real threads under explored schedules against the '
         'statement only; the behaviour without the lock, and with aliasing instead of copying, are refuted theorems.',
    technique='Coq proof (step invariant preserved by every thread step, induction over the schedule) + model/implementation correspondence on systematically explored schedules', design='5/C10')
NOT_YET = {}
ALL = ['C%02d' % i for i in range(1, 21)]

checks = []
for p in ALL:
    if p in CLAIMED:
        c = CLAIMED[p]
        checks.append({
            'property_id': p,
            'quick_cmd': 'bin/check %s --tier quick' % p,
            'thorough_cmd': 'bin/check %s --tier thorough' % p,
            'evidence_file': 'evidence/%s.json' % p,
            'replay_cmd_template': 'bin/check %s --replay {path}' % p,
            'engine': 'coq-model',
            'level_claimed': {'category': 'proof', 'text': c['text'], 'design_ref': c['design']},
            'level_note': c['note'],
            'technique': c['technique'],
        })
na = [{'property_id': p, 'reason': NOT_YET.get(p, 'check not built yet in this session; the design (DESIGN.md section 5) covers it and it will be claimed once its model, theorems and correspondence exist')}
      for p in ALL if p not in CLAIMED]
m = {
    'version': 1,
    'setup_cmd': 'bin/setup',
    'hooks': {'guard': 'MIDO_MIDO_VERIF', 'enable': 'no hooks in /repo are needed: every observation point is reached by public API, subclassing or replacing attributes from the harness; bin/check exports MIDO_MIDO_VERIF=1 for uniformity',
              'baseline_off_cmd': 'cd /repo && /venv/bin/python -m pytest -ra -q -p no:cacheprovider --timeout=900 --continue-on-collection-errors',
              'source_commits': [], 'add_only': True},
    'engines': [{'name': 'coq-model', 'path': 'coq/', 'serves_properties': sorted(CLAIMED),
                 'kind_free_text': 'Coq 8.16.1 development (Model/ Proofs/ Properties/ Gen/), extracted to OCaml for the correspondence harness in harness/'}],
    'checks': checks,
    'not_applicable': na,
    'notes': 'One command per property: bin/check Cxx --tier quick|thorough. Known findings: known_findings.txt.',
}
json.dump(m, open('/verif/MANIFEST.json', 'w'), indent=1)
print('claimed', sorted(CLAIMED))
