#!/usr/bin/env python3
"""prints the table of behaviour-preserving changes (harmless/) for DESIGN.md"""
import json, os, re
NOTES = {
    'C10-h7': 'quiet in C11, C18; ALARM in C10 (no-failing-input-found): the two lock acquisitions of receive() merged into one - the sequence of lock accesses the thread models describe step by step really changes; left as it is (see text)',
    'C10-h2': 'ALARM (C10, no-failing-input-found): the step-by-step replay counted one deque access per append -> additions made inside _receive are one access however they are spelt',
    'C11-h3': 'quiet in C11; ALARM in C10 (same cause as C10-h2)',
    'C18-h3': 'quiet in C18; ALARM in C10 (same cause as C10-h2)',
    'C17-h4': 'ALARM (C17): the harness read the private module variable meta._charset, which this change replaces by a private object -> the charset in force is now observed by behaviour only (probe characters encoded / decoded), and reset through the library\'s own switch',
}
rows = []
for s in sorted(os.listdir('/verif/harmless'), key=lambda x: (x.split('-')[0], int(re.sub(r'\D', '', x.split('-')[1])))):
    m = json.load(open('/verif/harmless/%s/meta.json' % s))
    summ = re.sub(r'\s+', ' ', m['summary']).strip()
    summ = summ if len(summ) < 170 else summ[:167] + '...'
    first = 'quiet' if m.get('confirmed', {}).get('check_exit') == 0 else 'ALARM'
    r = m.get('rechecked', {}).get('checks', {})
    noisy = [p for p, c in r.items() if isinstance(c, dict) and c.get('exit') != 0]
    now = 'quiet' if r and not noisy and 'apply' not in r else ('does not apply to the current HEAD' if 'apply' in r else ('ALARM in ' + ','.join(noisy) if noisy else first))
    rows.append('| %s | %s | %s | %s | %s |' % (s, summ.replace('|', '/'), ' '.join(sorted(k for k in r if k != 'apply')) or m.get('confirmed', {}).get('check', ''), NOTES.get(s, first), now))
print('| change | what was rewritten | checks run against it | first run | now |\n|---|---|---|---|---|')
print('\n'.join(rows))
