#!/usr/bin/env python3
"""prints the table of behaviour-preserving changes (harmless/) for DESIGN.md"""
import json, os, re
rows = []
for s in sorted(os.listdir('/verif/harmless'), key=lambda x: (x.split('-')[0], int(re.sub(r'\D', '', x.split('-')[1])))):
    m = json.load(open('/verif/harmless/%s/meta.json' % s))
    summ = re.sub(r'\s+', ' ', m['summary']).strip()
    summ = summ if len(summ) < 170 else summ[:167] + '...'
    first = 'quiet' if m.get('confirmed', {}).get('check_exit') == 0 else 'ALARM'
    r = m.get('rechecked', {}).get('checks', {})
    noisy = [p for p, c in r.items() if c.get('exit') != 0]
    rows.append('| %s | %s | %s | %s | %s |' % (s, summ.replace('|', '/'), ' '.join(sorted(r)) or m.get('confirmed', {}).get('check', ''),
                                              NOTES.get(s, first) if (NOTES := {
        'C10-h2': 'ALARM (C10, no-failing-input-found): the step-by-step replay counted one deque access per append -> additions made inside _receive are one access however they are spelt',
        'C11-h3': 'quiet in C11; ALARM in C10 (same cause as C10-h2)', 'C18-h3': 'quiet in C18; ALARM in C10 (same cause as C10-h2)'}) or True else first,
                                              'quiet' if r and not noisy else ('ALARM in ' + ','.join(noisy) if noisy else first)))
print('| change | what was rewritten | checks run against it | first run | now |\n|---|---|---|---|---|')
print('\n'.join(rows))
