#!/bin/sh
# tools/confirm_round.sh <PROP> <suffix>: confirm the two changes a sub-agent left in /tmp/seed/<PROP><suffix>.out and store them under the
# next free indices of seeded/<PROP>-*; removes the agent's worktree /tmp/seed/<PROP><suffix>.
P=$1; SFX=$2
git -C /repo worktree remove --force /tmp/seed/$P$SFX 2>/dev/null; git -C /repo worktree prune
MAX=$(ls -d /verif/seeded/$P-* 2>/dev/null | sed "s/.*$P-//" | sort -n | tail -1); MAX=${MAX:-0}
for i in 1 2; do
  [ -f /tmp/seed/$P$SFX.out/patch$i.diff ] || { echo "$P$SFX: no patch$i.diff"; continue; }
  /verif/tools/confirm_seed.sh $P $i $P /tmp/seed/$P$SFX.out $((MAX+i)) 2>&1 | tail -3
done
