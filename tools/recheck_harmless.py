#!/usr/bin/env python3
"""tools/recheck_harmless.py [name...]: apply each stored behaviour-preserving change (harmless/<id>-h<n>/patch.diff) to /repo, run the quick
check of EVERY property anchored in a file the change touches (and of its own property), undo it.  Every check must stay quiet (exit 0).
Records the outcome in the change's meta.json under 'rechecked'."""
import json, os, re, subprocess, sys
V = '/verif'
anch = {}
for l in open(V + '/properties.jsonl'):
    d = json.loads(l)
    anch[d['id']] = set(d.get('anchors', {}).get('files', []))
names = sys.argv[1:] or sorted(os.listdir(V + '/harmless'))
bad = 0
for name in names:
    d = '%s/harmless/%s' % (V, name)
    patch = open(d + '/patch.diff').read()
    files = set(re.findall(r'^\+\+\+ b/(\S+)', patch, re.M))
    own = name.split('-')[0]
    props = sorted({own} | {p for p, fs in anch.items() if fs & files})
    if subprocess.run(['git', '-C', '/repo', 'apply', d + '/patch.diff']).returncode != 0:
        print(name, 'DOES NOT APPLY'); bad += 1; continue
    res = {}
    try:
        for p in props:
            r = subprocess.run('cd /verif && VERIF_EVIDENCE_DIR=/tmp/verif_seed_evidence bin/check %s --tier quick' % p, shell=True, capture_output=True, text=True)
            last = [l for l in r.stdout.strip().splitlines() if not l.startswith('KNOWN-FINDING')][-2:]
            res[p] = {'exit': r.returncode, 'tail': last}
    finally:
        subprocess.run(['git', '-C', '/repo', 'checkout', '--', '.'])
    m = json.load(open(d + '/meta.json'))
    m['rechecked'] = {'repo_head': subprocess.run(['git', '-C', '/repo', 'rev-parse', '--short', 'HEAD'], capture_output=True, text=True).stdout.strip(),
                      'files': sorted(files), 'checks': res}
    json.dump(m, open(d + '/meta.json', 'w'), indent=1)
    noisy = [p for p, r in res.items() if r['exit'] != 0]
    bad += bool(noisy)
    print(name, 'QUIET' if not noisy else 'ALARM in ' + ','.join(noisy), '| checks:', ' '.join(props), flush=True)
sys.exit(1 if bad else 0)
