#!/bin/sh
# tools/confirm_dir.sh <PROP> <base dir>: confirm the two changes a sub-agent left in <base>/<PROP>.out (worktree <base>/<PROP>, removed here),
# store them under the next free indices of seeded/<PROP>-* with the check deferred to tools/par_recheck.py.
P=$1; B=$2
git -C /repo worktree remove --force $B/$P 2>/dev/null; git -C /repo worktree prune
MAX=$(ls -d /verif/seeded/$P-* 2>/dev/null | sed "s/.*$P-//" | sort -n | tail -1); MAX=${MAX:-0}
for i in 1 2; do
  [ -f $B/$P.out/patch$i.diff ] || { echo "$P: no patch$i.diff"; continue; }
  NOCHECK=1 /verif/tools/confirm_seed.sh $P $i $P $B/$P.out $((MAX+i)) 2>&1 | tail -3
done
