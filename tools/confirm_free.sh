#!/bin/sh
# tools/confirm_free.sh <W> [base dir=/tmp/seed7]: confirm the (up to four) changes a sub-agent of the free-range round left in $B/<W>.out - each names the
# property it breaks most directly in its meta file - and store each under the next free index of that property's seeds (check deferred to
# tools/par_recheck.py); removes the agent's worktree $B/<W>.
W=$1; B=${2:-/tmp/seed7}
git -C /repo worktree remove --force $B/$W 2>/dev/null; git -C /repo worktree prune
for i in 1 2 3 4; do
  [ -f $B/$W.out/patch$i.diff ] || { echo "$W: no patch$i.diff"; continue; }
  P=$(/venv/bin/python -c "import json;print(json.load(open('$B/$W.out/meta$i.json'))['property'])")
  MAX=$(ls -d /verif/seeded/$P-* 2>/dev/null | sed "s/.*$P-//" | sort -n | tail -1); MAX=${MAX:-0}
  NOCHECK=1 /verif/tools/confirm_seed.sh $P $i $P $B/$W.out $((MAX+1)) 2>&1 | tail -2
done
