#!/bin/sh
# tools/confirm_seed.sh <PROP> <i> [checkprop] [srcdir] [stored index]: confirm a sub-agent's change in a scratch worktree of /repo HEAD,
# store it under seeded/<PROP>-<i>/ and run the property's quick check against it (applied to /repo, then undone).
set -u
P=$1; I=$2; CP=${3:-$P}
SRC=${4:-/tmp/seed/$P.out}; J=${5:-$I}
WT=/tmp/confirm_${P}_${J}
rm -rf $WT; git -C /repo worktree prune
git -C /repo worktree add -q --detach $WT HEAD || exit 2
R=0
( cd $WT && { git apply $SRC/patch$I.diff || git apply -3 $SRC/patch$I.diff; } ) || { echo "patch does not apply to current HEAD"; R=3; }
if [ $R = 0 ]; then
  ( cd $WT && PYTHONPATH=$WT /venv/bin/python -m pytest -q -p no:cacheprovider --timeout=900 --deselect tests/midifiles/test_tracks.py::test_merge_large_midifile >/tmp/confirm.pytest 2>&1 ); TR=$?
  echo "pytest exit $TR: $(grep -c . /tmp/confirm.pytest) lines, $(grep -o '\.' /tmp/confirm.pytest | wc -l) dots" > /tmp/confirm.tests
  cat /tmp/confirm.tests
  [ $TR = 0 ] || R=4
  ( cd $WT && PYTHONPATH=$WT timeout 600 /venv/bin/python $SRC/demo$I.py >/tmp/confirm.demo_with 2>&1 ); DW=$?
  ( cd $WT && git checkout -q -- . && PYTHONPATH=$WT timeout 600 /venv/bin/python $SRC/demo$I.py >/tmp/confirm.demo_without 2>&1 ); DO=$?
  echo "demo with patch: exit $DW; without: exit $DO"
  [ $DW != 0 ] && [ $DO = 0 ] || R=5
fi
git -C /repo worktree remove --force $WT
[ $R = 0 ] || { echo "NOT CONFIRMED (code $R)"; exit $R; }
D=/verif/seeded/$P-$J
mkdir -p $D
cp $SRC/patch$I.diff $D/patch.diff; cp $SRC/demo$I.py $D/demo.py
if [ "${NOCHECK:-0}" = 1 ]; then
  # the check is run afterwards by tools/par_recheck.py (which does not touch /repo); it fills in confirmed.check_exit
  echo "check deferred" > /tmp/confirm.check; CR=None
else
git -C /repo apply $D/patch.diff && ( cd /verif && VERIF_EVIDENCE_DIR=/tmp/verif_seed_evidence bin/check $CP --tier quick > /tmp/confirm.check 2>&1 ); CR=$?
git -C /repo checkout -- .
tail -2 /tmp/confirm.check
fi
/venv/bin/python - <<PY
import json
m=json.load(open('$SRC/meta$I.json'))
m['confirmed']={'tests_with_patch':open('/tmp/confirm.tests').read().strip(),'demo_exit_with_patch':$DW,'demo_exit_without':$DO,
 'ran':['git worktree add /tmp/confirm_* HEAD; git apply patch.diff; pytest (baseline command); demo.py with and without the patch; worktree removed',
        'git -C /repo apply patch.diff; bin/check $CP --tier quick; git -C /repo checkout -- .'],
 'check':'$CP','check_exit':$CR,'check_output_tail':open('/tmp/confirm.check').read().strip().splitlines()[-2:]}
m['repo_head_when_confirmed']='$(git -C /repo rev-parse --short HEAD)'
json.dump(m,open('$D/meta.json','w'),indent=1)
PY
echo "stored $D (check exit $CR)"
