#!/usr/bin/env python3
"""tools/cost_table.py [thorough evidence dir]: the table of DESIGN.md 0.8 from the evidence files (quick: /verif/evidence; thorough: the directory given)."""
import json
import os
import sys

T = sys.argv[1] if len(sys.argv) > 1 else '/tmp/ev_thorough'
print('| prop | theorems checked (Print Assumptions closed) | quick: cases / wall s | thorough: cases / wall s |\n|---|---|---|---|')
for i in range(1, 21):
    p = 'C%02d' % i
    q = json.load(open('/verif/evidence/%s.json' % p))
    t = json.load(open(os.path.join(T, p + '.json'))) if os.path.exists(os.path.join(T, p + '.json')) else None
    th = '%d / %d' % (t['coverage']['evaluations'], round(t['wall_s'])) if t and t['tier'] == 'thorough' and not t['violations'] else 'n/a'
    print('| %s | %d | %d / %d | %s |' % (p, q['coverage']['discharged'], q['coverage']['evaluations'], round(q['wall_s']), th))
