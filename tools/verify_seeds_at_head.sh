#!/bin/sh
# tools/verify_seeds_at_head.sh: for every stored seed, in a scratch worktree of /repo HEAD: does the patch apply, do the tests pass with it,
# does its demo fail with it and pass without it?  Prints one line per seed; writes nothing under /verif.
for D in /verif/seeded/*/; do
  S=$(basename $D); WT=/tmp/vs_$S
  rm -rf $WT; git -C /repo worktree prune; git -C /repo worktree add -q --detach $WT HEAD || continue
  A=ok; ( cd $WT && git apply $D/patch.diff 2>/dev/null ) || A=noapply
  if [ $A = ok ]; then
    ( cd $WT && PYTHONPATH=$WT /venv/bin/python -m pytest -q -p no:cacheprovider --timeout=900 --deselect tests/midifiles/test_tracks.py::test_merge_large_midifile >/dev/null 2>&1 ); T=$?
    ( cd $WT && PYTHONPATH=$WT timeout 300 /venv/bin/python $D/demo.py >/dev/null 2>&1 ); W=$?
    ( cd $WT && git checkout -q -- . && PYTHONPATH=$WT timeout 300 /venv/bin/python $D/demo.py >/dev/null 2>&1 ); O=$?
    echo "$S apply=ok tests_exit=$T demo_with=$W demo_without=$O"
  else
    echo "$S apply=FAILED"
  fi
  git -C /repo worktree remove --force $WT
done
