#!/bin/sh
# tools/confirm_harmless.sh <PROP> [base dir=/tmp/harm] [index offset=0] (NOCHECK=1: leave the check runs to tools/par_recheck.py): confirm the behaviour-preserving changes a sub-agent left in /tmp/harm/<PROP>.out (tests pass with each, its probe passes
# with and without it), store them under harmless/<PROP>-h<i>/ and run the property's quick check against each (applied to /repo, then undone):
# the check must stay quiet.  Removes the agent's worktree /tmp/harm/<PROP>.
set -u
P=$1; BASE=${2:-/tmp/harm}; OFF=${3:-0}; SRC=$BASE/$P.out
git -C /repo worktree remove --force $BASE/$P 2>/dev/null; git -C /repo worktree prune
for I in 1 2 3; do
  [ -f $SRC/patch$I.diff ] || { echo "$P: no patch$I.diff"; continue; }
  WT=/tmp/confirm_h_${P}_${I}
  rm -rf $WT; git -C /repo worktree prune
  git -C /repo worktree add -q --detach $WT HEAD || exit 2
  R=0
  ( cd $WT && { git apply $SRC/patch$I.diff || git apply -3 $SRC/patch$I.diff; } ) || { echo "patch does not apply to current HEAD"; R=3; }
  TR=-1; DW=-1; DO=-1
  if [ $R = 0 ]; then
    ( cd $WT && PYTHONPATH=$WT /venv/bin/python -m pytest -q -p no:cacheprovider --timeout=900 --deselect tests/midifiles/test_tracks.py::test_merge_large_midifile >/tmp/confirmh.pytest 2>&1 ); TR=$?
    [ $TR = 0 ] || R=4
    ( cd $WT && PYTHONPATH=$WT timeout 900 /venv/bin/python $SRC/probe$I.py >/tmp/confirmh.with 2>&1 ); DW=$?
    ( cd $WT && git checkout -q -- . && PYTHONPATH=$WT timeout 900 /venv/bin/python $SRC/probe$I.py >/tmp/confirmh.without 2>&1 ); DO=$?
    [ $DW = 0 ] && [ $DO = 0 ] || R=5
  fi
  git -C /repo worktree remove --force $WT
  J=$((I+OFF))
  echo "$P-h$J: pytest exit $TR; probe with patch: exit $DW; without: exit $DO"
  [ $R = 0 ] || { echo "$P-h$J NOT CONFIRMED (code $R)"; continue; }
  D=/verif/harmless/$P-h$J
  mkdir -p $D
  cp $SRC/patch$I.diff $D/patch.diff; cp $SRC/probe$I.py $D/probe.py
  if [ "${NOCHECK:-0}" = 1 ]; then echo "check deferred" > /tmp/confirmh.check; CR=None; else
  git -C /repo apply $D/patch.diff && ( cd /verif && VERIF_EVIDENCE_DIR=/tmp/verif_seed_evidence bin/check $P --tier quick > /tmp/confirmh.check 2>&1 ); CR=$?
  git -C /repo checkout -- .
  fi
  grep "^VIOLATION\|^PASS\|^FAIL\|INFRA" /tmp/confirmh.check | tail -3 | cut -c1-250
  /venv/bin/python - <<PY
import json
m=json.load(open('$SRC/meta$I.json'))
m['confirmed']={'tests_exit_with_patch':$TR,'probe_exit_with_patch':$DW,'probe_exit_without':$DO,'check':'$P','check_exit':$CR,
 'check_output_tail':[l for l in open('/tmp/confirmh.check').read().strip().splitlines() if not l.startswith('KNOWN-FINDING')][-2:]}
m['repo_head_when_confirmed']='$(git -C /repo rev-parse --short HEAD)'
json.dump(m,open('$D/meta.json','w'),indent=1)
PY
  echo "stored $D (check exit $CR)"
done
