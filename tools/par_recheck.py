#!/usr/bin/env python3
"""tools/par_recheck.py seeds|harmless [-j N] [name...]: re-run the quick checks against every stored change WITHOUT touching /repo: each worker
has its own copy of /verif (so that the generated tables and the Coq build of one run do not disturb another) under /tmp/vpar/w<k>/verif and,
per change, a scratch git worktree of /repo's HEAD with the patch applied, selected through VERIF_REPO.
  seeds:    seeded/<id>-<n>/patch.diff   - the check of the seed's property must report a VIOLATION (exit 1)
  harmless: harmless/<id>-h<n>/patch.diff - the checks of every property anchored in a touched file (and its own) must stay quiet (exit 0)
Outcomes go to the change's meta.json ('rechecked'); all scratch directories are removed at the end."""
import json, os, re, shutil, subprocess, sys, threading, queue

V = '/verif'
ROOT = '/tmp/vpar_%d' % os.getpid()      # one root per invocation: two runs at once must not clear each other's workers


def sh(cmd, **kw):
    return subprocess.run(cmd, shell=True, capture_output=True, text=True, **kw)


def main():
    mode = sys.argv[1]
    args = sys.argv[2:]
    jobs = 5
    if args[:1] == ['-j']:
        jobs = int(args[1]); args = args[2:]
    d = 'seeded' if mode == 'seeds' else 'harmless'
    names = args or sorted(os.listdir('%s/%s' % (V, d)), key=lambda n: (n.split('-')[0], int(re.sub(r'\D', '', n.split('-')[1]))))
    anch = {}
    for l in open(V + '/properties.jsonl'):
        p = json.loads(l)
        anch[p['id']] = set(p.get('anchors', {}).get('files', []))
    head = sh('git -C /repo rev-parse --short HEAD').stdout.strip()
    shutil.rmtree(ROOT, ignore_errors=True)
    os.makedirs(ROOT)
    q = queue.Queue()
    for n in names:
        q.put(n)
    lock = threading.Lock()
    results = {}

    def worker(k):
        w = '%s/w%d' % (ROOT, k)
        os.makedirs(w)
        sh('rsync -a --exclude .git --exclude seeded --exclude harmless --exclude replays --exclude evidence %s/ %s/verif/' % (V, w))
        while True:
            try:
                name = q.get_nowait()
            except queue.Empty:
                return
            src = '%s/%s/%s' % (V, d, name)
            own = name.split('-')[0]
            patch = open(src + '/patch.diff').read()
            files = set(re.findall(r'^\+\+\+ b/(\S+)', patch, re.M))
            props = [own] if mode == 'seeds' else sorted({own} | {p for p, fs in anch.items() if fs & files})
            if mode == 'seeds':
                m0 = json.load(open(src + '/meta.json'))
                props = [m0.get('confirmed', {}).get('check') or own]
            wt = '%s/repo_%s' % (w, name)
            sh('git -C /repo worktree add -q --detach %s HEAD' % wt)
            ap = sh('git -C %s apply %s/patch.diff' % (wt, src))
            if ap.returncode != 0:      # written against an earlier HEAD: merge it (the blobs it names are in the repository)
                ap = sh('git -C %s apply -3 %s/patch.diff' % (wt, src))
            res = {}
            if ap.returncode != 0:
                res = {'apply': ap.stderr.strip()[:200]}
            else:
                for p in props:
                    r = sh('cd %s/verif && VERIF_REPO=%s VERIF_EVIDENCE_DIR=%s/evidence bin/check %s --tier quick' % (w, wt, w, p))
                    tail = [l for l in r.stdout.strip().splitlines() if not l.startswith('KNOWN-FINDING')][-2:]
                    res[p] = {'exit': r.returncode, 'tail': [t[:300] for t in tail]}
            sh('git -C /repo worktree remove --force %s' % wt)
            with lock:
                results[name] = res
                m = json.load(open(src + '/meta.json'))
                m['rechecked'] = {'repo_head': head, 'checks': res}
                if mode == 'harmless' and 'apply' not in res and m.get('confirmed', {}).get('check_exit', 0) is None:
                    noisy0 = sorted(p for p, r in res.items() if r['exit'] != 0)        # the first run of the checks against this change
                    m['confirmed']['check_exit'] = 1 if noisy0 else 0
                    m['confirmed']['first_run_alarms'] = noisy0
                if mode == 'seeds' and 'apply' not in res and m.get('confirmed', {}).get('check_exit', 0) is None:
                    r0 = list(res.values())[0]          # the first run of the check against this change (confirm_seed.sh with NOCHECK=1)
                    m['confirmed']['check_exit'], m['confirmed']['check_output_tail'] = r0['exit'], r0['tail']
                json.dump(m, open(src + '/meta.json', 'w'), indent=1)
                if 'apply' in res:
                    verdict = 'DOES NOT APPLY'
                elif mode == 'seeds':
                    r = list(res.values())[0]
                    nf = any('no-failing-input-found' in t for t in r['tail'])
                    verdict = ('CAUGHT' + (' (no-failing-input-found)' if nf else '')) if r['exit'] == 1 else 'MISSED(exit %d)' % r['exit']
                else:
                    noisy = [p for p, r in res.items() if r['exit'] != 0]
                    verdict = 'QUIET' if not noisy else 'ALARM in ' + ','.join(noisy)
                print(name, verdict, '| checks:', ' '.join(props), flush=True)
    ths = [threading.Thread(target=worker, args=(k,)) for k in range(jobs)]
    for t in ths:
        t.start()
    for t in ths:
        t.join()
    sh('git -C /repo worktree prune')
    shutil.rmtree(ROOT, ignore_errors=True)


if __name__ == '__main__':
    main()
