#!/usr/bin/env python3
"""tools/update_design_tables.py [thorough evidence dir]: regenerate the three generated tables of DESIGN.md (0.5 seeds, 0.5b harmless, 0.8 cost) in place."""
import subprocess
import sys

D = '/verif/DESIGN.md'


def replace_table(text, header_start, new_table):
    lines = text.split('\n')
    i = next(k for k, l in enumerate(lines) if l.startswith(header_start))
    j = i
    while j < len(lines) and lines[j].startswith('|'):
        j += 1
    return '\n'.join(lines[:i] + new_table.rstrip('\n').split('\n') + lines[j:])


s = open(D).read()
s = replace_table(s, '| seed | change | first run of the check | now |', subprocess.run([sys.executable, '/verif/tools/seed_table.py'], capture_output=True, text=True, check=True).stdout)
s = replace_table(s, '| change | what was rewritten |', subprocess.run([sys.executable, '/verif/tools/harmless_table.py'], capture_output=True, text=True, check=True).stdout)
s = replace_table(s, '| prop | theorems checked', subprocess.run([sys.executable, '/verif/tools/cost_table.py'] + sys.argv[1:2], capture_output=True, text=True, check=True).stdout)
open(D, 'w').write(s)
print('tables regenerated')
