#!/usr/bin/env python3
"""tools/recheck_seeds.py [SEED ...]: apply each stored mutant to /repo, run its property's quick check, undo it, and record the outcome
in seeded/<SEED>/meta.json under "rechecked" (the first outcome stays under "confirmed").  Prints one line per seed."""
import json, os, subprocess, sys
ROOT = '/verif/seeded'
seeds = sys.argv[1:] or sorted(os.listdir(ROOT))
assert subprocess.run('git -C /repo status --porcelain', shell=True, capture_output=True, text=True).stdout.strip() == '', '/repo not clean'
for s in seeds:
    d = os.path.join(ROOT, s)
    meta = json.load(open(d + '/meta.json'))
    prop = meta.get('confirmed', {}).get('check') or s.split('-')[0]
    try:
        subprocess.run('git -C /repo apply %s/patch.diff' % d, shell=True, check=True)
        r = subprocess.run('cd /verif && VERIF_EVIDENCE_DIR=/tmp/verif_seed_evidence bin/check %s --tier quick' % prop, shell=True, capture_output=True, text=True)
    finally:
        subprocess.run('git -C /repo checkout -- .', shell=True)
    tail = [l for l in r.stdout.strip().splitlines() if l.startswith(('VIOLATION', 'FAIL', 'PASS', 'KNOWN'))][-2:]
    meta['rechecked'] = {'check': prop, 'check_exit': r.returncode, 'check_output_tail': tail,
                         'repo_head': subprocess.run('git -C /repo rev-parse --short HEAD', shell=True, capture_output=True, text=True).stdout.strip()}
    if meta.get('confirmed', {}).get('check_exit') == 0 and r.returncode != 0:
        meta['missed_initially'] = True
    json.dump(meta, open(d + '/meta.json', 'w'), indent=1)
    print(s, 'CAUGHT' if r.returncode == 1 else 'MISSED(exit %d)' % r.returncode, '| first run:', 'caught' if meta.get('confirmed', {}).get('check_exit') == 1 else 'missed')
