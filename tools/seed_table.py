#!/usr/bin/env python3
"""tools/seed_table.py: the table of seeded changes for DESIGN.md section 0.5, from seeded/*/meta.json."""
import json, os, re
NOTES = {
 'C03-16': 'missed -> using a frozen message as a dictionary key must not change its attributes (nor those of its thawed form)',
 'C03-17': 'missed -> values that look at the message while they are being checked (what re-entrant code or another thread would see); every probe judged three times',
 'C13-17': 'missed -> the player is made, the clock runs on, then it is iterated: the schedule counts from the start of the iteration',
 'C17-17': 'missed -> the charset attribute of a file is changed between construction / load and save',
 'C17-18': 'missed -> a load and a save under another charset nested inside a save (through an overridden track iterator)',
 'C18-20': 'missed -> a socket port that has sent is closed (close, with-block): the peer receives the bytes and then the disconnect',
 'C18-22': 'missed -> one thread in a blocking accept(), another polls the server port: the poll comes back with the message',
 'C20-17': 'missed -> one Backend used for a series of calls with the MIDO_DEFAULT_* variables changed in between, each call compared with the same call on a Backend made that instant',
 'C20-19': 'missed -> two threads needing a (slowly importing) backend module for the first time at once',
 'C11-20': 'caught by disagreement only -> a MultiPort.receive that comes back empty-handed must have asked the device of every open sub-port',
 'C16-17': 'caught by disagreement only -> a MidiFile built without tracks starts empty, whatever was built before in the process',
 'C20-15': 'missed, then an uncaught exception in the harness -> set_backend() / set_backend(None) / set_backend(load=True) under MIDO_BACKEND values and the default, exceptions recorded as failures',
 'C20-16': 'missed -> the device list is no longer in alphabetical order and one name stands for two devices',
 'C10-13': 'missed -> ParserQueue fed from several threads under the scheduler (locks found by type, put() as the yield point): per-thread order, nothing lost',
 'C10-14': 'missed (same change as C10-13 by another agent) -> same scenario',
 'C11-15': 'missed -> close() from 2-3 threads under the scheduler, the device taking a moment to release: exactly one release',
 'C11-16': 'caught by disagreement only -> oracle: MultiPort.receive(block=False) never sleeps',
 'C15-14': 'missed -> equal messages whose values are equal numbers of different types (time 1 / 1.0, 1 / True) must hash alike',
 'C19-14': 'caught by disagreement only -> oracle for binary files: the sysex messages of the byte stream, whatever stands between them',
 'C06-13': 'missed -> prefix + message also given as bytes / bytearray / tuple / memoryview, the message from the boundary values (127) half of the time',
 'C09-11': 'missed -> the caller uses (decodes, appends to, empties) the list an encoder returned; the next call must be unaffected',
 'C10-12': 'missed (outside the port kinds C10 names: the helper functions on a shared list) -> multi_send / multi_receive scenarios with a polling order other than the list order; per-sub-port exactly-once oracle',
 'C15-12': 'missed -> copy(skip_checks=True, **valid overrides) compared with the constructor, stored types included',
 'C16-12': 'missed -> the caller edits the messages an observation handed out; the file must not change',
 'C18-12': 'caught by disagreement only -> unscheduled server scenarios: clients leave and arrive between polls',
 'C20-11': 'caught by disagreement only -> backend-resolution oracle (explicit name > MIDO_BACKEND now > default; explicit api > suffix)',
 'C20-12': 'caught by disagreement only -> the backend\'s api must reach every constructor and device query when no api is given',
 'C05-9': 'missed -> Parser(head) followed by feed(tail) / feed_byte for every cut and container type',
 'C05-10': 'caught by disagreement only -> ParserQueue compared with a parser fed the same chunks (put() messages in place); lone one-byte chunks generated',
 'C09-10': 'missed -> every encoded meta message is also read from a track, with clip off and on',
 'C11-10': 'infrastructure error (close() raising inside the harness\'s own clean-up) -> guarded; autoreset oracle for the IOPort wrapper',
 'C12-9': 'missed -> the same message object at several places of the input (MidiTrack([m]) * k, a frozen message shared by tracks)',
 'C16-10': 'missed -> observe / edit a value in place / observe as one step of the histories; directed tempo-edit cases',
 'C18-10': 'missed (the scheduled runs replace the readiness test) -> unscheduled loop-back connections with the module\'s own readiness test, orderly close and reset',
 'C10-7': 'caught by disagreement only -> per-receiver order oracle; the three-in-a-row fan-in program explored with two preemptions',
 'C11-8': 'caught by disagreement only -> oracle: a sub-port that closed itself during a poll holds nothing back from the MultiPort',
 'C19-7': 'caught by disagreement only -> oracle: two-digit hex separated by any str.isspace() character must be read',
 'C12-7': 'missed -> a third of the cases hold only frozen messages, a third every other one',
 'C12-8': 'missed -> the times of one merge result are edited and the same tracks merged again (results independent of each other and of the inputs)',
 'C13-7': 'missed -> two iterations of one file and reads of length interleaved; play() with a consumer that reads length between messages',
 'C13-8': 'missed -> half of the streams spread over 2-5 tracks with few distinct ticks (tempo changes of different tracks on one tick)',
 'C14-7': 'missed -> lines with doubled / nested parentheses; an independent grammar oracle turns an accepted invalid text into a failing input',
 'C16-7': 'missed -> edits between values that Python hashes alike (pitch -1 / -2, time 0 / 2**61-1)',
 'C17-8': 'missed -> loads and saves under unusable charsets (unknown or empty name, not a string)',
 'C19-8': 'missed -> files of 3 000 .. 70 000 message bytes (thorough: 1 000 000) in both formats and five hand-made text layouts',
 'C11-8': 'missed -> MultiPort over device doubles that take several messages in and close themselves inside one poll',
 'C05-7': 'missed -> chunks are also fed as one-shot iterators and generators',
 'C04-7': 'missed -> the parsed messages are modified by their consumer and the same bytes parsed again (aliasing)',
 'C09-7': 'missed -> sequencer_specific payload given as iterator / generator / chain / map (constructor, assignment, copy)',
 'C03-7': 'missed -> delattr / setattr of the special names (__dict__, __class__, ...)',
 'C03-8': 'missed -> the type given as a status byte, a number, None, bytes ... (constructor, from_dict, copy, assignment)',
 'C02-8': 'missed -> from_hex with separators that are special in regular expressions / character classes / format strings',
 'C06-9': 'missed -> resynchronisation with a very long sysex as the message (65 534 .. 70 000 data bytes)',
 'C06-10': 'missed -> the stream given as iterator / generator / chain / map',
 'C02-5': 'caught; harmless for C02 since repair d49b480 (from_bytes type-checks every item first; demo passes at HEAD), now caught by the C03 check instead (integral floats inside sysex data)',
 'C04-5': 'missed -> the parser is also read by get_message() until None, by a loop left early and resumed, and byte-wise',
 'C04-6': 'missed -> sysex messages of 65 534 .. 70 000 data bytes (implementation against the statement)',
 'C05-6': 'missed -> histories with an iterator kept alive across other calls (model layer i_run, theorem C05_live_iterator)',
 'C07-5': 'missed -> save/load under charsets other than latin-1/ASCII (implementation against the statement); the C17 job no longer dies on it',
 'C09-5': 'missed (quick tier) -> payloads of exactly the reader limit through the file reader in the quick tier too',
 'C09-6': 'missed -> non-integer items at every position of a sequencer_specific payload',
 'C11-6': 'missed (and made the C18 check hang) -> accept() hang guard; PortServer cases run in the C11 check',
 'C13-6': 'missed -> the file is re-observed after an in-place edit that keeps every track length',
 'C16-5': 'missed -> edits that keep length and total ticks of every track (ticks moved between neighbours, swap, reverse)',
 'C16-6': 'caught by disagreement only -> observation-is-pure oracle (tracks unchanged by observing / saving)',
 'C17-6': 'missed -> charsets that are not supersets of ASCII (utf-16-le/be, utf-32-be, utf-7) with plain texts',
 'C19-5': 'missed -> hex digits of a byte separated by whitespace, two one-digit tokens',
 'C19-6': 'missed -> files with more than 4096 messages',
 'C03-1': 'missed -> integral-valued floats added to the value universe',
 'C16-2': 'missed -> set_tempo messages and non-time attribute edits added to the histories',
 'C17-1': 'missed -> per-string probe after a failed call',
 'C19-2': 'missed -> long text-format payloads',
 'C11-2': 'missed -> device _send faults in model (theorem release_despite_faults) and harness',
 'C15-1': 'missed -> equal messages built by different routes are hashed',
 'C15-2': 'missed -> copy compared with the constructor on invalid override sets',
 'C20-2': 'missed -> set_backend histories',
 'C18-1': 'infrastructure error -> socket scheduler made independent of the read granularity',
 'C18-2': 'infrastructure error (same) -> caught',
 'C06-1': 'caught; harmless for C06 since repair 85f3f26 (demo passes at HEAD); still reported, as no-failing-input-found',
 'C03-3': 'missed -> sequences are also passed as the library\'s own SysexData',
 'C01-4': 'missed -> the list returned by bytes() is modified by the caller before the next call',
 'C12-3': 'missed -> tracks mix message types (set_tempo, sysex, ...), not only markers and control changes',
 'C12-4': 'missed -> merged_track of a type 0 single-track file compared too',
 'C20-4': 'missed -> device list with separate input-only and output-only entries of one name',
 'C10-4': 'missed -> real-time messages in the programs, time of the sent object changed afterwards',
 'C20-3': 'caught by disagreement only -> use_environ=False oracle added',
 'C18-4': 'caught by disagreement only -> server drain oracle added',
 'C14-2': 'caught by disagreement only -> line-number oracle added',
 'C11-1': 'caught by disagreement only -> conservation / drain oracle added',
 'C20-1': 'caught; precedence oracle added later so that it yields a failing input',
}
rows = []
for s in sorted(os.listdir('/verif/seeded'), key=lambda x: (x.split('-')[0], int(x.split('-')[1]))):
    m = json.load(open('/verif/seeded/%s/meta.json' % s))
    summ = re.sub(r'\s+', ' ', m['summary']).strip()
    summ = summ if len(summ) < 150 else summ[:147] + '...'
    r = m.get('rechecked') or m.get('confirmed')
    if 'checks' in r:                      # written by tools/par_recheck.py: {property: {exit, tail}}
        c = list(r['checks'].values())[0] if r['checks'] and 'apply' not in r['checks'] else {'exit': -1, 'tail': []}
        ex, tail = c['exit'], ' '.join(c['tail'])
    else:
        ex, tail = r.get('check_exit'), ' '.join(r.get('check_output_tail', []))
    now = 'caught' if ex == 1 else ('passes (harmless for this property at HEAD; see first column)' if m.get('status_at_current_head') else 'NOT CAUGHT')
    if 'no-failing-input-found' in tail:
        now += ' (no-failing-input-found)'
    first = NOTES.get(s) or ('caught' if m.get('confirmed', {}).get('check_exit') == 1 else 'missed')
    rows.append('| %s | %s | %s | %s |' % (s, summ.replace('|', '/'), first, now))
print('| seed | change | first run of the check | now |\n|---|---|---|---|')
print('\n'.join(rows))
