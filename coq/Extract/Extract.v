(* Extraction of the executable model. ExtrOcamlBasic only: bool, option, unit, list, prod,
   sumbool, sumor, comparison map to OCaml's; Z, positive, N, nat stay the extracted inductives.
   No Extract Constant. *)
From Coq Require Import ExtrOcamlBasic.
Require Import Mido.Model.Run.
Extraction Language OCaml.
Extraction "model.ml" run.
