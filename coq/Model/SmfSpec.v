(* SmfSpec.v — an independent description of the Standard MIDI File format 1.0, written from the standard:
   a reference decoder, and a reference encoder indexed by the choices the format leaves open (running status,
   padded variable-length quantities, a longer header chunk).  It shares with the model of mido only the notion of
   a variable-length quantity's value (read_varint) and the canonical digits (enc_varint). *)
From Coq Require Import ZArith List Bool.
Require Import Mido.Model.Base Mido.Model.Codec Mido.Model.Varint Mido.Model.Meta Mido.Model.Smf.
Import ListNotations.
Open Scope Z_scope.

(* a raw event of a track chunk *)
Inductive raw :=
| RChan (st : Z) (d : list Z)      (* channel voice message: status 0x80..0xEF and its data bytes *)
| RCommon (st : Z) (d : list Z)    (* system common F1 F2 F3 F6, written in full (non-standard in files, but mido stores them) *)
| RSysex (d : list Z)              (* F0 <length> d F7 *)
| RMeta (ty : Z) (p : list Z).     (* FF ty <length> p *)
Definition rawfile : Type := (Z * Z * Z) * list (list (Z * raw)).   (* (format, ntrks, division), tracks of (delta, event) *)

(* data bytes after the status, from the MIDI 1.0 tables *)
Definition chan_data_len (st : Z) : nat := if ((192 <=? st) && (st <? 224)) then 1%nat else 2%nat.
Definition common_data_len (st : Z) : option nat :=
  if st =? 241 then Some 1%nat else if st =? 242 then Some 2%nat else if st =? 243 then Some 1%nat else if st =? 246 then Some 0%nat else None.

(* ---- the reference encoder: one choice record per event ---- *)
Record choice := { pad_dt : nat; pad_len : nat; use_rs : bool }.
Definition canonical : choice := {| pad_dt := 0; pad_len := 0; use_rs := true |}.
Definition vlq (pad : nat) (n : Z) : list Z := repeat 128 pad ++ enc_varint n.
Definition be16 (z : Z) : list Z := [(z / 256) mod 256; z mod 256].
Definition be32s (n : Z) : list Z := [(n / 16777216) mod 256; (n / 65536) mod 256; (n / 256) mod 256; n mod 256].

Definition rs_after (e : raw) : option Z := match e with RChan st _ => Some st | _ => None end.
Definition enc_raw (c : choice) (rs : option Z) (de : Z * raw) : list Z :=
  vlq (pad_dt c) (fst de) ++
  match snd de with
  | RChan st d => if use_rs c && opt_eqb rs st then d else st :: d
  | RCommon st d => st :: d
  | RSysex d => 240 :: vlq (pad_len c) (zlen d + 1) ++ d ++ [247]
  | RMeta ty p => 255 :: ty :: vlq (pad_len c) (zlen p) ++ p
  end.
Fixpoint enc_raws (cs : list choice) (rs : option Z) (evs : list (Z * raw)) : list Z :=
  match evs, cs with
  | [], _ => []
  | de :: r, c :: cr => enc_raw c rs de ++ enc_raws cr (rs_after (snd de)) r
  | de :: r, [] => enc_raw canonical rs de ++ enc_raws [] (rs_after (snd de)) r
  end.
Definition enc_chunk (name : list Z) (data : list Z) : list Z := name ++ be32s (zlen data) ++ data.
Fixpoint enc_tracks (css : list (list choice)) (trs : list (list (Z * raw))) : list Z :=
  match trs with
  | [] => []
  | tr :: r => enc_chunk MTrk (enc_raws (hd [] css) None tr) ++ enc_tracks (tl css) r
  end.
(* [extra]: bytes appended to the 6-byte header data (a longer header chunk) *)
Definition enc_file (extra : list Z) (css : list (list choice)) (f : rawfile) : list Z :=
  let '((fmt, ntrks, division), trs) := f in
  enc_chunk MThd (be16 fmt ++ be16 ntrks ++ be16 division ++ extra) ++ enc_tracks css trs.

(* ---- the reference decoder ---- *)
Definition take' (n : Z) (bs : list Z) : option (list Z * list Z) :=
  if (n <? 0) || (zlen bs <? n) then None else Some (firstn (Z.to_nat n) bs, skipn (Z.to_nat n) bs).

Definition ref_event (rs : option Z) (bs : list Z) : option ((Z * raw) * option Z * list Z) :=
  match read_varint bs with
  | None => None
  | Some (dt, bs1) =>
    match bs1 with
    | [] => None
    | b :: bs2 =>
      if b <? 128 then
        (* running status: legal only while a channel status is in force *)
        match rs with
        | None => None
        | Some st => match take' (Z.of_nat (chan_data_len st)) bs1 with
                     | Some (d, rest) => if forallb byte7 d then Some ((dt, RChan st d), Some st, rest) else None
                     | None => None
                     end
        end
      else if b <? 240 then
        match take' (Z.of_nat (chan_data_len b)) bs2 with
        | Some (d, rest) => if forallb byte7 d then Some ((dt, RChan b d), Some b, rest) else None
        | None => None
        end
      else if b =? 240 then
        match read_varint bs2 with
        | Some (n, bs3) => match take' n bs3 with
                           | Some (p, rest) => match rev p with
                                               | l :: front => if l =? 247 then Some ((dt, RSysex (rev front)), None, rest) else None
                                               | [] => None
                                               end
                           | None => None
                           end
        | None => None
        end
      else if b =? 255 then
        match bs2 with
        | ty :: bs3 => match read_varint bs3 with
                       | Some (n, bs4) => match take' n bs4 with
                                          | Some (p, rest) => Some ((dt, RMeta ty p), None, rest)
                                          | None => None
                                          end
                       | None => None
                       end
        | [] => None
        end
      else
        match common_data_len b with
        | Some k => match take' (Z.of_nat k) bs2 with
                    | Some (d, rest) => if forallb byte7 d then Some ((dt, RCommon b d), None, rest) else None
                    | None => None
                    end
        | None => None
        end
    end
  end.

(* the events of one track chunk: exactly the chunk's bytes, nothing left over *)
Fixpoint ref_events (fuel : nat) (rs : option Z) (bs : list Z) : option (list (Z * raw)) :=
  match bs with
  | [] => Some []
  | _ => match fuel with
         | O => None
         | S f => match ref_event rs bs with
                  | Some (de, rs', rest) => match ref_events f rs' rest with Some l => Some (de :: l) | None => None end
                  | None => None
                  end
         end
  end.
Definition ref_chunk (bs : list Z) : option (list Z * list Z * list Z) :=
  match bs with
  | a :: b :: c :: d :: s0 :: s1 :: s2 :: s3 :: r =>
      match take' (((s0 * 256 + s1) * 256 + s2) * 256 + s3) r with
      | Some (data, rest) => Some ([a; b; c; d], data, rest)
      | None => None
      end
  | _ => None
  end.
Fixpoint ref_tracks (n : nat) (bs : list Z) : option (list (list (Z * raw))) :=
  match n with
  | O => Some []
  | S k => match ref_chunk bs with
           | Some (name, data, rest) =>
               if list_eqb name MTrk then
                 match ref_events (length data) None data, ref_tracks k rest with
                 | Some tr, Some trs => Some (tr :: trs)
                 | _, _ => None
                 end
               else None
           | None => None
           end
  end.
Definition ref_decode (bs : list Z) : option rawfile :=
  match ref_chunk bs with
  | Some (name, data, rest) =>
      if list_eqb name MThd then
        match data with
        | f0 :: f1 :: n0 :: n1 :: d0 :: d1 :: _ =>
            let n := n0 * 256 + n1 in
            match ref_tracks (Z.to_nat n) rest with
            | Some trs => Some ((f0 * 256 + f1, n, d0 * 256 + d1), trs)
            | None => None
            end
        | _ => None
        end
      else None
  | None => None
  end.

(* ---- from the typed events of the model to raw events: layouts restated with + * / mod only ---- *)
Definition std_meta_payload (cs : codec) (x : meta) : res (list Z) :=
  match x with
  | MSeqNum n => Ok [n / 256; n mod 256]
  | MText _ t => c_enc cs t
  | MChanPrefix c => Ok [c]
  | MPort p => Ok [p]
  | MEot => Ok []
  | MTempo t => Ok [t / 65536; (t / 256) mod 256; t mod 256]
  | MSmpte fr h m s f sf => Ok [32 * fr + h; m; s; f; sf]
  | MTimeSig n d c b => Ok [n; Z.log2 d; c; b]
  | MKeySig sf mode => Ok [if sf <? 0 then sf + 256 else sf; mode]
  | MSeqSpec d => Ok d
  | MUnknown _ d => Ok d
  end.
Definition raw_of_event (cs : codec) (e : event) : res raw :=
  match e with
  | EMsg (Sysex d) => Ok (RSysex d)
  | EMsg m => match std_enc m with
              | st :: d => Ok (if st <? 240 then RChan st d else RCommon st d)
              | [] => Raise ValueError
              end
  | EMeta x => p <- std_meta_payload cs x ;; Ok (RMeta (type_byte x) p)
  end.
Fixpoint raw_of_track (cs : codec) (tr : list tev) : res (list (Z * raw)) :=
  match tr with
  | [] => Ok []
  | (TInt dt, e) :: r => re <- raw_of_event cs e ;; rr <- raw_of_track cs r ;; Ok ((dt, re) :: rr)
  | (TFloat _, _) :: _ => Raise ValueError
  end.
Fixpoint raw_of_tracks (cs : codec) (trs : list (list tev)) : res (list (list (Z * raw))) :=
  match trs with
  | [] => Ok []
  | tr :: r => a <- raw_of_track cs tr ;; b <- raw_of_tracks cs r ;; Ok (a :: b)
  end.
Definition raw_of_file (cs : codec) (f : midifile) : res rawfile :=
  trs <- raw_of_tracks cs (f_tracks f) ;; Ok ((f_type f, zlen (f_tracks f), f_tpb f), trs).
