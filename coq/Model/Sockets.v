(* Sockets.v — model of mido/sockets.py: SocketPort (a BaseIOPort whose _receive reads the connection one byte at a time into the stream
   parser and closes the port at end of stream), PortServer (a MultiPort over accepted connections), format_address / parse_address.
   The connection as the port sees it is a list of events, one per _is_readable() call. *)
From Coq Require Import ZArith List Bool.
Require Import Mido.Model.Base Mido.Model.Codec Mido.Model.Tokenizer Mido.Model.Parser Mido.Model.Strings.
Import ListNotations.
Open Scope Z_scope.

Inductive sev :=
| SByte (b : Z)      (* readable, read(1) returns this byte *)
| SGap               (* not readable now (the next segment has not arrived yet) *)
| SEof               (* readable, read(1) returns b'': the peer disconnected *)
| SDied.             (* readable, read(1) raises ConnectionResetError: the peer died *)

(* the two repairs of this tree, as switches, so that the behaviour before them can be stated and refuted *)
Record variant := { v_close_files : bool;          (* _close closes _rfile and _wfile as well as the socket *)
                    v_died_is_disconnect : bool }. (* a connection error while reading closes the port like an end of stream *)
Definition current : variant := {| v_close_files := true; v_died_is_disconnect := true |}.
Definition legacy : variant := {| v_close_files := false; v_died_is_disconnect := false |}.

Record sport := {
  s_closed : bool; s_tok : tstate; s_queue : list msg; s_in : list sev;
  s_sock_open : bool; s_rfile_open : bool; s_wfile_open : bool;    (* the socket object and the two makefile() objects *)
  s_sleeps : nat }.
(* CPython closes the descriptor - and the peer sees the disconnect - when the socket object and every makefile object are closed *)
Definition peer_sees_disconnect (p : sport) : bool := negb (s_sock_open p || s_rfile_open p || s_wfile_open p).

Definition new_sport (evs : list sev) : sport :=
  {| s_closed := false; s_tok := Idle; s_queue := []; s_in := evs; s_sock_open := true; s_rfile_open := true; s_wfile_open := true; s_sleeps := 0 |}.

Definition s_close (v : variant) (p : sport) : sport :=
  if s_closed p then p
  else {| s_closed := true; s_tok := s_tok p; s_queue := s_queue p; s_in := s_in p; s_sock_open := false;
          s_rfile_open := if v_close_files v then false else s_rfile_open p;
          s_wfile_open := if v_close_files v then false else s_wfile_open p; s_sleeps := s_sleeps p |}.

(* one call of SocketPort._receive: while _is_readable: read a byte and feed it *)
Inductive rc := RGap | REof | RDied | RDecodeErr (e : exn).
Fixpoint recv_call (t : tstate) (q : list msg) (evs : list sev) : tstate * list msg * list sev * rc :=
  match evs with
  | [] => (t, q, [], RGap)                  (* nothing will ever arrive: never readable *)
  | SGap :: r => (t, q, r, RGap)
  | SEof :: r => (t, q, r, REof)
  | SDied :: r => (t, q, r, RDied)
  | SByte b :: r =>
      let '(t', toks) := feed_byte t b in
      match sequence (map dec toks) with
      | Ok ms => recv_call t' (q ++ ms) r
      | Raise e => (t', q, r, RDecodeErr e)
      end
  end.
Definition s_dev_receive (v : variant) (p : sport) : sport * res unit :=
  let '(t, q, r, c) := recv_call (s_tok p) (s_queue p) (s_in p) in
  let p1 := {| s_closed := s_closed p; s_tok := t; s_queue := q; s_in := r; s_sock_open := s_sock_open p; s_rfile_open := s_rfile_open p;
               s_wfile_open := s_wfile_open p; s_sleeps := s_sleeps p |} in
  match c with
  | RGap => (p1, Ok tt)
  | REof => (s_close v p1, Ok tt)
  | RDied => if v_died_is_disconnect v then (s_close v p1, Ok tt) else (p1, Raise OSError)
  | RDecodeErr e => (p1, Raise e)
  end.

Definition s_pop (p : sport) : option (sport * msg) :=
  match s_queue p with
  | [] => None
  | m :: q => Some ({| s_closed := s_closed p; s_tok := s_tok p; s_queue := q; s_in := s_in p; s_sock_open := s_sock_open p;
                       s_rfile_open := s_rfile_open p; s_wfile_open := s_wfile_open p; s_sleeps := s_sleeps p |}, m)
  end.
Definition s_sleep (p : sport) : sport :=
  {| s_closed := s_closed p; s_tok := s_tok p; s_queue := s_queue p; s_in := s_in p; s_sock_open := s_sock_open p;
     s_rfile_open := s_rfile_open p; s_wfile_open := s_wfile_open p; s_sleeps := S (s_sleeps p) |}.

(* BaseInput.receive over this device (as Ports.receive) *)
Fixpoint s_receive_loop (v : variant) (fuel : nat) (block : bool) (p : sport) : sport * res (option msg) :=
  match fuel with
  | O => (p, Raise Diverges)
  | S f =>
      match s_dev_receive v p with
      | (p1, Raise e) => (p1, Raise e)
      | (p1, Ok _) =>
          match s_pop p1 with
          | Some (p2, m) => (p2, Ok (Some m))
          | None => if negb block then (p1, Ok None)
                    else if s_closed p1 then (p1, Raise OSError)
                    else s_receive_loop v f block (s_sleep p1)
          end
      end
  end.
Definition s_receive (v : variant) (fuel : nat) (block : bool) (p : sport) : sport * res (option msg) :=
  match s_pop p with
  | Some (p1, m) => (p1, Ok (Some m))
  | None => if s_closed p then (p, if block then Raise ValueError else Ok None) else s_receive_loop v fuel block p
  end.
(* for msg in port *)
Fixpoint s_iterate (v : variant) (n fuel : nat) (p : sport) : sport * res (list msg) :=
  match n with
  | O => (p, Raise Diverges)
  | S k =>
      if s_closed p && (match s_queue p with [] => true | _ => false end) then (p, Ok [])
      else match s_receive v fuel true p with
           | (p1, Ok (Some m)) => let '(p2, r) := s_iterate v k fuel p1 in (p2, match r with Ok l => Ok (m :: l) | Raise e => Raise e end)
           | (p1, Ok None) => (p1, Ok [])
           | (p1, Raise OSError) => if s_closed p1 then (p1, Ok []) else (p1, Raise OSError)
           | (p1, Raise e) => (p1, Raise e)
           end
  end.
Fixpoint s_iter_pending (v : variant) (n fuel : nat) (p : sport) : sport * res (list msg) :=
  match n with
  | O => (p, Raise Diverges)
  | S k => match s_receive v fuel false p with
           | (p1, Ok (Some m)) => let '(p2, r) := s_iter_pending v k fuel p1 in (p2, match r with Ok l => Ok (m :: l) | Raise e => Raise e end)
           | (p1, Ok None) => (p1, Ok [])
           | (p1, Raise e) => (p1, Raise e)
           end
  end.

(* the bytes of a message list cut at an offset and delivered in segments, then the end *)
Fixpoint events_of (segs : list (list Z)) (last : sev) : list sev :=
  match segs with
  | [] => [last]
  | s :: r => map SByte s ++ (match r with [] => [last] | _ => SGap :: events_of r last end)
  end.
(* the messages whose encodings lie completely before the cut *)
Fixpoint complete_prefix (ms : list msg) (cut : nat) : list msg :=
  match ms with
  | [] => []
  | m :: r => if Nat.leb (length (enc m)) cut then m :: complete_prefix r (cut - length (enc m)) else []
  end.

(* ---- PortServer: accept at most one waiting connection per _receive, forget closed clients, collect what is pending on the others ---- *)
Record server := { sv_clients : list sport; sv_waiting : list sport; sv_queue : list msg; sv_sleeps : nat }.
Fixpoint sv_sweep (v : variant) (fuel : nat) (cs : list sport) : list sport * res (list msg) :=
  match cs with
  | [] => ([], Ok [])
  | c :: r =>
      if s_closed c then let '(r', x) := sv_sweep v fuel r in (c :: r', x)
      else match s_iter_pending v (S (S (length (s_in c) + length (s_queue c)))) fuel c with    (* enough polls for everything the client can still deliver *)
           | (c1, Ok l) => let '(r', x) := sv_sweep v fuel r in (c1 :: r', match x with Ok l2 => Ok (l ++ l2) | Raise e => Raise e end)
           | (c1, Raise e) => (c1 :: r, Raise e)
           end
  end.
Definition sv_dev_receive (v : variant) (fuel : nat) (s : server) : server * res (list msg) :=
  let '(cl, wt) := match sv_waiting s with [] => (sv_clients s, []) | c :: w => (sv_clients s ++ [c], w) end in
  let open := filter (fun c => negb (s_closed c)) cl in
  let '(cl', r) := sv_sweep v fuel open in
  ({| sv_clients := cl'; sv_waiting := wt; sv_queue := sv_queue s; sv_sleeps := sv_sleeps s |}, r).
Fixpoint sv_receive_loop (v : variant) (fuel : nat) (block : bool) (s : server) : server * res (option msg) :=
  match fuel with
  | O => (s, Raise Diverges)
  | S f =>
      match sv_dev_receive v (S f) s with
      | (s1, Raise e) => (s1, Raise e)
      | (s1, Ok got) =>
          match sv_queue s1 ++ got with
          | m :: q => ({| sv_clients := sv_clients s1; sv_waiting := sv_waiting s1; sv_queue := q; sv_sleeps := sv_sleeps s1 |}, Ok (Some m))
          | [] => if negb block then (s1, Ok None)
                  else sv_receive_loop v f block {| sv_clients := sv_clients s1; sv_waiting := sv_waiting s1; sv_queue := []; sv_sleeps := S (sv_sleeps s1) |}
          end
      end
  end.
Definition sv_receive (v : variant) (fuel : nat) (block : bool) (s : server) : server * res (option msg) :=
  match sv_queue s with
  | m :: q => ({| sv_clients := sv_clients s; sv_waiting := sv_waiting s; sv_queue := q; sv_sleeps := sv_sleeps s |}, Ok (Some m))
  | [] => sv_receive_loop v fuel block s
  end.

(* ---- addresses ---- *)
Definition format_address (colon : bool) (host : text) (port : Z) : text := host ++ (if colon then [58] else []) ++ show_Z port.
(* int(text) on an ASCII string skips C isspace() characters at both ends *)
Definition is_cspace (c : Z) : bool := ((9 <=? c) && (c <=? 13)) || (c =? 32).
Fixpoint lstrip (t : text) : text := match t with c :: r => if is_cspace c then lstrip r else t | [] => [] end.
Definition strip (t : text) : text := List.rev (lstrip (List.rev (lstrip t))).
Definition parse_address (a : text) : res (text * Z) :=
  match split_on 58 a [] with
  | [host; port] =>
      match py_int (strip port) with
      | Some p => if (0 <? p) && (p <? 65536) then Ok (host, p) else Raise ValueError
      | None => Raise ValueError
      end
  | _ => Raise ValueError
  end.
