(* Wire.v — integer-list encodings of model values, used by the correspondence check:
   the harness sends one case as a list of integers, the model answers with a list of integers.
   Shared by the extracted driver and by kernel evaluation (vm_compute). Definitions only. *)
From Coq Require Import ZArith List Bool.
Require Import Mido.Model.Base Mido.Model.Codec.
Require Import Mido.Model.SendCopy.
Import ListNotations.
Open Scope Z_scope.

(* ---- output side ---- *)
Definition out_list (l : list Z) : list Z := zlen l :: l.
Definition out_msg (m : msg) : list Z :=
  kind_id (kind_of m) ::
  match m with
  | NoteOff c a b | NoteOn c a b | Polytouch c a b | ControlChange c a b => [c; a; b]
  | ProgramChange c a | Aftertouch c a | Pitchwheel c a => [c; a]
  | Sysex d => out_list d
  | QuarterFrame a b => [a; b]
  | Songpos a | SongSelect a => [a]
  | _ => []
  end.
Definition out_res {A} (f : A -> list Z) (r : res A) : list Z :=
  match r with Ok a => 0 :: f a | Raise e => [-1; exn_code e] end.
Definition out_msgs (ms : list msg) : list Z := zlen ms :: flat_map out_msg ms.
Definition out_bool (b : bool) : list Z := [if b then 1 else 0].

(* ---- input side: parsers return the value and the unread rest ---- *)
Definition take (n : nat) (l : list Z) : option (list Z * list Z) :=
  if (length l <? n)%nat then None else Some (firstn n l, skipn n l).
Definition in_list (l : list Z) : option (list Z * list Z) :=
  match l with
  | n :: r => if n <? 0 then None else take (Z.to_nat n) r
  | [] => None
  end.
Definition in_msg (l : list Z) : option (msg * list Z) :=
  match l with
  | k :: r =>
    let three f := match r with c :: a :: b :: r' => Some (f c a b, r') | _ => None end in
    let two f := match r with c :: a :: r' => Some (f c a, r') | _ => None end in
    let one f := match r with a :: r' => Some (f a, r') | _ => None end in
    if k =? 0 then three NoteOff else if k =? 1 then three NoteOn else if k =? 2 then three Polytouch
    else if k =? 3 then three ControlChange else if k =? 4 then two ProgramChange else if k =? 5 then two Aftertouch
    else if k =? 6 then two Pitchwheel
    else if k =? 7 then match in_list r with Some (d, r') => Some (Sysex d, r') | None => None end
    else if k =? 8 then two QuarterFrame else if k =? 9 then one Songpos else if k =? 10 then one SongSelect
    else if k =? 11 then Some (TuneRequest, r) else if k =? 12 then Some (Clock, r) else if k =? 13 then Some (Start, r)
    else if k =? 14 then Some (Continue, r) else if k =? 15 then Some (Stop, r) else if k =? 16 then Some (ActiveSensing, r)
    else if k =? 17 then Some (Reset, r) else None
  | [] => None
  end.
Fixpoint in_msgs_n (n : nat) (l : list Z) : option (list msg * list Z) :=
  match n with
  | O => Some ([], l)
  | S k => match in_msg l with
           | Some (m, r) => match in_msgs_n k r with Some (ms, r') => Some (m :: ms, r') | None => None end
           | None => None
           end
  end.
Definition in_msgs (l : list Z) : option (list msg * list Z) :=
  match l with n :: r => if n <? 0 then None else in_msgs_n (Z.to_nat n) r | [] => None end.

Definition bad_input : list Z := [-2].

(* ---- components of C01 / C02 ---- *)
(* message -> bytes(), len(), status, standard layout, and the decoded re-encoding with the time token *)
Definition run_codec (inp : list Z) : list Z :=
  match in_msg inp with
  | Some (m, [t]) =>
      out_list (enc m) ++ [msg_len m] ++ out_list (std_enc m) ++ [status_of m]
      ++ out_res (fun mt => out_msg (fst mt) ++ [snd mt]) (from_bytes (enc m) t)
  | _ => bad_input
  end.
(* sep, has_sep_arg, msg -> hex text and from_hex of it *)
Definition run_hex (inp : list Z) : list Z :=
  match in_list inp with
  | Some (sep, given :: r) =>
      match in_msg r with
      | Some (m, [t]) =>
          let txt := hex m sep in
          out_list txt ++ out_res (fun mt => out_msg (fst mt) ++ [snd mt])
                                 (from_hex txt (if given =? 1 then Some sep else None) t)
      | _ => bad_input
      end
  | _ => bad_input
  end.
(* arbitrary text, sep -> from_hex *)
Definition run_from_hex (inp : list Z) : list Z :=
  match in_list inp with
  | Some (sep, given :: r) =>
      match in_list r with
      | Some (txt, []) => out_res (fun mt => out_msg (fst mt) ++ [snd mt])
                                  (from_hex txt (if given =? 1 then Some sep else None) 0)
      | _ => bad_input
      end
  | _ => bad_input
  end.
(* arbitrary integer list -> from_bytes *)
Definition run_dec (inp : list Z) : list Z := out_res out_msg (dec inp).
Definition run_dec_unfixed (inp : list Z) : list Z := out_res out_msg (dec_unfixed inp).

(* ---- components of C04 / C05 / C06: parser ---- *)
Require Import Mido.Model.Tokenizer Mido.Model.Parser.

Definition run_parse (inp : list Z) : list Z := out_res out_msgs (parse_all inp).
Definition run_tokens (inp : list Z) : list Z := zlen (tokens inp) :: flat_map out_list (tokens inp).

Definition out_obs (o : pobs) : list Z :=
  match o with
  | ONone => [0]
  | OGet None => [1; 0]
  | OGet (Some m) => 1 :: 1 :: out_msg m
  | ONum n => [2; n]
  | OMsgs ms => 3 :: out_msgs ms
  | OErr e => [4; exn_code e]
  end.

Fixpoint in_pops (fuel : nat) (l : list Z) : option (list pop) :=
  match fuel with
  | O => match l with [] => Some [] | _ => None end
  | S f =>
    match l with
    | [] => Some []
    | k :: r =>
      if k =? 0 then match in_list r with
                     | Some (bs, r') => option_map (cons (PFeed bs)) (in_pops f r')
                     | None => None end
      else if k =? 1 then match r with b :: r' => option_map (cons (PFeedByte b)) (in_pops f r') | [] => None end
      else if k =? 2 then option_map (cons PGet) (in_pops f r)
      else if k =? 3 then option_map (cons PPending) (in_pops f r)
      else if k =? 4 then option_map (cons PIterAll) (in_pops f r)
      else if k =? 5 then match r with n :: r' => option_map (cons (PIterTake (Z.to_nat n))) (in_pops f r') | [] => None end
      else None
    end
  end.
Definition run_parser_ops (inp : list Z) : list Z :=
  match in_pops (length inp) inp with
  | Some ops => let '(s, obs) := p_run p_init ops in flat_map out_obs obs ++ [-9] ++ out_msgs (p_q s)
  | None => bad_input
  end.

Fixpoint in_qops (fuel : nat) (l : list Z) : option (list qop) :=
  match fuel with
  | O => match l with [] => Some [] | _ => None end
  | S f =>
    match l with
    | [] => Some []
    | k :: r =>
      if k =? 0 then match in_list r with
                     | Some (bs, r') => option_map (cons (QPutBytes bs)) (in_qops f r')
                     | None => None end
      else if k =? 1 then match in_msg r with Some (m, r') => option_map (cons (QPut m)) (in_qops f r') | None => None end
      else if k =? 2 then option_map (cons QPoll) (in_qops f r)
      else if k =? 3 then option_map (cons QIterPoll) (in_qops f r)
      else None
    end
  end.
Definition run_pqueue_ops (inp : list Z) : list Z :=
  match in_qops (length inp) inp with
  | Some ops => let '(s, obs) := q_run {| q_tok := Idle; q_q := [] |} ops in flat_map out_obs obs ++ [-9] ++ out_msgs (q_q s)
  | None => bad_input
  end.

(* ---- components of C03: checked entry points ---- *)
Require Import Mido.Model.Checks.

Definition in_atom (l : list Z) : option (atom * list Z) :=
  match l with
  | 0 :: z :: r => Some (AInt z, r)
  | 1 :: b :: r => Some (ABool (negb (b =? 0)), r)
  | 2 :: t :: r => Some (AFloat t, r)
  | 3 :: r => match in_list r with Some (s, r') => Some (AStr s, r') | None => None end
  | 4 :: r => Some (ANone, r)
  | 5 :: r => Some (AOther, r)
  | _ => None
  end.
Fixpoint in_atoms (n : nat) (l : list Z) : option (list atom * list Z) :=
  match n with
  | O => Some ([], l)
  | S k => match in_atom l with
           | Some (a, r) => match in_atoms k r with Some (as_, r') => Some (a :: as_, r') | None => None end
           | None => None
           end
  end.
Definition in_pyval (l : list Z) : option (pyval * list Z) :=
  match l with
  | 0 :: r => match in_atom r with Some (a, r') => Some (PA a, r') | None => None end
  | 1 :: n :: r => if n <? 0 then None else match in_atoms (Z.to_nat n) r with Some (as_, r') => Some (PSeq as_, r') | None => None end
  | 2 :: r => match in_list r with Some (bs, r') => Some (PBytes bs, r') | None => None end
  | _ => None
  end.
Definition in_attr (z : Z) : attr :=
  if z =? 0 then AChannel else if z =? 1 then ANote else if z =? 2 then AVelocity else if z =? 3 then AValue
  else if z =? 4 then AControl else if z =? 5 then AProgram else if z =? 6 then APitch else if z =? 7 then AData
  else if z =? 8 then AFrameType else if z =? 9 then AFrameValue else if z =? 10 then APos else if z =? 11 then ASong
  else if z =? 12 then ATime else if z =? 13 then AType else AUnknown z.
Fixpoint in_kw_n (n : nat) (l : list Z) : option (list (attr * pyval) * list Z) :=
  match n with
  | O => Some ([], l)
  | S k => match l with
           | a :: r => match in_pyval r with
                       | Some (v, r') => match in_kw_n k r' with Some (kw, r'') => Some ((in_attr a, v) :: kw, r'') | None => None end
                       | None => None
                       end
           | [] => None
           end
  end.
Definition in_kw (l : list Z) : option (list (attr * pyval) * list Z) :=
  match l with n :: r => if n <? 0 then None else in_kw_n (Z.to_nat n) r | [] => None end.
Definition in_kind (z : Z) : option kind := nth_error all_kinds (Z.to_nat z).

(* ValueError / TypeError / AttributeError are one outcome ("rejected"): the property allows any of them *)
Definition out_exn_tol (e : exn) : list Z :=
  match e with ValueError | TypeError | AttributeError => [-1; 1] | _ => [-1; exn_code e] end.
Definition out_time (t : pyval) : list Z :=
  match t with
  | PA (AInt z) => [0; z] | PA (ABool b) => [0; if b then 1 else 0] | PA (AFloat tok) => [2; tok]
  | _ => [9]
  end.
Definition out_obj (o : mobj) : list Z := out_msg (fst o) ++ out_time (snd o).

Definition run_ctor (inp : list Z) : list Z :=
  match inp with
  | k :: r => match in_kind k, in_kw r with
              | Some kd, Some (kw, []) => match ctor kd kw with Ok o => 0 :: out_obj o | Raise e => out_exn_tol e end
              | _, _ => bad_input
              end
  | [] => bad_input
  end.

Definition in_mop (l : list Z) : option (mop * list Z) :=
  match l with
  | 0 :: a :: r => match in_pyval r with Some (v, r') => Some (OSet (in_attr a) v, r') | None => None end
  | 1 :: a :: r => Some (ODel (in_attr a), r)
  | 2 :: r => match in_kw r with Some (kw, r') => Some (OCopy kw, r') | None => None end
  | 3 :: r => match in_pyval r with Some (v, r') => Some (OIadd v, r') | None => None end
  | _ => None
  end.
Fixpoint run_mops (fuel : nat) (o : mobj) (l : list Z) : list Z :=
  match fuel with
  | O => []
  | S f =>
    match l with
    | [] => []
    | _ => match in_mop l with
           | Some (op, r) =>
               let '(o', res) := apply_op o op in
               (match res with
                | Ok None => [0]
                | Ok (Some c) => 1 :: out_obj c
                | Raise e => out_exn_tol e
                end) ++ [-8] ++ out_obj o' ++ [-9] ++ run_mops f o' r
           | None => bad_input
           end
    end
  end.
(* [kind; kw of the constructor; ops...]: build the object, then apply the history *)
Definition run_history (inp : list Z) : list Z :=
  match inp with
  | k :: r => match in_kind k, in_kw r with
              | Some kd, Some (kw, ops) =>
                  match ctor kd kw with
                  | Ok o => 0 :: out_obj o ++ [-9] ++ run_mops (length ops) o ops
                  | Raise e => out_exn_tol e
                  end
              | _, _ => bad_input
              end
  | [] => bad_input
  end.

(* ---- components of C19: SYX files ---- *)
Require Import Mido.Model.Syx.
Definition run_syx_write (inp : list Z) : list Z :=
  match inp with
  | p :: r => match in_msgs r with
              | Some (ms, []) => out_list (write_syx (negb (p =? 0)) ms)
              | _ => bad_input
              end
  | [] => bad_input
  end.
Definition run_syx_read (inp : list Z) : list Z := out_res out_msgs (read_syx inp).

(* ---- components of C07 / C08 / C09 / C17: meta messages and MIDI files ---- *)
Require Import Mido.Model.Varint Mido.Model.Meta Mido.Model.Smf.

Definition out_meta (x : meta) : list Z :=
  match x with
  | MSeqNum n => [0; n]
  | MText tb t => 1 :: tb :: out_list t
  | MChanPrefix c => [2; c]
  | MPort p => [3; p]
  | MEot => [4]
  | MTempo t => [5; t]
  | MSmpte fr h m s f sf => [6; fr; h; m; s; f; sf]
  | MTimeSig n d c b => [7; n; d; c; b]
  | MKeySig sf mode => [8; sf; mode]
  | MSeqSpec d => 9 :: out_list d
  | MUnknown tb d => 10 :: tb :: out_list d
  end.
Definition in_meta (l : list Z) : option (meta * list Z) :=
  match l with
  | k :: r =>
    if k =? 0 then match r with n :: r' => Some (MSeqNum n, r') | _ => None end
    else if k =? 1 then match r with tb :: r' => match in_list r' with Some (t, r'') => Some (MText tb t, r'') | None => None end | _ => None end
    else if k =? 2 then match r with c :: r' => Some (MChanPrefix c, r') | _ => None end
    else if k =? 3 then match r with p :: r' => Some (MPort p, r') | _ => None end
    else if k =? 4 then Some (MEot, r)
    else if k =? 5 then match r with t :: r' => Some (MTempo t, r') | _ => None end
    else if k =? 6 then match r with fr :: h :: m :: s :: f :: sf :: r' => Some (MSmpte fr h m s f sf, r') | _ => None end
    else if k =? 7 then match r with n :: d :: c :: b :: r' => Some (MTimeSig n d c b, r') | _ => None end
    else if k =? 8 then match r with sf :: mode :: r' => Some (MKeySig sf mode, r') | _ => None end
    else if k =? 9 then match in_list r with Some (d, r') => Some (MSeqSpec d, r') | None => None end
    else if k =? 10 then match r with tb :: r' => match in_list r' with Some (d, r'') => Some (MUnknown tb d, r'') | None => None end | _ => None end
    else None
  | [] => None
  end.
Definition out_tev (te : tev) : list Z :=
  (match fst te with TInt z => [0; z] | TFloat tok => [1; tok] end) ++
  (match snd te with EMsg m => 0 :: out_msg m | EMeta x => 1 :: out_meta x end).
Definition in_tev (l : list Z) : option (tev * list Z) :=
  match l with
  | tk :: tv :: ek :: r =>
      let t := if tk =? 0 then TInt tv else TFloat tv in
      if ek =? 0 then match in_msg r with Some (m, r') => Some ((t, EMsg m), r') | None => None end
      else match in_meta r with Some (x, r') => Some ((t, EMeta x), r') | None => None end
  | _ => None
  end.
Fixpoint in_tevs (n : nat) (l : list Z) : option (list tev * list Z) :=
  match n with
  | O => Some ([], l)
  | S k => match in_tev l with
           | Some (te, r) => match in_tevs k r with Some (tes, r') => Some (te :: tes, r') | None => None end
           | None => None
           end
  end.
Fixpoint in_tracks (n : nat) (l : list Z) : option (list (list tev) * list Z) :=
  match n with
  | O => Some ([], l)
  | S k => match l with
           | c :: r => if c <? 0 then None else
               match in_tevs (Z.to_nat c) r with
               | Some (tr, r') => match in_tracks k r' with Some (trs, r'') => Some (tr :: trs, r'') | None => None end
               | None => None
               end
           | [] => None
           end
  end.
Definition in_file (l : list Z) : option (midifile * list Z) :=
  match l with
  | ty :: tpb :: n :: r => if n <? 0 then None else
      match in_tracks (Z.to_nat n) r with
      | Some (trs, r') => Some ({| f_type := ty; f_tpb := tpb; f_tracks := trs |}, r')
      | None => None
      end
  | _ => None
  end.
Definition out_track (tr : list tev) : list Z := zlen tr :: flat_map out_tev tr.
Definition out_file (f : midifile) : list Z := f_type f :: f_tpb f :: zlen (f_tracks f) :: flat_map out_track (f_tracks f).
Definition in_codec (z : Z) : codec := if z =? 1 then ascii else latin1.

(* [cs; file] -> bytes of save() *)
Definition run_save (inp : list Z) : list Z :=
  match inp with
  | cs :: r => match in_file r with
               | Some (f, []) => out_res out_list (save (in_codec cs) f)
               | _ => bad_input
               end
  | [] => bad_input
  end.
(* [cs; clip; bytes...] -> the loaded file; every failure to load is one outcome *)
Definition run_load (inp : list Z) : list Z :=
  match inp with
  | cs :: clip :: bs => match load (in_codec cs) (negb (clip =? 0)) bs with Ok f => 0 :: out_file f | Raise _ => [-1; 0] end
  | _ => bad_input
  end.
Definition run_meta_bytes (inp : list Z) : list Z :=
  match inp with
  | cs :: r => match in_meta r with
               | Some (x, []) => out_res out_list (meta_bytes (in_codec cs) x)
               | _ => bad_input
               end
  | [] => bad_input
  end.
Definition run_meta_from_bytes (inp : list Z) : list Z :=
  match inp with
  | cs :: bs => match meta_from_bytes (in_codec cs) bs with Ok x => 0 :: out_meta x | Raise _ => [-1; 0] end
  | [] => bad_input
  end.
Definition run_varint (inp : list Z) : list Z :=
  match inp with
  | [n] => out_res out_list (encode_variable_int n)
  | _ => bad_input
  end.
Definition run_meta_ok (inp : list Z) : list Z :=
  match in_meta inp with
  | Some (x, []) => out_bool (meta_ok x) ++ out_bool (meta_rt_b x)
  | _ => bad_input
  end.

(* ---- components of C08: the reference SMF decoder / encoder ---- *)
Require Import Mido.Model.SmfSpec.
Definition out_raw (de : Z * raw) : list Z :=
  fst de :: match snd de with
            | RChan st d => 0 :: st :: out_list d
            | RCommon st d => 1 :: st :: out_list d
            | RSysex d => 2 :: out_list d
            | RMeta ty p => 3 :: ty :: out_list p
            end.
Definition out_rawfile (f : rawfile) : list Z :=
  let '((a, b, c), trs) := f in
  a :: b :: c :: zlen trs :: flat_map (fun tr => zlen tr :: flat_map out_raw tr) trs.
Definition run_ref_decode (inp : list Z) : list Z :=
  match ref_decode inp with Some f => 0 :: out_rawfile f | None => [-1; 0] end.
Definition fix_file (f : midifile) : midifile := {| f_type := f_type f; f_tpb := f_tpb f; f_tracks := map fix_eot (f_tracks f) |}.
(* [cs; normalise?; file] -> the raw file the typed file denotes *)
Definition run_raw_of (inp : list Z) : list Z :=
  match inp with
  | cs :: nrm :: r => match in_file r with
                      | Some (f, []) => out_res out_rawfile (raw_of_file (in_codec cs) (if nrm =? 0 then f else fix_file f))
                      | _ => bad_input
                      end
  | _ => bad_input
  end.
Fixpoint in_choices_n (n : nat) (l : list Z) : option (list choice * list Z) :=
  match n with
  | O => Some ([], l)
  | S k => match l with
           | a :: b :: c :: r => match in_choices_n k r with
                                 | Some (cs, r') => Some ({| pad_dt := Z.to_nat a; pad_len := Z.to_nat b; use_rs := negb (c =? 0) |} :: cs, r')
                                 | None => None
                                 end
           | _ => None
           end
  end.
Fixpoint in_choicess (n : nat) (l : list Z) : option (list (list choice) * list Z) :=
  match n with
  | O => Some ([], l)
  | S k => match l with
           | c :: r => match in_choices_n (Z.to_nat c) r with
                       | Some (cs, r') => match in_choicess k r' with Some (css, r'') => Some (cs :: css, r'') | None => None end
                       | None => None
                       end
           | [] => None
           end
  end.
(* [cs; extra (list); ntracks; per track: n, n x (pad_dt, pad_len, use_rs); file] -> bytes of the chosen legal encoding *)
Definition run_enc_with (inp : list Z) : list Z :=
  match inp with
  | cs :: r =>
      match in_list r with
      | Some (extra, nt :: r1) =>
          match in_choicess (Z.to_nat nt) r1 with
          | Some (css, r2) =>
              match in_file r2 with
              | Some (f, []) => match raw_of_file (in_codec cs) f with
                                | Ok rf => 0 :: out_list (enc_file extra css rf)
                                | Raise e => [-1; exn_code e]
                                end
              | _ => bad_input
              end
          | None => bad_input
          end
      | _ => bad_input
      end
  | [] => bad_input
  end.

(* ---- component of C12: merge_tracks ---- *)
Require Import Mido.Model.Tracks.
Fixpoint in_pairs (n : nat) (l : list Z) : option (list (Z * bool) * list Z) :=
  match n with
  | O => Some ([], l)
  | S k => match l with
           | t :: b :: r => match in_pairs k r with Some (ps, r') => Some ((t, negb (b =? 0)) :: ps, r') | None => None end
           | _ => None
           end
  end.
Fixpoint in_ptracks (n : nat) (l : list Z) : option (list (list (Z * bool)) * list Z) :=
  match n with
  | O => Some ([], l)
  | S k => match l with
           | c :: r => match in_pairs (Z.to_nat c) r with
                       | Some (tr, r') => match in_ptracks k r' with Some (trs, r'') => Some (tr :: trs, r'') | None => None end
                       | None => None
                       end
           | [] => None
           end
  end.
Definition run_merge (inp : list Z) : list Z :=
  match inp with
  | n :: r => match in_ptracks (Z.to_nat n) r with
              | Some (ts, []) =>
                  let m := merge_tracks (label_tracks 0 ts) in
                  zlen m :: flat_map (fun e => [time e; if eot e then 1 else 0; Z.of_nat (trk e); Z.of_nat (idx e)]) m
              | _ => bad_input
              end
  | [] => bad_input
  end.

(* ---- components of C13: playback timing, exact arithmetic ---- *)
Require Import Mido.Model.Tempo.
From Coq Require Import QArith.
Open Scope Z_scope.
Fixpoint in_pm (n : nat) (l : list Z) : list pmsg * list Z :=
  match n, l with
  | S k, dt :: t :: mt :: r => let '(ms, r') := in_pm k r in
                               ({| p_dt := dt; p_tempo := if t <? 0 then None else Some t; p_meta := negb (mt =? 0) |} :: ms, r')
  | _, _ => ([], l)
  end.
(* [n; (dt, tempo|-1, meta)*] -> numerators of the yielded deltas (over 10^6 * ticks_per_beat), then the numerator of length *)
Definition run_iter_num (inp : list Z) : list Z :=
  match inp with
  | n :: r => let '(ms, _) := in_pm (Z.to_nat n) r in out_list (iter_num DEFAULT_TEMPO ms) ++ [length_num ms]
  | [] => bad_input
  end.
(* play on a scripted clock; all times are integers in units of 2^-20 s *)
Fixpoint in_pt (n : nat) (l : list Z) : list ptick * list Z :=
  match n, l with
  | S k, d :: mt :: r => let '(ms, r') := in_pt k r in ({| q_delta := d; q_meta := negb (mt =? 0) |} :: ms, r')
  | _, _ => ([], l)
  end.
Definition run_play (inp : list Z) : list Z :=
  match inp with
  | mm :: start :: n :: r =>
      let '(ms, r1) := in_pt (Z.to_nat n) r in
      match in_list r1 with
      | Some (eps, r2) =>
          match in_list r2 with
          | Some (holds, []) =>
              let ys := play (negb (mm =? 0)) start start 0 0 ms eps holds in
              zlen ys :: flat_map (fun y => [Z.of_nat (fst y); snd y]) ys
          | _ => bad_input
          end
      | None => bad_input
      end
  | _ => bad_input
  end.

(* ---- component of C16: edit / observe histories on a MidiFile ---- *)
Require Import Mido.Model.FileCache.
Definition mk_ev (t b uid : Z) : ev := {| time := t; eot := negb (b =? 0); trk := Z.to_nat uid; idx := 0 |}.
Fixpoint in_evs (n : nat) (l : list Z) : list ev * list Z :=
  match n, l with
  | S k, t :: b :: u :: r => let '(es, r') := in_evs k r in (mk_ev t b u :: es, r')
  | _, _ => ([], l)
  end.
Definition out_evs (m : list ev) : list Z :=
  zlen m :: flat_map (fun e => [time e; if eot e then 1 else 0; Z.of_nat (trk e)]) m.
Fixpoint run_fops (fuel : nat) (memo : bool) (s : fstate) (l : list Z) : list Z :=
  match fuel with
  | O => []
  | S f =>
    match l with
    | [] => []
    | 0 :: n :: r => let '(es, r') := in_evs (Z.to_nat n) r in run_fops f memo (apply_edit memo s (EAppendTrack es)) r'
    | 1 :: i :: r => run_fops f memo (apply_edit memo s (ERemoveTrack (Z.to_nat i))) r
    | 2 :: r => run_fops f memo (apply_edit memo s EAddTrack) r
    | 3 :: i :: j :: t :: b :: u :: r => run_fops f memo (apply_edit memo s (EInsertMsg (Z.to_nat i) (Z.to_nat j) (mk_ev t b u))) r
    | 4 :: i :: j :: r => run_fops f memo (apply_edit memo s (EDelMsg (Z.to_nat i) (Z.to_nat j))) r
    | 5 :: i :: j :: t :: r => run_fops f memo (apply_edit memo s (ESetTime (Z.to_nat i) (Z.to_nat j) t)) r
    | 6 :: z :: r => run_fops f memo (apply_edit memo s (ESetType z)) r
    | 7 :: z :: r => run_fops f memo (apply_edit memo s (ESetTpb z)) r
    | 8 :: i :: j :: v :: r => run_fops f memo s r      (* an attribute other than time is assigned: no effect on merging *)
    | 10 :: i :: j :: d :: r => run_fops f memo (apply_edit memo s (EShift (Z.to_nat i) (Z.to_nat j) d)) r
    | 11 :: i :: j :: r => run_fops f memo (apply_edit memo s (ESwap (Z.to_nat i) (Z.to_nat j))) r
    | 12 :: i :: r => run_fops f memo (apply_edit memo s (EReverse (Z.to_nat i))) r
    | 9 :: r => let '(s', o) := observe memo s in
                (match o with Ok m => 0 :: out_evs m | Raise e => [-1; exn_code e] end) ++ [-9] ++ run_fops f memo s' r
    | _ => bad_input
    end
  end.
Definition run_file_hist (inp : list Z) : list Z :=
  match inp with
  | ty :: tpb :: r => run_fops (length r) false (fresh ty tpb []) r
  | _ => bad_input
  end.

(* ---- component of C15: a history of construct / copy / freeze / thaw / assign / delete / hash on a heap of messages ---- *)
Require Import Mido.Model.Frozen.
Fixpoint in_attrs (n : nat) (l : list Z) : attrs * list Z :=
  match n, l with
  | S k, a :: v :: r => let '(kv, r') := in_attrs k r in ((a, v) :: kv, r')
  | _, _ => ([], l)
  end.
Definition out_cls (c : cls) : Z := match c with CMsg => 0 | CMeta => 1 | CUnk => 2 end.
Definition in_cls (z : Z) : cls := if z =? 0 then CMsg else if z =? 1 then CMeta else CUnk.
Definition out_obj15 (o : obj) : list Z :=
  out_cls (o_cls o) :: (if o_frozen o then 1 else 0) :: o_kind o :: out_list (flat_map (fun kv => [fst kv; snd kv]) (sort_kv (o_attrs o))).
Definition out_heap (h : heap) : list Z := zlen h :: flat_map out_obj15 h.
Definition out_ref (r : res ref) : list Z :=
  match r with Ok (Some l) => [0; Z.of_nat l] | Ok None => [0; -1] | Raise e => out_exn_tol e end.
Definition in_ref (z : Z) : ref := if z <? 0 then None else Some (Z.to_nat z).
Fixpoint run_hops (fuel : nat) (h : heap) (l : list Z) : list Z :=
  match fuel with
  | O => []
  | S f =>
    match l with
    | [] => []
    | 0 :: c :: k :: n :: r =>
        let '(kv, r') := in_attrs (Z.to_nat n) r in
        let h' := h ++ [{| o_cls := in_cls c; o_frozen := false; o_kind := k; o_attrs := kv |}] in
        [0; zlen h] ++ [-8] ++ out_heap h' ++ [-9] ++ run_hops f h' r'
    | 1 :: x :: n :: r =>
        let '(kv, r') := in_attrs (Z.to_nat n) r in
        let '(h', res) := do_copy h (Z.to_nat x) kv in out_ref res ++ [-8] ++ out_heap h' ++ [-9] ++ run_hops f h' r'
    | 2 :: x :: r => let '(h', res) := do_freeze h (in_ref x) in out_ref res ++ [-8] ++ out_heap h' ++ [-9] ++ run_hops f h' r
    | 3 :: x :: r => let '(h', res) := do_thaw h (in_ref x) in out_ref res ++ [-8] ++ out_heap h' ++ [-9] ++ run_hops f h' r
    | 4 :: x :: a :: v :: r =>
        let '(h', res) := do_set h (Z.to_nat x) a v in
        (match res with Ok _ => [0; -2] | Raise e => out_exn_tol e end) ++ [-8] ++ out_heap h' ++ [-9] ++ run_hops f h' r
    | 5 :: x :: a :: r =>
        let '(h', res) := do_del h (Z.to_nat x) a in
        (match res with Ok _ => [0; -2] | Raise e => out_exn_tol e end) ++ [-8] ++ out_heap h' ++ [-9] ++ run_hops f h' r
    | _ => bad_input
    end
  end.
Definition run_heap_hist (inp : list Z) : list Z := run_hops (length inp) [] inp.

(* ---- components of C14: text representations ---- *)
Require Import Mido.Model.Strings.
Definition in_tmv (l : list Z) : option (tmv * list Z) :=
  match l with
  | 0 :: z :: r => Some (TvInt z, r)
  | 1 :: r => match in_list r with Some (w, r') => Some (TvFloat w, r') | None => None end
  | _ => None
  end.
Definition out_tmv (t : tmv) : list Z := match t with TvInt z => [0; z] | TvFloat w => 1 :: out_list w end.
Definition run_msg2str (inp : list Z) : list Z :=
  match in_msg inp with
  | Some (m, r) => match in_tmv r with
                   | Some (t, []) => out_list (msg2str m t) ++ out_list (repr_msg m t)
                   | _ => bad_input
                   end
  | None => bad_input
  end.
Definition run_parse_string (inp : list Z) : list Z :=
  match parse_string inp with Ok (m, t) => 0 :: out_msg m ++ out_tmv t | Raise e => [-1; exn_code e] end.
Fixpoint in_lines (n : nat) (l : list Z) : list text :=
  match n with
  | O => []
  | S k => match in_list l with Some (w, r) => w :: in_lines k r | None => [] end
  end.
Definition run_parse_stream (inp : list Z) : list Z :=
  match inp with
  | n :: r => flat_map (fun x => match x with SMsg m t => 0 :: out_msg m ++ out_tmv t ++ [-9] | SErr k => [1; k; -9] end)
                       (parse_stream 1 (in_lines (Z.to_nat n) r))
  | [] => bad_input
  end.

(* ---- component of C20: backend resolution ---- *)
Require Import Mido.Model.Backend.
Definition in_opt (z : Z) : option Z := if z <? 0 then None else Some z.
Definition out_opt (o : option Z) : Z := match o with Some z => z | None => -1 end.
Definition in_bname (m a : Z) : option bname := if m <? 0 then None else Some {| bn_mod := m; bn_api := in_opt a |}.
Definition out_bcall (x : bcall) : list Z :=
  match x with
  | CInput n a => [0; out_opt n; out_opt a] | COutput n a => [1; out_opt n; out_opt a] | CIOPort n a => [2; out_opt n; out_opt a]
  | CWrap i o a => [3; out_opt i; out_opt o; out_opt a] | CDevices a => [4; out_opt a] | CNoDevices => [5] | CNothing => [6]
  end.
Fixpoint in_bops (fuel : nat) (l : list Z) : list bop :=
  match fuel with
  | O => []
  | S f =>
    match l with
    | 0 :: n :: k :: r => OpenInput (in_opt n) (in_opt k) :: in_bops f r
    | 1 :: n :: k :: r => OpenOutput (in_opt n) (in_opt k) :: in_bops f r
    | 2 :: n :: k :: r => OpenIOPort (in_opt n) (in_opt k) :: in_bops f r
    | 3 :: k :: r => GetInputNames (in_opt k) :: in_bops f r
    | 4 :: k :: r => GetOutputNames (in_opt k) :: in_bops f r
    | 5 :: k :: r => GetIOPortNames (in_opt k) :: in_bops f r
    | 6 :: r => Touch :: in_bops f r
    | _ => []
    end
  end.
Definition run_backend (inp : list Z) : list Z :=
  match inp with
  | nm :: na :: ca :: ld :: ue :: em :: ea :: ei :: eo :: eio :: nat_ :: gd :: ops =>
      let c := {| c_name := in_bname nm na; c_api := in_opt ca; c_load := negb (ld =? 0); c_useenv := negb (ue =? 0);
                  e_backend := in_bname em ea; e_in := in_opt ei; e_out := in_opt eo; e_io := in_opt eio;
                  m_native_ioport := negb (nat_ =? 0); m_get_devices := negb (gd =? 0) |} in
      let s0 := b_init c in
      let '(s, calls) := b_run c s0 (in_bops (length ops) ops) in
      out_list (s_imports s0) ++ flat_map (fun x => out_bcall x ++ [-9]) calls ++ out_list (s_imports s)
  | _ => bad_input
  end.

(* ---- components of C11: port lifecycle ---- *)
Require Import Mido.Model.Ports.
Fixpoint in_actions (n : nat) (l : list Z) : list action * list Z :=
  match n with
  | O => ([], l)
  | S k =>
    match l with
    | 0 :: m :: r => let '(as_, r') := in_actions k r in (AMsg m :: as_, r')
    | 1 :: r => let '(as_, r') := in_actions k r in (ANothing :: as_, r')
    | 2 :: r => match in_list r with Some (ms, r1) => let '(as_, r') := in_actions k r1 in (APush ms :: as_, r') | None => ([], l) end
    | 3 :: r => let '(as_, r') := in_actions k r in (AClose :: as_, r')
    | 4 :: r => match in_list r with Some (ms, r1) => let '(as_, r') := in_actions k r1 in (APushClose ms :: as_, r') | None => ([], l) end
    | _ => ([], l)
    end
  end.
Definition out_pout (x : pout) : list Z :=
  match x with
  | ONone_ => [0] | OMsg_ None => [1; -1] | OMsg_ (Some m) => [1; m] | OList_ l => 2 :: out_list l | OErr_ e => [3; exn_code e]
  end.
Definition out_pstate (p : port) : list Z :=
  [if p_closed p then 1 else 0; Z.of_nat (p_closes p); Z.of_nat (p_sleeps p); Z.of_nat (p_calls p); zlen (p_sent p); zlen (p_queue p)].
Fixpoint run_pops (fuel : nat) (n : nat) (p : port) (l : list Z) : list Z :=
  match n with
  | O => []
  | S k =>
    let go o r := let '(p1, x) := port_step fuel p o in out_pout x ++ out_pstate p1 ++ [-9] ++ run_pops fuel k p1 r in
    match l with
    | [] => out_list (p_sent p) ++ out_list (p_queue p)
    | 0 :: m :: r => go (PSend m) r
    | 1 :: b :: r => go (PReceive (negb (b =? 0))) r
    | 2 :: r => go PPoll r
    | 3 :: r => go PIterPending r
    | 4 :: c :: r => go (PIterate (if c <? 0 then 1000%nat else Z.to_nat c)) r
    | 5 :: r => go PClose r
    | 6 :: m :: r => go (PWith m) r
    | 7 :: r => go PDel r
    | 8 :: r => go PReset r
    | _ => bad_input
    end
  end.
Definition run_port (inp : list Z) : list Z :=
  match inp with
  | ar :: echo :: fuel :: r0 =>
      match in_list r0 with
      | Some (faults, ns :: r) =>
          let '(script, ops) := in_actions (Z.to_nat ns) r in
          run_pops (Z.to_nat fuel) (S (length ops)) (new_port (negb (ar =? 0)) (negb (echo =? 0)) script (map (fun x => negb (x =? 0)) faults)) ops
      | _ => bad_input
      end
  | _ => bad_input
  end.
(* ---- C11: the IOPort wrapper over an input port (the device script) and an output port (autoreset, faults) ---- *)
Require Import Mido.Model.IOPortM.
Definition out_iostate (io : ioport) : list Z :=
  [if io_closed io then 1 else 0; if p_closed (io_in io) then 1 else 0; Z.of_nat (p_closes (io_in io)); if p_closed (io_out io) then 1 else 0;
   Z.of_nat (p_closes (io_out io)); Z.of_nat (p_sleeps (io_in io)); Z.of_nat (p_calls (io_in io)); zlen (p_sent (io_out io)); zlen (p_queue (io_in io))].
Fixpoint run_ioops (fuel : nat) (n : nat) (io : ioport) (l : list Z) : list Z :=
  match n with
  | O => []
  | S k =>
    let go o r := let '(io1, x) := io_step fuel io o in out_pout x ++ out_iostate io1 ++ [-9] ++ run_ioops fuel k io1 r in
    match l with
    | [] => out_list (p_sent (io_out io)) ++ out_list (p_queue (io_in io))
    | 0 :: m :: r => go (IOSend m) r
    | 1 :: b :: r => go (IOReceive (negb (b =? 0))) r
    | 2 :: r => go IOPoll r
    | 3 :: r => go IOIterPending r
    | 4 :: c :: r => go (IOIterate (if c <? 0 then 1000%nat else Z.to_nat c)) r
    | 5 :: r => go IOClose r
    | 6 :: m :: r => go (IOWith m) r
    | 7 :: r => go IOClose r
    | 8 :: r => go IOReset r
    | 9 :: r => go IOCloseIn r
    | 10 :: r => go IOCloseOut r
    | _ => bad_input
    end
  end.
(* same input as run_port: [autoreset (of the output port); unused; fuel; faults (of the output device); script (of the input device); ops] *)
Definition run_ioport (inp : list Z) : list Z :=
  match inp with
  | ar :: _ :: fuel :: r0 =>
      match in_list r0 with
      | Some (faults, ns :: r) =>
          let '(script, ops) := in_actions (Z.to_nat ns) r in
          run_ioops (Z.to_nat fuel) (S (length ops))
                    (new_ioport (new_port false false script []) (new_port (negb (ar =? 0)) false [] (map (fun x => negb (x =? 0)) faults))) ops
      | _ => bad_input
      end
  | _ => bad_input
  end.
Fixpoint in_subs (n : nat) (l : list Z) : list port * list Z :=
  match n with
  | O => ([], l)
  | S k => match l with
           | c :: r => match in_list r with
                       | Some (q, ns :: r1) =>
                           let '(script, r2) := in_actions (Z.to_nat ns) r1 in
                           let '(ps, r') := in_subs k r2 in
                           ({| p_closed := negb (c =? 0); p_queue := q; p_script := script; p_closes := 0; p_sent := []; p_autoreset := false;
                               p_echo := true; p_sleeps := 0; p_calls := 0; p_faults := [] |} :: ps, r')
                       | _ => ([], l)
                       end
           | [] => ([], l)
           end
  end.
(* [fuel; block; nsubs; subs (closed, queue, device script)...; receives] : that many receive calls on a MultiPort *)
Fixpoint run_multi_n (n fuel : nat) (block : bool) (mp : multi) : list Z :=
  match n with
  | O => [Z.of_nat (m_sleeps mp)]
  | S k => let '(mp', r) := multi_receive fuel block mp in
           (match r with Ok (Some m) => [1; m] | Ok None => [1; -1] | Raise e => [3; exn_code e] end) ++ run_multi_n k fuel block mp'
  end.
Definition run_multi (inp : list Z) : list Z :=
  match inp with
  | fuel :: b :: ns :: r =>
      let '(subs, r') := in_subs (Z.to_nat ns) r in
      match r' with
      | [k] => run_multi_n (Z.to_nat k) (Z.to_nat fuel) (negb (b =? 0)) {| m_queue := []; m_subs := subs; m_sleeps := 0 |}
      | _ => bad_input
      end
  | _ => bad_input
  end.

(* ---- components of C18: socket ports ---- *)
Require Import Mido.Model.Sockets.
Definition in_sev (x : Z) : sev := if x =? -1 then SGap else if x =? -2 then SEof else if x =? -3 then SDied else SByte x.
Definition out_sstate (p : sport) : list Z :=
  [if s_closed p then 1 else 0; if peer_sees_disconnect p then 1 else 0; Z.of_nat (s_sleeps p); zlen (s_queue p)].
Definition out_mres (r : res (option msg)) : list Z :=
  match r with Ok None => [1; 0] | Ok (Some m) => 1 :: 1 :: out_msg m | Raise e => [3; exn_code e] end.
Definition out_lres (r : res (list msg)) : list Z := match r with Ok l => 2 :: out_msgs l | Raise e => [3; exn_code e] end.
Fixpoint run_sops (v : variant) (fuel : nat) (n : nat) (p : sport) (l : list Z) : list Z :=
  match n with
  | O => []
  | S k =>
    match l with
    | [] => out_msgs (s_queue p)
    | 0 :: b :: r => let '(p1, x) := s_receive v fuel (negb (b =? 0)) p in out_mres x ++ out_sstate p1 ++ [-9] ++ run_sops v fuel k p1 r
    | 1 :: r => let '(p1, x) := s_receive v fuel false p in out_mres x ++ out_sstate p1 ++ [-9] ++ run_sops v fuel k p1 r
    | 2 :: r => let '(p1, x) := s_iterate v (S (S (length (s_in p) + length (s_queue p)))) fuel p in out_lres x ++ out_sstate p1 ++ [-9] ++ run_sops v fuel k p1 r
    | 3 :: r => let p1 := s_close v p in [0] ++ out_sstate p1 ++ [-9] ++ run_sops v fuel k p1 r
    | 4 :: r => let '(p1, x) := s_iter_pending v (S (S (length (s_in p) + length (s_queue p)))) fuel p in out_lres x ++ out_sstate p1 ++ [-9] ++ run_sops v fuel k p1 r
    | _ => bad_input
    end
  end.
Definition in_variant (cf dd : Z) : variant := {| v_close_files := negb (cf =? 0); v_died_is_disconnect := negb (dd =? 0) |}.
Definition run_sock (inp : list Z) : list Z :=
  match inp with
  | cf :: dd :: fuel :: r =>
      match in_list r with
      | Some (evs, ops) => run_sops (in_variant cf dd) (Z.to_nat fuel) (S (length ops)) (new_sport (map in_sev evs)) ops
      | None => bad_input
      end
  | _ => bad_input
  end.
Fixpoint in_sports (n : nat) (l : list Z) : option (list sport * list Z) :=
  match n with
  | O => Some ([], l)
  | S k => match in_list l with
           | Some (evs, r) => match in_sports k r with Some (ps, r') => Some (new_sport (map in_sev evs) :: ps, r') | None => None end
           | None => None
           end
  end.
Fixpoint run_server_n (v : variant) (n fuel : nat) (block : bool) (s : server) : list Z :=
  match n with
  | O => [Z.of_nat (sv_sleeps s); zlen (sv_clients s); zlen (filter (fun c => s_closed c) (sv_clients s))]
  | S k => let '(s', r) := sv_receive v fuel block s in out_mres r ++ [-9] ++ run_server_n v k fuel block s'
  end.
(* [close_files; died; fuel; block; nclients; clients...; nwaiting; waiting...; receives] *)
Definition run_server (inp : list Z) : list Z :=
  match inp with
  | cf :: dd :: fuel :: b :: nc :: r =>
      match in_sports (Z.to_nat nc) r with
      | Some (cl, nw :: r1) =>
          match in_sports (Z.to_nat nw) r1 with
          | Some (wt, [k]) => run_server_n (in_variant cf dd) (Z.to_nat k) (Z.to_nat fuel) (negb (b =? 0))
                                {| sv_clients := cl; sv_waiting := wt; sv_queue := []; sv_sleeps := 0 |}
          | _ => bad_input
          end
      | _ => bad_input
      end
  | _ => bad_input
  end.
Definition out_addr (r : res (text * Z)) : list Z := match r with Ok (h, p) => 0 :: p :: out_list h | Raise e => [-1; exn_code e] end.
(* [colon; port; host...] : format_address, then parse_address of the result *)
Definition run_addr_format (inp : list Z) : list Z :=
  match inp with
  | c :: p :: host => let a := format_address (negb (c =? 0)) host p in out_list a ++ out_addr (parse_address a)
  | _ => bad_input
  end.
Definition run_addr_parse (inp : list Z) : list Z := out_addr (parse_address inp).

(* ---- components of C10: threads on one port ---- *)
Require Import Mido.Model.Conc.
Fixpoint in_ops (n : nat) (l : list Z) : option (list op * list Z) :=
  match n with
  | O => Some ([], l)
  | S k =>
      match l with
      | 0 :: r => match in_msg r with
                  | Some (m, r1) => match in_ops k r1 with Some (os, r') => Some (Send m :: os, r') | None => None end
                  | None => None
                  end
      | 1 :: b :: r => match in_ops k r with Some (os, r') => Some (Recv (negb (b =? 0)) :: os, r') | None => None end
      | 2 :: r => match in_ops k r with Some (os, r') => Some (IterPending [] :: os, r') | None => None end
      | _ => None
      end
  end.
Fixpoint in_progs (n : nat) (l : list Z) : option (list (list op) * list Z) :=
  match n with
  | O => Some ([], l)
  | S k => match l with
           | c :: r => match in_ops (Z.to_nat c) r with
                       | Some (os, r1) => match in_progs k r1 with Some (ps, r') => Some (os :: ps, r') | None => None end
                       | None => None
                       end
           | [] => None
           end
  end.
Definition out_result (r : result) : list Z :=
  match r with RSent => [0] | RGot None => [1; 0] | RGot (Some m) => 1 :: 1 :: out_msg m | RList l => 2 :: out_msgs l end.
Definition out_thread (th : thread) : list Z :=
  (match at_ th with Raised e => [2; exn_code e] | AtStart => (match prog th with [] => [0; 0] | _ => [1; 0] end) | _ => [1; 0] end)
  ++ zlen (results th) :: flat_map out_result (results th).
(* [locking; kind; same_lock; nthreads; per thread: nops ops...; schedule...] *)
Definition run_conc (inp : list Z) : list Z :=
  match inp with
  | lk :: kd :: sl :: nt :: r =>
      match in_progs (Z.to_nat nt) r with
      | Some (progs, sched) =>
          let cf := {| c_locking := negb (lk =? 0); c_kind := if kd =? 0 then KEcho else KDevice; c_same_lock := negb (sl =? 0) |} in
          let '(s, ts) := crun cf (map Z.to_nat sched) (cinit (fun t => nth t progs [])) in
          flat_map (fun t => out_thread (ts t) ++ [-9]) (seq 0 (length progs)) ++ out_msgs (q s) ++ out_list (devbuf s) ++ [Z.of_nat (sleeps s)]
      | None => bad_input
      end
  | _ => bad_input
  end.

(* ---- C10: threads on a MultiPort over EchoPorts (fan-in) ---- *)
Require Import Mido.Model.ConcMulti.
Fixpoint in_mops (n : nat) (l : list Z) : option (list mop * list Z) :=
  match n with
  | O => Some ([], l)
  | S k =>
      match l with
      | 0 :: sub :: r => match in_msg r with
                         | Some (m, r1) => match in_mops k r1 with Some (os, r') => Some (MSend (Z.to_nat sub) m :: os, r') | None => None end
                         | None => None
                         end
      | 1 :: b :: r => match in_mops k r with Some (os, r') => Some (MRecv (negb (b =? 0)) :: os, r') | None => None end
      | 2 :: r => match in_mops k r with Some (os, r') => Some (MIterPending [] :: os, r') | None => None end
      | _ => None
      end
  end.
Fixpoint in_mprogs (n : nat) (l : list Z) : option (list (list mop) * list Z) :=
  match n with
  | O => Some ([], l)
  | S k => match l with
           | c :: r => match in_mops (Z.to_nat c) r with
                       | Some (os, r1) => match in_mprogs k r1 with Some (ps, r') => Some (os :: ps, r') | None => None end
                       | None => None
                       end
           | [] => None
           end
  end.
Definition out_mthread (th : mthread) : list Z :=
  (match mat th with MRaised e => [2; exn_code e] | MStart => (match mprog th with [] => [0; 0] | _ => [1; 0] end) | _ => [1; 0] end)
  ++ zlen (mresults th) :: flat_map out_result (mresults th).
(* [nsubs; nthreads; per thread: nops ops...; schedule...] *)
Definition run_conc_multi (inp : list Z) : list Z :=
  match inp with
  | ns :: nt :: r =>
      match in_mprogs (Z.to_nat nt) r with
      | Some (progs, sched) =>
          let '(s, ts) := mrun (map Z.to_nat sched) (minit (Z.to_nat ns) (fun t => nth t progs [])) in
          flat_map (fun t => out_mthread (ts t) ++ [-9]) (seq 0 (length progs))
          ++ flat_map (fun i => out_msgs (mq s i)) (seq 0 (S (Z.to_nat ns))) ++ [Z.of_nat (msleeps s)]
      | None => bad_input
      end
  | _ => bad_input
  end.

(* ---- C05: histories with a live iterator ---- *)
Fixpoint in_iops (fuel : nat) (l : list Z) : option (list iop) :=
  match fuel with
  | O => match l with [] => Some [] | _ => None end
  | S f =>
    match l with
    | [] => Some []
    | k :: r =>
      if k =? 0 then match in_list r with
                     | Some (bs, r') => option_map (cons (IOp (PFeed bs))) (in_iops f r')
                     | None => None end
      else if k =? 1 then match r with b :: r' => option_map (cons (IOp (PFeedByte b))) (in_iops f r') | [] => None end
      else if k =? 2 then option_map (cons (IOp PGet)) (in_iops f r)
      else if k =? 3 then option_map (cons (IOp PPending)) (in_iops f r)
      else if k =? 4 then option_map (cons (IOp PIterAll)) (in_iops f r)
      else if k =? 5 then match r with n :: r' => option_map (cons (IOp (PIterTake (Z.to_nat n)))) (in_iops f r') | [] => None end
      else if k =? 6 then option_map (cons INew) (in_iops f r)
      else if k =? 7 then option_map (cons INext) (in_iops f r)
      else if k =? 8 then match r with n :: r' => option_map (cons (INextK (Z.to_nat n))) (in_iops f r') | [] => None end
      else None
    end
  end.
Definition run_iter_ops (inp : list Z) : list Z :=
  match in_iops (length inp) inp with
  | Some ops => let '(s, obs) := i_run i_init ops in flat_map out_obs obs ++ [-9] ++ out_msgs (p_q (i_p s))
  | None => bad_input
  end.

(* ---- C02: from_bytes on arbitrary items ---- *)
Definition run_dec_items (inp : list Z) : list Z :=
  match inp with
  | n :: r => if n <? 0 then bad_input else
              match in_atoms (Z.to_nat n) r with
              | Some (items, []) => out_res out_msg (dec_items items)
              | _ => bad_input
              end
  | [] => bad_input
  end.

(* ---- C10: objects around send (copy, not alias) ---- *)
Fixpoint in_scops (fuel : nat) (l : list Z) : option (list sc_op) :=
  match fuel with
  | O => match l with [] => Some [] | _ => None end
  | S f =>
    match l with
    | [] => Some []
    | k :: r =>
      if k =? 0 then match r with v :: r' => option_map (cons (SNew v)) (in_scops f r') | _ => None end
      else if k =? 1 then match r with i :: v :: r' => option_map (cons (SSet (Z.to_nat i) v)) (in_scops f r') | _ => None end
      else if k =? 2 then match r with i :: r' => option_map (cons (SSend (Z.to_nat i))) (in_scops f r') | _ => None end
      else if k =? 3 then match r with i :: r' => option_map (cons (SRecv (Z.to_nat i))) (in_scops f r') | _ => None end
      else if k =? 4 then match r with i :: v :: r' => option_map (cons (SSetGot (Z.to_nat i) v)) (in_scops f r') | _ => None end
      else None
    end
  end.
(* [copying; nqueues; ops...] -> values of the received objects, values of the caller's objects, 1 if a received object is a caller's object *)
Definition run_send_copy (inp : list Z) : list Z :=
  match inp with
  | c :: n :: r =>
      match in_scops (length r) r with
      | Some ops => let '(g, m, a) := sc_observe (sc_run (negb (c =? 0)) (Z.to_nat n) ops) in out_list g ++ out_list m ++ out_bool a
      | None => bad_input
      end
  | _ => bad_input
  end.

(* ---- C10: threads on a MultiPort over EchoPorts (fan-out) ---- *)
Require Import Mido.Model.ConcFan.
Fixpoint in_fops (n : nat) (l : list Z) : option (list fop * list Z) :=
  match n with
  | O => Some ([], l)
  | S k =>
      match l with
      | 0 :: r => match in_msg r with
                  | Some (m, r1) => match in_fops k r1 with Some (os, r') => Some (FSend m :: os, r') | None => None end
                  | None => None
                  end
      | 1 :: sub :: b :: r => match in_fops k r with Some (os, r') => Some (FRecv (Z.to_nat sub) (negb (b =? 0)) :: os, r') | None => None end
      | 2 :: sub :: r => match in_fops k r with Some (os, r') => Some (FIterPending (Z.to_nat sub) [] :: os, r') | None => None end
      | _ => None
      end
  end.
Fixpoint in_fprogs (n : nat) (l : list Z) : option (list (list fop) * list Z) :=
  match n with
  | O => Some ([], l)
  | S k => match l with
           | c :: r => match in_fops (Z.to_nat c) r with
                       | Some (os, r1) => match in_fprogs k r1 with Some (ps, r') => Some (os :: ps, r') | None => None end
                       | None => None
                       end
           | [] => None
           end
  end.
Definition out_fthread (th : fthread) : list Z :=
  (match fat th with FRaised e => [2; exn_code e] | FStart => (match fprog th with [] => [0; 0] | _ => [1; 0] end) | _ => [1; 0] end)
  ++ zlen (fresults th) :: flat_map out_result (fresults th).
(* [nsubs; nthreads; per thread: nops ops...; schedule...] -> per thread state and results; the queues of the MultiPort (never used here) and of the sub-ports; sleeps *)
Definition run_conc_fan (inp : list Z) : list Z :=
  match inp with
  | ns :: nt :: r =>
      match in_fprogs (Z.to_nat nt) r with
      | Some (progs, sched) =>
          let '(s, ts) := frun (map Z.to_nat sched) (finit (Z.to_nat ns) (fun t => nth t progs [])) in
          flat_map (fun t => out_fthread (ts t) ++ [-9]) (seq 0 (length progs))
          ++ flat_map (fun i => out_msgs (fq s i)) (seq 0 (S (Z.to_nat ns))) ++ [Z.of_nat (fsleeps s)]
      | None => bad_input
      end
  | _ => bad_input
  end.

(* ---- C10: threads on a MultiPort over EchoPorts, any mix of uses ---- *)
Require Import Mido.Model.ConcMix.
Fixpoint in_xops (n : nat) (l : list Z) : option (list xop * list Z) :=
  match n with
  | O => Some ([], l)
  | S k =>
      match l with
      | 0 :: port :: r => match in_msg r with
                          | Some (m, r1) => match in_xops k r1 with Some (os, r') => Some (XSend (Z.to_nat port) m :: os, r') | None => None end
                          | None => None
                          end
      | 1 :: port :: b :: r => match in_xops k r with Some (os, r') => Some (XRecv (Z.to_nat port) (negb (b =? 0)) :: os, r') | None => None end
      | 2 :: port :: r => match in_xops k r with Some (os, r') => Some (XIterP (Z.to_nat port) [] :: os, r') | None => None end
      | _ => None
      end
  end.
Fixpoint in_xprogs (n : nat) (l : list Z) : option (list (list xop) * list Z) :=
  match n with
  | O => Some ([], l)
  | S k => match l with
           | c :: r => match in_xops (Z.to_nat c) r with
                       | Some (os, r1) => match in_xprogs k r1 with Some (ps, r') => Some (os :: ps, r') | None => None end
                       | None => None
                       end
           | [] => None
           end
  end.
Definition out_xthread (th : xthread) : list Z :=
  (match xat th with XRaised e => [2; exn_code e] | XStart => (match xprog th with [] => [0; 0] | _ => [1; 0] end) | _ => [1; 0] end)
  ++ zlen (xresults th) :: flat_map out_result (xresults th).
(* [nsubs; nthreads; per thread: nops ops...; schedule...] -> per thread state and results; the deques of the MultiPort and of the sub-ports; sleeps *)
Definition run_conc_mix (inp : list Z) : list Z :=
  match inp with
  | ns :: nt :: r =>
      match in_xprogs (Z.to_nat nt) r with
      | Some (progs, sched) =>
          let '(s, ts) := xrun (map Z.to_nat sched) (xinit (Z.to_nat ns) (fun t => nth t progs [])) in
          flat_map (fun t => out_xthread (ts t) ++ [-9]) (seq 0 (length progs))
          ++ flat_map (fun i => out_msgs (xq s i)) (seq 0 (S (Z.to_nat ns))) ++ [Z.of_nat (xsleeps s)]
      | None => bad_input
      end
  | _ => bad_input
  end.

(* ---- C10: the helper functions multi_send / multi_receive on a caller's list of ports, mixed with any other use ---- *)
Require Import Mido.Model.ConcHelpers.
Fixpoint in_nats_n (n : nat) (l : list Z) : option (list nat * list Z) :=
  match n with
  | O => Some ([], l)
  | S k => match l with x :: r => match in_nats_n k r with Some (xs, r') => Some (Z.to_nat x :: xs, r') | None => None end | [] => None end
  end.
(* ops 0 1 2 as for run_conc_mix; [3; k; k ports; message] multi_send; [4; k; k ports in polling order] multi_receive(block=False); k >= 1 *)
Fixpoint in_hops (n : nat) (l : list Z) : option (list hop * list Z) :=
  match n with
  | O => Some ([], l)
  | S k =>
      match l with
      | 0 :: port :: r => match in_msg r with
                          | Some (m, r1) => match in_hops k r1 with Some (os, r') => Some (HPlain (XSend (Z.to_nat port) m) :: os, r') | None => None end
                          | None => None
                          end
      | 1 :: port :: b :: r => match in_hops k r with Some (os, r') => Some (HPlain (XRecv (Z.to_nat port) (negb (b =? 0))) :: os, r') | None => None end
      | 2 :: port :: r => match in_hops k r with Some (os, r') => Some (HPlain (XIterP (Z.to_nat port) []) :: os, r') | None => None end
      | 3 :: c :: r => if c <=? 0 then None else
                       match in_nats_n (Z.to_nat c) r with
                       | Some (ps, r1) => match in_msg r1 with
                                          | Some (m, r2) => match in_hops k r2 with Some (os, r') => Some (HMSend ps m :: os, r') | None => None end
                                          | None => None
                                          end
                       | None => None
                       end
      | 4 :: c :: r => if c <=? 0 then None else
                       match in_nats_n (Z.to_nat c) r with
                       | Some (ps, r1) => match in_hops k r1 with Some (os, r') => Some (HMRecv ps :: os, r') | None => None end
                       | None => None
                       end
      | _ => None
      end
  end.
Fixpoint in_hprogs (n : nat) (l : list Z) : option (list (list hop) * list Z) :=
  match n with
  | O => Some ([], l)
  | S k => match l with
           | c :: r => match in_hops (Z.to_nat c) r with
                       | Some (os, r1) => match in_hprogs k r1 with Some (ps, r') => Some (os :: ps, r') | None => None end
                       | None => None
                       end
           | [] => None
           end
  end.
Definition out_hthread (p : list hop) (th : xthread) : list Z :=
  let rs := collapse p (xresults th) in
  (match xat th with XRaised e => [2; exn_code e] | XStart => (match xprog th with [] => [0; 0] | _ => [1; 0] end) | _ => [1; 0] end)
  ++ zlen rs :: flat_map out_result rs.
(* [nsubs; nthreads; per thread: nops ops...; schedule...] -> as run_conc_mix, with one result per call of a helper function *)
Definition run_conc_helpers (inp : list Z) : list Z :=
  match inp with
  | ns :: nt :: r =>
      match in_hprogs (Z.to_nat nt) r with
      | Some (hprogs, sched) =>
          let '(s, ts) := xrun (map Z.to_nat sched) (hinit (Z.to_nat ns) (fun t => nth t hprogs [])) in
          flat_map (fun t => out_hthread (nth t hprogs []) (ts t) ++ [-9]) (seq 0 (length hprogs))
          ++ flat_map (fun i => out_msgs (xq s i)) (seq 0 (S (Z.to_nat ns))) ++ [Z.of_nat (xsleeps s)]
      | None => bad_input
      end
  | _ => bad_input
  end.

(* ---- C11: close() from several threads ---- *)
Require Import Mido.Model.ConcClose.
(* [locking; nthreads; schedule...] -> [releases; closed; per thread: 1 when its close() has returned] *)
Definition run_conc_close (inp : list Z) : list Z :=
  match inp with
  | lk :: nt :: sched =>
      let '(s, ts) := krun (negb (lk =? 0)) (map Z.to_nat sched) kinit in
      Z.of_nat (k_releases s) :: (if k_closed s then 1 else 0) ::
      map (fun t => match ts t with KDone => 1 | _ => 0 end) (seq 0 (Z.to_nat nt))
  | _ => bad_input
  end.

(* ---- C10: ParserQueue fed from several threads ---- *)
Require Import Mido.Model.ConcPQ.
Fixpoint in_pqops (n : nat) (l : list Z) : option (list qop * list Z) :=
  match n with
  | O => Some ([], l)
  | S k =>
      match l with
      | 0 :: r => match in_msgs r with
                  | Some (ms, r1) => match in_pqops k r1 with Some (os, r') => Some (QPut ms :: os, r') | None => None end
                  | None => None
                  end
      | 1 :: r => match in_pqops k r with Some (os, r') => Some (QPoll :: os, r') | None => None end
      | _ => None
      end
  end.
Fixpoint in_pqprogs (n : nat) (l : list Z) : option (list (list qop) * list Z) :=
  match n with
  | O => Some ([], l)
  | S k => match l with
           | c :: r => match in_pqops (Z.to_nat c) r with
                       | Some (os, r1) => match in_pqprogs k r1 with Some (ps, r') => Some (os :: ps, r') | None => None end
                       | None => None
                       end
           | [] => None
           end
  end.
(* [locking; nthreads; per thread: nops ops...; schedule...] -> the log (feeder, message)*, what each thread's polls returned, the queue *)
Definition run_conc_pq (inp : list Z) : list Z :=
  match inp with
  | lk :: nt :: r =>
      match in_pqprogs (Z.to_nat nt) r with
      | Some (progs, sched) =>
          let '(s, ts) := qrun (negb (lk =? 0)) (map Z.to_nat sched) (qinit (fun t => nth t progs [])) in
          zlen (qlog s) :: flat_map (fun e => Z.of_nat (fst e) :: out_msg (snd e)) (qlog s) ++ [-9] ++
          flat_map (fun t => zlen (qgot (ts t)) :: flat_map (fun g => match g with Some m => 1 :: out_msg m | None => [0] end) (qgot (ts t)) ++ [-9]) (seq 0 (length progs)) ++
          out_msgs (qqueue s)
      | None => bad_input
      end
  | _ => bad_input
  end.
