(* ConcHelpers.v — the helper functions of mido/ports.py on a caller's own list of ports, by threads that also use the MultiPort and its
   sub-ports in any other way (Model/ConcMix.v):
     multi_send(ports, msg)               'for port in ports: port.send(msg)'
     multi_receive(ports, block=False)    'random.shuffle(ports); for port in ports: if not port.closed: for message in port.iter_pending(): yield message'
   Neither holds anything between one port and the next, so a call IS the sequence of sends / of iter_pending() drains it spells out, and
   the accesses it makes to locks and deques are those of that sequence: a helper program is expanded into a ConcMix program, run there
   under the same schedule, and the results of the expanded operations are folded back into one result per call.  The order in which
   multi_receive polls the ports (the outcome of random.shuffle) is a parameter of the operation. *)
From Coq Require Import ZArith List Bool Arith.
Require Import Mido.Model.Base Mido.Model.Codec Mido.Model.Conc Mido.Model.ConcMulti Mido.Model.ConcMix.
Import ListNotations.

Inductive hop := HPlain (o : xop) | HMSend (ports : list nat) (m : msg) | HMRecv (order : list nat).

Definition expand1 (h : hop) : list xop :=
  match h with
  | HPlain o => [o]
  | HMSend ps m => map (fun p => XSend p m) ps
  | HMRecv ps => map (fun p => XIterP p []) ps
  end.
Definition expand (p : list hop) : list xop := flat_map expand1 p.

(* the results of k drains in a row, as the one list the caller of multi_receive collects *)
Fixpoint take_lists (k : nat) (rs : list result) (acc : list msg) : option (list msg * list result) :=
  match k with
  | O => Some (acc, rs)
  | S k' => match rs with RList l :: rest => take_lists k' rest (acc ++ l) | _ => None end
  end.
(* what the caller has seen returned so far: a call of a helper function has returned when all its parts have *)
Fixpoint collapse (p : list hop) (rs : list result) : list result :=
  match p with
  | [] => []
  | HPlain _ :: p' => match rs with r :: rest => r :: collapse p' rest | [] => [] end
  | HMSend ps _ :: p' => if Nat.leb (length ps) (length rs) then RSent :: collapse p' (skipn (length ps) rs) else []
  | HMRecv ps :: p' => match take_lists (length ps) rs [] with Some (l, rest) => RList l :: collapse p' rest | None => [] end
  end.

Definition hinit (n : nat) (hprogs : tid -> list hop) : xcfg := xinit n (fun t => expand (hprogs t)).

