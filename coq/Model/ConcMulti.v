(* ConcMulti.v — threads on a MultiPort over EchoPorts (mido/ports.py: MultiPort._receive, multi_receive, EchoPort), fan-in: senders
   send on the sub-ports, receivers receive on the MultiPort.  Same granularity as Conc.v: one step = one access to a lock, a deque or
   sleep.  Port 0 is the MultiPort, port i+1 the i-th sub-port; each has its own RLock and deque.
   MultiPort.receive holds the MultiPort's lock while its _receive sweeps the sub-ports: for each sub-port in turn it polls
   (sub.receive(block=False), itself under the sub-port's lock) until nothing is pending, collecting what it gets, and then extends the
   MultiPort's own deque with the collected messages. *)
From Coq Require Import ZArith List Bool Arith.
Require Import Mido.Model.Base Mido.Model.Codec Mido.Model.Conc.
Import ListNotations.

Inductive mop := MSend (sub : nat) (m : msg) | MRecv (block : bool) | MIterPending (acc : list msg).

(* the next access of a thread *)
Inductive mpc :=
| MStart                                            (* acquire the lock the head operation needs *)
| MSApp (sub : nat) (m : msg) | MSRel (sub : nat)  (* send on a sub-port: append, release *)
| MBool1 | MPop1 | MRel1 (r : option msg)           (* MultiPort.receive: the pending check under the MultiPort's lock *)
| MLAcq                                             (* the polling loop: acquire the MultiPort's lock *)
| MSweep (sub : nat) (inner : pc) (acc : list msg)  (* inside _receive: polling sub-port [sub]; [inner] is the poll's own next access *)
| MExtend (acc : list msg)                          (* self._messages.extend(collected) *)
| MLBool | MLPop | MLRel (r : option msg) (slp : bool) | MLSleep
| MRaised (e : exn).

Record mthread := { mprog : list mop; mat : mpc; mresults : list result }.
Record mshared := {
  mlk : nat -> option tid; mq : nat -> list msg; msleeps : nat; nsubs : nat;
  (* ghosts *)
  msent : nat -> list msg;                 (* per sub-port: what was appended, in order *)
  allpopped : list (nat * msg);            (* every pop from a sub-port: (sub-port, message), in order *)
  ext : list msg;                          (* everything the MultiPort's deque was ever extended with *)
  mrecvd : list (tid * msg);               (* every pop from the MultiPort's deque, with the popping thread *)
  cur_acc : list msg                       (* what the thread that is sweeping has popped from the sub-ports so far in this sweep *)
}.
Definition mcfg := (mshared * (tid -> mthread))%type.

Definition updf {A} (f : nat -> A) (i : nat) (v : A) : nat -> A := fun j => if Nat.eqb j i then v else f j.
Definition mupd (ts : tid -> mthread) (t : tid) (th : mthread) : tid -> mthread := fun u => if Nat.eqb u t then th else ts u.
Definition mset_pc (th : mthread) (p : mpc) : mthread := {| mprog := mprog th; mat := p; mresults := mresults th |}.

Definition m_can (s : mshared) (l : nat) (t : tid) : bool := match mlk s l with None => true | Some o => Nat.eqb o t end.
Definition m_set_lock (s : mshared) (l : nat) (o : option tid) : mshared :=
  {| mlk := updf (mlk s) l o; mq := mq s; msleeps := msleeps s; nsubs := nsubs s; msent := msent s; allpopped := allpopped s; ext := ext s;
     mrecvd := mrecvd s; cur_acc := cur_acc s |}.
Definition m_set_acc (s : mshared) (a : list msg) : mshared :=
  {| mlk := mlk s; mq := mq s; msleeps := msleeps s; nsubs := nsubs s; msent := msent s; allpopped := allpopped s; ext := ext s;
     mrecvd := mrecvd s; cur_acc := a |}.

Definition m_finish_recv (th : mthread) (r : option msg) : mthread :=
  match mprog th with
  | MRecv _ :: rest => {| mprog := rest; mat := MStart; mresults := mresults th ++ [RGot r] |}
  | MIterPending acc :: rest =>
      match r with
      | Some m => {| mprog := MIterPending (acc ++ [m]) :: rest; mat := MStart; mresults := mresults th |}
      | None => {| mprog := rest; mat := MStart; mresults := mresults th ++ [RList acc] |}
      end
  | _ => th
  end.
Definition m_is_block (th : mthread) : bool := match mprog th with MRecv b :: _ => b | _ => false end.

(* after the poll of sub-port [i] came back empty: the next sub-port, or the extend *)
Definition next_sub (s : mshared) (i : nat) (acc : list msg) : mpc :=
  if Nat.ltb (S i) (nsubs s) then MSweep (S i) AtStart acc else MExtend acc.

(* one step of a poll (sub.receive(block=False)) on sub-port i by thread t: the new shared state and what the poll does next;
   inl pc' = still inside this poll; inr r = the poll returned r *)
Definition poll_step (s : mshared) (t : tid) (i : nat) (p : pc) : option (mshared * (pc + option msg)) :=
  let l := S i in
  match p with
  | AtStart => if m_can s l t then Some (m_set_lock s l (Some t), inl RBool1) else None
  | RBool1 => Some (s, inl (match mq s l with [] => RRel1 None | _ => RPop1 end))
  | RPop1 => match mq s l with
             | [] => Some (s, inl (Raised IndexError))
             | m :: r => Some ({| mlk := mlk s; mq := updf (mq s) l r; msleeps := msleeps s; nsubs := nsubs s; msent := msent s;
                                  allpopped := allpopped s ++ [(i, m)]; ext := ext s; mrecvd := mrecvd s; cur_acc := cur_acc s ++ [m] |}, inl (RRel1 (Some m)))
             end
  | RRel1 r => Some (m_set_lock s l None, match r with Some m => inr (Some m) | None => inl LAcq end)
  | LAcq => if m_can s l t then Some (m_set_lock s l (Some t), inl LBool) else None
  | LBool => Some (s, inl (match mq s l with [] => LRel None false | _ => LPop end))
  | LPop => match mq s l with
            | [] => Some (s, inl (Raised IndexError))
            | m :: r => Some ({| mlk := mlk s; mq := updf (mq s) l r; msleeps := msleeps s; nsubs := nsubs s; msent := msent s;
                                 allpopped := allpopped s ++ [(i, m)]; ext := ext s; mrecvd := mrecvd s; cur_acc := cur_acc s ++ [m] |}, inl (LRel (Some m) false))
            end
  | LRel r _ => Some (m_set_lock s l None, inr r)
  | _ => None
  end.

Definition mstep_thread (s : mshared) (t : tid) (th : mthread) : option (mshared * mthread) :=
  match mat th with
  | MStart =>
      match mprog th with
      | [] => None
      | MSend i m :: _ => if m_can s (S i) t then Some (m_set_lock s (S i) (Some t), mset_pc th (MSApp i m)) else None
      | _ => if m_can s 0 t then Some (m_set_lock s 0 (Some t), mset_pc th MBool1) else None
      end
  | MSApp i m => Some ({| mlk := mlk s; mq := updf (mq s) (S i) (mq s (S i) ++ [m]); msleeps := msleeps s; nsubs := nsubs s;
                          msent := updf (msent s) i (msent s i ++ [m]); allpopped := allpopped s; ext := ext s; mrecvd := mrecvd s; cur_acc := cur_acc s |},
                       mset_pc th (MSRel i))
  | MSRel i => Some (m_set_lock s (S i) None, {| mprog := tl (mprog th); mat := MStart; mresults := mresults th ++ [RSent] |})
  | MBool1 => Some (s, mset_pc th (match mq s 0 with [] => MRel1 None | _ => MPop1 end))
  | MPop1 => match mq s 0 with
             | [] => Some (s, mset_pc th (MRaised IndexError))
             | m :: r => Some ({| mlk := mlk s; mq := updf (mq s) 0 r; msleeps := msleeps s; nsubs := nsubs s; msent := msent s; allpopped := allpopped s;
                                  ext := ext s; mrecvd := mrecvd s ++ [(t, m)]; cur_acc := cur_acc s |}, mset_pc th (MRel1 (Some m)))
             end
  | MRel1 r => Some (m_set_lock s 0 None, match r with Some _ => m_finish_recv th r | None => mset_pc th MLAcq end)
  | MLAcq => if m_can s 0 t then Some (m_set_lock s 0 (Some t), mset_pc th (if Nat.ltb 0 (nsubs s) then MSweep 0 AtStart [] else MExtend [])) else None
  | MSweep i p acc =>
      match poll_step s t i p with
      | None => None
      | Some (s', inl (Raised e)) => Some (s', mset_pc th (MRaised e))
      | Some (s', inl p') => Some (s', mset_pc th (MSweep i p' acc))
      | Some (s', inr (Some m)) => Some (s', mset_pc th (MSweep i AtStart (acc ++ [m])))     (* iter_pending polls again *)
      | Some (s', inr None) => Some (s', mset_pc th (next_sub s' i acc))
      end
  | MExtend acc => Some ({| mlk := mlk s; mq := updf (mq s) 0 (mq s 0 ++ acc); msleeps := msleeps s; nsubs := nsubs s; msent := msent s; allpopped := allpopped s;
                            ext := ext s ++ acc; mrecvd := mrecvd s; cur_acc := [] |}, mset_pc th MLBool)
  | MLBool => Some (s, mset_pc th (match mq s 0 with [] => MLRel None (m_is_block th) | _ => MLPop end))
  | MLPop => match mq s 0 with
             | [] => Some (s, mset_pc th (MRaised IndexError))
             | m :: r => Some ({| mlk := mlk s; mq := updf (mq s) 0 r; msleeps := msleeps s; nsubs := nsubs s; msent := msent s; allpopped := allpopped s;
                                  ext := ext s; mrecvd := mrecvd s ++ [(t, m)]; cur_acc := cur_acc s |}, mset_pc th (MLRel (Some m) false))
             end
  | MLRel r slp => Some (m_set_lock s 0 None, if slp then mset_pc th MLSleep else m_finish_recv th r)
  | MLSleep => Some ({| mlk := mlk s; mq := mq s; msleeps := S (msleeps s); nsubs := nsubs s; msent := msent s; allpopped := allpopped s; ext := ext s;
                        mrecvd := mrecvd s; cur_acc := cur_acc s |}, mset_pc th MLAcq)
  | MRaised _ => None
  end.

Definition mstep (cf : mcfg) (t : tid) : mcfg :=
  let '(s, ts) := cf in
  match mstep_thread s t (ts t) with
  | None => cf
  | Some (s', th') => (s', mupd ts t th')
  end.
Definition mrun (sched : list tid) (cf : mcfg) : mcfg := fold_left mstep sched cf.

Definition minit (n : nat) (progs : tid -> list mop) : mcfg :=
  ({| mlk := fun _ => None; mq := fun _ => []; msleeps := 0; nsubs := n; msent := fun _ => []; allpopped := []; ext := []; mrecvd := []; cur_acc := [] |},
   fun t => {| mprog := progs t; mat := MStart; mresults := [] |}).
