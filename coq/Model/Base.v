(* Base.v — shared vocabulary of the mido model: exceptions as values, the result monad,
   finite ranges for sweeps. Definitions only. *)
From Coq Require Import ZArith List Bool.
Import ListNotations.
Open Scope Z_scope.

(* The exception classes that modelled mido code can raise.  KeySigError is
   mido.midifiles.meta.KeySignatureError (NOT a ValueError subclass);
   Diverges stands for "the call never returns" (fuel exhausted). *)
Inductive exn := ValueError | TypeError | AttributeError | LookupError | IndexError | KeyError
  | OSError | EOFError | ZeroDivisionError | StructError | KeySigError | OverflowError | Diverges.

Definition exn_code (e : exn) : Z :=
  match e with
  | ValueError => 1 | TypeError => 2 | AttributeError => 3 | LookupError => 4 | IndexError => 5 | KeyError => 6
  | OSError => 7 | EOFError => 8 | ZeroDivisionError => 9 | StructError => 10 | KeySigError => 11
  | OverflowError => 12 | Diverges => 13
  end.

Inductive res (A : Type) := Ok (a : A) | Raise (e : exn).
Arguments Ok {A} a. Arguments Raise {A} e.

Definition bind {A B} (r : res A) (f : A -> res B) : res B := match r with Ok a => f a | Raise e => Raise e end.
Notation "x <- r ;; k" := (bind r (fun x => k)) (at level 60, r at next level, right associativity).
Definition is_raise {A} (r : res A) : bool := match r with Ok _ => false | Raise _ => true end.

Fixpoint sequence {A} (l : list (res A)) : res (list A) :=
  match l with
  | [] => Ok []
  | Ok a :: r => match sequence r with Ok l' => Ok (a :: l') | Raise e => Raise e end
  | Raise e :: _ => Raise e
  end.

Definition range (n : nat) : list Z := map Z.of_nat (seq 0 n).
Definition zlen {A} (l : list A) : Z := Z.of_nat (length l).

Definition byte7 (x : Z) : bool := (0 <=? x) && (x <=? 127).
Definition byte8 (x : Z) : bool := (0 <=? x) && (x <=? 255).

Fixpoint list_eqb (a b : list Z) : bool :=
  match a, b with
  | [], [] => true
  | x :: a', y :: b' => (x =? y) && list_eqb a' b'
  | _, _ => false
  end.
