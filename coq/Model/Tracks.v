(* Tracks.v — model of mido/midifiles/tracks.py: _to_abstime, _to_reltime, fix_end_of_track, merge_tracks.
   A message is its time, whether it is an end_of_track, and its identity (track number, index in the track);
   the rest of the message is carried along untouched by the real code (msg.copy(time=...)). *)
From Coq Require Import ZArith List Bool.
Require Import Mido.Model.Base.
Import ListNotations.
Open Scope Z_scope.

Record ev := { time : Z; eot : bool; trk : nat; idx : nat }.
Definition set_time (e : ev) (t : Z) : ev := {| time := t; eot := eot e; trk := trk e; idx := idx e |}.

Fixpoint to_abs (now : Z) (l : list ev) : list ev :=
  match l with [] => [] | e :: r => let n := now + time e in set_time e n :: to_abs n r end.
Fixpoint to_rel (now : Z) (l : list ev) : list ev :=
  match l with [] => [] | e :: r => set_time e (time e - now) :: to_rel (time e) r end.

(* messages.sort(key=lambda msg: msg.time): list.sort is a stable sort; modelled by stable insertion sort *)
Fixpoint insert (x : ev) (l : list ev) : list ev :=
  match l with
  | [] => [x]
  | y :: r => if time y <=? time x then y :: insert x r else x :: y :: r
  end.
Definition ssort (l : list ev) : list ev := fold_left (fun acc x => insert x acc) l [].

(* the end_of_track that fix_end_of_track creates: no identity in the inputs *)
Definition new_eot (t : Z) : ev := {| time := t; eot := true; trk := 0; idx := 0 |}.
Fixpoint fix_eot_z (accum : Z) (l : list ev) : list ev :=
  match l with
  | [] => [new_eot accum]
  | e :: r => if eot e then fix_eot_z (accum + time e) r
              else (if accum =? 0 then e else set_time e (accum + time e)) :: fix_eot_z 0 r
  end.

Definition merge_tracks (tracks : list (list ev)) : list ev :=
  fix_eot_z 0 (to_rel 0 (ssort (concat (map (to_abs 0) tracks)))).

(* labelling of the input: message j of track i gets identity (i, j) *)
Fixpoint label_from (i j : nat) (l : list (Z * bool)) : list ev :=
  match l with [] => [] | (t, b) :: r => {| time := t; eot := b; trk := i; idx := j |} :: label_from i (S j) r end.
Fixpoint label_tracks (i : nat) (ts : list (list (Z * bool))) : list (list ev) :=
  match ts with [] => [] | t :: r => label_from i 0 t :: label_tracks (S i) r end.
