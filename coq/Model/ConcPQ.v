(* ConcPQ.v — the queue the backends feed from their callback threads (mido/backends/_parser_queue.py: ParserQueue.put_bytes takes the
   parser lock, feeds the parser, puts every message that became complete into the thread-safe queue, releases the lock; poll takes one
   message off the queue without that lock).  Several feeding threads, any number of polling threads, one access per step.
   A chunk is given by the messages it consists of: the threads feed WHOLE messages (what a backend callback delivers); that the parser turns
   the concatenated encodings of whole messages back into exactly those messages is C06_concat. *)
From Coq Require Import List Bool Arith.
Require Import Mido.Model.Base Mido.Model.Codec.
Import ListNotations.

Inductive qop := QPut (chunk : list msg) | QPoll.
Inductive qpc :=
| QStart                       (* the head operation: take the lock (put_bytes) or take a message off the queue (poll) *)
| QFeed (chunk : list msg)     (* parser.feed(data), under the lock *)
| QDrain (rest : list msg)     (* self.put(msg) for each message that became complete, under the lock *)
| QUnlock.
Record qthread := { qprog : list qop; qat : qpc; qgot : list (option msg) }.
Record qshared := {
  qlock : option nat; qqueue : list msg;
  (* ghosts *)
  qlog : list (nat * msg);      (* every message put into the queue, in order, with the thread that fed it *)
  qpolled : list msg            (* every message taken off the queue, in order *)
}.
Definition qcfg := (qshared * (nat -> qthread))%type.
Definition qupd (ts : nat -> qthread) (t : nat) (th : qthread) : nat -> qthread := fun u => if Nat.eqb u t then th else ts u.
Definition qset (th : qthread) (p : qpc) : qthread := {| qprog := qprog th; qat := p; qgot := qgot th |}.

Definition qstep (locking : bool) (cf : qcfg) (t : nat) : qcfg :=
  let '(s, ts) := cf in
  let th := ts t in
  match qat th with
  | QStart =>
      match qprog th with
      | [] => cf
      | QPut chunk :: _ =>
          if locking then
            match qlock s with
            | None => ({| qlock := Some t; qqueue := qqueue s; qlog := qlog s; qpolled := qpolled s |}, qupd ts t (qset th (QFeed chunk)))
            | Some _ => cf
            end
          else (s, qupd ts t (qset th (QFeed chunk)))
      | QPoll :: rest =>
          match qqueue s with
          | [] => (s, qupd ts t {| qprog := rest; qat := QStart; qgot := qgot th ++ [None] |})
          | m :: q => ({| qlock := qlock s; qqueue := q; qlog := qlog s; qpolled := qpolled s ++ [m] |},
                       qupd ts t {| qprog := rest; qat := QStart; qgot := qgot th ++ [Some m] |})
          end
      end
  | QFeed chunk => (s, qupd ts t (qset th (match chunk with [] => QUnlock | _ => QDrain chunk end)))
  | QDrain rest =>
      match rest with
      | [] => (s, qupd ts t (qset th QUnlock))
      | m :: r => ({| qlock := qlock s; qqueue := qqueue s ++ [m]; qlog := qlog s ++ [(t, m)]; qpolled := qpolled s |},
                   qupd ts t (qset th (match r with [] => QUnlock | _ => QDrain r end)))
      end
  | QUnlock => ({| qlock := (if locking then None else qlock s); qqueue := qqueue s; qlog := qlog s; qpolled := qpolled s |},
                qupd ts t {| qprog := tl (qprog th); qat := QStart; qgot := qgot th |})
  end.
Definition qrun (locking : bool) (sched : list nat) (cf : qcfg) : qcfg := fold_left (qstep locking) sched cf.
Definition qinit (progs : nat -> list qop) : qcfg :=
  ({| qlock := None; qqueue := []; qlog := []; qpolled := [] |}, fun t => {| qprog := progs t; qat := QStart; qgot := [] |}).

(* the messages a program feeds, in order *)
Definition qfeeds (p : list qop) : list msg := flat_map (fun o => match o with QPut c => c | QPoll => [] end) p.
