(* Syx.v — model of mido/syx.py: file contents are lists of bytes (0..255). *)
From Coq Require Import ZArith List Bool.
Require Import Mido.Model.Base Mido.Model.Codec Mido.Model.Tokenizer Mido.Model.Parser.
Import ListNotations.
Open Scope Z_scope.

Definition is_sysex (m : msg) : bool := match m with Sysex _ => true | _ => false end.

(* write_syx_file(filename, messages, plaintext) *)
Definition write_syx (plaintext : bool) (ms : list msg) : list Z :=
  let sx := filter is_sysex ms in
  if plaintext then flat_map (fun m => hex m [32] ++ [10]) sx      (* message.hex() + '\n' *)
  else flat_map enc sx.                                            (* message.bin() *)

(* read_syx_file(filename) on the bytes of the file *)
Definition read_syx (data : list Z) : res (list msg) :=
  match data with
  | [] => Ok []
  | b :: _ =>
      bytes <- (if b =? 240 then Ok data
                else fromhex (map (fun c => if is_ws c then 32 else c) data)) ;;    (* latin1 text; re.sub(r'\s', ' ') *)
      ms <- parse_all bytes ;;
      Ok (filter is_sysex ms)
  end.

(* a plain-text layout: leading whitespace, then each byte as two hex digits followed by whitespace *)
Definition hex_lower (n : Z) : Z := if n <? 10 then 48 + n else 87 + n.
Definition render_byte (upper : bool) (b : Z) : list Z :=
  if upper then hex_byte b else [hex_lower (b / 16); hex_lower (b mod 16)].
Fixpoint render (ws0 : list Z) (items : list (Z * bool * list Z)) : list Z :=
  match items with
  | [] => ws0
  | (b, up, ws) :: r => ws0 ++ render_byte up b ++ render ws r
  end.
