(* Frozen.v — model of copy() / freeze_message() / thaw_message() and of frozen messages (mido/frozen.py, messages.py,
   meta.py): objects live in a heap so that identity, aliasing and independence can be stated.  The content of a message
   is its class and its attribute values (an association list attribute -> integer; time included). *)
From Coq Require Import ZArith List Bool.
Require Import Mido.Model.Base.
Import ListNotations.
Open Scope Z_scope.

Inductive cls := CMsg | CMeta | CUnk.          (* Message / MetaMessage / UnknownMetaMessage *)
Definition attrs := list (Z * Z).               (* vars(msg) without the type: attribute id -> value, in vars() order *)
Record obj := { o_cls : cls; o_frozen : bool; o_kind : Z; o_attrs : attrs }.   (* o_kind: the message type *)
Definition heap := list obj.
Definition loc := nat.

Fixpoint aget (a : Z) (l : attrs) : option Z := match l with [] => None | (k, v) :: r => if k =? a then Some v else aget a r end.
Fixpoint aset (a v : Z) (l : attrs) : attrs := match l with [] => [] | (k, w) :: r => if k =? a then (k, v) :: r else (k, w) :: aset a v r end.
Fixpoint hset (h : heap) (l : loc) (o : obj) : heap :=
  match h, l with [], _ => [] | _ :: r, O => o :: r | x :: r, S k => x :: hset r k o end.

(* a reference: None is Python's None *)
Definition ref := option loc.

(* msg.copy(overrides...) for overrides that are valid for the type: a new object of the same class (frozen stays frozen) *)
Definition do_copy (h : heap) (l : loc) (ovs : attrs) : heap * res ref :=
  match nth_error h l with
  | None => (h, Raise AttributeError)
  | Some o =>
      if forallb (fun kv => match aget (fst kv) (o_attrs o) with Some _ => true | None => false end) ovs
      then (h ++ [{| o_cls := o_cls o; o_frozen := o_frozen o; o_kind := o_kind o;
                     o_attrs := fold_left (fun acc kv => aset (fst kv) (snd kv) acc) ovs (o_attrs o) |}], Ok (Some (length h)))
      else (h, Raise ValueError)
  end.

(* freeze_message(x) *)
Definition do_freeze (h : heap) (r : ref) : heap * res ref :=
  match r with
  | None => (h, Ok None)
  | Some l => match nth_error h l with
              | None => (h, Raise ValueError)
              | Some o => if o_frozen o then (h, Ok (Some l))
                          else (h ++ [{| o_cls := o_cls o; o_frozen := true; o_kind := o_kind o; o_attrs := o_attrs o |}], Ok (Some (length h)))
              end
  end.
(* thaw_message(x): None first; an unfrozen message gives a copy *)
Definition do_thaw (h : heap) (r : ref) : heap * res ref :=
  match r with
  | None => (h, Ok None)
  | Some l => match nth_error h l with
              | None => (h, Raise ValueError)
              | Some o => (h ++ [{| o_cls := o_cls o; o_frozen := false; o_kind := o_kind o; o_attrs := o_attrs o |}], Ok (Some (length h)))
              end
  end.
(* msg.<a> = v for an in-range value: frozen objects refuse; unknown attributes refuse *)
Definition do_set (h : heap) (l : loc) (a v : Z) : heap * res unit :=
  match nth_error h l with
  | None => (h, Raise AttributeError)
  | Some o => if o_frozen o then (h, Raise ValueError)
              else match aget a (o_attrs o) with
                   | None => (h, Raise AttributeError)
                   | Some _ => (hset h l {| o_cls := o_cls o; o_frozen := false; o_kind := o_kind o; o_attrs := aset a v (o_attrs o) |}, Ok tt)
                   end
  end.
(* del msg.<a> *)
Definition do_del (h : heap) (l : loc) (a : Z) : heap * res unit := (h, Raise AttributeError).

(* hash(frozen): a function of the sorted attribute items; equality of messages is equality of vars() *)
Fixpoint insert_kv (kv : Z * Z) (l : attrs) : attrs :=
  match l with [] => [kv] | x :: r => if fst kv <=? fst x then kv :: x :: r else x :: insert_kv kv r end.
Definition sort_kv (l : attrs) : attrs := fold_right insert_kv [] l.
Definition hash_key (o : obj) : Z * attrs := (o_kind o, sort_kv (o_attrs o)).
Definition obj_eq (a b : obj) : Prop := o_kind a = o_kind b /\ o_attrs a = o_attrs b.     (* BaseMessage.__eq__: vars(a) == vars(b) *)
