(* TempoFloat.v — tick2second / second2tick / MidiFile.__iter__ in binary64 (PrimFloat), bit-exact with CPython's
   float arithmetic; evaluated by the kernel only (vm_compute), not extracted. *)
From Coq Require Import PrimFloat Uint63 ZArith QArith Qround List.
Require Import Mido.Model.Tempo.
Import ListNotations.

(* int -> float as Python does it (exact below 2^53, round-half-even above; here for 0 <= z < 2^63) *)
Definition of_Z (z : Z) : float := if (z <? 0)%Z then (- of_uint63 (Uint63.of_Z (- z)))%float else of_uint63 (Uint63.of_Z z).

(* exact rational value of a finite binary64 *)
Definition f2q (f : float) : option Q :=
  match classify f with
  | FloatClass.PInf | FloatClass.NInf | FloatClass.NaN => None
  | FloatClass.PZero | FloatClass.NZero => Some 0%Q
  | _ =>
    let '(m, e) := frshiftexp (abs f) in
    let mant := Uint63.to_Z (normfr_mantissa m) in
    let ex := (Uint63.to_Z e - 2101 - 53)%Z in
    let mag := if (0 <=? ex)%Z then (inject_Z (mant * 2 ^ ex)) else (mant # (Z.to_pos (2 ^ (- ex)))) in
    Some (if PrimFloat.ltb f 0%float then Qopp mag else mag)
  end.

(* scale = tempo * 1e-6 / ticks_per_beat ;  tick * scale.  0x1.0c6f7a0b5ed8dp-20 is the binary64 nearest to 1e-6 *)
Definition scale_f (tpb tempo : Z) : float := (of_Z tempo * 0x1.0c6f7a0b5ed8dp-20 / of_Z tpb)%float.
Definition tick2second_f (tick tpb tempo : Z) : float := (of_Z tick * scale_f tpb tempo)%float.
(* int(round(second / scale)): Python's round() of a float is exact round-half-even on its value *)
Definition second2tick_f (second : float) (tpb tempo : Z) : option Z :=
  option_map round_half_even (f2q (second / scale_f tpb tempo)%float).

(* bpm2tempo(bpm, (n, d)) = int(round(60 * 1e6 / bpm * d / 4.)) and tempo2bpm(tempo, (n, d)) = 60 * 1e6 / tempo * d / 4. *)
Definition bpm2tempo_f (bpm : float) (den : Z) : option Z := option_map round_half_even (f2q (of_Z 60000000 / bpm * of_Z den / of_Z 4)%float).
Definition tempo2bpm_f (tempo den : Z) : float := (of_Z 60000000 / of_Z tempo * of_Z den / of_Z 4)%float.

(* __iter__: None stands for the int 0 that is yielded for a non-positive delta *)
Fixpoint iter_f (tpb tempo : Z) (ms : list pmsg) : list (option float) :=
  match ms with
  | [] => []
  | m :: r => (if (0 <? p_dt m)%Z then Some (tick2second_f (p_dt m) tpb tempo) else None) :: iter_f tpb (next_tempo tempo m) r
  end.
(* play's running sum: input_time += msg.time, starting from 0.0 *)
Fixpoint running_sum (acc : float) (l : list (option float)) : list float :=
  match l with
  | [] => []
  | x :: r => let acc' := match x with Some f => (acc + f)%float | None => (acc + 0)%float end in acc' :: running_sum acc' r
  end.

(* ---- wire: a float as [sign; mantissa; exponent] with value = (-1)^sign * mantissa * 2^exponent, mantissa < 2^53; 0 as [0;0;0];
        non-finite as [9;0;0] ---- *)
Definition out_float (f : float) : list Z :=
  match classify f with
  | FloatClass.PInf | FloatClass.NInf | FloatClass.NaN => [9; 0; 0]%Z
  | FloatClass.PZero | FloatClass.NZero => [0; 0; 0]%Z
  | _ => let '(m, e) := frshiftexp (abs f) in
         [if PrimFloat.ltb f 0%float then 1 else 0; Uint63.to_Z (normfr_mantissa m); Uint63.to_Z e - 2101 - 53]%Z
  end.
Definition in_float (s mant ex : Z) : float :=
  let f := ldshiftexp (of_uint63 (Uint63.of_Z mant)) (Uint63.of_Z (ex + 2101)) in
  if (s =? 1)%Z then (- f)%float else f.

Fixpoint in_pmsgs (n : nat) (l : list Z) : list pmsg :=
  match n, l with
  | S k, dt :: t :: r => {| p_dt := dt; p_tempo := if (t <? 0)%Z then None else Some t; p_meta := false |} :: in_pmsgs k r
  | _, _ => []
  end.
Definition run_tempo_float (inp : list Z) : list Z :=
  match inp with
  | [0; tick; tpb; tempo] => out_float (tick2second_f tick tpb tempo)
  | [1; s; mant; ex; tpb; tempo] => match second2tick_f (in_float s mant ex) tpb tempo with Some n => [0; n] | None => [-1; 0] end
  | 2 :: tpb :: n :: r =>
      let ds := iter_f tpb DEFAULT_TEMPO (in_pmsgs (Z.to_nat n) r) in
      flat_map (fun o => match o with Some f => 1 :: out_float f | None => [0] end) ds
      ++ [-9] ++ flat_map out_float (running_sum 0%float ds)
  | [3; tick; tpb; tempo] => match second2tick_f (tick2second_f tick tpb tempo) tpb tempo with Some n => [0; n] | None => [-1; 0] end
  | [4; s; mant; ex; den] => match bpm2tempo_f (in_float s mant ex) den with Some n => [0; n] | None => [-1; 0] end
  | [5; tempo; den] => out_float (tempo2bpm_f tempo den)
  | _ => [-2]
  end%Z.
