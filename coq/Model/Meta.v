(* Meta.v — model of mido/midifiles/meta.py: meta message values, their payload codec, MetaMessage.bytes,
   MetaMessage.from_bytes and build_meta_message (the decoder used when reading a track). *)
From Coq Require Import ZArith List Bool.
Require Import Mido.Model.Base Mido.Model.Varint.
Import ListNotations.
Open Scope Z_scope.

(* a text codec (str.encode / bytes.decode for one charset) over code points / bytes *)
Record codec := { c_enc : list Z -> res (list Z); c_dec : list Z -> res (list Z) }.
Definition latin1 : codec :=
  {| c_enc := fun t => if forallb byte8 t then Ok t else Raise ValueError;    (* UnicodeEncodeError is a ValueError *)
     c_dec := fun bs => Ok bs |}.
Definition ascii : codec :=
  {| c_enc := fun t => if forallb byte7 t then Ok t else Raise ValueError;
     c_dec := fun bs => if forallb byte7 bs then Ok bs else Raise ValueError |}.

Inductive meta :=
| MSeqNum (n : Z)
| MText (tb : Z) (t : list Z)       (* text, copyright, track_name, instrument_name, lyrics, marker, cue_marker, device_name *)
| MChanPrefix (c : Z)
| MPort (p : Z)
| MEot
| MTempo (t : Z)
| MSmpte (fr h m s f sf : Z)         (* fr: index of the frame rate in (24, 25, 29.97, 30) *)
| MTimeSig (n d c b : Z)             (* d: the denominator itself *)
| MKeySig (sf mode : Z)              (* the key as (sharps(+)/flats(-), 0 = major / 1 = minor) *)
| MSeqSpec (d : list Z)
| MUnknown (tb : Z) (d : list Z).    (* UnknownMetaMessage *)

Definition is_text_type (tb : Z) : bool := ((1 <=? tb) && (tb <=? 7)) || (tb =? 9).
Definition type_byte (x : meta) : Z :=
  match x with
  | MSeqNum _ => 0 | MText tb _ => tb | MChanPrefix _ => 32 | MPort _ => 33 | MEot => 47 | MTempo _ => 81
  | MSmpte _ _ _ _ _ _ => 84 | MTimeSig _ _ _ _ => 88 | MKeySig _ _ => 89 | MSeqSpec _ => 127 | MUnknown tb _ => tb
  end.
Definition known_type (tb : Z) : bool :=
  (tb =? 0) || is_text_type tb || (tb =? 32) || (tb =? 33) || (tb =? 47) || (tb =? 81) || (tb =? 84) || (tb =? 88) || (tb =? 89) || (tb =? 127).

Definition in_rng (lo hi x : Z) : bool := (lo <=? x) && (x <=? hi).
Definition is_pow2 (d : Z) : bool := (0 <? d) && (Z.land d (d - 1) =? 0).

(* what the constructor / attribute assignment accepts (documented domains) *)
Definition meta_ok (x : meta) : bool :=
  match x with
  | MSeqNum n => in_rng 0 65535 n
  | MText tb t => is_text_type tb
  | MChanPrefix c => in_rng 0 255 c
  | MPort p => in_rng 0 255 p
  | MEot => true
  | MTempo t => in_rng 0 16777215 t
  | MSmpte fr h m s f sf => in_rng 0 3 fr && in_rng 0 255 h && in_rng 0 59 m && in_rng 0 59 s && in_rng 0 255 f && in_rng 0 99 sf
  | MTimeSig n d c b => in_rng 0 255 n && in_rng 1 (2 ^ 255) d && is_pow2 d && in_rng 0 255 c && in_rng 0 255 b
  | MKeySig sf mode => in_rng (-7) 7 sf && in_rng 0 1 mode
  | MSeqSpec d => forallb byte8 d
  | MUnknown tb d => true
  end.

(* spec.encode(message) *)
Definition meta_payload (cs : codec) (x : meta) : res (list Z) :=
  match x with
  | MSeqNum n => Ok [Z.shiftr n 8; Z.land n 255]
  | MText _ t => c_enc cs t
  | MChanPrefix c => Ok [c]
  | MPort p => Ok [p]
  | MEot => Ok []
  | MTempo t => Ok [Z.shiftr t 16; Z.land (Z.shiftr t 8) 255; Z.land t 255]
  | MSmpte fr h m s f sf => Ok [Z.lor (Z.shiftl fr 5) h; m; s; f; sf]
  | MTimeSig n d c b => Ok [n; Z.log2 d; c; b]
  | MKeySig sf mode => Ok [sf mod 256; mode]
  | MSeqSpec d => Ok d
  | MUnknown _ d => Ok d
  end.

(* MetaMessage.bytes() *)
Definition meta_bytes (cs : codec) (x : meta) : res (list Z) :=
  p <- meta_payload cs x ;; Ok (255 :: type_byte x :: enc_varint (zlen p) ++ p).

(* assignments inside spec.decode go through the attribute checks *)
Definition chk (lo hi x : Z) {A} (k : res A) : res A := if in_rng lo hi x then k else Raise ValueError.
Definition idx (d : list Z) (i : nat) : res Z := match nth_error d i with Some x => Ok x | None => Raise IndexError end.

(* build_meta_message(meta_type, data): the known specs decode (and check), anything else is UnknownMetaMessage *)
Definition meta_decode (cs : codec) (ty : Z) (data : list Z) : res meta :=
  if ty =? 0 then
    match data with
    | [] => Ok (MSeqNum 0)
    | _ => d0 <- idx data 0 ;; d1 <- idx data 1 ;; let n := Z.lor (Z.shiftl d0 8) d1 in chk 0 65535 n (Ok (MSeqNum n))
    end
  else if is_text_type ty then (t <- c_dec cs data ;; Ok (MText ty t))
  else if ty =? 32 then (d0 <- idx data 0 ;; chk 0 255 d0 (Ok (MChanPrefix d0)))
  else if ty =? 33 then
    match data with [] => Ok (MPort 0) | d0 :: _ => chk 0 255 d0 (Ok (MPort d0)) end
  else if ty =? 47 then Ok MEot
  else if ty =? 81 then
    (d0 <- idx data 0 ;; d1 <- idx data 1 ;; d2 <- idx data 2 ;;
     let t := Z.lor (Z.lor (Z.shiftl d0 16) (Z.shiftl d1 8)) d2 in chk 0 16777215 t (Ok (MTempo t)))
  else if ty =? 84 then
    (d0 <- idx data 0 ;;
     let fr := Z.shiftr d0 5 in
     if in_rng 0 3 fr then
       let h := Z.land d0 31 in
       chk 0 255 h (m <- idx data 1 ;; chk 0 59 m (s <- idx data 2 ;; chk 0 59 s (f <- idx data 3 ;; chk 0 255 f
         (sf <- idx data 4 ;; chk 0 99 sf (Ok (MSmpte fr h m s f sf))))))
     else Raise KeyError)
  else if ty =? 88 then
    (n <- idx data 0 ;; chk 0 255 n (e <- idx data 1 ;;
       let d := 2 ^ e in
       (if in_rng 1 (2 ^ 255) d && is_pow2 d then (fun k => k) else (fun _ => Raise ValueError))
         (c <- idx data 2 ;; chk 0 255 c (b <- idx data 3 ;; chk 0 255 b (Ok (MTimeSig n d c b))))))
  else if ty =? 89 then
    (d0 <- idx data 0 ;; mode <- idx data 1 ;;
     let sf := if d0 <? 128 then d0 else d0 - 256 in          (* signed('byte', data[0]) *)
     if in_rng (-7) 7 sf && in_rng 0 1 mode then Ok (MKeySig sf mode) else Raise KeySigError)
  else if ty =? 127 then (if forallb byte8 data then Ok (MSeqSpec data) else Raise ValueError)
  else Ok (MUnknown ty data).

(* MetaMessage.from_bytes: tries ever longer prefixes of the bytes after the type as the length field, skipping
   prefixes that end in a continuation byte, until the decoded length equals the number of bytes that follow *)
Fixpoint scan_length (lenbytes : list Z) (rest : list Z) : res (list Z) :=
  match rest with
  | [] => Raise ValueError
  | b :: r =>
      let ld := lenbytes ++ [b] in
      if 128 <=? b then scan_length ld r
      else if decode_variable_int ld =? zlen r then Ok r else scan_length ld r
  end.
Definition meta_from_bytes (cs : codec) (bs : list Z) : res meta :=
  match bs with
  | [] => Raise IndexError
  | b0 :: r =>
      if negb (b0 =? 255) then Raise ValueError
      else match r with
           | [] => Raise ValueError
           | ty :: r' => data <- scan_length [] r' ;; meta_decode cs ty data
           end
  end.

(* the accepted values that decode back to themselves: all of them except SMPTE hours above 31 (they spill into the
   frame-rate bits) and UnknownMetaMessage objects carrying a known type byte or items that are not bytes *)
Definition meta_rt_b (x : meta) : bool :=
  meta_ok x &&
  match x with
  | MSmpte _ h _ _ _ _ => h <=? 31
  | MUnknown tb d => negb (known_type tb) && in_rng 0 255 tb && forallb byte8 d
  | _ => true
  end.
