(* Tempo.v — model of MidiFile.__iter__ / length / play (midifiles.py) and tick2second / second2tick (units.py),
   exact arithmetic.  Seconds are rationals with the common denominator 10^6 * ticks_per_beat, so the time of an
   event is carried as its numerator: (ticks * tempo) summed, in "microsecond-ticks". *)
From Coq Require Import ZArith QArith Qround List Bool.
Require Import Mido.Model.Base.
Import ListNotations.
Open Scope Z_scope.

(* a message of the merged track as playback sees it: delta ticks, the tempo it sets if it is a set_tempo, is it a meta message *)
Record pmsg := { p_dt : Z; p_tempo : option Z; p_meta : bool }.
Definition DEFAULT_TEMPO : Z := 500000.
Definition next_tempo (tempo : Z) (m : pmsg) : Z := match p_tempo m with Some t => t | None => tempo end.

(* MidiFile.__iter__: numerators of the yielded delta times; the tempo changes only AFTER the set_tempo message is yielded *)
Fixpoint iter_num (tempo : Z) (ms : list pmsg) : list Z :=
  match ms with
  | [] => []
  | m :: r => (if 0 <? p_dt m then p_dt m * tempo else 0) :: iter_num (next_tempo tempo m) r
  end.
Definition seconds (tpb : Z) (num : Z) : Q := num # (Z.to_pos (1000000 * tpb)).
Definition length_num (ms : list pmsg) : Z := fold_right Z.add 0 (iter_num DEFAULT_TEMPO ms).

(* the tempo map, stated independently: the tempo in force for the delta that leads to message k is the one set by the last
   set_tempo among messages 0..k-1 (500000 if there is none) *)
Definition tempo_before (ms : list pmsg) (k : nat) : Z := fold_left next_tempo (firstn k ms) DEFAULT_TEMPO.
Definition abs_tick (ms : list pmsg) (k : nat) : Z := fold_right Z.add 0 (map p_dt (firstn (S k) ms)).
(* the integral of the tempo map from tick 0 to the absolute tick of message k *)
Definition integral_num (ms : list pmsg) (k : nat) : Z :=
  fold_right Z.add 0 (map (fun j => p_dt (nth j ms {| p_dt := 0; p_tempo := None; p_meta := false |}) * tempo_before ms j) (seq 0 (S k))).

(* tick2second / second2tick, exact *)
Definition tick2second_q (tick tpb tempo : Z) : Q := (inject_Z tick * ((inject_Z tempo * (1 # 1000000)) / inject_Z tpb))%Q.
(* round half to even, as Python's round() *)
Definition round_half_even (x : Q) : Z :=
  let f := Qfloor x in
  let d := (x - inject_Z f)%Q in
  match Qcompare d (1 # 2) with
  | Lt => f
  | Gt => f + 1
  | Eq => if Z.even f then f else f + 1
  end%Z.
Definition second2tick_q (second : Q) (tpb tempo : Z) : Z := round_half_even (second / ((inject_Z tempo * (1 # 1000000)) / inject_Z tpb))%Q.

(* ---- play(): the supplied clock only moves by what play sleeps (plus an oversleep eps >= 0) and by what the consumer holds
   a message (hold >= 0).  Times are integers in one arbitrary fixed unit (any finite set of rational times has one). ---- *)
Record ptick := { q_delta : Z; q_meta : bool }.
(* returns the list of (index, clock at which the message is yielded) *)
Fixpoint play (meta_messages : bool) (start clock input_time : Z) (k : nat) (ms : list ptick) (eps holds : list Z) : list (nat * Z) :=
  match ms with
  | [] => []
  | m :: r =>
      let input_time' := input_time + q_delta m in
      let playback := clock - start in
      let dur := input_time' - playback in
      let clock1 := if 0 <? dur then clock + dur + hd 0 eps else clock in          (* time.sleep(duration_to_next_event) *)
      let eps' := if 0 <? dur then tl eps else eps in
      if q_meta m && negb meta_messages
      then play meta_messages start clock1 input_time' (S k) r eps' holds
      else (k, clock1) :: play meta_messages start (clock1 + hd 0 holds) input_time' (S k) r eps' (tl holds)
  end.
(* the scheduled time of every message: cumulative delta *)
Fixpoint sched (acc : Z) (ms : list ptick) : list Z :=
  match ms with [] => [] | m :: r => (acc + q_delta m) :: sched (acc + q_delta m) r end.
