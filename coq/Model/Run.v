(* Run.v — dispatcher of the correspondence protocol: component id, input integers -> output integers. *)
From Coq Require Import ZArith List Bool.
Require Import Mido.Model.Base Mido.Model.Codec Mido.Model.Wire.
Import ListNotations.
Open Scope Z_scope.

Definition run (comp : Z) (inp : list Z) : list Z :=
  if comp =? 1 then run_codec inp
  else if comp =? 2 then run_hex inp
  else if comp =? 3 then run_from_hex inp
  else if comp =? 4 then run_dec inp
  else if comp =? 5 then run_dec_unfixed inp
  else if comp =? 6 then run_dec_items inp
  else if comp =? 10 then run_parse inp
  else if comp =? 11 then run_tokens inp
  else if comp =? 12 then run_parser_ops inp
  else if comp =? 13 then run_pqueue_ops inp
  else if comp =? 14 then run_iter_ops inp
  else if comp =? 20 then run_ctor inp
  else if comp =? 21 then run_history inp
  else if comp =? 30 then run_syx_write inp
  else if comp =? 31 then run_syx_read inp
  else if comp =? 40 then run_save inp
  else if comp =? 41 then run_load inp
  else if comp =? 42 then run_meta_bytes inp
  else if comp =? 43 then run_meta_from_bytes inp
  else if comp =? 44 then run_varint inp
  else if comp =? 45 then run_meta_ok inp
  else if comp =? 50 then run_ref_decode inp
  else if comp =? 51 then run_enc_with inp
  else if comp =? 52 then run_raw_of inp
  else if comp =? 60 then run_merge inp
  else if comp =? 70 then run_iter_num inp
  else if comp =? 71 then run_play inp
  else if comp =? 61 then run_file_hist inp
  else if comp =? 62 then run_heap_hist inp
  else if comp =? 80 then run_msg2str inp
  else if comp =? 81 then run_parse_string inp
  else if comp =? 82 then run_parse_stream inp
  else if comp =? 90 then run_backend inp
  else if comp =? 100 then run_port inp
  else if comp =? 101 then run_multi inp
  else if comp =? 102 then run_ioport inp
  else if comp =? 110 then run_sock inp
  else if comp =? 120 then run_conc inp
  else if comp =? 121 then run_conc_multi inp
  else if comp =? 122 then run_send_copy inp
  else if comp =? 123 then run_conc_fan inp
  else if comp =? 126 then run_conc_mix inp
  else if comp =? 127 then run_conc_helpers inp
  else if comp =? 124 then run_conc_close inp
  else if comp =? 125 then run_conc_pq inp
  else if comp =? 111 then run_server inp
  else if comp =? 112 then run_addr_format inp
  else if comp =? 113 then run_addr_parse inp
  else [-3].
