(* ConcClose.v — close() called from several threads (mido/ports.py: BasePort.close: under the port's lock, 'if not self.closed:' reset when
   autoreset, self._close(), self.closed = True).  One step = one access to the lock, the closed flag or the device.  The device's _close is
   counted; [n_locking] = false is the variant without the lock (or with the closed test outside it). *)
From Coq Require Import List Bool Arith.
Import ListNotations.

Inductive cpc :=
| KStart                (* acquire the lock *)
| KCheck                (* read self.closed *)
| KRelease              (* the device's _close() *)
| KSet                  (* self.closed = True *)
| KUnlock               (* leave 'with self._lock' *)
| KDone.

Record cstate := { k_lock : option nat; k_closed : bool; k_releases : nat }.
Definition ccfg := (cstate * (nat -> cpc))%type.

Definition kupd (ts : nat -> cpc) (t : nat) (p : cpc) : nat -> cpc := fun u => if Nat.eqb u t then p else ts u.

Definition kstep (locking : bool) (cf : ccfg) (t : nat) : ccfg :=
  let '(s, ts) := cf in
  match ts t with
  | KStart =>
      if locking then
        match k_lock s with
        | None => ({| k_lock := Some t; k_closed := k_closed s; k_releases := k_releases s |}, kupd ts t KCheck)
        | Some _ => cf                                   (* blocked *)
        end
      else (s, kupd ts t KCheck)
  | KCheck => (s, kupd ts t (if k_closed s then KUnlock else KRelease))
  | KRelease => ({| k_lock := k_lock s; k_closed := k_closed s; k_releases := S (k_releases s) |}, kupd ts t KSet)
  | KSet => ({| k_lock := k_lock s; k_closed := true; k_releases := k_releases s |}, kupd ts t KUnlock)
  | KUnlock => ({| k_lock := (if locking then None else k_lock s); k_closed := k_closed s; k_releases := k_releases s |}, kupd ts t KDone)
  | KDone => cf
  end.
Definition krun (locking : bool) (sched : list nat) (cf : ccfg) : ccfg := fold_left (kstep locking) sched cf.
Definition kinit : ccfg := ({| k_lock := None; k_closed := false; k_releases := 0 |}, fun _ => KStart).
