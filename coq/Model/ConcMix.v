(* ConcMix.v — threads on a MultiPort over EchoPorts, ANY mix of uses (mido/ports.py: BaseOutput.send, BaseInput.receive / iter_pending,
   MultiPort._send, MultiPort._receive, multi_receive, EchoPort._send): every thread may send on the MultiPort (which passes the
   message on to every sub-port), send on a sub-port, receive or iterate on the MultiPort (which first sweeps what is pending on the
   sub-ports into its own deque) and receive or iterate on a sub-port, all at once.  ConcMulti.v (senders on the sub-ports, receivers
   on the MultiPort) and ConcFan.v (the other way round) are the two pure cases of it.  Same granularity: one step of a thread = one
   access to a lock, a deque or sleep.  Port 0 is the MultiPort, port i+1 the i-th sub-port; each has its own RLock and deque. *)
From Coq Require Import ZArith List Bool Arith.
Require Import Mido.Model.Base Mido.Model.Codec Mido.Model.Conc Mido.Model.ConcMulti.
Import ListNotations.

Inductive xop := XSend (port : nat) (m : msg) | XRecv (port : nat) (block : bool) | XIterP (port : nat) (acc : list msg).

(* the accesses of one BaseInput.receive on one port: 'with lock: if messages: return popleft()' and then the polling loop
   'with lock: [_receive]; if messages: return popleft(); elif not block: return None' / sleep *)
Inductive rph := PAcq1 | PBool1 | PPop1 | PRel1 (r : option msg) | PAcq2 | PBool2 | PPop2 | PRel2 (r : option msg) (slp : bool) | PSleep.

Inductive xpc :=
| XStart                                   (* acquire the lock the head operation needs *)
| XSub (i : nat) (m : msg)                 (* MultiPort._send, holding lock 0: call send on sub-port i = acquire its lock *)
| XApp (via : bool) (i : nat) (m : msg)    (* EchoPort._send on sub-port i: append ([via]: called from MultiPort._send) *)
| XRelSub (via : bool) (i : nat) (m : msg) (* leave the sub-port's 'with self._lock' *)
| XRel0                                    (* leave the MultiPort's 'with self._lock' in send *)
| XPoll (i : nat) (p : rph)                (* inside receive on sub-port i, called by the thread itself *)
| XM (p : rph)                             (* inside receive on the MultiPort *)
| XSweep (i : nat) (p : rph) (acc : list msg)   (* inside MultiPort._receive, holding lock 0: polling sub-port i *)
| XExtend (acc : list msg)                 (* self._messages.extend(collected) *)
| XRaised (e : exn).

Record xthread := { xprog : list xop; xat : xpc; xresults : list result }.
Record xshared := {
  xlk : nat -> option tid; xq : nat -> list msg; xsleeps : nat; xnsubs : nat;
  (* ghosts *)
  xapp : nat -> list (tid * msg);               (* per deque: everything ever added to it, with the adding thread, in order *)
  xpops : list (nat * (tid * (bool * msg)))     (* every pop, in order: deque, popping thread, whether inside a sweep, message *)
}.
Definition xcfg := (xshared * (tid -> xthread))%type.

Definition xupd (ts : tid -> xthread) (t : tid) (th : xthread) : tid -> xthread := fun u => if Nat.eqb u t then th else ts u.
Definition xset_pc (th : xthread) (p : xpc) : xthread := {| xprog := xprog th; xat := p; xresults := xresults th |}.
Definition x_can (s : xshared) (l : nat) (t : tid) : bool := match xlk s l with None => true | Some o => Nat.eqb o t end.
Definition x_set_lock (s : xshared) (l : nat) (o : option tid) : xshared :=
  {| xlk := updf (xlk s) l o; xq := xq s; xsleeps := xsleeps s; xnsubs := xnsubs s; xapp := xapp s; xpops := xpops s |}.
Definition x_append (s : xshared) (t : tid) (l : nat) (ms : list msg) : xshared :=
  {| xlk := xlk s; xq := updf (xq s) l (xq s l ++ ms); xsleeps := xsleeps s; xnsubs := xnsubs s;
     xapp := updf (xapp s) l (xapp s l ++ map (fun m => (t, m)) ms); xpops := xpops s |}.
Definition x_pop (s : xshared) (t : tid) (l : nat) (sw : bool) (m : msg) (r : list msg) : xshared :=
  {| xlk := xlk s; xq := updf (xq s) l r; xsleeps := xsleeps s; xnsubs := xnsubs s; xapp := xapp s; xpops := xpops s ++ [(l, (t, (sw, m)))] |}.
Definition x_sleep (s : xshared) : xshared :=
  {| xlk := xlk s; xq := xq s; xsleeps := S (xsleeps s); xnsubs := xnsubs s; xapp := xapp s; xpops := xpops s |}.

(* the head operation is over *)
Definition x_finish_recv (th : xthread) (r : option msg) : xthread :=
  match xprog th with
  | XIterP i acc :: rest =>
      match r with
      | Some m => {| xprog := XIterP i (acc ++ [m]) :: rest; xat := XStart; xresults := xresults th |}
      | None => {| xprog := rest; xat := XStart; xresults := xresults th ++ [RList acc] |}
      end
  | _ => {| xprog := tl (xprog th); xat := XStart; xresults := xresults th ++ [RGot r] |}
  end.
Definition x_is_block (th : xthread) : bool := match xprog th with XRecv _ b :: _ => b | _ => false end.
Definition x_finish_send (th : xthread) : xthread := {| xprog := tl (xprog th); xat := XStart; xresults := xresults th ++ [RSent] |}.
Definition x_next (s : xshared) (i : nat) (m : msg) : xpc := if Nat.ltb (S i) (xnsubs s) then XSub (S i) m else XRel0.
Definition x_next_sweep (s : xshared) (i : nat) (acc : list msg) : xpc := if Nat.ltb (S i) (xnsubs s) then XSweep (S i) PAcq1 acc else XExtend acc.

(* one access of a receive on deque l by thread t ([sw]: inside a sweep; [blk]: a blocking receive): the new shared state, and either
   the next access of this receive or what it returns *)
Definition rstep (s : xshared) (t : tid) (l : nat) (sw blk : bool) (p : rph) : option (xshared * (rph + option msg)) :=
  match p with
  | PAcq1 => if x_can s l t then Some (x_set_lock s l (Some t), inl PBool1) else None
  | PBool1 => Some (s, inl (match xq s l with [] => PRel1 None | _ => PPop1 end))
  | PPop1 => match xq s l with
             | [] => None                                   (* popleft() of an empty deque: IndexError, see xstep_thread *)
             | m :: r => Some (x_pop s t l sw m r, inl (PRel1 (Some m)))
             end
  | PRel1 r => Some (x_set_lock s l None, match r with Some m => inr (Some m) | None => inl PAcq2 end)
  | PAcq2 => if x_can s l t then Some (x_set_lock s l (Some t), inl PBool2) else None
  | PBool2 => Some (s, inl (match xq s l with [] => PRel2 None blk | _ => PPop2 end))
  | PPop2 => match xq s l with
             | [] => None
             | m :: r => Some (x_pop s t l sw m r, inl (PRel2 (Some m) false))
             end
  | PRel2 r slp => Some (x_set_lock s l None, match r with Some m => inr (Some m) | None => if slp then inl PSleep else inr None end)
  | PSleep => Some (x_sleep s, inl PAcq2)
  end.
Definition pops_empty (s : xshared) (l : nat) (p : rph) : bool :=
  match p, xq s l with PPop1, [] | PPop2, [] => true | _, _ => false end.

Definition xstep_thread (s : xshared) (t : tid) (th : xthread) : option (xshared * xthread) :=
  match xat th with
  | XStart =>
      match xprog th with
      | [] => None
      | XSend 0 m :: _ => if x_can s 0 t then Some (x_set_lock s 0 (Some t), xset_pc th (if Nat.ltb 0 (xnsubs s) then XSub 0 m else XRel0)) else None
      | XSend (S i) m :: _ => if x_can s (S i) t then Some (x_set_lock s (S i) (Some t), xset_pc th (XApp false i m)) else None
      | XRecv 0 _ :: _ | XIterP 0 _ :: _ => if x_can s 0 t then Some (x_set_lock s 0 (Some t), xset_pc th (XM PBool1)) else None
      | XRecv (S i) _ :: _ | XIterP (S i) _ :: _ => if x_can s (S i) t then Some (x_set_lock s (S i) (Some t), xset_pc th (XPoll i PBool1)) else None
      end
  | XSub i m => if x_can s (S i) t then Some (x_set_lock s (S i) (Some t), xset_pc th (XApp true i m)) else None
  | XApp via i m => Some (x_append s t (S i) [m], xset_pc th (XRelSub via i m))
  | XRelSub via i m => Some (x_set_lock s (S i) None, if via then xset_pc th (x_next s i m) else x_finish_send th)
  | XRel0 => Some (x_set_lock s 0 None, x_finish_send th)
  | XPoll i p =>
      if pops_empty s (S i) p then Some (s, xset_pc th (XRaised IndexError)) else
      match rstep s t (S i) false (x_is_block th) p with
      | None => None
      | Some (s', inl p') => Some (s', xset_pc th (XPoll i p'))
      | Some (s', inr r) => Some (s', x_finish_recv th r)
      end
  | XM PAcq2 =>                 (* the polling loop of MultiPort.receive: under its lock, _receive sweeps the sub-ports *)
      if x_can s 0 t then Some (x_set_lock s 0 (Some t), xset_pc th (if Nat.ltb 0 (xnsubs s) then XSweep 0 PAcq1 [] else XExtend [])) else None
  | XM p =>
      if pops_empty s 0 p then Some (s, xset_pc th (XRaised IndexError)) else
      match rstep s t 0 false (x_is_block th) p with
      | None => None
      | Some (s', inl p') => Some (s', xset_pc th (XM p'))
      | Some (s', inr r) => Some (s', x_finish_recv th r)
      end
  | XSweep i p acc =>
      if pops_empty s (S i) p then Some (s, xset_pc th (XRaised IndexError)) else
      match rstep s t (S i) true false p with
      | None => None
      | Some (s', inl p') => Some (s', xset_pc th (XSweep i p' acc))
      | Some (s', inr (Some m)) => Some (s', xset_pc th (XSweep i PAcq1 (acc ++ [m])))     (* iter_pending polls again *)
      | Some (s', inr None) => Some (s', xset_pc th (x_next_sweep s' i acc))
      end
  | XExtend acc => Some (x_append s t 0 acc, xset_pc th (XM PBool2))
  | XRaised _ => None
  end.

Definition xstep (cf : xcfg) (t : tid) : xcfg :=
  let '(s, ts) := cf in
  match xstep_thread s t (ts t) with
  | None => cf
  | Some (s', th') => (s', xupd ts t th')
  end.
Definition xrun (sched : list tid) (cf : xcfg) : xcfg := fold_left xstep sched cf.

Definition xinit (n : nat) (progs : tid -> list xop) : xcfg :=
  ({| xlk := fun _ => None; xq := fun _ => []; xsleeps := 0; xnsubs := n; xapp := fun _ => []; xpops := [] |},
   fun t => {| xprog := progs t; xat := XStart; xresults := [] |}).
