(* Codec.v — model of mido/messages/{specs,encode,decode}.py and Message.__len__/hex/from_hex.
   Definitions only; proofs are in Proofs/CodecProofs.v. *)
From Coq Require Import ZArith List Bool.
Require Import Mido.Model.Base.
Import ListNotations.
Open Scope Z_scope.

(* One constructor per message type (specs.SPECS).  Attributes are unbounded
   integers exactly as Python holds them; time is carried separately. *)
Inductive msg :=
| NoteOff (ch note vel : Z) | NoteOn (ch note vel : Z) | Polytouch (ch note value : Z)
| ControlChange (ch control value : Z) | ProgramChange (ch program : Z) | Aftertouch (ch value : Z)
| Pitchwheel (ch pitch : Z)
| Sysex (data : list Z) | QuarterFrame (ft fv : Z) | Songpos (pos : Z) | SongSelect (song : Z) | TuneRequest
| Clock | Start | Continue | Stop | ActiveSensing | Reset.

Inductive kind := KNoteOff | KNoteOn | KPolytouch | KControlChange | KProgramChange | KAftertouch | KPitchwheel
 | KSysex | KQuarterFrame | KSongpos | KSongSelect | KTuneRequest | KClock | KStart | KContinue | KStop | KActiveSensing | KReset.

Definition all_kinds : list kind :=
  [KNoteOff; KNoteOn; KPolytouch; KControlChange; KProgramChange; KAftertouch; KPitchwheel;
   KSysex; KQuarterFrame; KSongpos; KSongSelect; KTuneRequest; KClock; KStart; KContinue; KStop; KActiveSensing; KReset].

Definition kind_of (m : msg) : kind :=
  match m with
  | NoteOff _ _ _ => KNoteOff | NoteOn _ _ _ => KNoteOn | Polytouch _ _ _ => KPolytouch
  | ControlChange _ _ _ => KControlChange | ProgramChange _ _ => KProgramChange | Aftertouch _ _ => KAftertouch
  | Pitchwheel _ _ => KPitchwheel | Sysex _ => KSysex | QuarterFrame _ _ => KQuarterFrame | Songpos _ => KSongpos
  | SongSelect _ => KSongSelect | TuneRequest => KTuneRequest | Clock => KClock | Start => KStart
  | Continue => KContinue | Stop => KStop | ActiveSensing => KActiveSensing | Reset => KReset
  end.

(* index of the type in specs.SPECS; used by the line protocol and the generated tables *)
Definition kind_id (k : kind) : Z :=
  match k with
  | KNoteOff => 0 | KNoteOn => 1 | KPolytouch => 2 | KControlChange => 3 | KProgramChange => 4 | KAftertouch => 5
  | KPitchwheel => 6 | KSysex => 7 | KQuarterFrame => 8 | KSongpos => 9 | KSongSelect => 10 | KTuneRequest => 11
  | KClock => 12 | KStart => 13 | KContinue => 14 | KStop => 15 | KActiveSensing => 16 | KReset => 17
  end.

(* specs: status byte and length per type (SPECS), as functions *)
Definition status_base (k : kind) : Z :=
  match k with
  | KNoteOff => 128 | KNoteOn => 144 | KPolytouch => 160 | KControlChange => 176 | KProgramChange => 192
  | KAftertouch => 208 | KPitchwheel => 224 | KSysex => 240 | KQuarterFrame => 241 | KSongpos => 242
  | KSongSelect => 243 | KTuneRequest => 246 | KClock => 248 | KStart => 250 | KContinue => 251 | KStop => 252
  | KActiveSensing => 254 | KReset => 255
  end.

(* spec['length']; None = float('inf') (sysex) *)
Definition spec_length (k : kind) : option Z :=
  match k with
  | KSysex => None
  | KNoteOff | KNoteOn | KPolytouch | KControlChange | KPitchwheel | KSongpos => Some 3
  | KProgramChange | KAftertouch | KQuarterFrame | KSongSelect => Some 2
  | _ => Some 1
  end.

Definition is_channel_kind (k : kind) : bool :=
  match k with KNoteOff | KNoteOn | KPolytouch | KControlChange | KProgramChange | KAftertouch | KPitchwheel => true | _ => false end.

Definition chan (x : Z) : bool := (0 <=? x) && (x <=? 15).

(* the documented ranges (docs/message_types.rst), i.e. what "valid message" means *)
Definition valid (m : msg) : bool :=
  match m with
  | NoteOff c a b | NoteOn c a b | Polytouch c a b | ControlChange c a b => chan c && byte7 a && byte7 b
  | ProgramChange c a | Aftertouch c a => chan c && byte7 a
  | Pitchwheel c p => chan c && (-8192 <=? p) && (p <=? 8191)
  | Sysex d => forallb byte7 d
  | QuarterFrame ft fv => (0 <=? ft) && (ft <=? 7) && (0 <=? fv) && (fv <=? 15)
  | Songpos p => (0 <=? p) && (p <=? 16383)
  | SongSelect s => byte7 s
  | _ => true
  end.

Definition channel_of (m : msg) : option Z :=
  match m with
  | NoteOff c _ _ | NoteOn c _ _ | Polytouch c _ _ | ControlChange c _ _ | ProgramChange c _ | Aftertouch c _ | Pitchwheel c _ => Some c
  | _ => None
  end.

(* the status byte the MIDI 1.0 tables give a message: base + channel *)
Definition status_of (m : msg) : Z :=
  status_base (kind_of m) + match channel_of m with Some c => c | None => 0 end.

(* encode_message, as written: bit operators, no checks *)
Definition enc (m : msg) : list Z :=
  match m with
  | NoteOff c a b => [Z.lor 128 c; a; b]
  | NoteOn c a b => [Z.lor 144 c; a; b]
  | Polytouch c a b => [Z.lor 160 c; a; b]
  | ControlChange c a b => [Z.lor 176 c; a; b]
  | ProgramChange c a => [Z.lor 192 c; a]
  | Aftertouch c a => [Z.lor 208 c; a]
  | Pitchwheel c p => let q := p - (-8192) in [Z.lor 224 c; Z.land q 127; Z.shiftr q 7]
  | Sysex d => [240] ++ d ++ [247]
  | QuarterFrame ft fv => [241; Z.lor (Z.shiftl ft 4) fv]
  | Songpos p => [242; Z.land p 127; Z.shiftr p 7]
  | SongSelect s => [243; s]
  | TuneRequest => [246] | Clock => [248] | Start => [250] | Continue => [251] | Stop => [252]
  | ActiveSensing => [254] | Reset => [255]
  end.

(* independent statement of the MIDI 1.0 layout: arithmetic only *)
Definition std_enc (m : msg) : list Z :=
  match m with
  | NoteOff c a b => [128 + c; a; b]
  | NoteOn c a b => [144 + c; a; b]
  | Polytouch c a b => [160 + c; a; b]
  | ControlChange c a b => [176 + c; a; b]
  | ProgramChange c a => [192 + c; a]
  | Aftertouch c a => [208 + c; a]
  | Pitchwheel c p => [224 + c; (p + 8192) mod 128; (p + 8192) / 128]
  | Sysex d => 240 :: d ++ [247]
  | QuarterFrame ft fv => [241; 16 * ft + fv]
  | Songpos p => [242; p mod 128; p / 128]
  | SongSelect s => [243; s]
  | TuneRequest => [246] | Clock => [248] | Start => [250] | Continue => [251] | Stop => [252]
  | ActiveSensing => [254] | Reset => [255]
  end.

(* Message.__len__ *)
Definition msg_len (m : msg) : Z :=
  match m with
  | Sysex d => 2 + zlen d
  | _ => match spec_length (kind_of m) with Some n => n | None => 0 end
  end.

(* ---- decode_message ---- *)
Definition check_data (d : list Z) : res unit := if forallb byte7 d then Ok tt else Raise ValueError.
Definition nth_or_index (d : list Z) (i : nat) : res Z := match nth_error d i with Some x => Ok x | None => Raise IndexError end.
Definition fixed_len (d : list Z) (n : nat) {A} (k : res A) : res A := if Nat.eqb (length d) n then k else Raise ValueError.

(* SPEC_BY_STATUS as a function of the status byte *)
Definition kind_of_status (st : Z) : option kind :=
  if (st <? 128) || (255 <? st) then None
  else if st <? 144 then Some KNoteOff else if st <? 160 then Some KNoteOn else if st <? 176 then Some KPolytouch
  else if st <? 192 then Some KControlChange else if st <? 208 then Some KProgramChange else if st <? 224 then Some KAftertouch
  else if st <? 240 then Some KPitchwheel
  else if st =? 240 then Some KSysex else if st =? 241 then Some KQuarterFrame else if st =? 242 then Some KSongpos
  else if st =? 243 then Some KSongSelect else if st =? 246 then Some KTuneRequest else if st =? 248 then Some KClock
  else if st =? 250 then Some KStart else if st =? 251 then Some KContinue else if st =? 252 then Some KStop
  else if st =? 254 then Some KActiveSensing else if st =? 255 then Some KReset else None.

(* [strict = true]: the dedicated decoders (pitchwheel, quarter_frame, songpos) check the
   number of data bytes like the generic path does (the tree after the C02 repair);
   [strict = false]: the tree before it, where they index the data unchecked. *)
Definition guard (strict : bool) (d : list Z) (n : nat) {A} (k : res A) : res A := if strict then fixed_len d n k else k.
Definition generic2 (d : list Z) (f : Z -> Z -> msg) : res msg :=
  fixed_len d 2 (a <- nth_or_index d 0 ;; b <- nth_or_index d 1 ;; Ok (f a b)).
Definition generic1 (d : list Z) (f : Z -> msg) : res msg :=
  fixed_len d 1 (a <- nth_or_index d 0 ;; Ok (f a)).
Definition generic0 (d : list Z) (m : msg) : res msg := fixed_len d 0 (Ok m).

Definition dec_gen (strict : bool) (bs : list Z) : res msg :=
  match bs with
  | [] => Raise ValueError
  | st :: data0 =>
    match kind_of_status st with
    | None => Raise ValueError
    | Some k =>
      data_r <- (match k with
                 | KSysex => match rev data0 with
                             | [] => Raise ValueError
                             | e :: r => if e =? 247 then Ok (rev r) else Raise ValueError
                             end
                 | _ => Ok data0 end) ;;
      _ <- check_data data_r ;;
      let c := Z.land st 15 in
      match k with
      | KPitchwheel => guard strict data_r 2 (a <- nth_or_index data_r 0 ;; b <- nth_or_index data_r 1 ;; Ok (Pitchwheel c (Z.lor a (Z.shiftl b 7 + (-8192)))))
      | KSysex => Ok (Sysex data_r)
      | KQuarterFrame => guard strict data_r 1 (a <- nth_or_index data_r 0 ;; Ok (QuarterFrame (Z.shiftr a 4) (Z.land a 15)))
      | KSongpos => guard strict data_r 2 (a <- nth_or_index data_r 0 ;; b <- nth_or_index data_r 1 ;; Ok (Songpos (Z.lor a (Z.shiftl b 7))))
      | KNoteOff => generic2 data_r (NoteOff c) | KNoteOn => generic2 data_r (NoteOn c)
      | KPolytouch => generic2 data_r (Polytouch c) | KControlChange => generic2 data_r (ControlChange c)
      | KProgramChange => generic1 data_r (ProgramChange c) | KAftertouch => generic1 data_r (Aftertouch c)
      | KSongSelect => generic1 data_r SongSelect
      | KTuneRequest => generic0 data_r TuneRequest | KClock => generic0 data_r Clock | KStart => generic0 data_r Start
      | KContinue => generic0 data_r Continue | KStop => generic0 data_r Stop
      | KActiveSensing => generic0 data_r ActiveSensing | KReset => generic0 data_r Reset
      end
    end
  end.

(* the decoder of the current tree *)
Definition dec : list Z -> res msg := dec_gen true.
Definition dec_unfixed : list Z -> res msg := dec_gen false.

(* Message.from_bytes(data, time=t): the time is stored, never inspected *)
Definition from_bytes {T : Type} (bs : list Z) (t : T) : res (msg * T) := m <- dec bs ;; Ok (m, t).

(* ---- hex() and from_hex() over text = list of code points ---- *)
Definition hexdigit (n : Z) : Z := if n <? 10 then 48 + n else 55 + n.      (* '0'..'9','A'..'F' *)
Definition hex_byte (b : Z) : list Z := [hexdigit (b / 16); hexdigit (b mod 16)].  (* f'{b:02X}' for 0 <= b < 256 *)
Fixpoint join (sep : list Z) (ws : list (list Z)) : list Z :=
  match ws with
  | [] => []
  | [w] => w
  | w :: r => w ++ sep ++ join sep r
  end.
Definition hex (m : msg) (sep : list Z) : list Z := join sep (map hex_byte (enc m)).

Definition hexval (c : Z) : option Z :=
  if (48 <=? c) && (c <=? 57) then Some (c - 48)
  else if (65 <=? c) && (c <=? 70) then Some (c - 55)
  else if (97 <=? c) && (c <=? 102) then Some (c - 87)
  else None.
(* re's \s on str: ASCII whitespace, the FS/GS/RS/US controls, NEL, NBSP and the Unicode space separators *)
Definition is_ws (c : Z) : bool :=
  ((9 <=? c) && (c <=? 13)) || ((28 <=? c) && (c <=? 32)) || (c =? 133) || (c =? 160) || (c =? 5760)
  || ((8192 <=? c) && (c <=? 8202)) || (c =? 8232) || (c =? 8233) || (c =? 8239) || (c =? 8287) || (c =? 12288).
Fixpoint prefixb (p t : list Z) : bool :=
  match p, t with
  | [], _ => true
  | x :: p', y :: t' => (x =? y) && prefixb p' t'
  | _ :: _, [] => false
  end.
(* text.replace(sep, ' ' * len(sep)) for non-empty sep: leftmost non-overlapping occurrences *)
Fixpoint repl (sep : list Z) (skip : nat) (t : list Z) : list Z :=
  match t with
  | [] => []
  | c :: r =>
    match skip with
    | S k => 32 :: repl sep k r
    | O => if prefixb sep t then 32 :: repl sep (length sep - 1) r else c :: repl sep 0 r
    end
  end.
(* bytearray.fromhex: ASCII whitespace skipped between bytes; a byte is two adjacent hex digits *)
Definition is_ascii_ws (c : Z) : bool := ((9 <=? c) && (c <=? 13)) || (c =? 32).
Fixpoint fromhex (t : list Z) : res (list Z) :=
  match t with
  | [] => Ok []
  | c :: r =>
    if is_ascii_ws c then fromhex r
    else match hexval c, r with
         | Some h, c2 :: r2 =>
           match hexval c2 with
           | Some l => match fromhex r2 with Ok bs => Ok ((16 * h + l) :: bs) | Raise e => Raise e end
           | None => Raise ValueError
           end
         | _, _ => Raise ValueError
         end
  end.
Definition from_hex {T : Type} (text : list Z) (sep : option (list Z)) (t : T) : res (msg * T) :=
  let t1 := map (fun c => if is_ws c then 32 else c) text in
  let t2 := match sep with Some (c :: s) => repl (c :: s) 0 t1 | _ => t1 end in
  bs <- fromhex t2 ;; from_bytes bs t.
