(* Ports.v — sequential model of mido/ports.py: BaseInput.receive / poll / iter_pending / __iter__, BaseOutput.send / reset,
   BasePort.close / context manager, EchoPort, MultiPort.  The device behind _receive is a script: each call consumes one action.
   Messages are identified by integers. *)
From Coq Require Import ZArith List Bool.
Require Import Mido.Model.Base.
Import ListNotations.
Open Scope Z_scope.

Inductive action :=
| AMsg (m : Z)                 (* _receive returns a message *)
| ANothing                     (* _receive returns None *)
| APush (ms : list Z)          (* _receive puts messages into the port's queue and returns None (how the parser-based backends work) *)
| AClose                       (* the device closes itself inside _receive (e.g. the peer disconnected): self.close() *)
| APushClose (ms : list Z).    (* messages arrive, then the device closes itself *)

Record port := {
  p_closed : bool; p_queue : list Z; p_script : list action;
  p_closes : nat;              (* how often the device's _close ran *)
  p_sent : list Z;             (* what reached the device's _send *)
  p_autoreset : bool; p_echo : bool;   (* EchoPort: _send appends to the port's own queue *)
  p_sleeps : nat; p_calls : nat;       (* how often sleep() / _receive() ran *)
  p_faults : list bool                 (* the device's next _send calls: true = raises OSError (nothing left: they succeed) *)
}.
Definition set_core (p : port) (closed : bool) (queue : list Z) (script : list action) (closes : nat) (sent : list Z) (sleeps calls : nat) : port :=
  {| p_closed := closed; p_queue := queue; p_script := script; p_closes := closes; p_sent := sent;
     p_autoreset := p_autoreset p; p_echo := p_echo p; p_sleeps := sleeps; p_calls := calls; p_faults := p_faults p |}.
Definition set_faults (p : port) (f : list bool) : port :=
  {| p_closed := p_closed p; p_queue := p_queue p; p_script := p_script p; p_closes := p_closes p; p_sent := p_sent p;
     p_autoreset := p_autoreset p; p_echo := p_echo p; p_sleeps := p_sleeps p; p_calls := p_calls p; p_faults := f |}.

(* reset_messages(): all_notes_off and reset_all_controllers on the 16 channels, as integer ids 1000 + 2*channel + {0,1} *)
Definition reset_ids : list Z := flat_map (fun c => [1000 + 2 * Z.of_nat c; 1001 + 2 * Z.of_nat c]) (seq 0 16).

(* _send on an open port: false = the device raised OSError and took nothing *)
Definition dev_send (p : port) (m : Z) : port * bool :=
  match p_faults p with
  | true :: f => (set_faults p f, false)
  | f0 =>
      let p0 := set_faults p (tl f0) in
      (if p_echo p0 then set_core p0 (p_closed p0) (p_queue p0 ++ [m]) (p_script p0) (p_closes p0) (p_sent p0) (p_sleeps p0) (p_calls p0)
       else set_core p0 (p_closed p0) (p_queue p0) (p_script p0) (p_closes p0) (p_sent p0 ++ [m]) (p_sleeps p0) (p_calls p0), true)
  end.
(* for msg in msgs: self.send(msg) - stops at the first OSError *)
Fixpoint send_all (l : list Z) (p : port) : port * bool :=
  match l with
  | [] => (p, true)
  | m :: r => let '(p1, ok) := dev_send p m in if ok then send_all r p1 else (p1, false)
  end.

(* close(): once; with autoreset the reset messages are sent first (an OSError from the device ends the reset and is swallowed);
   the device is released whatever happened *)
Definition close (p : port) : port :=
  if p_closed p then p
  else let p1 := if p_autoreset p then fst (send_all reset_ids p) else p in
       set_core p1 true (p_queue p1) (p_script p1) (S (p_closes p1)) (p_sent p1) (p_sleeps p1) (p_calls p1).

Definition send (p : port) (m : Z) : port * res unit :=
  if p_closed p then (p, Raise ValueError)
  else let '(p1, ok) := dev_send p m in (p1, if ok then Ok tt else Raise OSError).
(* reset(): nothing on a closed port *)
Definition reset (p : port) : port * res unit :=
  if p_closed p then (p, Ok tt) else let '(p1, ok) := send_all reset_ids p in (p1, if ok then Ok tt else Raise OSError).

(* one call of _receive: consumes the next action of the script (nothing left: returns None) *)
Definition dev_receive (p : port) : port * option Z :=
  let bump q := set_core q (p_closed q) (p_queue q) (p_script q) (p_closes q) (p_sent q) (p_sleeps q) (S (p_calls q)) in
  match p_script p with
  | [] => (bump p, None)
  | a :: rest =>
      let p0 := bump (set_core p (p_closed p) (p_queue p) rest (p_closes p) (p_sent p) (p_sleeps p) (p_calls p)) in
      match a with
      | AMsg m => (p0, Some m)
      | ANothing => (p0, None)
      | APush ms => (set_core p0 (p_closed p0) (p_queue p0 ++ ms) (p_script p0) (p_closes p0) (p_sent p0) (p_sleeps p0) (p_calls p0), None)
      | AClose => (close p0, None)
      | APushClose ms => (close (set_core p0 (p_closed p0) (p_queue p0 ++ ms) (p_script p0) (p_closes p0) (p_sent p0) (p_sleeps p0) (p_calls p0)), None)
      end
  end.

Definition pop (p : port) : option (port * Z) :=
  match p_queue p with
  | [] => None
  | m :: q => Some (set_core p (p_closed p) q (p_script p) (p_closes p) (p_sent p) (p_sleeps p) (p_calls p), m)
  end.
Definition do_sleep (p : port) : port := set_core p (p_closed p) (p_queue p) (p_script p) (p_closes p) (p_sent p) (S (p_sleeps p)) (p_calls p).

(* the polling loop of receive(); fuel exhausted = the call never returns *)
Fixpoint receive_loop (fuel : nat) (block : bool) (p : port) : port * res (option Z) :=
  match fuel with
  | O => (p, Raise Diverges)
  | S f =>
      let '(p1, r) := dev_receive p in
      match r with
      | Some m => (p1, Ok (Some m))
      | None =>
          match pop p1 with
          | Some (p2, m) => (p2, Ok (Some m))
          | None => if negb block then (p1, Ok None)
                    else if p_closed p1 then (p1, Raise OSError)
                    else receive_loop f block (do_sleep p1)
          end
      end
  end.
Definition receive (fuel : nat) (block : bool) (p : port) : port * res (option Z) :=
  match pop p with
  | Some (p1, m) => (p1, Ok (Some m))                       (* a pending message is returned right away *)
  | None => if p_closed p then (p, if block then Raise ValueError else Ok None)
            else receive_loop fuel block p
  end.
Definition poll (fuel : nat) := receive fuel false.

(* iter_pending(): poll until None *)
Fixpoint iter_pending (n : nat) (fuel : nat) (p : port) : port * res (list Z) :=
  match n with
  | O => (p, Raise Diverges)
  | S k => match poll fuel p with
           | (p1, Ok (Some m)) => let '(p2, r) := iter_pending k fuel p1 in (p2, match r with Ok l => Ok (m :: l) | Raise e => Raise e end)
           | (p1, Ok None) => (p1, Ok [])
           | (p1, Raise e) => (p1, Raise e)
           end
  end.

(* for msg in port: up to [limit] messages are taken (None = until the iteration ends by itself); the iteration ends without an
   exception when the port is closed and drained, before, between or inside receive calls *)
Fixpoint iterate (n : nat) (fuel : nat) (p : port) : port * res (list Z) :=
  match n with
  | O => (p, Ok [])
  | S k =>
      if p_closed p && (match p_queue p with [] => true | _ => false end) then (p, Ok [])
      else match receive fuel true p with
           | (p1, Ok (Some m)) => let '(p2, r) := iterate k fuel p1 in (p2, match r with Ok l => Ok (m :: l) | Raise e => Raise e end)
           | (p1, Ok None) => (p1, Ok [])
           | (p1, Raise OSError) => if p_closed p1 then (p1, Ok []) else (p1, Raise OSError)
           | (p1, Raise e) => (p1, Raise e)
           end
  end.

(* EchoPort.__iter__ is iter_pending: taking up to [limit] pending messages, never waiting *)
Fixpoint take_pending (n : nat) (fuel : nat) (p : port) : port * res (list Z) :=
  match n with
  | O => (p, Ok [])
  | S k => match poll fuel p with
           | (p1, Ok (Some m)) => let '(p2, r) := take_pending k fuel p1 in (p2, match r with Ok l => Ok (m :: l) | Raise e => Raise e end)
           | (p1, Ok None) => (p1, Ok [])
           | (p1, Raise e) => (p1, Raise e)
           end
  end.

Inductive pop_ :=
| PSend (m : Z) | PReceive (block : bool) | PPoll | PIterPending | PIterate (limit : nat) | PClose | PWith (m : Z) | PDel | PReset.
Inductive pout := ONone_ | OMsg_ (m : option Z) | OList_ (l : list Z) | OErr_ (e : exn).
Definition port_step (fuel : nat) (p : port) (o : pop_) : port * pout :=
  match o with
  | PSend m => let '(p1, r) := send p m in (p1, match r with Ok _ => ONone_ | Raise e => OErr_ e end)
  | PReceive b => let '(p1, r) := receive fuel b p in (p1, match r with Ok x => OMsg_ x | Raise e => OErr_ e end)
  | PPoll => let '(p1, r) := poll fuel p in (p1, match r with Ok x => OMsg_ x | Raise e => OErr_ e end)
  | PIterPending => let '(p1, r) := iter_pending 2000 fuel p in (p1, match r with Ok l => OList_ l | Raise e => OErr_ e end)
  | PIterate k => let '(p1, r) := (if p_echo p then take_pending k fuel p else iterate k fuel p) in
                  (p1, match r with Ok l => OList_ l | Raise e => OErr_ e end)
  | PClose | PDel => (close p, ONone_)
  | PReset => let '(p1, r) := reset p in (p1, match r with Ok _ => ONone_ | Raise e => OErr_ e end)
  | PWith m => let '(p1, r) := send p m in (close p1, match r with Ok _ => ONone_ | Raise e => OErr_ e end)   (* with port: port.send(m) *)
  end.
Fixpoint port_run (fuel : nat) (p : port) (ops : list pop_) : port * list pout :=
  match ops with
  | [] => (p, [])
  | o :: r => let '(p1, x) := port_step fuel p o in let '(p2, xs) := port_run fuel p1 r in (p2, x :: xs)
  end.

Definition new_port (autoreset echo : bool) (script : list action) (faults : list bool) : port :=
  {| p_closed := false; p_queue := []; p_script := script; p_closes := 0; p_sent := []; p_autoreset := autoreset; p_echo := echo;
     p_sleeps := 0; p_calls := 0; p_faults := faults |}.

(* ---- MultiPort: _receive sweeps every open sub-port's pending messages without blocking; receive()'s own loop does the waiting ---- *)
(* an upper bound on what a device script can still deliver (for the number of polls a sweep may need) *)
Definition action_size (a : action) : nat := match a with AMsg _ => 1 | APush ms => S (length ms) | APushClose ms => S (length ms) | _ => 1 end.
Definition script_size (l : list action) : nat := fold_right (fun a n => (action_size a + n)%nat) 0%nat l.
Fixpoint sweep (fuel : nat) (subs : list port) : list port * list Z :=
  match subs with
  | [] => ([], [])
  | s :: r =>
      let '(s', got) := if p_closed s then (s, []) else match iter_pending (S (S (length (p_queue s) + script_size (p_script s)))) fuel s with (s1, Ok l) => (s1, l) | (s1, Raise _) => (s1, []) end in
      let '(r', more) := sweep fuel r in (s' :: r', got ++ more)
  end.
Record multi := { m_queue : list Z; m_subs : list port; m_sleeps : nat }.
Fixpoint multi_receive_loop (fuel : nat) (block : bool) (mp : multi) : multi * res (option Z) :=
  match fuel with
  | O => (mp, Raise Diverges)
  | S f =>
      let '(subs', got) := sweep (S f) (m_subs mp) in
      match m_queue mp ++ got with
      | m :: q => ({| m_queue := q; m_subs := subs'; m_sleeps := m_sleeps mp |}, Ok (Some m))
      | [] => if negb block then ({| m_queue := []; m_subs := subs'; m_sleeps := m_sleeps mp |}, Ok None)
              else multi_receive_loop f block {| m_queue := []; m_subs := subs'; m_sleeps := S (m_sleeps mp) |}
      end
  end.
Definition multi_receive (fuel : nat) (block : bool) (mp : multi) : multi * res (option Z) :=
  match m_queue mp with
  | m :: q => ({| m_queue := q; m_subs := m_subs mp; m_sleeps := m_sleeps mp |}, Ok (Some m))
  | [] => multi_receive_loop fuel block mp
  end.
