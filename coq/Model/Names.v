(* Names.v — the textual side of specs.SPECS: type names, value names, default values. *)
From Coq Require Import ZArith List String.
Require Import Mido.Model.Base Mido.Model.Codec.
Import ListNotations.
Open Scope Z_scope. Open Scope string_scope.

Definition kind_name (k : kind) : string :=
  match k with
  | KNoteOff => "note_off" | KNoteOn => "note_on" | KPolytouch => "polytouch" | KControlChange => "control_change"
  | KProgramChange => "program_change" | KAftertouch => "aftertouch" | KPitchwheel => "pitchwheel" | KSysex => "sysex"
  | KQuarterFrame => "quarter_frame" | KSongpos => "songpos" | KSongSelect => "song_select" | KTuneRequest => "tune_request"
  | KClock => "clock" | KStart => "start" | KContinue => "continue" | KStop => "stop"
  | KActiveSensing => "active_sensing" | KReset => "reset"
  end.

Definition value_names (k : kind) : list string :=
  match k with
  | KNoteOff | KNoteOn => ["channel"; "note"; "velocity"]
  | KPolytouch => ["channel"; "note"; "value"]
  | KControlChange => ["channel"; "control"; "value"]
  | KProgramChange => ["channel"; "program"]
  | KAftertouch => ["channel"; "value"]
  | KPitchwheel => ["channel"; "pitch"]
  | KSysex => ["data"]
  | KQuarterFrame => ["frame_type"; "frame_value"]
  | KSongpos => ["pos"]
  | KSongSelect => ["song"]
  | _ => []
  end.

(* DEFAULT_VALUES without 'data' (whose default is the empty tuple) *)
Definition default_values : list (string * Z) :=
  [("channel", 0); ("control", 0); ("frame_type", 0); ("frame_value", 0); ("note", 0); ("pitch", 0); ("pos", 0);
   ("program", 0); ("song", 0); ("time", 0); ("value", 0); ("velocity", 64)].

Definition model_specs : list (Z * string * list string * option Z) :=
  map (fun k => (status_base k, kind_name k, value_names k, spec_length k)) all_kinds.

(* SPEC_BY_STATUS as index into SPECS, -1 when absent *)
Definition model_by_status (st : Z) : Z := match kind_of_status st with Some k => kind_id k | None => -1 end.
