(* Parser.v — model of mido/parser.py (Parser, parse_all, parse) and backends/_parser_queue.py. *)
From Coq Require Import ZArith List Bool.
Require Import Mido.Model.Base Mido.Model.Codec Mido.Model.Tokenizer.
Import ListNotations.
Open Scope Z_scope.

(* parse_all: tokens decoded in order; [strict] selects the decoder (true = current tree) *)
Definition parse (strict : bool) (bs : list Z) : res (list msg) := sequence (map (dec_gen strict) (tokens bs)).
Definition parse_all : list Z -> res (list msg) := parse true.

(* ---- the Parser object: tokenizer state + deque of decoded messages ---- *)
Record pstate := { p_tok : tstate; p_q : list msg }.
Definition p_init : pstate := {| p_tok := Idle; p_q := [] |}.

Inductive pop :=
| PFeed (bs : list Z)      (* feed(data) *)
| PFeedByte (b : Z)        (* feed_byte(b) *)
| PGet                     (* get_message() *)
| PPending                 (* pending() / len() *)
| PIterAll                 (* list(parser) *)
| PIterTake (k : nat).     (* take k items from iter(parser), then drop the iterator *)

Inductive pobs :=
| ONone                    (* the call returned None (feed) *)
| OGet (m : option msg)
| ONum (n : Z)
| OMsgs (ms : list msg)
| OErr (e : exn).

Definition p_feed (s : pstate) (bs : list Z) : pstate * pobs :=
  let '(t', toks) := feed (p_tok s) bs in
  match sequence (map dec toks) with
  | Ok ms => ({| p_tok := t'; p_q := p_q s ++ ms |}, ONone)
  | Raise e => ({| p_tok := t'; p_q := p_q s |}, OErr e)
  end.

Definition p_step (s : pstate) (o : pop) : pstate * pobs :=
  match o with
  | PFeed bs => p_feed s bs
  | PFeedByte b => p_feed s [b]
  | PGet => match p_q s with
            | [] => (s, OGet None)
            | m :: r => ({| p_tok := p_tok s; p_q := r |}, OGet (Some m))
            end
  | PPending => (s, ONum (zlen (p_q s)))
  | PIterAll => ({| p_tok := p_tok s; p_q := [] |}, OMsgs (p_q s))
  | PIterTake k => ({| p_tok := p_tok s; p_q := skipn k (p_q s) |}, OMsgs (firstn k (p_q s)))
  end.

Fixpoint p_run (s : pstate) (ops : list pop) : pstate * list pobs :=
  match ops with
  | [] => (s, [])
  | o :: r => let '(s1, ob) := p_step s o in let '(s2, obs) := p_run s1 r in (s2, ob :: obs)
  end.

(* ---- ParserQueue: parser drained into a FIFO queue on every put_bytes ---- *)
Record qstate := { q_tok : tstate; q_q : list msg }.
Inductive qop := QPutBytes (bs : list Z) | QPut (m : msg) | QPoll | QIterPoll.
Definition q_step (s : qstate) (o : qop) : qstate * pobs :=
  match o with
  | QPutBytes bs =>
      let '(t', toks) := feed (q_tok s) bs in
      match sequence (map dec toks) with
      | Ok ms => ({| q_tok := t'; q_q := q_q s ++ ms |}, ONone)
      | Raise e => ({| q_tok := t'; q_q := q_q s |}, OErr e)
      end
  | QPut m => ({| q_tok := q_tok s; q_q := q_q s ++ [m] |}, ONone)
  | QPoll => match q_q s with
             | [] => (s, OGet None)
             | m :: r => ({| q_tok := q_tok s; q_q := r |}, OGet (Some m))
             end
  | QIterPoll => ({| q_tok := q_tok s; q_q := [] |}, OMsgs (q_q s))
  end.
Fixpoint q_run (s : qstate) (ops : list qop) : qstate * list pobs :=
  match ops with
  | [] => (s, [])
  | o :: r => let '(s1, ob) := q_step s o in let '(s2, obs) := q_run s1 r in (s2, ob :: obs)
  end.

(* ---- live iterators kept across other calls: it = iter(parser); next(it) ... feed ... next(it) ----
   Parser.__iter__ is a generator: each next() tests the queue anew; once it found the queue empty it is finished for good.  Any number of
   iterators may be alive at once; they all pop from the one queue. *)
Record istate := { i_p : pstate; i_it : list bool }.      (* one flag per iterator created so far: true = live, false = finished *)
Inductive iop := IOp (o : pop) | INew | INext | INextK (k : nat).   (* INext: next() on the newest iterator; INextK k: on the k-th *)
Definition set_flag (l : list bool) (k : nat) (b : bool) : list bool := firstn k l ++ match skipn k l with [] => [] | _ :: r => b :: r end.
Definition i_next (s : istate) (k : nat) : istate * pobs :=
  match nth_error (i_it s) k with
  | Some true =>
      match p_q (i_p s) with
      | m :: r => ({| i_p := {| p_tok := p_tok (i_p s); p_q := r |}; i_it := i_it s |}, OGet (Some m))
      | [] => ({| i_p := i_p s; i_it := set_flag (i_it s) k false |}, OGet None)
      end
  | _ => (s, OGet None)
  end.
Definition i_step (s : istate) (o : iop) : istate * pobs :=
  match o with
  | IOp o' => let '(p', ob) := p_step (i_p s) o' in ({| i_p := p'; i_it := i_it s |}, ob)
  | INew => ({| i_p := i_p s; i_it := i_it s ++ [true] |}, ONone)
  | INext => i_next s (pred (length (i_it s)))
  | INextK k => i_next s k
  end.
Fixpoint i_run (s : istate) (ops : list iop) : istate * list pobs :=
  match ops with
  | [] => (s, [])
  | o :: r => let '(s1, ob) := i_step s o in let '(s2, obs) := i_run s1 r in (s2, ob :: obs)
  end.
Definition i_init : istate := {| i_p := p_init; i_it := [] |}.
