(* Varint.v — variable-length quantities: meta.encode_variable_int, midifiles.read_variable_int,
   meta.decode_variable_int. *)
From Coq Require Import ZArith List Bool.
Require Import Mido.Model.Base.
Import ListNotations.
Open Scope Z_scope.

(* encode_variable_int for value >= 0: 7-bit digits, most significant first, continuation bit on all but the last.
   hi_digits produces the digits above the last one (fuel = an upper bound on their number). *)
Fixpoint hi_digits (fuel : nat) (n : Z) : list Z :=
  match fuel with
  | O => []
  | S f => if n =? 0 then [] else hi_digits f (n / 128) ++ [n mod 128 + 128]
  end.
Definition enc_varint (n : Z) : list Z := hi_digits (Z.to_nat (Z.log2 n) + 1) (n / 128) ++ [n mod 128].
(* the Python function proper: ValueError for a negative (or non-integral) value *)
Definition encode_variable_int (n : Z) : res (list Z) := if n <? 0 then Raise ValueError else Ok (enc_varint n).

(* read_variable_int: the reader's loop verbatim; None = the input ended (EOFError) *)
Fixpoint read_varint_acc (acc : Z) (bs : list Z) : option (Z * list Z) :=
  match bs with
  | [] => None
  | b :: r => let acc' := Z.lor (Z.shiftl acc 7) (Z.land b 127) in
              if b <? 128 then Some (acc', r) else read_varint_acc acc' r
  end.
Definition read_varint := read_varint_acc 0.

(* decode_variable_int(list): clears bit 7 of every item but the last, then folds base 128 (the last item unmasked) *)
Definition decode_variable_int (l : list Z) : Z :=
  let masked := match rev l with
                | [] => []
                | last :: front => map (fun b => Z.land b (Z.lnot 128)) (rev front) ++ [last]
                end in
  fold_left (fun v i => Z.lor (Z.shiftl v 7) i) masked 0.
