(* Tokenizer.v — model of mido/tokenizer.py.  State: Idle, or collecting a message with status st,
   data bytes so far, and the number of data bytes needed (None = sysex, Python's inf).
   Python keeps stale _bytes/_len after _status = 0; they are never read before being overwritten,
   so every such state is Idle here (validated by the correspondence, which observes outputs). *)
From Coq Require Import ZArith List Bool.
Require Import Mido.Model.Base.
Import ListNotations.
Open Scope Z_scope.

Definition is_rt_defined (b : Z) : bool := (b =? 248) || (b =? 250) || (b =? 251) || (b =? 252) || (b =? 254) || (b =? 255).
(* number of data bytes by status; None = undefined; Some None = sysex *)
Definition spec_need (st : Z) : option (option nat) :=
  if (128 <=? st) && (st <? 192) then Some (Some 2%nat)
  else if (192 <=? st) && (st <? 224) then Some (Some 1%nat)
  else if (224 <=? st) && (st <? 240) then Some (Some 2%nat)
  else if st =? 240 then Some None
  else if st =? 241 then Some (Some 1%nat)
  else if st =? 242 then Some (Some 2%nat)
  else if st =? 243 then Some (Some 1%nat)
  else if st =? 246 then Some (Some 0%nat)
  else if is_rt_defined st then Some (Some 0%nat)
  else None.

Inductive tstate := Idle | Coll (st : Z) (data : list Z) (need : option nat).

Definition feed_status (s : tstate) (b : Z) : tstate * list (list Z) :=
  if b =? 247 then
    match s with
    | Coll st d _ => if st =? 240 then (Idle, [240 :: d ++ [247]]) else (Idle, [])
    | Idle => (Idle, [])
    end
  else if (248 <=? b) && (b <=? 255) then
    (match s with Coll st d n => if st =? 240 then s else Idle | Idle => Idle end,
     match spec_need b with Some _ => [[b]] | None => [] end)
  else match spec_need b with
       | Some (Some 0%nat) => (Idle, [[b]])
       | Some n => (Coll b [] n, [])
       | None => (s, [])
       end.

Definition feed_data (s : tstate) (b : Z) : tstate * list (list Z) :=
  match s with
  | Idle => (Idle, [])
  | Coll st d need =>
      let d' := d ++ [b] in
      match need with
      | Some n => if Nat.eqb (length d') n then (Idle, [st :: d']) else (Coll st d' need, [])
      | None => (Coll st d' need, [])
      end
  end.

Definition feed_byte (s : tstate) (b : Z) := if b <=? 127 then feed_data s b else feed_status s b.

Fixpoint feed (s : tstate) (bs : list Z) : tstate * list (list Z) :=
  match bs with
  | [] => (s, [])
  | b :: r => let '(s1, o1) := feed_byte s b in let '(s2, o2) := feed s1 r in (s2, o1 ++ o2)
  end.

Definition tokens bs := snd (feed Idle bs).

