(* Backend.v — model of mido/backends/backend.py (Backend: name/API resolution, lazy import, open_* and get_*_names).
   Strings are tokens: 0 is the empty string, any other integer a non-empty string; None is Python's None / an unset variable. *)
From Coq Require Import ZArith List Bool.
Require Import Mido.Model.Base.
Import ListNotations.
Open Scope Z_scope.

(* a backend name string: 'mod' or 'mod/api' (split at the first slash) *)
Record bname := { bn_mod : Z; bn_api : option Z }.
Definition DEFAULT_BACKEND : bname := {| bn_mod := 1; bn_api := None |}.
Definition str_truthy (o : option Z) : bool := match o with Some z => negb (z =? 0) | None => false end.
Definition bname_truthy (o : option bname) : bool :=
  match o with Some b => negb (bn_mod b =? 0) || (match bn_api b with Some _ => true | None => false end) | None => false end.

Record bcfg := {
  c_name : option bname;        (* Backend(name=...) *)
  c_api : option Z;             (* Backend(api=...) *)
  c_load : bool; c_useenv : bool;
  e_backend : option bname;     (* MIDO_BACKEND *)
  e_in : option Z; e_out : option Z; e_io : option Z;     (* MIDO_DEFAULT_INPUT / OUTPUT / IOPORT *)
  m_native_ioport : bool; m_get_devices : bool            (* what the backend module provides *)
}.
Record bstate := { s_mod : Z; s_api : option Z; s_imports : list Z }.    (* s_imports: modules imported so far, in order *)

(* Backend.__init__: the name (argument, else MIDO_BACKEND, else the default) is always split at '/';
   an explicit api argument beats the suffix of the name *)
Definition b_init (c : bcfg) : bstate :=
  let nm := if bname_truthy (c_name c) then match c_name c with Some b => b | None => DEFAULT_BACKEND end
            else match e_backend c with Some b => b | None => DEFAULT_BACKEND end in
  let api := if str_truthy (c_api c) then c_api c else if str_truthy (bn_api nm) then bn_api nm else None in
  {| s_mod := bn_mod nm; s_api := api; s_imports := if c_load c then [bn_mod nm] else [] |}.

(* .module: imports on first use only *)
Definition b_load (s : bstate) : bstate :=
  match s_imports s with [] => {| s_mod := s_mod s; s_api := s_api s; s_imports := [s_mod s] |} | _ => s end.
Definition env (c : bcfg) (v : option Z) : option Z := if c_useenv c then v else None.
(* _add_api: the backend's API unless the caller passes api= itself *)
Definition add_api (s : bstate) (kw : option Z) : option Z :=
  match kw with Some a => Some a | None => if str_truthy (s_api s) then s_api s else None end.

Inductive bop :=
| OpenInput (name : option Z) (apikw : option Z)
| OpenOutput (name : option Z) (apikw : option Z)
| OpenIOPort (name : option Z) (apikw : option Z)
| GetInputNames (apikw : option Z) | GetOutputNames (apikw : option Z) | GetIOPortNames (apikw : option Z)
| Touch.                                  (* backend.module / backend.load() *)
(* what reaches the module: constructor, positional port name, api keyword (None = not passed) *)
Inductive bcall :=
| CInput (name : option Z) (api : option Z) | COutput (name : option Z) (api : option Z) | CIOPort (name : option Z) (api : option Z)
| CWrap (iname oname : option Z) (api : option Z)       (* ports.IOPort(module.Input(iname, ..), module.Output(oname, ..)) *)
| CDevices (api : option Z) | CNoDevices | CNothing.

Definition b_step (c : bcfg) (s : bstate) (o : bop) : bstate * bcall :=
  let s' := b_load s in
  match o with
  | OpenInput name kw => (s', CInput (match name with Some n => Some n | None => env c (e_in c) end) (add_api s kw))
  | OpenOutput name kw => (s', COutput (match name with Some n => Some n | None => env c (e_out c) end) (add_api s kw))
  | OpenIOPort name kw =>
      let nm := match name with
                | Some n => Some n
                | None => if str_truthy (env c (e_io c)) then env c (e_io c) else None      (* self._env(...) or None *)
                end in
      if m_native_ioport c then (s', CIOPort nm (add_api s kw))
      else if str_truthy nm then (s', CWrap nm nm (add_api s kw))
      else (s', CWrap (env c (e_in c)) (env c (e_out c)) (add_api s kw))
  | GetInputNames kw | GetOutputNames kw | GetIOPortNames kw =>
      (s', if m_get_devices c then CDevices (add_api s kw) else CNoDevices)
  | Touch => (s', CNothing)
  end.
Fixpoint b_run (c : bcfg) (s : bstate) (ops : list bop) : bstate * list bcall :=
  match ops with
  | [] => (s, [])
  | o :: r => let '(s1, x) := b_step c s o in let '(s2, xs) := b_run c s1 r in (s2, x :: xs)
  end.

(* name listings from the module's device list: (name, is_input, is_output) *)
Definition input_names (devs : list (Z * bool * bool)) : list Z := map (fun d => fst (fst d)) (filter (fun d => snd (fst d)) devs).
Definition output_names (devs : list (Z * bool * bool)) : list Z := map (fun d => fst (fst d)) (filter (fun d => snd d) devs).
Definition ioport_names (devs : list (Z * bool * bool)) : list Z :=
  filter (fun n => existsb (Z.eqb n) (output_names devs)) (input_names devs).
