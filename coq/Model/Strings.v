(* Strings.v — model of mido/messages/strings.py (msg2str, str2msg, _parse_time, _parse_data), Message.from_str / parse_string /
   parse_string_stream (messages.py).  Text is a list of code points. *)
From Coq Require Import ZArith List Bool String Ascii Decimal DecimalZ.
Require Import Mido.Model.Base Mido.Model.Codec Mido.Model.Names Mido.Model.Checks.
Import ListNotations.
Open Scope Z_scope.

Definition text := list Z.
Definition codes (s : string) : text := map (fun c => Z.of_nat (nat_of_ascii c)) (list_ascii_of_string s).

(* ---- str(int) and int(str) ---- *)
Fixpoint uint_digits (u : uint) : text :=
  match u with
  | Nil => []
  | D0 r => 48 :: uint_digits r | D1 r => 49 :: uint_digits r | D2 r => 50 :: uint_digits r | D3 r => 51 :: uint_digits r
  | D4 r => 52 :: uint_digits r | D5 r => 53 :: uint_digits r | D6 r => 54 :: uint_digits r | D7 r => 55 :: uint_digits r
  | D8 r => 56 :: uint_digits r | D9 r => 57 :: uint_digits r
  end.
Definition show_Z (z : Z) : text :=
  match Z.to_int z with Pos u => uint_digits u | Neg u => 45 :: uint_digits u end.

Definition is_digit (c : Z) : bool := (48 <=? c) && (c <=? 57).
(* digit (_? digit)* ; [us] = the previous character was an underscore *)
Fixpoint int_digits (acc : Z) (us : bool) (t : text) : option Z :=
  match t with
  | [] => if us then None else Some acc
  | c :: r => if is_digit c then int_digits (acc * 10 + (c - 48)) false r
              else if (c =? 95) && negb us then int_digits acc true r
              else None
  end.
(* Python's int(text) for ASCII text without surrounding whitespace: [+-]? digit (_? digit)* *)
Definition py_int (t : text) : option Z :=
  let body sign r := match r with
                     | c :: r' => if is_digit c then option_map (fun v => sign * v) (int_digits (c - 48) false r') else None
                     | [] => None
                     end in
  match t with
  | 45 :: r => body (-1) r
  | 43 :: r => body 1 r
  | _ => body 1 t
  end.

(* Python's float(text) accepts (ASCII, no surrounding whitespace): sign? (inf|infinity|nan | digits [. [digits]] [exp] | . digits [exp]) *)
Definition lower (c : Z) : Z := if (65 <=? c) && (c <=? 90) then c + 32 else c.
Fixpoint digitpart (us first : bool) (t : text) : option text :=      (* consumes digit(_?digit)*, returns the rest *)
  match t with
  | c :: r => if is_digit c then match digitpart false false r with Some r' => Some r' | None => Some r end
              else if (c =? 95) && negb us && negb first then (match r with d :: _ => if is_digit d then digitpart true false r else None | [] => None end)
              else if first then None else Some t
  | [] => if first || us then None else Some []
  end.
Definition exp_ok (t : text) : bool :=
  match t with
  | [] => true
  | e :: r => if (lower e =? 101) then
                let r1 := match r with s :: r' => if (s =? 43) || (s =? 45) then r' else r | [] => r end in
                match digitpart false true r1 with Some [] => true | _ => false end
              else false
  end.
Definition is_float_syntax (t : text) : bool :=
  let t1 := match t with s :: r => if (s =? 43) || (s =? 45) then r else t | [] => t end in
  let l := map lower t1 in
  if list_eqb l (codes "inf") || list_eqb l (codes "infinity") || list_eqb l (codes "nan") then true
  else match t1 with
       | 46 :: r => match digitpart false true r with Some r' => exp_ok r' | None => false end
       | _ => match digitpart false true t1 with
              | Some (46 :: r) => match digitpart false true r with
                                  | Some r' => exp_ok r'
                                  | None => exp_ok r             (* "1." and "1.e5" *)
                                  end
              | Some r => exp_ok r
              | None => false
              end
       end.

(* the time of a message: an int, or a float carried as the text repr() gives it *)
Inductive tmv := TvInt (z : Z) | TvFloat (w : text).
Definition show_time (t : tmv) : text := match t with TvInt z => show_Z z | TvFloat w => w end.
(* _parse_time: int(value) if possible, else float(value), else ValueError *)
Definition parse_time (w : text) : res tmv :=
  match py_int w with
  | Some z => Ok (TvInt z)
  | None => if is_float_syntax w then Ok (TvFloat w) else Raise ValueError
  end.

(* ---- str.split() / str.join / split at the first '=' / split(',') ---- *)
Definition flush (acc : text) (k : list text) : list text := match acc with [] => k | _ => List.rev acc :: k end.
Fixpoint split_go (s : text) (acc : text) : list text :=
  match s with
  | [] => flush acc []
  | c :: r => if is_ws c then flush acc (split_go r []) else split_go r (c :: acc)
  end.
Definition split_ws (s : text) : list text := split_go s [].
Fixpoint split_on (sep : Z) (s : text) (acc : text) : list text :=        (* 'a,b'.split(',') : always at least one piece *)
  match s with
  | [] => [List.rev acc]
  | c :: r => if c =? sep then List.rev acc :: split_on sep r [] else split_on sep r (c :: acc)
  end.
Fixpoint split_first (sep : Z) (s : text) (acc : text) : option (text * text) :=   (* arg.split('=', 1) into exactly two parts *)
  match s with
  | [] => None
  | c :: r => if c =? sep then Some (List.rev acc, r) else split_first sep r (c :: acc)
  end.

(* ---- msg2str ---- *)
Definition attr_codes (a : attr) : text := codes (attr_name a).
Definition show_attr (m : msg) (a : attr) : text :=
  attr_codes a ++ [61] ++
  match get_attr m a with
  | Some (PA (AInt z)) => show_Z z
  | Some (PSeq items) => [40] ++ join [44] (map (fun x => match x with AInt z => show_Z z | _ => [] end) items) ++ [41]
  | _ => []
  end.
Definition msg2str (m : msg) (t : tmv) : text :=
  join [32] (codes (kind_name (kind_of m)) :: map (show_attr m) (attrs_of (kind_of m)) ++ [codes "time" ++ [61] ++ show_time t]).

(* ---- str2msg and the Message constructor called on its dict ---- *)
Definition kind_by_name (w : text) : option kind := find (fun k => list_eqb (codes (kind_name k)) w) all_kinds.
Definition attr_by_name (w : text) : attr :=
  match find (fun a => list_eqb (attr_codes a) w) [AChannel; ANote; AVelocity; AValue; AControl; AProgram; APitch; AData; AFrameType; AFrameValue; APos; ASong; ATime; AType] with
  | Some a => a
  | None => AUnknown 0
  end.
(* _parse_data: "(b,b,...)", "()" is the empty payload *)
Definition parse_data (w : text) : res (list Z) :=
  match w with
  | 40 :: r =>
      match List.rev r with
      | 41 :: ri =>
          let inner := List.rev ri in
          match inner with
          | [] => Ok []
          | _ => sequence (map (fun p => match py_int p with Some z => Ok z | None => Raise ValueError end) (split_on 44 inner []))
          end
      | _ => Raise ValueError
      end
  | _ => Raise ValueError
  end.

Definition mtime : Type := tmv.
(* one "name=value" word -> (attribute, value) ; the time is returned separately *)
Definition parse_arg (w : text) : res (attr * pyval * option tmv) :=
  match split_first 61 w [] with
  | None => Raise ValueError
  | Some (name, value) =>
      let a := attr_by_name name in
      match a with
      | ATime => t <- parse_time value ;; Ok (a, PA (AInt 0), Some t)
      | AData => d <- parse_data value ;; Ok (a, PSeq (map AInt d), None)
      | _ => match py_int value with Some z => Ok (a, PA (AInt z), None) | None => Raise ValueError end
      end
  end.
Fixpoint parse_args (ws : list text) : res (list (attr * pyval) * option tmv) :=
  match ws with
  | [] => Ok ([], None)
  | w :: r =>
      x <- parse_arg w ;;
      let '(a, v, t) := x in
      y <- parse_args r ;;
      let '(kw, t') := y in
      Ok ((a, v) :: kw, match t' with Some _ => t' | None => t end)      (* later duplicates win *)
  end.

(* parse_string(text) = Message.from_str(text) *)
Definition parse_string (s : text) : res (msg * tmv) :=
  match split_ws s with
  | [] => Raise ValueError                                  (* empty text *)
  | tw :: args =>
      match kind_by_name tw with
      | None => Raise ValueError                            (* unknown message type *)
      | Some k =>
          x <- parse_args args ;;
          let '(kw, t) := x in
          (* names that are not message attributes (type, skip_checks, anything unknown) are refused *)
          if existsb (fun av => match fst av with AUnknown _ | AType => true | _ => false end) kw then Raise ValueError
          else
            o <- ctor k kw ;;
            Ok (fst o, match t with Some tv => tv | None => TvInt 0 end)
      end
  end.

(* parse_string_stream: strip the comment and surrounding whitespace; skip blank lines; (message, None) or (None, "line N: ...") *)
Fixpoint strip_comment (s : text) : text := match s with [] => [] | c :: r => if c =? 35 then [] else c :: strip_comment r end.
Inductive sres := SMsg (m : msg) (t : tmv) | SErr (line : Z).
Fixpoint parse_stream (n : Z) (lines : list text) : list sres :=
  match lines with
  | [] => []
  | l :: r =>
      let body := strip_comment l in
      match split_ws body with
      | [] => parse_stream (n + 1) r
      | _ => (match parse_string body with Ok (m, t) => SMsg m t | Raise _ => SErr n end) :: parse_stream (n + 1) r
      end
  end.

(* ---- repr(msg) and Message.dict(): the constructor call they denote ---- *)
Definition show_repr_attr (m : msg) (a : attr) : text :=
  attr_codes a ++ [61] ++
  match get_attr m a with
  | Some (PA (AInt z)) => show_Z z
  | Some (PSeq items) =>       (* a tuple: (), (1,), (1, 2) *)
      [40] ++ join [44; 32] (map (fun x => match x with AInt z => show_Z z | _ => [] end) items)
      ++ (match items with [_] => [44] | _ => [] end) ++ [41]
  | _ => []
  end.
Definition repr_msg (m : msg) (t : tmv) : text :=
  codes "Message('" ++ codes (kind_name (kind_of m)) ++ codes "', " ++
  join [44; 32] (map (show_repr_attr m) (attrs_of (kind_of m)) ++ [codes "time" ++ [61] ++ show_time t]) ++ [41].
(* the keyword arguments that repr(m), m.dict() and str(m) all carry *)
Definition kwargs_of_msg (m : msg) : list (attr * pyval) :=
  map (fun a => (a, match get_attr m a with Some v => v | None => PA ANone end)) (attrs_of (kind_of m)).
