(* Checks.v — model of mido/messages/checks.py and of the checked entry points of Message
   (constructor / from_dict / from_str, copy, attribute assignment and deletion, data += ...). *)
From Coq Require Import ZArith List Bool String Ascii.
Require Import Mido.Model.Base Mido.Model.Codec Mido.Model.Names.
Import ListNotations.
Open Scope Z_scope.

(* Python values as far as the checks can tell them apart *)
Inductive atom :=
| AInt (z : Z) | ABool (b : bool) | AFloat (tok : Z)   (* a float, opaque: Real but not Integral *)
| AStr (s : list Z) | ANone
| AOther.                                               (* any other object: not a number, not iterable over numbers (list, dict, ...) *)
Inductive pyval :=
| PA (a : atom)
| PSeq (items : list atom)       (* list, tuple, generator, SysexData *)
| PBytes (bs : list Z).          (* bytes / bytearray: iterating gives ints 0..255 *)

Inductive attr := AChannel | ANote | AVelocity | AValue | AControl | AProgram | APitch | AData
  | AFrameType | AFrameValue | APos | ASong | ATime | AType | AUnknown (n : Z).

Definition attr_eqb (a b : attr) : bool :=
  match a, b with
  | AChannel, AChannel | ANote, ANote | AVelocity, AVelocity | AValue, AValue | AControl, AControl | AProgram, AProgram
  | APitch, APitch | AData, AData | AFrameType, AFrameType | AFrameValue, AFrameValue | APos, APos | ASong, ASong
  | ATime, ATime | AType, AType => true
  | AUnknown x, AUnknown y => x =? y
  | _, _ => false
  end.

Open Scope string_scope.
Definition attr_name (a : attr) : string :=
  match a with
  | AChannel => "channel" | ANote => "note" | AVelocity => "velocity" | AValue => "value" | AControl => "control"
  | AProgram => "program" | APitch => "pitch" | AData => "data" | AFrameType => "frame_type" | AFrameValue => "frame_value"
  | APos => "pos" | ASong => "song" | ATime => "time" | AType => "type" | AUnknown _ => "?"
  end.
Close Scope string_scope.

(* spec['value_names'] *)
Definition attrs_of (k : kind) : list attr :=
  match k with
  | KNoteOff | KNoteOn => [AChannel; ANote; AVelocity]
  | KPolytouch => [AChannel; ANote; AValue]
  | KControlChange => [AChannel; AControl; AValue]
  | KProgramChange => [AChannel; AProgram]
  | KAftertouch => [AChannel; AValue]
  | KPitchwheel => [AChannel; APitch]
  | KSysex => [AData]
  | KQuarterFrame => [AFrameType; AFrameValue]
  | KSongpos => [APos]
  | KSongSelect => [ASong]
  | _ => []
  end.
Definition has_attr (k : kind) (a : attr) : bool := existsb (attr_eqb a) (attrs_of k).

(* isinstance(v, Integral) / isinstance(v, Real) *)
Definition integral (v : pyval) : option Z :=
  match v with PA (AInt z) => Some z | PA (ABool b) => Some (if b then 1 else 0) | _ => None end.
Definition is_real (v : pyval) : bool :=
  match v with PA (AInt _) | PA (ABool _) | PA (AFloat _) => true | _ => false end.

(* the _CHECKS functions for integer attributes: (lo, hi) *)
Definition int_range (a : attr) : option (Z * Z) :=
  match a with
  | AChannel => Some (0, 15)
  | ANote | AVelocity | AValue | AControl | AProgram | ASong => Some (0, 127)
  | APitch => Some (-8192, 8191)
  | APos => Some (0, 16383)
  | AFrameType => Some (0, 7)
  | AFrameValue => Some (0, 15)
  | _ => None
  end.
Definition check_int (a : attr) (v : pyval) : res Z :=
  match int_range a with
  | Some (lo, hi) =>
      match integral v with
      | None => Raise TypeError
      | Some z => if (lo <=? z) && (z <=? hi) then Ok z else Raise ValueError
      end
  | None => Raise KeyError
  end.

(* iterating a value: tuple(v) / `for byte in v` *)
Definition iter_items (v : pyval) : res (list atom) :=
  match v with
  | PSeq l => Ok l
  | PBytes bs => Ok (map AInt bs)
  | PA (AStr s) => Ok (map (fun c => AStr [c]) s)
  | PA _ => Raise TypeError
  end.
(* check_data over already materialised items: first offending item decides *)
Fixpoint check_items (l : list atom) : res (list Z) :=
  match l with
  | [] => Ok []
  | a :: r =>
      match integral (PA a) with
      | None => Raise TypeError
      | Some z => if byte7 z then (match check_items r with Ok zs => Ok (z :: zs) | Raise e => Raise e end) else Raise ValueError
      end
  end.
Definition check_data_val (v : pyval) : res (list Z) := l <- iter_items v ;; check_items l.
Definition check_time (v : pyval) : res unit := if is_real v then Ok tt else Raise TypeError.

(* ---- a message object: typed attributes + the time value as stored ---- *)
Definition mobj : Type := msg * pyval.

Fixpoint assoc (a : attr) (kw : list (attr * pyval)) : option pyval :=
  match kw with
  | [] => None
  | (b, v) :: r => if attr_eqb a b then Some v else assoc a r
  end.
(* msg.update(overrides): later duplicates win *)
Definition lookup (a : attr) (kw : list (attr * pyval)) : option pyval := assoc a (rev kw).

Definition default_of (a : attr) : pyval :=
  match a with AVelocity => PA (AInt 64) | AData => PSeq [] | _ => PA (AInt 0) end.

(* build the typed message of kind k from checked integer attributes *)
Definition build (k : kind) (g : attr -> Z) (d : list Z) : msg :=
  match k with
  | KNoteOff => NoteOff (g AChannel) (g ANote) (g AVelocity)
  | KNoteOn => NoteOn (g AChannel) (g ANote) (g AVelocity)
  | KPolytouch => Polytouch (g AChannel) (g ANote) (g AValue)
  | KControlChange => ControlChange (g AChannel) (g AControl) (g AValue)
  | KProgramChange => ProgramChange (g AChannel) (g AProgram)
  | KAftertouch => Aftertouch (g AChannel) (g AValue)
  | KPitchwheel => Pitchwheel (g AChannel) (g APitch)
  | KSysex => Sysex d
  | KQuarterFrame => QuarterFrame (g AFrameType) (g AFrameValue)
  | KSongpos => Songpos (g APos)
  | KSongSelect => SongSelect (g ASong)
  | KTuneRequest => TuneRequest | KClock => Clock | KStart => Start | KContinue => Continue | KStop => Stop
  | KActiveSensing => ActiveSensing | KReset => Reset
  end.

(* read an attribute of a typed message back as a value *)
Definition get_attr (m : msg) (a : attr) : option pyval :=
  let i z := Some (PA (AInt z)) in
  match m, a with
  | NoteOff c _ _, AChannel | NoteOn c _ _, AChannel | Polytouch c _ _, AChannel | ControlChange c _ _, AChannel
  | ProgramChange c _, AChannel | Aftertouch c _, AChannel | Pitchwheel c _, AChannel => i c
  | NoteOff _ n _, ANote | NoteOn _ n _, ANote | Polytouch _ n _, ANote => i n
  | NoteOff _ _ v, AVelocity | NoteOn _ _ v, AVelocity => i v
  | Polytouch _ _ v, AValue | ControlChange _ _ v, AValue | Aftertouch _ v, AValue => i v
  | ControlChange _ c _, AControl => i c
  | ProgramChange _ p, AProgram => i p
  | Pitchwheel _ p, APitch => i p
  | Sysex d, AData => Some (PSeq (map AInt d))
  | QuarterFrame t _, AFrameType => i t
  | QuarterFrame _ v, AFrameValue => i v
  | Songpos p, APos => i p
  | SongSelect s, ASong => i s
  | _, _ => None
  end.

(* check the value attributes of kind k in spec order; values come from [src] *)
Fixpoint check_attrs (names : list attr) (src : attr -> pyval) : res (list (attr * Z)) :=
  match names with
  | [] => Ok []
  | a :: r =>
      match check_int a (src a) with
      | Ok z => match check_attrs r src with Ok l => Ok ((a, z) :: l) | Raise e => Raise e end
      | Raise e => Raise e
      end
  end.
Fixpoint zassoc (a : attr) (l : list (attr * Z)) : Z :=
  match l with [] => 0 | (b, z) :: r => if attr_eqb a b then z else zassoc a r end.
Definition first_unknown (k : kind) (kw : list (attr * pyval)) : bool :=
  existsb (fun av => negb (has_attr k (fst av)) && negb (attr_eqb (fst av) ATime) && negb (attr_eqb (fst av) AType)) kw.

(* Message(type, kw...) with the type known to be k; also from_dict and from_str.  Order of the checks
   follows check_msgdict over the dict {type, time, value names..., extra keys...}. *)
Definition ctor (k : kind) (kw : list (attr * pyval)) : res mobj :=
  let src a := match lookup a kw with Some v => v | None => default_of a end in
  (* sysex: SysexData(msgdict['data']) materialises the data before any check *)
  items <- (if is_channel_kind k then Ok [] else match k with KSysex => iter_items (src AData) | _ => Ok [] end) ;;
  _ <- check_time (src ATime) ;;
  match k with
  | KSysex =>
      d <- check_items items ;;
      if first_unknown k kw then Raise ValueError else Ok (Sysex d, src ATime)
  | _ =>
      l <- check_attrs (attrs_of k) src ;;
      if first_unknown k kw then Raise ValueError else Ok (build k (fun a => zassoc a l) [], src ATime)
  end.

(* bytearray(x) of the tree before the C03 repair *)
Definition bytearray_of (v : pyval) : res pyval :=
  match v with
  | PA (AInt n) => if n <? 0 then Raise ValueError else if n <? 1000000 then Ok (PBytes (repeat 0 (Z.to_nat n))) else Raise OverflowError
  | PA (ABool b) => Ok (PBytes (if b then [0] else []))
  | PA _ => Raise TypeError
  | PBytes bs => Ok (PBytes bs)
  | PSeq l =>
      (fix go (l : list atom) (acc : list Z) : res pyval :=
         match l with
         | [] => Ok (PBytes (rev acc))
         | a :: r => match integral (PA a) with
                     | None => Raise TypeError
                     | Some z => if byte8 z then go r (z :: acc) else Raise ValueError
                     end
         end) l []
  end.
Definition materialise (fixed : bool) (v : pyval) : res pyval :=
  if fixed then (l <- iter_items v ;; Ok (PSeq l)) else bytearray_of v.

Definition name_codes (k : kind) : list Z := map (fun c => Z.of_nat (nat_of_ascii c)) (list_ascii_of_string (kind_name k)).

Definition obj_src (o : mobj) (a : attr) : pyval :=
  match a with
  | ATime => snd o
  | _ => match get_attr (fst o) a with Some v => v | None => default_of a end
  end.

(* msg.copy(overrides...); [fixed] selects tuple() (repaired) or bytearray() (before) for the data override *)
Definition copy_gen (fixed : bool) (o : mobj) (ovs : list (attr * pyval)) : res mobj :=
  let k := kind_of (fst o) in
  match ovs with
  | [] => Ok o
  | _ =>
    _ <- (match lookup AType ovs with
          | Some (PA (AStr s)) => if list_eqb s (name_codes k) then Ok tt else Raise ValueError
          | Some _ => Raise ValueError
          | None => Ok tt
          end) ;;
    ovs' <- (match lookup AData ovs with
             | Some v => v' <- materialise fixed v ;; Ok (ovs ++ [(AData, v')])
             | None => Ok ovs
             end) ;;
    (* msgdict = vars(self) updated with the overrides, checked, then the constructor runs on it *)
    ctor k (map (fun a => (a, obj_src o a)) (ATime :: attrs_of k) ++ ovs')
  end.
Definition copy := copy_gen true.

(* msg.<name> = v *)
Definition setattr (o : mobj) (a : attr) (v : pyval) : res mobj :=
  let k := kind_of (fst o) in
  match a with
  | AType => Raise AttributeError
  | ATime => _ <- check_time v ;; Ok (fst o, v)
  | AData => if has_attr k AData then (d <- check_data_val v ;; Ok (Sysex d, snd o)) else Raise AttributeError
  | _ => if has_attr k a
         then (z <- check_int a v ;;
               Ok (build k (fun b => if attr_eqb a b then z else match integral (obj_src o b) with Some x => x | None => 0 end) [], snd o))
         else Raise AttributeError
  end.

Inductive mop :=
| OSet (a : attr) (v : pyval)        (* setattr(msg, a, v) *)
| ODel (a : attr)                    (* delattr(msg, a) *)
| OCopy (ovs : list (attr * pyval))  (* msg.copy(ovs...); the copy is returned, msg stays *)
| OIadd (v : pyval).                 (* msg.data += v *)

(* one operation on the object: the object afterwards, and the result (None, the copy, or the exception) *)
Definition apply_op (o : mobj) (op : mop) : mobj * res (option mobj) :=
  match op with
  | OSet a v => match setattr o a v with Ok o' => (o', Ok None) | Raise e => (o, Raise e) end
  | ODel _ => (o, Raise AttributeError)
  | OCopy ovs => match copy o ovs with Ok c => (o, Ok (Some c)) | Raise e => (o, Raise e) end
  | OIadd v =>
      match fst o with
      | Sysex d => match check_data_val v with
                   | Ok more => (Sysex (d ++ more), snd o, Ok None)
                   | Raise e => (o, Raise e)
                   end
      | _ => (o, Raise AttributeError)
      end
  end.

Definition obj_valid (o : mobj) : bool := valid (fst o) && is_real (snd o).

(* the documented domain of each attribute (docs/message_types.rst), stated independently of check_int *)
Definition in_domain (a : attr) (v : pyval) : bool :=
  match integral v with
  | Some z =>
      match a with
      | AChannel => (0 <=? z) && (z <? 16)
      | ANote | AVelocity | AValue | AControl | AProgram | ASong => (0 <=? z) && (z <? 128)
      | APitch => (-8192 <=? z) && (z <? 8192)
      | APos => (0 <=? z) && (z <? 16384)
      | AFrameType => (0 <=? z) && (z <? 8)
      | AFrameValue => (0 <=? z) && (z <? 16)
      | _ => false
      end
  | None => false
  end.

(* ---- Message.from_bytes on a sequence of arbitrary Python items (C02, the type clause): decode_message first checks that the
        message is not empty, then that every item is an Integral (bool counts), then decodes the integers ---- *)
Definition atom_integral (a : atom) : option Z := match a with AInt z => Some z | ABool b => Some (if b then 1 else 0) | _ => None end.
Fixpoint atoms_ints (l : list atom) : option (list Z) :=
  match l with
  | [] => Some []
  | a :: r => match atom_integral a, atoms_ints r with Some z, Some zs => Some (z :: zs) | _, _ => None end
  end.
Definition dec_items (items : list atom) : res msg :=
  match items with
  | [] => Raise ValueError
  | _ => match atoms_ints items with Some zs => dec zs | None => Raise TypeError end
  end.
