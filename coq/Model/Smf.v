(* Smf.v — model of mido/midifiles/midifiles.py (save/_save/write_track/write_chunk, _load and the read_ functions) and of
   tracks.fix_end_of_track.  Files are lists of bytes. *)
From Coq Require Import ZArith List Bool.
Require Import Mido.Model.Base Mido.Model.Codec Mido.Model.Varint Mido.Model.Meta.
Import ListNotations.
Open Scope Z_scope.

(* a message time as stored in a track: an integer (bool counts as one) or a float *)
Inductive tval := TInt (z : Z) | TFloat (tok : Z).

Inductive event := EMsg (m : msg) | EMeta (x : meta).
Definition tev : Type := tval * event.
Record midifile := { f_type : Z; f_tpb : Z; f_tracks : list (list tev) }.

Definition is_eot (e : event) : bool := match e with EMeta MEot => true | _ => false end.
(* BaseMessage.is_realtime: type in REALTIME_TYPES (the six system real-time types) *)
Definition is_realtime (e : event) : bool :=
  match e with
  | EMsg Clock | EMsg Start | EMsg Continue | EMsg Stop | EMsg ActiveSensing | EMsg Reset => true
  | _ => false
  end.

(* Python's + on times: int + int is exact; anything with a float is a float (token arithmetic is not modelled:
   the result is only ever tested for being an int) *)
Definition tadd (a b : tval) : tval :=
  match a, b with TInt x, TInt y => TInt (x + y) | TFloat t, _ => TFloat t | _, TFloat t => TFloat t end.
Definition truthy (a : tval) : bool := match a with TInt z => negb (z =? 0) | TFloat _ => true end.

(* fix_end_of_track: drop every end_of_track, give its delta to the next message, add one at the end *)
Fixpoint fix_eot_acc (accum : tval) (evs : list tev) : list tev :=
  match evs with
  | [] => [(accum, EMeta MEot)]
  | (t, e) :: r =>
      if is_eot e then fix_eot_acc (tadd accum t) r
      else if truthy accum then (tadd accum t, e) :: fix_eot_acc (TInt 0) r
      else (t, e) :: fix_eot_acc (TInt 0) r
  end.
Definition fix_eot := fix_eot_acc (TInt 0).

(* ---- writer ---- *)
Definition next_rs (e : event) : option Z :=
  match e with
  | EMsg (Sysex _) => None
  | EMsg m => match enc m with st :: _ => if st <? 240 then Some st else None | [] => None end
  | EMeta _ => None
  end.
Definition opt_eqb (o : option Z) (z : Z) : bool := match o with Some x => x =? z | None => false end.

Definition write_event (cs : codec) (rs : option Z) (te : tev) : res (list Z) :=
  let '(t, e) := te in
  match t with
  | TFloat _ => Raise ValueError                      (* message time must be int in MIDI file *)
  | TInt dt =>
    if dt <? 0 then Raise ValueError                  (* message time must be non-negative *)
    else if is_realtime e then Raise ValueError
    else
      body <- (match e with
               | EMeta x => meta_bytes cs x
               | EMsg (Sysex d) => Ok (240 :: enc_varint (zlen d + 1) ++ d ++ [247])
               | EMsg m => match enc m with
                           | st :: ds => Ok (if opt_eqb rs st then ds else st :: ds)
                           | [] => Ok []
                           end
               end) ;;
      Ok (enc_varint dt ++ body)
  end.

Fixpoint write_events (cs : codec) (rs : option Z) (evs : list tev) : res (list Z) :=
  match evs with
  | [] => Ok []
  | te :: r => a <- write_event cs rs te ;; b <- write_events cs (next_rs (snd te)) r ;; Ok (a ++ b)
  end.

(* struct.pack('>L', n) / ('>h', z) *)
Definition be32 (n : Z) : list Z := [Z.shiftr n 24 mod 256; Z.shiftr n 16 mod 256; Z.shiftr n 8 mod 256; n mod 256].
Definition pack_h (z : Z) : res (list Z) :=
  if (-32768 <=? z) && (z <=? 32767) then Ok [Z.shiftr (z mod 65536) 8; (z mod 65536) mod 256] else Raise StructError.
(* struct.pack('>L', len(data)) raises struct.error from 2^32 on *)
Definition write_chunk (name : list Z) (data : list Z) : res (list Z) :=
  if zlen data <? 4294967296 then Ok (name ++ be32 (zlen data) ++ data) else Raise StructError.
Definition MThd : list Z := [77; 84; 104; 100].
Definition MTrk : list Z := [77; 84; 114; 107].

Definition write_track (cs : codec) (tr : list tev) : res (list Z) :=
  data <- write_events cs None (fix_eot tr) ;; write_chunk MTrk data.

Fixpoint write_tracks (cs : codec) (trs : list (list tev)) : res (list Z) :=
  match trs with
  | [] => Ok []
  | tr :: r => a <- write_track cs tr ;; b <- write_tracks cs r ;; Ok (a ++ b)
  end.

(* MidiFile.save(file=...) *)
Definition save (cs : codec) (f : midifile) : res (list Z) :=
  if (f_type f =? 0) && negb (length (f_tracks f) =? 1)%nat then Raise ValueError
  else
    a <- pack_h (f_type f) ;; b <- pack_h (zlen (f_tracks f)) ;; c <- pack_h (f_tpb f) ;;
    body <- write_tracks cs (f_tracks f) ;;
    hd <- write_chunk MThd (a ++ b ++ c) ;;
    Ok (hd ++ body).

(* ---- reader: every function returns the value and the unread rest ---- *)
Definition take (n : nat) (bs : list Z) : option (list Z * list Z) :=
  if (length bs <? n)%nat then None else Some (firstn n bs, skipn n bs).
Definition unpack_h (hi lo : Z) : Z := let v := hi * 256 + lo in if v <? 32768 then v else v - 65536.
Definition unbe32 (a b c d : Z) : Z := ((a * 256 + b) * 256 + c) * 256 + d.

Definition MAX_MESSAGE_LENGTH : Z := 1000000.
(* read_bytes(infile, size): OSError over the limit, EOFError when the file ends; a negative size reads nothing *)
Definition read_bytes (size : Z) (bs : list Z) : res (list Z * list Z) :=
  if MAX_MESSAGE_LENGTH <? size then Raise OSError
  else if zlen bs <? size then Raise EOFError
  else match take (Z.to_nat size) bs with Some p => Ok p | None => Raise EOFError end.
Definition read_vi (bs : list Z) : res (Z * list Z) :=
  match read_varint bs with Some p => Ok p | None => Raise EOFError end.

Definition clip_bytes (clip : bool) (ds : list Z) : list Z := if clip then map (fun b => if b <? 127 then b else 127) ds else ds.

(* read_sysex: strip a leading F0 and a trailing F7 from the payload *)
Definition strip_sysex (d : list Z) : list Z :=
  let d1 := match d with x :: t => if x =? 240 then t else d | [] => d end in
  match rev d1 with x :: t => if x =? 247 then rev t else d1 | [] => d1 end.

(* one event of a track chunk; [last] is the running status *)
Definition read_event (cs : codec) (clip : bool) (last : option Z) (bs : list Z) : res (tev * option Z * list Z) :=
  dtr <- read_vi bs ;;
  let '(dt, bs1) := dtr in
  match bs1 with
  | [] => Raise EOFError
  | sb :: bs2 =>
    hdr <- (if sb <? 128 then match last with None => Raise OSError | Some l => Ok (l, [sb], last) end
            else Ok (sb, [], if sb =? 255 then last else Some sb)) ;;
    let '(st, peek, last') := hdr in
    if st =? 255 then
      match bs2 with
      | [] => Raise EOFError
      | ty :: bs3 =>
          lr <- read_vi bs3 ;; let '(n, bs4) := lr in
          pr <- read_bytes n bs4 ;; let '(p, bs5) := pr in
          x <- meta_decode cs ty p ;;
          Ok ((TInt dt, EMeta x), last', bs5)
      end
    else if (st =? 240) || (st =? 247) then
      lr <- read_vi bs2 ;; let '(n, bs3) := lr in
      pr <- read_bytes n bs3 ;; let '(d, bs4) := pr in
      let d' := clip_bytes clip (strip_sysex d) in
      if forallb byte7 d' then Ok ((TInt dt, EMsg (Sysex d')), last', bs4) else Raise ValueError
    else
      match kind_of_status st with
      | None => Raise OSError
      | Some k =>
          let size := match spec_length k with Some l => l | None => 0 end - 1 - zlen peek in
          pr <- read_bytes size bs2 ;; let '(ds, bs3) := pr in
          let data := peek ++ ds in
          if clip || forallb (fun b => b <=? 127) data
          then (m <- dec (st :: clip_bytes clip data) ;; Ok ((TInt dt, EMsg m), last', bs3))
          else Raise OSError
      end
  end.

(* the loop of read_track: stop when exactly [size] bytes were consumed *)
Fixpoint read_events (cs : codec) (clip : bool) (fuel : nat) (remaining : Z) (last : option Z) (bs : list Z)
  : res (list tev * list Z) :=
  if remaining =? 0 then Ok ([], bs) else
  match fuel with
  | O => Raise Diverges
  | S f =>
      r <- read_event cs clip last bs ;;
      let '(te, last', rest) := r in
      r2 <- read_events cs clip f (remaining - (zlen bs - zlen rest)) last' rest ;;
      let '(evs, rest') := r2 in
      Ok (te :: evs, rest')
  end.

Definition read_chunk_header (bs : list Z) : res (list Z * Z * list Z) :=
  match bs with
  | a :: b :: c :: d :: s0 :: s1 :: s2 :: s3 :: r => Ok ([a; b; c; d], unbe32 s0 s1 s2 s3, r)
  | _ => Raise EOFError
  end.

Definition read_track (cs : codec) (clip : bool) (bs : list Z) : res (list tev * list Z) :=
  h <- read_chunk_header bs ;;
  let '(name, size, r) := h in
  if list_eqb name MTrk then read_events cs clip (S (length r)) size None r else Raise OSError.

Fixpoint read_tracks (cs : codec) (clip : bool) (n : nat) (bs : list Z) : res (list (list tev)) :=
  match n with
  | O => Ok []
  | S k => t <- read_track cs clip bs ;; let '(tr, r) := t in rest <- read_tracks cs clip k r ;; Ok (tr :: rest)
  end.

(* MidiFile(file=...) *)
Definition load (cs : codec) (clip : bool) (bs : list Z) : res midifile :=
  h <- read_chunk_header bs ;;
  let '(name, size, r) := h in
  if negb (list_eqb name MThd) then Raise OSError
  else
    (* infile.read(size) returns what is there; fewer than 6 bytes is EOFError *)
    let n := Z.to_nat (Z.min size (zlen r)) in       (* read(size) returns at most what is there *)
    let data := firstn n r in
    let r' := skipn n r in
    match data with
    | t0 :: t1 :: n0 :: n1 :: d0 :: d1 :: _ =>
        trs <- read_tracks cs clip (Z.to_nat (unpack_h n0 n1)) r' ;;
        Ok {| f_type := unpack_h t0 t1; f_tpb := unpack_h d0 d1; f_tracks := trs |}
    | _ => Raise EOFError
    end.
