(* ConcFan.v — threads on a MultiPort over EchoPorts, fan-out: senders send on the MultiPort, receivers receive on the sub-ports
   (mido/ports.py: BaseOutput.send, MultiPort._send, EchoPort._send, BaseInput.receive).  Same granularity as Conc.v and ConcMulti.v:
   one step = one access to a lock, a deque or sleep.  Port 0 is the MultiPort, port i+1 the i-th sub-port; each has its own RLock
   and deque.  MultiPort.send holds the MultiPort's lock while its _send walks over the sub-ports in order; for each one it calls the
   sub-port's send, which takes that sub-port's lock, appends (a copy of) the message and releases it. *)
From Coq Require Import ZArith List Bool Arith.
Require Import Mido.Model.Base Mido.Model.Codec Mido.Model.Conc Mido.Model.ConcMulti.
Import ListNotations.

Inductive fop := FSend (m : msg) | FRecv (sub : nat) (block : bool) | FIterPending (sub : nat) (acc : list msg).

Inductive fpc :=
| FStart                              (* acquire the lock the head operation needs *)
| FSub (sub : nat) (m : msg)          (* MultiPort._send, holding the MultiPort's lock: call send on sub-port [sub] = acquire its lock *)
| FApp (sub : nat) (m : msg)          (* EchoPort._send: append *)
| FRelSub (sub : nat) (m : msg)       (* leave the sub-port's 'with self._lock' *)
| FRel0                               (* leave the MultiPort's 'with self._lock' *)
| FPoll (sub : nat) (p : pc)          (* inside receive on sub-port [sub]; [p] is the receive's own next access (Conc.v's names) *)
| FRaised (e : exn).

Record fthread := { fprog : list fop; fat : fpc; fresults : list result }.
Record fshared := {
  flk : nat -> option tid; fq : nat -> list msg; fsleeps : nat; fnsubs : nat;
  (* ghosts *)
  forder : list (tid * msg);            (* the sends, in the order their senders got the MultiPort's lock *)
  fsent : nat -> list msg;              (* per sub-port: what was appended, in order *)
  fpopped : nat -> list (tid * msg)     (* per sub-port: every pop, with the popping thread, in order *)
}.
Definition fcfg := (fshared * (tid -> fthread))%type.

Definition fupd (ts : tid -> fthread) (t : tid) (th : fthread) : tid -> fthread := fun u => if Nat.eqb u t then th else ts u.
Definition fset_pc (th : fthread) (p : fpc) : fthread := {| fprog := fprog th; fat := p; fresults := fresults th |}.
Definition f_can (s : fshared) (l : nat) (t : tid) : bool := match flk s l with None => true | Some o => Nat.eqb o t end.
Definition f_set_lock (s : fshared) (l : nat) (o : option tid) : fshared :=
  {| flk := updf (flk s) l o; fq := fq s; fsleeps := fsleeps s; fnsubs := fnsubs s; forder := forder s; fsent := fsent s; fpopped := fpopped s |}.

Definition f_finish_recv (th : fthread) (r : option msg) : fthread :=
  match fprog th with
  | FRecv _ _ :: rest => {| fprog := rest; fat := FStart; fresults := fresults th ++ [RGot r] |}
  | FIterPending i acc :: rest =>
      match r with
      | Some m => {| fprog := FIterPending i (acc ++ [m]) :: rest; fat := FStart; fresults := fresults th |}
      | None => {| fprog := rest; fat := FStart; fresults := fresults th ++ [RList acc] |}
      end
  | _ => th
  end.
Definition f_is_block (th : fthread) : bool := match fprog th with FRecv _ b :: _ => b | _ => false end.
Definition f_finish_send (th : fthread) : fthread := {| fprog := tl (fprog th); fat := FStart; fresults := fresults th ++ [RSent] |}.

Definition f_pop (s : fshared) (t : tid) (i : nat) (m : msg) (r : list msg) : fshared :=
  {| flk := flk s; fq := updf (fq s) (S i) r; fsleeps := fsleeps s; fnsubs := fnsubs s; forder := forder s; fsent := fsent s;
     fpopped := updf (fpopped s) i (fpopped s i ++ [(t, m)]) |}.

(* after sub-port [i] has been served: the next sub-port, or the end of MultiPort._send *)
Definition f_next (s : fshared) (i : nat) (m : msg) : fpc := if Nat.ltb (S i) (fnsubs s) then FSub (S i) m else FRel0.

Definition fstep_thread (s : fshared) (t : tid) (th : fthread) : option (fshared * fthread) :=
  match fat th with
  | FStart =>
      match fprog th with
      | [] => None
      | FSend m :: _ =>
          if f_can s 0 t then
            let s1 := f_set_lock s 0 (Some t) in
            Some ({| flk := flk s1; fq := fq s1; fsleeps := fsleeps s1; fnsubs := fnsubs s1; forder := forder s1 ++ [(t, m)]; fsent := fsent s1; fpopped := fpopped s1 |},
                  fset_pc th (if Nat.ltb 0 (fnsubs s) then FSub 0 m else FRel0))
          else None
      | FRecv i _ :: _ | FIterPending i _ :: _ => if f_can s (S i) t then Some (f_set_lock s (S i) (Some t), fset_pc th (FPoll i RBool1)) else None
      end
  | FSub i m => if f_can s (S i) t then Some (f_set_lock s (S i) (Some t), fset_pc th (FApp i m)) else None
  | FApp i m => Some ({| flk := flk s; fq := updf (fq s) (S i) (fq s (S i) ++ [m]); fsleeps := fsleeps s; fnsubs := fnsubs s; forder := forder s;
                         fsent := updf (fsent s) i (fsent s i ++ [m]); fpopped := fpopped s |}, fset_pc th (FRelSub i m))
  | FRelSub i m => Some (f_set_lock s (S i) None, fset_pc th (f_next s i m))
  | FRel0 => Some (f_set_lock s 0 None, f_finish_send th)
  | FPoll i p =>
      match p with
      | RBool1 => Some (s, fset_pc th (FPoll i (match fq s (S i) with [] => RRel1 None | _ => RPop1 end)))
      | RPop1 => match fq s (S i) with
                 | [] => Some (s, fset_pc th (FRaised IndexError))
                 | m :: r => Some (f_pop s t i m r, fset_pc th (FPoll i (RRel1 (Some m))))
                 end
      | RRel1 r => Some (f_set_lock s (S i) None, match r with Some _ => f_finish_recv th r | None => fset_pc th (FPoll i LAcq) end)
      | LAcq => if f_can s (S i) t then Some (f_set_lock s (S i) (Some t), fset_pc th (FPoll i LBool)) else None
      | LBool => Some (s, fset_pc th (FPoll i (match fq s (S i) with [] => LRel None (f_is_block th) | _ => LPop end)))
      | LPop => match fq s (S i) with
                | [] => Some (s, fset_pc th (FRaised IndexError))
                | m :: r => Some (f_pop s t i m r, fset_pc th (FPoll i (LRel (Some m) false)))
                end
      | LRel r slp => Some (f_set_lock s (S i) None, if slp then fset_pc th (FPoll i LSleep) else f_finish_recv th r)
      | LSleep => Some ({| flk := flk s; fq := fq s; fsleeps := S (fsleeps s); fnsubs := fnsubs s; forder := forder s; fsent := fsent s; fpopped := fpopped s |},
                        fset_pc th (FPoll i LAcq))
      | _ => None
      end
  | FRaised _ => None
  end.

Definition fstep (cf : fcfg) (t : tid) : fcfg :=
  let '(s, ts) := cf in
  match fstep_thread s t (ts t) with
  | None => cf
  | Some (s', th') => (s', fupd ts t th')
  end.
Definition frun (sched : list tid) (cf : fcfg) : fcfg := fold_left fstep sched cf.

Definition finit (n : nat) (progs : tid -> list fop) : fcfg :=
  ({| flk := fun _ => None; fq := fun _ => []; fsleeps := 0; fnsubs := n; forder := []; fsent := fun _ => []; fpopped := fun _ => [] |},
   fun t => {| fprog := progs t; fat := FStart; fresults := [] |}).
