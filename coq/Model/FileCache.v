(* FileCache.v — model of how a MidiFile object answers observations after edits (midifiles.py: tracks, type,
   ticks_per_beat, merged_track and its memo).  Contents are tracks of Tracks.ev messages. *)
From Coq Require Import ZArith List Bool.
Require Import Mido.Model.Base Mido.Model.Tracks.
Import ListNotations.
Open Scope Z_scope.

Record fstate := { c_type : Z; c_tpb : Z; c_tracks : list (list ev); c_memo : option (list ev) }.
Definition fresh (ty tpb : Z) (tracks : list (list ev)) : fstate := {| c_type := ty; c_tpb := tpb; c_tracks := tracks; c_memo := None |}.

(* documented edits *)
Inductive fedit :=
| EAppendTrack (tr : list ev)            (* mid.tracks.append(track) *)
| ERemoveTrack (i : nat)                 (* del mid.tracks[i] *)
| EAddTrack                              (* mid.add_track() *)
| EInsertMsg (i j : nat) (e : ev)        (* mid.tracks[i].insert(j, msg) *)
| EDelMsg (i j : nat)                    (* del mid.tracks[i][j] *)
| ESetTime (i j : nat) (t : Z)           (* mid.tracks[i][j].time = t *)
| ESetType (z : Z) | ESetTpb (z : Z)
| EShift (i j : nat) (d : Z)             (* a, b = mid.tracks[i][j], mid.tracks[i][j+1]; a.time += d; b.time -= d  (same track length, same total) *)
| ESwap (i j : nat)                      (* tr = mid.tracks[i]; tr[j], tr[j+1] = tr[j+1], tr[j] *)
| EReverse (i : nat).                    (* mid.tracks[i].reverse() *)

Fixpoint upd {A} (l : list A) (i : nat) (f : A -> A) : list A :=
  match l, i with
  | [], _ => []
  | x :: r, O => f x :: r
  | x :: r, S k => x :: upd r k f
  end.
Fixpoint del {A} (l : list A) (i : nat) : list A :=
  match l, i with [], _ => [] | _ :: r, O => r | x :: r, S k => x :: del r k end.
Fixpoint ins {A} (l : list A) (i : nat) (x : A) : list A :=
  match l, i with l, O => x :: l | [], S _ => [x] | y :: r, S k => y :: ins r k x end.

Definition shift_ticks (tr : list ev) (j : nat) (d : Z) : list ev :=
  match nth_error tr j, nth_error tr (S j) with
  | Some a, Some b => upd (upd tr j (fun m => set_time m (time a + d))) (S j) (fun m => set_time m (time b - d))
  | _, _ => tr
  end.
Definition swap_next (tr : list ev) (j : nat) : list ev :=
  match nth_error tr j, nth_error tr (S j) with
  | Some a, Some b => upd (upd tr j (fun _ => b)) (S j) (fun _ => a)
  | _, _ => tr
  end.
Definition edit_tracks (ts : list (list ev)) (e : fedit) : list (list ev) :=
  match e with
  | EAppendTrack tr => ts ++ [tr]
  | ERemoveTrack i => del ts i
  | EAddTrack => ts ++ [[]]
  | EInsertMsg i j m => upd ts i (fun tr => ins tr j m)
  | EDelMsg i j => upd ts i (fun tr => del tr j)
  | ESetTime i j t => upd ts i (fun tr => upd tr j (fun m => set_time m t))
  | EShift i j d => upd ts i (fun tr => shift_ticks tr j d)
  | ESwap i j => upd ts i (fun tr => swap_next tr j)
  | EReverse i => upd ts i (fun tr => List.rev tr)
  | _ => ts
  end.

(* [memo = true]: merged_track is computed once and kept; only add_track() and `del mid.merged_track` drop it (the tree
   before the repair).  [memo = false]: merged_track is computed from the current tracks on every access. *)
Definition apply_edit (memo : bool) (s : fstate) (e : fedit) : fstate :=
  {| c_type := match e with ESetType z => z | _ => c_type s end;
     c_tpb := match e with ESetTpb z => z | _ => c_tpb s end;
     c_tracks := edit_tracks (c_tracks s) e;
     c_memo := match e with EAddTrack => None | _ => c_memo s end |}.

(* observing merged_track (iteration, length and play are functions of it, ticks_per_beat and type) *)
Definition observe (memo : bool) (s : fstate) : fstate * res (list ev) :=
  if c_type s =? 2 then (s, Raise TypeError)
  else if memo then
    match c_memo s with
    | Some m => (s, Ok m)
    | None => let m := merge_tracks (c_tracks s) in
              ({| c_type := c_type s; c_tpb := c_tpb s; c_tracks := c_tracks s; c_memo := Some m |}, Ok m)
    end
  else (s, Ok (merge_tracks (c_tracks s))).

Inductive fop := FEdit (e : fedit) | FObserve.
Fixpoint run_file (memo : bool) (s : fstate) (ops : list fop) : fstate * list (res (list ev)) :=
  match ops with
  | [] => (s, [])
  | FEdit e :: r => run_file memo (apply_edit memo s e) r
  | FObserve :: r => let '(s1, o) := observe memo s in let '(s2, os) := run_file memo s1 r in (s2, o :: os)
  end.
