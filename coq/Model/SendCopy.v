(* SendCopy.v — objects and aliasing around send (mido/ports.py: BaseOutput.send copies the message before _send; MultiPort._send hands
   the copy to every sub-port's send, which copies again; EchoPort._send appends what it is given; receive pops the object itself).
   Messages are mutable objects, so a port that kept the caller's object would let a later edit by the caller change what the receiver
   gets (and an edit by the receiver change the caller's object).  The model has a heap of objects (identity -> value), callers that
   create, edit and send objects, a port with n sc_queues (n = 1: EchoPort / IOPort / a device port; n > 1: MultiPort fan-out, one queue per
   sub-port), and receivers that pop objects and may edit them.
   Every entry the model keeps about an object carries, as a ghost, the value its owner last gave it:
     for a caller's object, what the caller last wrote; for a queued or received object, the value the sent object had at the moment of
     the send, or what the receiver wrote into it afterwards. *)
From Coq Require Import ZArith List Bool Arith.
Import ListNotations.

Notation oid := nat (only parsing).
Notation hval := Z (only parsing).

Inductive sc_op :=
| SNew (v : hval)                (* the caller builds a message *)
| SSet (k : nat) (v : hval)      (* the caller edits its k-th message in place *)
| SSend (k : nat)                (* port.send(the caller's k-th message) *)
| SRecv (i : nat)                (* receive(block=False) on queue i: the popped object goes to the receiver *)
| SSetGot (k : nat) (v : hval).  (* the receiver edits the k-th object it got *)

Record sc_state := {
  sc_hp : oid -> hval;                     (* the heap: current value of every object *)
  sc_nxt : oid;                            (* next fresh identity *)
  sc_mine : list (oid * hval);             (* the caller's objects, with the value the caller last wrote (ghost) *)
  sc_queues : list (list (oid * hval));    (* per queue: the objects held, with their value at send time (ghost) *)
  sc_got : list (oid * hval)               (* what receivers got, in order, with the value at send time or the receiver's last edit (ghost) *)
}.

Definition hupd (h : oid -> hval) (o : oid) (v : hval) : oid -> hval := fun x => if Nat.eqb x o then v else h x.

Definition set_nth {A} (l : list A) (k : nat) (a : A) : list A := firstn k l ++ match skipn k l with [] => [] | _ :: r => a :: r end.

(* send with copies (the code): every queue gets its own fresh object holding the sent object's current value *)
Fixpoint push_copies (h : oid -> hval) (n : oid) (v : hval) (qs : list (list (oid * hval))) : (oid -> hval) * oid * list (list (oid * hval)) :=
  match qs with
  | [] => (h, n, [])
  | q :: r => let '(h', n', r') := push_copies (hupd h n v) (S n) v r in (h', n', (q ++ [(n, v)]) :: r')
  end.
(* send without a copy (the variant refuted below): every queue holds the caller's object itself *)
Definition push_alias (o : oid) (v : hval) (qs : list (list (oid * hval))) : list (list (oid * hval)) := map (fun q => q ++ [(o, v)]) qs.

Definition sc_step (copying : bool) (s : sc_state) (op : sc_op) : sc_state :=
  match op with
  | SNew v => {| sc_hp := hupd (sc_hp s) (sc_nxt s) v; sc_nxt := S (sc_nxt s); sc_mine := sc_mine s ++ [(sc_nxt s, v)]; sc_queues := sc_queues s; sc_got := sc_got s |}
  | SSet k v =>
      match nth_error (sc_mine s) k with
      | Some (o, _) => {| sc_hp := hupd (sc_hp s) o v; sc_nxt := sc_nxt s; sc_mine := set_nth (sc_mine s) k (o, v); sc_queues := sc_queues s; sc_got := sc_got s |}
      | None => s
      end
  | SSend k =>
      match nth_error (sc_mine s) k with
      | Some (o, _) =>
          if copying then
            (* BaseOutput.send: one copy; the port (or each sub-port's send, for MultiPort) stores a copy of that; the intermediate copy
               is dropped, so it is not modelled as an object of its own *)
            let '(h', n', qs') := push_copies (sc_hp s) (sc_nxt s) (sc_hp s o) (sc_queues s) in
            {| sc_hp := h'; sc_nxt := n'; sc_mine := sc_mine s; sc_queues := qs'; sc_got := sc_got s |}
          else {| sc_hp := sc_hp s; sc_nxt := sc_nxt s; sc_mine := sc_mine s; sc_queues := push_alias o (sc_hp s o) (sc_queues s); sc_got := sc_got s |}
      | None => s
      end
  | SRecv i =>
      match nth_error (sc_queues s) i with
      | Some (e :: r) => {| sc_hp := sc_hp s; sc_nxt := sc_nxt s; sc_mine := sc_mine s; sc_queues := set_nth (sc_queues s) i r; sc_got := sc_got s ++ [e] |}
      | _ => s
      end
  | SSetGot k v =>
      match nth_error (sc_got s) k with
      | Some (o, _) => {| sc_hp := hupd (sc_hp s) o v; sc_nxt := sc_nxt s; sc_mine := sc_mine s; sc_queues := sc_queues s; sc_got := set_nth (sc_got s) k (o, v) |}
      | None => s
      end
  end.

Definition sc_init (n : nat) : sc_state := {| sc_hp := fun _ => 0%Z; sc_nxt := 0; sc_mine := []; sc_queues := repeat [] n; sc_got := [] |}.
Definition sc_run (copying : bool) (n : nat) (ops : list sc_op) : sc_state := fold_left (sc_step copying) ops (sc_init n).

(* what can be observed at the end: the current values of the objects the receivers hold and of the caller's objects, and whether any
   received object IS one of the caller's objects *)
Definition sc_observe (s : sc_state) : list hval * list hval * bool :=
  (map (fun e => sc_hp s (fst e)) (sc_got s), map (fun e => sc_hp s (fst e)) (sc_mine s),
   existsb (fun e => existsb (fun m => Nat.eqb (fst e) (fst m)) (sc_mine s)) (sc_got s)).
