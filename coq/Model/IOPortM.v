(* IOPortM.v — the IOPort wrapper (mido/ports.py: class IOPort) over an input port and an output port, each a port of Ports.v with its own
   device.  Every call is forwarded: send to the output port (after the wrapper's own closed check in BaseOutput.send), receive / poll /
   iter_pending / iteration to the input port, close to both (input first), once.  The wrapped ports stay reachable (io.input, io.output),
   so a history may also close one of them directly. *)
From Coq Require Import ZArith List Bool.
Require Import Mido.Model.Base Mido.Model.Ports.
Import ListNotations.
Open Scope Z_scope.

Record ioport := { io_in : port; io_out : port; io_closed : bool }.
Definition with_in (io : ioport) (p : port) : ioport := {| io_in := p; io_out := io_out io; io_closed := io_closed io |}.
Definition with_out (io : ioport) (p : port) : ioport := {| io_in := io_in io; io_out := p; io_closed := io_closed io |}.

(* BasePort.close on the wrapper: if not closed, _close() = input.close(); output.close(); then closed = True *)
Definition io_close (io : ioport) : ioport :=
  if io_closed io then io else {| io_in := close (io_in io); io_out := close (io_out io); io_closed := true |}.
(* BaseOutput.send on the wrapper: ValueError when the wrapper is closed, else output.send (which has its own closed check) *)
Definition io_send (io : ioport) (m : Z) : ioport * res unit :=
  if io_closed io then (io, Raise ValueError) else let '(o, r) := send (io_out io) m in (with_out io o, r).
(* receive is forwarded as it is: the input port knows what it holds and whether it is closed *)
Definition io_receive (fuel : nat) (block : bool) (io : ioport) : ioport * res (option Z) :=
  let '(i, r) := receive fuel block (io_in io) in (with_in io i, r).
Definition io_iter_pending (fuel : nat) (io : ioport) : ioport * res (list Z) :=
  let '(i, r) := iter_pending 2000 fuel (io_in io) in (with_in io i, r).
(* __iter__ returns iter(self.input) *)
Definition io_iterate (k : nat) (fuel : nat) (io : ioport) : ioport * res (list Z) :=
  let '(i, r) := (if p_echo (io_in io) then take_pending k fuel (io_in io) else iterate k fuel (io_in io)) in (with_in io i, r).
(* BaseOutput.reset on the wrapper: nothing when closed; else self.send(msg) for each reset message, stopping at the first exception *)
Fixpoint io_send_all (l : list Z) (io : ioport) : ioport * res unit :=
  match l with
  | [] => (io, Ok tt)
  | m :: r => match io_send io m with (io1, Ok _) => io_send_all r io1 | (io1, Raise e) => (io1, Raise e) end
  end.
Definition io_reset (io : ioport) : ioport * res unit := if io_closed io then (io, Ok tt) else io_send_all reset_ids io.

Inductive io_op :=
| IOSend (m : Z) | IOReceive (block : bool) | IOPoll | IOIterPending | IOIterate (limit : nat) | IOClose | IOWith (m : Z) | IOReset
| IOCloseIn | IOCloseOut.         (* io.input.close() / io.output.close(), behind the wrapper's back *)
Definition io_step (fuel : nat) (io : ioport) (o : io_op) : ioport * pout :=
  let unit_out (r : res unit) := match r with Ok _ => ONone_ | Raise e => OErr_ e end in
  match o with
  | IOSend m => let '(io1, r) := io_send io m in (io1, unit_out r)
  | IOReceive b => let '(io1, r) := io_receive fuel b io in (io1, match r with Ok x => OMsg_ x | Raise e => OErr_ e end)
  | IOPoll => let '(io1, r) := io_receive fuel false io in (io1, match r with Ok x => OMsg_ x | Raise e => OErr_ e end)
  | IOIterPending => let '(io1, r) := io_iter_pending fuel io in (io1, match r with Ok l => OList_ l | Raise e => OErr_ e end)
  | IOIterate k => let '(io1, r) := io_iterate k fuel io in (io1, match r with Ok l => OList_ l | Raise e => OErr_ e end)
  | IOClose => (io_close io, ONone_)
  | IOWith m => let '(io1, r) := io_send io m in (io_close io1, unit_out r)
  | IOReset => let '(io1, r) := io_reset io in (io1, unit_out r)
  | IOCloseIn => (with_in io (close (io_in io)), ONone_)
  | IOCloseOut => (with_out io (close (io_out io)), ONone_)
  end.
Fixpoint io_run (fuel : nat) (io : ioport) (ops : list io_op) : ioport * list pout :=
  match ops with
  | [] => (io, [])
  | o :: r => let '(io1, x) := io_step fuel io o in let '(io2, xs) := io_run fuel io1 r in (io2, x :: xs)
  end.
Definition new_ioport (i o : port) : ioport := {| io_in := i; io_out := o; io_closed := false |}.
