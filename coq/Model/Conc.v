(* Conc.v — several threads using one port (mido/ports.py: BaseOutput.send, BaseInput.receive / poll / iter_pending), at the
   granularity of the accesses to what the threads share: the port's lock(s), its message deque, the device.  One step of a thread
   performs ONE such access and runs on to just before the next one; a schedule is a list of thread ids.
   Port kinds: an EchoPort (send appends to the deque), a device port (send writes the message's bytes to the device one by one,
   _receive reads what the device holds into the stream parser), and the IOPort wrapper over an input and an output port joined by a
   cable, which is the device port with two different locks (IOPort forwards send to the output port and receive to the input port).
   Ghost fields (never read by the code) carry the history the theorems speak about. *)
From Coq Require Import ZArith List Bool Arith.
Require Import Mido.Model.Base Mido.Model.Codec Mido.Model.Tokenizer Mido.Model.Parser.
Import ListNotations.

Definition tid := nat.
Inductive pkind := KEcho | KDevice.
Inductive lockid := LIn | LOut.
(* locking = false is DummyLock (no protection at all); same_lock = true is a plain port (one RLock for both directions) *)
Record conf := { c_locking : bool; c_kind : pkind; c_same_lock : bool }.

Inductive op := Send (m : msg) | Recv (block : bool) | IterPending (acc : list msg).
Inductive result := RSent | RGot (m : option msg) | RList (l : list msg).

(* the next shared access of a thread *)
Inductive pc :=
| AtStart                                  (* acquire the lock the head operation needs *)
| SApp (m : msg)                         (* EchoPort._send: deque.append *)
| SWrite (m : msg) (rest : list Z)       (* device _send: write the next byte *)
| SRel                                   (* leave 'with self._lock' in send *)
| RBool1 | RPop1 | RRel1 (r : option msg)        (* receive: 'if self._messages: return popleft()' under the lock *)
| LAcq | LRead | LBool | LPop | LRel (r : option msg) (slp : bool) | LSleep    (* the polling loop *)
| Raised (e : exn).

Record thread := { prog : list op; at_ : pc; results : list result }.

Record shared := {
  lk_in : option tid; lk_out : option tid;       (* lock owners (with c_same_lock only lk_in is used) *)
  q : list msg; devbuf : list Z; tok : tstate; sleeps : nat;
  (* ghosts *)
  produced : list msg;          (* every message ever put into the deque *)
  recvd : list (tid * msg);     (* every message ever popped, with the thread that popped it *)
  allread : list Z;             (* every byte ever read from the device *)
  stream : list (tid * msg);    (* device: the messages in the order their senders got the lock; echo: in append order *)
  wrest : list Z                (* bytes the current writer still has to write *)
}.
Definition cfg := (shared * (tid -> thread))%type.

Definition upd (ts : tid -> thread) (t : tid) (th : thread) : tid -> thread := fun u => if Nat.eqb u t then th else ts u.
Definition set_pc (th : thread) (p : pc) : thread := {| prog := prog th; at_ := p; results := results th |}.

Section Model.
Variable c : conf.

Definition which (l : lockid) : lockid := if c_same_lock c then LIn else l.
Definition owner (s : shared) (l : lockid) : option tid := match which l with LIn => lk_in s | LOut => lk_out s end.
Definition set_owner (s : shared) (l : lockid) (o : option tid) : shared :=
  match which l with
  | LIn => {| lk_in := o; lk_out := lk_out s; q := q s; devbuf := devbuf s; tok := tok s; sleeps := sleeps s; produced := produced s; recvd := recvd s;
              allread := allread s; stream := stream s; wrest := wrest s |}
  | LOut => {| lk_in := lk_in s; lk_out := o; q := q s; devbuf := devbuf s; tok := tok s; sleeps := sleeps s; produced := produced s; recvd := recvd s;
               allread := allread s; stream := stream s; wrest := wrest s |}
  end.
Definition can_acquire (s : shared) (l : lockid) (t : tid) : bool :=
  if c_locking c then match owner s l with None => true | Some o => Nat.eqb o t end else true.
Definition acquire (s : shared) (l : lockid) (t : tid) : shared := if c_locking c then set_owner s l (Some t) else s.
Definition release (s : shared) (l : lockid) : shared := if c_locking c then set_owner s l None else s.

Definition finish_recv (th : thread) (r : option msg) : thread :=
  match prog th with
  | Recv _ :: rest => {| prog := rest; at_ := AtStart; results := results th ++ [RGot r] |}
  | IterPending acc :: rest =>
      match r with
      | Some m => {| prog := IterPending (acc ++ [m]) :: rest; at_ := AtStart; results := results th |}
      | None => {| prog := rest; at_ := AtStart; results := results th ++ [RList acc] |}
      end
  | _ => th
  end.
Definition is_block (th : thread) : bool := match prog th with Recv b :: _ => b | _ => false end.
Definition finish_send (th : thread) : thread := {| prog := tl (prog th); at_ := AtStart; results := results th ++ [RSent] |}.

Definition with_q (s : shared) (q' : list msg) (recvd' : list (tid * msg)) : shared :=
  {| lk_in := lk_in s; lk_out := lk_out s; q := q'; devbuf := devbuf s; tok := tok s; sleeps := sleeps s; produced := produced s; recvd := recvd';
     allread := allread s; stream := stream s; wrest := wrest s |}.

(* one step of thread t: None = blocked on a lock, finished, or dead *)
Definition step_thread (s : shared) (t : tid) (th : thread) : option (shared * thread) :=
  match at_ th with
  | AtStart =>
      match prog th with
      | [] => None
      | Send m :: _ =>
          if can_acquire s LOut t then
            let s1 := acquire s LOut t in
            match c_kind c with
            | KEcho => Some (s1, set_pc th (SApp m))
            | KDevice => Some ({| lk_in := lk_in s1; lk_out := lk_out s1; q := q s1; devbuf := devbuf s1; tok := tok s1; sleeps := sleeps s1; produced := produced s1;
                                  recvd := recvd s1; allread := allread s1; stream := stream s1 ++ [(t, m)]; wrest := enc m |}, set_pc th (SWrite m (enc m)))
            end
          else None
      | _ => if can_acquire s LIn t then Some (acquire s LIn t, set_pc th RBool1) else None
      end
  | SApp m => Some ({| lk_in := lk_in s; lk_out := lk_out s; q := q s ++ [m]; devbuf := devbuf s; tok := tok s; sleeps := sleeps s; produced := produced s ++ [m];
                       recvd := recvd s; allread := allread s; stream := stream s ++ [(t, m)]; wrest := wrest s |}, set_pc th SRel)
  | SWrite m rest =>
      match rest with
      | [] => Some (s, set_pc th SRel)
      | b :: rest' => Some ({| lk_in := lk_in s; lk_out := lk_out s; q := q s; devbuf := devbuf s ++ [b]; tok := tok s; sleeps := sleeps s; produced := produced s;
                               recvd := recvd s; allread := allread s; stream := stream s; wrest := rest' |},
                            set_pc th (match rest' with [] => SRel | _ => SWrite m rest' end))
      end
  | SRel => Some (release s LOut, finish_send th)
  | RBool1 => Some (s, set_pc th (match q s with [] => RRel1 None | _ => RPop1 end))
  | RPop1 => match q s with
             | [] => Some (s, set_pc th (Raised IndexError))
             | m :: r => Some (with_q s r (recvd s ++ [(t, m)]), set_pc th (RRel1 (Some m)))
             end
  | RRel1 r => Some (release s LIn, match r with Some _ => finish_recv th r | None => set_pc th LAcq end)
  | LAcq => if can_acquire s LIn t then Some (acquire s LIn t, set_pc th (match c_kind c with KDevice => LRead | KEcho => LBool end)) else None
  | LRead =>
      let '(tok', toks) := feed (tok s) (devbuf s) in
      match sequence (map dec toks) with
      | Ok ms => Some ({| lk_in := lk_in s; lk_out := lk_out s; q := q s ++ ms; devbuf := []; tok := tok'; sleeps := sleeps s; produced := produced s ++ ms;
                          recvd := recvd s; allread := allread s ++ devbuf s; stream := stream s; wrest := wrest s |}, set_pc th LBool)
      | Raise e => Some (s, set_pc th (Raised e))
      end
  | LBool => Some (s, set_pc th (match q s with [] => LRel None (is_block th) | _ => LPop end))
  | LPop => match q s with
            | [] => Some (s, set_pc th (Raised IndexError))
            | m :: r => Some (with_q s r (recvd s ++ [(t, m)]), set_pc th (LRel (Some m) false))
            end
  | LRel r slp => Some (release s LIn, if slp then set_pc th LSleep else finish_recv th r)
  | LSleep => Some ({| lk_in := lk_in s; lk_out := lk_out s; q := q s; devbuf := devbuf s; tok := tok s; sleeps := S (sleeps s); produced := produced s;
                       recvd := recvd s; allread := allread s; stream := stream s; wrest := wrest s |}, set_pc th LAcq)
  | Raised _ => None
  end.

Definition cstep (cf : cfg) (t : tid) : cfg :=
  let '(s, ts) := cf in
  match step_thread s t (ts t) with
  | None => cf
  | Some (s', th') => (s', upd ts t th')
  end.
Definition crun (sched : list tid) (cf : cfg) : cfg := fold_left cstep sched cf.

End Model.

Definition init_shared : shared :=
  {| lk_in := None; lk_out := None; q := []; devbuf := []; tok := Idle; sleeps := 0; produced := []; recvd := []; allread := []; stream := []; wrest := [] |}.
Definition cinit (progs : tid -> list op) : cfg := (init_shared, fun t => {| prog := progs t; at_ := AtStart; results := [] |}).
