(* Charset.v — model of the process-wide text charset of mido/midifiles/meta.py (_charset, meta_charset) and of how
   MidiFile._load / _save run inside it. *)
From Coq Require Import ZArith List Bool.
Require Import Mido.Model.Base Mido.Model.Meta Mido.Model.Smf.
Import ListNotations.
Open Scope Z_scope.

(* a charset name; 0 = latin1 (the default), 1 = ascii, others are further codecs given by [codec_of] *)
Definition charset := Z.
Record gstate := { g_charset : charset }.
Definition g_default : gstate := {| g_charset := 0 |}.

(* with meta_charset(tmp): body.  [guarded] = the context manager restores in a finally clause (the repaired tree);
   without it an exception in the body skips the restore *)
Definition with_charset {A} (guarded : bool) (tmp : charset) (st : gstate) (body : gstate -> res A) : gstate * res A :=
  let old := g_charset st in
  let st1 := {| g_charset := tmp |} in
  match body st1 with
  | Ok a => ({| g_charset := old |}, Ok a)
  | Raise e => (if guarded then {| g_charset := old |} else st1, Raise e)
  end.

Section Codecs.
Variable codec_of : charset -> codec.

(* encode_string / decode_string use whatever the process-wide charset currently is *)
Definition cur_codec (st : gstate) : codec := codec_of (g_charset st).

(* MidiFile(file=..., charset=c) and MidiFile.save() of a file whose charset attribute is c *)
Definition load_g (guarded : bool) (c : charset) (clip : bool) (st : gstate) (bs : list Z) : gstate * res midifile :=
  with_charset guarded c st (fun st' => load (cur_codec st') clip bs).
Definition save_g (guarded : bool) (c : charset) (st : gstate) (f : midifile) : gstate * res (list Z) :=
  with_charset guarded c st (fun st' => save (cur_codec st') f).

(* meta text encoded elsewhere in the process: MetaMessage('text', text=t).bytes() *)
Definition text_bytes_elsewhere (st : gstate) (t : list Z) : res (list Z) := meta_bytes (cur_codec st) (MText 1 t).

Inductive call := CLoad (c : charset) (clip : bool) (bs : list Z) | CSave (c : charset) (f : midifile).
Definition do_call (guarded : bool) (st : gstate) (k : call) : gstate * bool :=
  match k with
  | CLoad c clip bs => let '(st', r) := load_g guarded c clip st bs in (st', is_raise r)
  | CSave c f => let '(st', r) := save_g guarded c st f in (st', is_raise r)
  end.
End Codecs.
