(* SmfSpecProofs.v — conformance to the Standard MIDI File format in both directions (C08). *)
From Coq Require Import ZArith List Bool Lia ZifyBool.
Require Import Mido.Model.Base Mido.Model.Codec Mido.Model.Varint Mido.Model.Meta Mido.Model.Smf Mido.Model.SmfSpec.
Require Import Mido.Proofs.CodecProofs Mido.Proofs.VarintProofs Mido.Proofs.MetaProofs Mido.Proofs.SmfProofs.
Import ListNotations.
Open Scope Z_scope.

(* ================= (A) what save() writes is the canonical standard encoding ================= *)
Lemma payload_is_std cs x : meta_rt x = true -> meta_payload cs x = std_meta_payload cs x.
Proof.
  unfold meta_rt, meta_rt_b. intros H. apply andb_prop in H as [Hok Hx].
  destruct x; cbn [meta_payload std_meta_payload meta_ok] in *; unfold in_rng in *; try reflexivity; bsplit.
  - rewrite land_255, Z.shiftr_div_pow2 by lia. reflexivity.
  - rewrite !land_255, !Z.shiftr_div_pow2 by lia. reflexivity.
  - rewrite lor_shiftl_add by (try lia; change (2 ^ 5) with 32; lia). change (2 ^ 5) with 32. do 2 f_equal. lia.
  - do 2 f_equal. destruct (sf <? 0) eqn:E; Z.to_euclidean_division_equations; lia.
Qed.

Definition rs_small (rs : option Z) : Prop := forall s, rs = Some s -> s < 240.
Lemma next_rs_small e : rs_small (next_rs e).
Proof.
  intros s. unfold next_rs. destruct e as [m|x]; [|discriminate].
  destruct m; cbn [enc app]; try discriminate;
    match goal with |- (if ?b then _ else _) = _ -> _ => destruct b eqn:E; [|discriminate] end;
    intros H; injection H as <-; apply Z.ltb_lt in E; exact E.
Qed.

Lemma write_event_canonical cs rs dt e body : ev_ok cs e -> rs_small rs -> write_event cs rs (TInt dt, e) = Ok body ->
  exists re, raw_of_event cs e = Ok re /\ body = enc_raw canonical rs (dt, re) /\ next_rs e = rs_after re.
Proof.
  intros Hok Hrs Hw. unfold write_event in Hw. destruct (dt <? 0) eqn:E0; [discriminate|]. destruct e as [m|x]; cbn [ev_ok] in Hok.
  - destruct Hok as (Hv & Hrt & _). rewrite Hrt in Hw. destruct (kind_eq_dec_sysex m) as [[d ->]|Hk].
    + revert Hw. mstep. intros Hw. injection Hw as <-. exists (RSysex d). repeat split.
    + destruct (enc_kind m Hv Hk) as (st & ds & He & _ & _ & _ & Hst & _ & _ & _ & _).
      assert (Hbody : body = enc_varint dt ++ (if opt_eqb rs st then ds else st :: ds)).
      { destruct m; try (cbn in Hk; congruence); rewrite He in Hw; revert Hw; mstep; intros Hw; congruence. }
      subst body. rewrite (next_rs_msg m st ds He Hk). rewrite (layout m Hv) in He.
      exists (if st <? 240 then RChan st ds else RCommon st ds). split.
      { unfold raw_of_event. destruct m; try (cbn in Hk; congruence); rewrite He; reflexivity. }
      unfold enc_raw, canonical, vlq. cbn [pad_dt use_rs fst snd repeat app andb].
      destruct (st <? 240) eqn:E4; cbn [rs_after]; split; try reflexivity.
      destruct (opt_eqb rs st) eqn:Er; [|reflexivity]. exfalso.
      destruct rs as [s|]; [|discriminate]. cbn in Er. apply Z.eqb_eq in Er. subst s. specialize (Hrs st eq_refl). lia.
  - destruct Hok as [Hrt _]. change (is_realtime (EMeta x)) with false in Hw. unfold meta_bytes in Hw.
    destruct (meta_payload cs x) as [p|] eqn:Hp; revert Hw; mstep; intros Hw; [|discriminate]. injection Hw as <-.
    rewrite (payload_is_std cs x Hrt) in Hp. exists (RMeta (type_byte x) p). unfold raw_of_event. rewrite Hp. mstep. repeat split.
Qed.

Lemma write_events_canonical cs : forall evs rs data, Forall (fun te => ev_ok cs (snd te)) evs -> rs_small rs ->
  write_events cs rs evs = Ok data ->
  exists revs, raw_of_track cs evs = Ok revs /\ data = enc_raws [] rs revs.
Proof.
  induction evs as [|[t e] r IH]; intros rs data Hall Hrs Hw; cbn [write_events] in Hw.
  - injection Hw as <-. exists []. split; reflexivity.
  - destruct (write_event cs rs (t, e)) as [a|] eqn:Ea; revert Hw; mstep; [|discriminate].
    destruct (write_events cs (next_rs (snd (t, e))) r) as [b|] eqn:Eb; mstep; [|discriminate]. intros Hw; injection Hw as <-.
    destruct (write_event_time _ _ _ _ _ Ea) as (dt & -> & _ & _).
    apply Forall_cons_iff in Hall as [Hok Hall']. cbn [snd] in *.
    destruct (write_event_canonical cs rs dt e a Hok Hrs Ea) as (re & Hre & -> & Hn).
    destruct (IH _ _ Hall' (next_rs_small e) Eb) as (revs & Hr & ->).
    exists ((dt, re) :: revs). cbn [raw_of_track]. rewrite Hre. mstep. rewrite Hr. mstep. split; [reflexivity|].
    cbn [enc_raws snd]. now rewrite Hn.
Qed.

Lemma be32_be32s n : 0 <= n -> be32 n = be32s n.
Proof. intros Hn. unfold be32, be32s. rewrite !Z.shiftr_div_pow2 by lia. reflexivity. Qed.

Lemma write_track_canonical cs tr bytes_ : track_ok cs tr -> write_track cs tr = Ok bytes_ ->
  exists revs, raw_of_track cs (fix_eot tr) = Ok revs /\ bytes_ = enc_chunk MTrk (enc_raws [] None revs) /\ zlen (enc_raws [] None revs) < 4294967296.
Proof.
  intros Hok Hw. unfold write_track in Hw. destruct (write_events cs None (fix_eot tr)) as [data|] eqn:Ed; revert Hw; mstep; [|discriminate].
  unfold write_chunk. destruct (zlen data <? 4294967296) eqn:Esz; [|discriminate]. intros Hw; injection Hw as <-.
  destruct (write_events_canonical cs (fix_eot tr) None data) as (revs & Hr & ->); auto.
  - apply fix_eot_events; [apply ev_ok_eot|exact Hok].
  - intros s Hs; discriminate.
  - exists revs. split; [assumption|]. split; [|lia]. unfold enc_chunk, be32, be32s. rewrite !Z.shiftr_div_pow2 by lia. reflexivity.
Qed.

Lemma write_tracks_canonical cs : forall trs bytes_, Forall (track_ok cs) trs -> write_tracks cs trs = Ok bytes_ ->
  exists rtrs, raw_of_tracks cs (map fix_eot trs) = Ok rtrs /\ bytes_ = enc_tracks [] rtrs /\
    Forall (fun tr => zlen (enc_raws [] None tr) < 4294967296) rtrs.
Proof.
  induction trs as [|tr r IH]; intros bytes_ Hok Hw; cbn [write_tracks] in Hw.
  - injection Hw as <-. exists []. repeat split; constructor.
  - destruct (write_track cs tr) as [a|] eqn:Ea; revert Hw; mstep; [|discriminate].
    destruct (write_tracks cs r) as [b|] eqn:Eb; mstep; [|discriminate]. intros Hw; injection Hw as <-.
    apply Forall_cons_iff in Hok as [H1 H2].
    destruct (write_track_canonical cs tr a H1 Ea) as (revs & Hr & -> & Hsz). destruct (IH b H2 eq_refl) as (rtrs & Hrt & -> & Hszs).
    exists (revs :: rtrs). cbn [map raw_of_tracks]. rewrite Hr. mstep. rewrite Hrt. mstep. repeat split; [constructor; assumption].
Qed.

(* header fields as the standard has them: unsigned 16-bit, here 0..32767 (what mido can write unchanged) *)
Definition header_std (f : midifile) : Prop := 0 <= f_type f <= 32767 /\ 0 <= f_tpb f <= 32767.

Lemma pack_h_be16 z l : 0 <= z <= 32767 -> pack_h z = Ok l -> l = be16 z.
Proof.
  intros Hz. unfold pack_h. destruct ((-32768 <=? z) && (z <=? 32767)); [|discriminate]. intros H; injection H as <-.
  unfold be16. rewrite Z.shiftr_div_pow2 by lia. change (2 ^ 8) with 256. rewrite (Z.mod_small z 65536) by lia.
  f_equal. rewrite Z.mod_small; [reflexivity|]. Z.to_euclidean_division_equations; lia.
Qed.

Theorem save_is_canonical cs f bs : file_ok cs f -> header_std f -> save cs f = Ok bs ->
  exists rf, raw_of_file cs (normalise f) = Ok rf /\ bs = enc_file [] [] rf /\
    Forall (fun tr => zlen (enc_raws [] None tr) < 4294967296) (snd rf) /\ fst rf = (f_type f, zlen (f_tracks f), f_tpb f) /\ 0 <= zlen (f_tracks f) <= 32767.
Proof.
  intros Hok [Ht Hd] Hs. unfold save in Hs.
  destruct ((f_type f =? 0) && negb (length (f_tracks f) =? 1)%nat); [discriminate|].
  destruct (pack_h (f_type f)) as [a|] eqn:Ea; revert Hs; mstep; [|discriminate].
  destruct (pack_h (zlen (f_tracks f))) as [b|] eqn:Eb; mstep; [|discriminate].
  destruct (pack_h (f_tpb f)) as [c|] eqn:Ec; mstep; [|discriminate].
  destruct (write_tracks cs (f_tracks f)) as [body|] eqn:Et; mstep; [|discriminate].
  assert (Hn : 0 <= zlen (f_tracks f) <= 32767).
  { unfold pack_h in Eb. destruct ((-32768 <=? zlen (f_tracks f)) && (zlen (f_tracks f) <=? 32767)) eqn:E; [|discriminate]. unfold zlen in *. lia. }
  rewrite (pack_h_be16 _ _ Ht Ea), (pack_h_be16 _ _ Hn Eb), (pack_h_be16 _ _ Hd Ec) in *.
  unfold write_chunk. cbn [be16 app zlen length]. change (Z.of_nat 6 <? 4294967296) with true. mstep. intros Hs; injection Hs as <-.
  destruct (write_tracks_canonical cs (f_tracks f) body Hok Et) as (rtrs & Hr & -> & Hszs).
  exists ((f_type f, zlen (f_tracks f), f_tpb f), rtrs). split; [|split; [|split; [exact Hszs|split; [reflexivity|exact Hn]]]].
  - unfold raw_of_file, normalise. cbn [f_tracks f_type f_tpb]. rewrite Hr. mstep. unfold zlen. now rewrite map_length.
  - unfold enc_file, enc_chunk, be32, be32s. cbn [be16 app zlen length]. rewrite !Z.shiftr_div_pow2 by lia. reflexivity.
Qed.

(* ================= (B) the reference decoder reads every legal encoding of a raw file back ================= *)
Definition raw_wf (de : Z * raw) : Prop :=
  0 <= fst de /\
  match snd de with
  | RChan st d => 128 <= st < 240 /\ length d = chan_data_len st /\ data7 d
  | RCommon st d => common_data_len st = Some (length d) /\ data7 d
  | RSysex d => True
  | RMeta ty p => True
  end.
Definition rs_chan (rs : option Z) : Prop := forall s, rs = Some s -> 128 <= s < 240.

Lemma take'_app a rest : take' (zlen a) (a ++ rest) = Some (a, rest).
Proof.
  unfold take'. destruct ((zlen a <? 0) || (zlen (a ++ rest) <? zlen a)) eqn:E; [unfold zlen in E; rewrite app_length in E; lia|].
  unfold zlen. rewrite Nat2Z.id, firstn_app, Nat.sub_diag, firstn_all, firstn_O, app_nil_r, skipn_app, Nat.sub_diag, skipn_all. reflexivity.
Qed.
Lemma read_varint_vlq k n rest : 0 <= n -> read_varint (vlq k n ++ rest) = Some (n, rest).
Proof. intros H. unfold vlq. rewrite <- app_assoc. now apply read_varint_padded. Qed.
Lemma chan_data_len_pos st : (1 <= chan_data_len st)%nat.
Proof. unfold chan_data_len. destruct ((192 <=? st) && (st <? 224)); lia. Qed.

Lemma ref_event_enc c rs de rest : raw_wf de -> rs_chan rs ->
  ref_event rs (enc_raw c rs de ++ rest) = Some (de, rs_after (snd de), rest).
Proof.
  intros [Hdt Hw] Hrs. destruct de as [dt re]. cbn [fst snd] in *. unfold ref_event, enc_raw. cbn [fst snd].
  rewrite <- app_assoc, read_varint_vlq by assumption. destruct re as [st d|st d|d|ty p]; cbn [rs_after].
  - destruct Hw as (Hst & Hl & Hd). destruct (use_rs c && opt_eqb rs st) eqn:Eu.
    + apply andb_prop in Eu as [_ Er]. destruct rs as [s|]; [|discriminate]. cbn in Er. apply Z.eqb_eq in Er. subst s.
      pose proof (chan_data_len_pos st) as Hp. destruct d as [|d1 d']; [cbn [length] in Hl; lia|].
      pose proof (Forall_inv Hd) as Hd1. cbn beta in Hd1. cbn [app]. destruct (d1 <? 128) eqn:E1; [|lia].
      replace (Z.of_nat (chan_data_len st)) with (zlen (d1 :: d')) by (unfold zlen; now rewrite Hl).
      change (d1 :: d' ++ rest) with ((d1 :: d') ++ rest). rewrite take'_app, (data7_forallb _ Hd). reflexivity.
    + cbn [app]. destruct (st <? 128) eqn:E1; [lia|]. destruct (st <? 240) eqn:E2; [|lia].
      replace (Z.of_nat (chan_data_len st)) with (zlen d) by (unfold zlen; now rewrite Hl).
      rewrite take'_app, (data7_forallb _ Hd). reflexivity.
  - destruct Hw as (Hk & Hd). cbn [app]. unfold common_data_len in Hk.
    assert (Hst : st = 241 \/ st = 242 \/ st = 243 \/ st = 246).
    { repeat match type of Hk with context [if ?b then _ else _] => destruct b eqn:? end; try discriminate; lia. }
    destruct (st <? 128) eqn:E1; [lia|]. destruct (st <? 240) eqn:E2; [lia|]. destruct (st =? 240) eqn:E3; [lia|].
    destruct (st =? 255) eqn:E4; [lia|].
    assert (Hk' : common_data_len st = Some (length d)) by exact Hk. rewrite Hk'.
    replace (Z.of_nat (length d)) with (zlen d) by reflexivity. rewrite take'_app, (data7_forallb _ Hd). reflexivity.
  - cbn [app]. change (240 <? 128) with false. change (240 <? 240) with false. change (240 =? 240) with true. cbv iota.
    rewrite <- app_assoc, read_varint_vlq by (unfold zlen; lia).
    replace (zlen d + 1) with (zlen (d ++ [247])) by (unfold zlen; rewrite app_length; cbn [length]; lia).
    replace (d ++ [247] ++ rest) with ((d ++ [247]) ++ rest) by now rewrite <- app_assoc.
    rewrite take'_app, rev_app_distr. cbn [rev app]. change (247 =? 247) with true. cbv iota. now rewrite rev_involutive.
  - cbn [app]. change (255 <? 128) with false. change (255 <? 240) with false. change (255 =? 240) with false. change (255 =? 255) with true.
    cbv iota. rewrite <- app_assoc, read_varint_vlq by (unfold zlen; lia). rewrite take'_app. reflexivity.
Qed.

Lemma enc_raw_nonempty c rs de : enc_raw c rs de <> [].
Proof.
  intros H. apply (f_equal (@length Z)) in H. unfold enc_raw, vlq, enc_varint in H. rewrite !app_length in H. cbn [length] in H. lia.
Qed.

Lemma rs_after_chan de : raw_wf de -> rs_chan (rs_after (snd de)).
Proof. intros [_ Hw] s. destruct (snd de); cbn; intros H; inversion H; subst. tauto. Qed.

Lemma ref_events_enc : forall evs cs fuel rs, Forall raw_wf evs -> rs_chan rs -> (length evs <= fuel)%nat ->
  ref_events fuel rs (enc_raws cs rs evs) = Some evs.
Proof.
  induction evs as [|de r IH]; intros cs fuel rs Hall Hrs Hf.
  - cbn. destruct fuel; reflexivity.
  - apply Forall_cons_iff in Hall as [Hw Hall']. destruct fuel as [|f]; [cbn [length] in Hf; lia|].
    assert (Hstep : forall c cr, ref_events (S f) rs (enc_raw c rs de ++ enc_raws cr (rs_after (snd de)) r) = Some (de :: r)).
    { intros c cr. cbn [ref_events]. destruct (enc_raw c rs de ++ enc_raws cr (rs_after (snd de)) r) eqn:E.
      - apply app_eq_nil in E as [E _]. now apply enc_raw_nonempty in E.
      - rewrite <- E, (ref_event_enc c rs de _ Hw Hrs). rewrite (IH cr f _ Hall' (rs_after_chan de Hw) ltac:(cbn [length] in Hf; lia)). reflexivity. }
    destruct cs as [|c cr]; cbn [enc_raws]; apply Hstep.
Qed.

Lemma be32s_value n : 0 <= n < 4294967296 ->
  (((n / 16777216) mod 256 * 256 + (n / 65536) mod 256) * 256 + (n / 256) mod 256) * 256 + n mod 256 = n.
Proof. intros H. Z.to_euclidean_division_equations. lia. Qed.

Lemma ref_chunk_enc a b c d data rest : zlen data < 4294967296 ->
  ref_chunk (enc_chunk [a; b; c; d] data ++ rest) = Some ([a; b; c; d], data, rest).
Proof.
  intros H. unfold enc_chunk, be32s. cbn [app ref_chunk]. rewrite be32s_value by (unfold zlen in *; lia). now rewrite take'_app.
Qed.

Lemma enc_raws_length : forall evs cs rs, (length evs <= length (enc_raws cs rs evs))%nat.
Proof.
  induction evs as [|de r IH]; intros cs rs; [cbn; lia|].
  assert (H : forall c cr, (length (de :: r) <= length (enc_raw c rs de ++ enc_raws cr (rs_after (snd de)) r))%nat).
  { intros c cr. rewrite app_length. specialize (IH cr (rs_after (snd de))). pose proof (enc_raw_nonempty c rs de).
    destruct (enc_raw c rs de); [congruence|]. cbn [length]. lia. }
  destruct cs; cbn [enc_raws]; apply H.
Qed.

Lemma ref_tracks_enc : forall trs css rest, Forall (Forall raw_wf) trs ->
  Forall (fun p => zlen (enc_raws (fst p) None (snd p)) < 4294967296) (combine (map (fun i => nth i css []) (seq 0 (length trs))) trs) ->
  True -> ref_tracks (length trs) (enc_tracks css trs ++ rest) = Some trs.
Proof.
  induction trs as [|tr r IH]; intros css rest Hw Hsz _; [reflexivity|].
  apply Forall_cons_iff in Hw as [Hw1 Hw2]. cbn [length seq map combine] in Hsz. apply Forall_cons_iff in Hsz as [Hs1 Hs2].
  cbn [fst snd] in Hs1. replace (nth 0 css []) with (hd [] css) in Hs1 by (destruct css; reflexivity).
  cbn [length ref_tracks enc_tracks]. unfold MTrk at 1. rewrite <- app_assoc, ref_chunk_enc by assumption.
  change (list_eqb [77; 84; 114; 107] MTrk) with true. cbv iota.
  rewrite (ref_events_enc tr (hd [] css) _ None Hw1 ltac:(intros s Hs; discriminate) (enc_raws_length _ _ _)).
  rewrite (IH (tl css) rest Hw2); [reflexivity| |exact I].
  rewrite <- seq_shift, map_map in Hs2. erewrite map_ext in Hs2; [exact Hs2|]. intros i. destruct css; [destruct i; reflexivity|reflexivity].
Qed.

Theorem ref_decode_enc_gen extra css fmt division trs :
  0 <= fmt < 65536 -> 0 <= division < 65536 -> zlen trs < 65536 -> zlen extra < 4294967290 ->
  Forall (Forall raw_wf) trs ->
  Forall (fun p => zlen (enc_raws (fst p) None (snd p)) < 4294967296) (combine (map (fun i => nth i css []) (seq 0 (length trs))) trs) ->
  ref_decode (enc_file extra css ((fmt, zlen trs, division), trs)) = Some ((fmt, zlen trs, division), trs).
Proof.
  intros Hf Hd Hn He Hw Hs. unfold ref_decode, enc_file, MThd.
  rewrite ref_chunk_enc by (unfold zlen in *; rewrite !app_length; cbn [be16 length]; lia).
  change (list_eqb [77; 84; 104; 100] [77; 84; 104; 100]) with true. cbv iota. cbn [be16 app].
  assert (E16 : forall z, 0 <= z < 65536 -> (z / 256) mod 256 * 256 + z mod 256 = z) by (intros z Hz; Z.to_euclidean_division_equations; lia).
  rewrite !E16 by (unfold zlen in *; lia). unfold zlen at 1. rewrite Nat2Z.id.
  rewrite <- (app_nil_r (enc_tracks css trs)), ref_tracks_enc; [reflexivity|assumption|assumption|exact I].
Qed.

Theorem ref_decode_enc extra css fmt division trs :
  0 <= fmt < 65536 -> 0 <= division < 65536 -> zlen trs < 65536 -> zlen extra < 4294967290 ->
  Forall (Forall raw_wf) trs -> (forall cs tr, In tr trs -> zlen (enc_raws cs None tr) < 4294967296) ->
  ref_decode (enc_file extra css ((fmt, zlen trs, division), trs)) = Some ((fmt, zlen trs, division), trs).
Proof.
  intros Hf Hd Hn He Hw Hs. apply ref_decode_enc_gen; try assumption.
  apply Forall_forall. intros [cs tr] Hin. cbn [fst snd]. apply Hs. apply in_combine_r in Hin. exact Hin.
Qed.

(* ---- raw events of storable typed events are well formed ---- *)
Lemma std_enc_shape m : valid m = true -> is_realtime (EMsg m) = false -> kind_of m <> KSysex ->
  exists st d, std_enc m = st :: d /\ data7 d /\
    ((st <? 240) = true /\ 128 <= st /\ length d = chan_data_len st \/ (st <? 240) = false /\ common_data_len st = Some (length d)).
Proof.
  intros Hv Hrt Hk. pose proof (valid_split m Hv) as Hs.
  destruct m; unfold std_enc; cbn [is_realtime kind_of] in *; try discriminate; try congruence;
    eexists; eexists; (split; [reflexivity|]); (split; [unfold data7; repeat constructor; try lia; Z.to_euclidean_division_equations; lia|]).
  1-7: left; unfold chan_data_len;
       match goal with |- context [(192 <=? ?s) && (?s <? 224)] => destruct ((192 <=? s) && (s <? 224)) eqn:E end;
       repeat split; try reflexivity; lia.
  all: right; split; reflexivity.
Qed.

Lemma raw_of_event_wf cs e re dt : ev_ok cs e -> 0 <= dt -> raw_of_event cs e = Ok re -> raw_wf (dt, re).
Proof.
  intros Hok Hdt Hr. split; [exact Hdt|]. cbn [snd]. destruct e as [m|x]; cbn [ev_ok] in *.
  - destruct Hok as (Hv & Hrt & _). destruct (kind_eq_dec_sysex m) as [[d ->]|Hk].
    + cbn [raw_of_event] in Hr. injection Hr as <-. exact I.
    + destruct (std_enc_shape m Hv Hrt Hk) as (st & d & He & Hd & Hc).
      assert (Hre : raw_of_event cs (EMsg m) = Ok (if st <? 240 then RChan st d else RCommon st d)).
      { unfold raw_of_event. destruct m; try (cbn in Hk; congruence); rewrite He; reflexivity. }
      rewrite Hre in Hr. destruct Hc as [(E & H1 & H2)|(E & H1)]; rewrite E in Hr; injection Hr as <-.
      * repeat split; try assumption; lia.
      * split; assumption.
  - unfold raw_of_event in Hr. destruct (std_meta_payload cs x); revert Hr; mstep; intros Hr; [injection Hr as <-; exact I|discriminate].
Qed.

Lemma raw_of_track_wf cs : forall evs rs data revs, Forall (fun te => ev_ok cs (snd te)) evs ->
  write_events cs rs evs = Ok data -> raw_of_track cs evs = Ok revs -> Forall raw_wf revs.
Proof.
  induction evs as [|[t e] r IH]; intros rs data revs Hall Hw Hr; cbn [write_events raw_of_track] in *.
  - injection Hr as <-. constructor.
  - destruct (write_event cs rs (t, e)) as [a|] eqn:Ea; revert Hw; mstep; [|discriminate].
    destruct (write_events cs (next_rs (snd (t, e))) r) as [b|] eqn:Eb; mstep; [|discriminate]. intros _.
    destruct (write_event_time _ _ _ _ _ Ea) as (dt & -> & Hdt & _). apply Forall_cons_iff in Hall as [Hok Hall'].
    destruct (raw_of_event cs e) as [re|] eqn:Ere; revert Hr; mstep; [|discriminate].
    destruct (raw_of_track cs r) as [rr|] eqn:Err; mstep; [|discriminate]. intros Hr; injection Hr as <-.
    constructor; [eapply raw_of_event_wf; eauto|eapply IH; eauto].
Qed.

Lemma nil_choices_sizes (P : list choice * list (Z * raw) -> Prop) : forall trs k, Forall (fun tr => P ([], tr)) trs ->
  Forall P (combine (map (fun i => nth i (@nil (list choice)) []) (seq k (length trs))) trs).
Proof.
  induction trs as [|tr r IH]; intros k H; cbn [length seq map combine]; [constructor|].
  apply Forall_cons_iff in H as [H1 H2]. constructor; [destruct k; exact H1|apply IH; exact H2].
Qed.

Lemma write_tracks_wf cs : forall trs b rtrs, Forall (track_ok cs) trs -> write_tracks cs trs = Ok b ->
  raw_of_tracks cs (map fix_eot trs) = Ok rtrs -> Forall (Forall raw_wf) rtrs /\ length rtrs = length trs.
Proof.
  induction trs as [|tr r IH]; intros b rtrs Hok Hw Hr; cbn [write_tracks map raw_of_tracks] in *.
  - injection Hr as <-. split; [constructor|reflexivity].
  - destruct (write_track cs tr) as [a|] eqn:Ea; revert Hw; mstep; [|discriminate].
    destruct (write_tracks cs r) as [b'|] eqn:Eb; mstep; [|discriminate]. intros _.
    apply Forall_cons_iff in Hok as [H1 H2].
    destruct (raw_of_track cs (fix_eot tr)) as [revs|] eqn:E1; revert Hr; mstep; [|discriminate].
    destruct (raw_of_tracks cs (map fix_eot r)) as [rr|] eqn:E2; mstep; [|discriminate]. intros Hr; injection Hr as <-.
    destruct (IH b' rr H2 eq_refl eq_refl) as [Hw' Hl]. split; [|cbn [length]; lia]. constructor; [|exact Hw'].
    unfold write_track in Ea. destruct (write_events cs None (fix_eot tr)) as [data|] eqn:Ed; revert Ea; mstep; [|discriminate]. intros _.
    eapply raw_of_track_wf; [|exact Ed|exact E1]. apply fix_eot_events; [apply ev_ok_eot|exact H1].
Qed.

(* write direction: the bytes of save() decode, under the independent reference decoder, to exactly the in-memory header and
   (normalised) events *)
Theorem save_ref_decode cs f bs : file_ok cs f -> header_std f -> save cs f = Ok bs ->
  exists rf, raw_of_file cs (normalise f) = Ok rf /\ ref_decode bs = Some rf.
Proof.
  intros Hok Hh Hs. destruct (save_is_canonical cs f bs Hok Hh Hs) as (rf & Hrf & -> & Hsz & Hfst & Hn).
  exists rf. split; [exact Hrf|]. destruct rf as [[[fmt n] dv] trs]. cbn [fst snd] in *. injection Hfst as -> -> ->.
  destruct Hh as [Ht Hd].
  assert (Hwf : Forall (Forall raw_wf) trs /\ length trs = length (f_tracks f)).
  { unfold save in Hs. destruct ((f_type f =? 0) && negb (length (f_tracks f) =? 1)%nat); [discriminate|].
    destruct (pack_h (f_type f)); revert Hs; mstep; [|discriminate]. destruct (pack_h (zlen (f_tracks f))); mstep; [|discriminate].
    destruct (pack_h (f_tpb f)); mstep; [|discriminate]. destruct (write_tracks cs (f_tracks f)) as [body|] eqn:Et; mstep; [|discriminate]. intros _.
    unfold raw_of_file, normalise in Hrf. cbn [f_tracks] in Hrf.
    destruct (raw_of_tracks cs (map fix_eot (f_tracks f))) as [rt|] eqn:Er; revert Hrf; mstep; intros Hrf; [|discriminate].
    assert (rt = trs) as <- by congruence. eapply write_tracks_wf; eauto. }
  destruct Hwf as [Hwf Hlen].
  replace (zlen (f_tracks f)) with (zlen trs) by (unfold zlen; now rewrite Hlen).
  apply ref_decode_enc_gen; try assumption; try lia.
  - unfold zlen in *. rewrite Hlen. lia.
  - cbn. lia.
  - apply nil_choices_sizes. exact Hsz.
Qed.

(* ================= (C) every legal encoding of a file loads to exactly that file ================= *)
Lemma read_vi_vlq k n rest : 0 <= n -> read_vi (vlq k n ++ rest) = Ok (n, rest).
Proof. intros H. unfold read_vi. now rewrite read_varint_vlq. Qed.

Theorem read_event_enc cs c rs last dt e re rest : codec_ok cs ->
  0 <= dt -> ev_ok cs e -> raw_of_event cs e = Ok re -> rs_inv rs last ->
  exists last', read_event cs false last (enc_raw c rs (dt, re) ++ rest) = Ok ((TInt dt, e), last', rest) /\ rs_inv (rs_after re) last'.
Proof.
  intros Hcs Hdt Hok Hre Hinv. unfold enc_raw. cbn [fst snd]. unfold read_event. rewrite <- app_assoc, read_vi_vlq by assumption. mstep.
  destruct e as [m|x]; cbn [ev_ok] in Hok.
  - destruct Hok as (Hv & Hrt & Hsx). destruct (kind_eq_dec_sysex m) as [[d ->]|Hk].
    + (* sysex *)
      cbn [raw_of_event] in Hre. injection Hre as <-. specialize (Hsx d eq_refl). pose proof (valid_split _ Hv) as Hd. cbn beta iota in Hd.
      cbn [app]. change (240 <? 128) with false. change (240 =? 255) with false. mstep. change ((240 =? 240) || (240 =? 247)) with true. mstep.
      rewrite <- app_assoc, read_vi_vlq by (unfold zlen; lia). mstep.
      replace (zlen d + 1) with (zlen (d ++ [247])) by (unfold zlen; rewrite app_length; cbn [length]; lia).
      replace (d ++ [247] ++ rest) with ((d ++ [247]) ++ rest) by now rewrite <- app_assoc.
      rewrite read_bytes_app by (unfold zlen in *; rewrite app_length; cbn [length]; lia). mstep.
      rewrite strip_ok by assumption. unfold clip_bytes. rewrite (data7_forallb _ Hd).
      eexists. split; [reflexivity|]. intros s Hs. discriminate.
    + destruct (enc_kind m Hv Hk) as (st & ds & He & Hks & Hlen & Hd & Hst & Hne & Hnrt & H240 & H247). specialize (Hnrt Hrt).
      assert (Hre' : re = if st <? 240 then RChan st ds else RCommon st ds).
      { pose proof He as He2. rewrite (layout m Hv) in He2. unfold raw_of_event in Hre. destruct m; try (cbn in Hk; congruence); rewrite He2 in Hre; congruence. }
      subst re.
      assert (Hrun : (st <? 240) = true -> (use_rs c && opt_eqb rs st) = true ->
                exists last', read_event cs false last (vlq (pad_dt c) dt ++ ds ++ rest) = Ok ((TInt dt, EMsg m), last', rest) /\ rs_inv (Some st) last').
      { intros E4 Eu. apply andb_prop in Eu as [_ Ers]. destruct rs as [s|]; [|discriminate]. cbn in Ers. apply Z.eqb_eq in Ers. subst s.
        destruct (Hinv st eq_refl) as [Hr Hlast]. subst last.
        unfold read_event. rewrite read_vi_vlq by assumption. mstep.
        destruct ds as [|d1 ds']; [exfalso; apply Hne; [lia|reflexivity]|].
        pose proof (Forall_inv Hd) as Hd1. cbn beta in Hd1. cbn [app].
        destruct (d1 <? 128) eqn:Ed1; [|lia]. mstep.
        destruct (st =? 255) eqn:E255; [lia|]. destruct ((st =? 240) || (st =? 247)) eqn:E24; [lia|].
        rewrite Hks, Hlen. mstep.
        replace (1 + zlen (d1 :: ds') - 1 - zlen [d1]) with (zlen ds') by (unfold zlen; cbn [length]; lia).
        rewrite read_bytes_app by (pose proof (spec_length_le _ _ Hlen); unfold zlen, MAX_MESSAGE_LENGTH in *; cbn [length] in *; lia).
        mstep. cbn [app orb]. rewrite (data7_le127 _ Hd). unfold clip_bytes.
        rewrite <- He. unfold dec. rewrite (roundtrip true m Hv). mstep.
        eexists. split; [reflexivity|]. intros s Hs. inversion Hs; subst. split; [lia|reflexivity]. }
      assert (Hfull : exists last', read_event cs false last (vlq (pad_dt c) dt ++ (st :: ds) ++ rest) = Ok ((TInt dt, EMsg m), last', rest) /\
                        rs_inv (if st <? 240 then Some st else None) last').
      { unfold read_event. rewrite read_vi_vlq by assumption. mstep. cbn [app].
        destruct (st <? 128) eqn:E128; [lia|]. mstep.
        destruct (st =? 255) eqn:E255; [lia|]. mstep. destruct ((st =? 240) || (st =? 247)) eqn:E24; [lia|].
        rewrite Hks, Hlen. mstep.
        replace (1 + zlen ds - 1 - zlen (@nil Z)) with (zlen ds) by (unfold zlen; cbn [length]; lia).
        rewrite read_bytes_app by (pose proof (spec_length_le _ _ Hlen); unfold zlen, MAX_MESSAGE_LENGTH in *; lia).
        mstep. cbn [app orb]. rewrite (data7_le127 _ Hd). unfold clip_bytes.
        rewrite <- He. unfold dec. rewrite (roundtrip true m Hv). mstep.
        eexists. split; [reflexivity|]. intros s Hs. destruct (st <? 240) eqn:E4; inversion Hs; subst. split; [lia|reflexivity]. }
      unfold read_event in Hrun, Hfull. rewrite read_vi_vlq in Hrun, Hfull by assumption. revert Hrun Hfull. mstep. intros Hrun Hfull.
      destruct (st <? 240) eqn:E4; cbn [snd rs_after].
      * destruct (use_rs c && opt_eqb rs st) eqn:Eu; [exact (Hrun eq_refl eq_refl)|exact Hfull].
      * exact Hfull.
  - (* meta *)
    destruct Hok as [Hrt Hsz]. unfold raw_of_event in Hre. rewrite <- (payload_is_std cs x Hrt) in Hre.
    destruct (meta_payload cs x) as [p|] eqn:Hp; revert Hre; mstep; intros Hre; [|discriminate]. injection Hre as <-.
    specialize (Hsz p eq_refl). destruct (payload_roundtrip cs x p Hcs Hrt Hp) as [Hdec _].
    cbn [app]. change (255 <? 128) with false. change (255 =? 255) with true. mstep.
    rewrite <- app_assoc, read_vi_vlq by (unfold zlen; lia). mstep.
    rewrite read_bytes_app by assumption. mstep. rewrite Hdec. mstep.
    eexists. split; [reflexivity|]. intros s Hs. discriminate.
Qed.

Definition times_ok (evs : list tev) : Prop := Forall (fun te => exists dt, fst te = TInt dt /\ 0 <= dt) evs.

Theorem read_events_enc cs : codec_ok cs -> forall evs revs chs fuel rs last rest,
  Forall (fun te => ev_ok cs (snd te)) evs -> times_ok evs -> raw_of_track cs evs = Ok revs -> rs_inv rs last -> (length evs <= fuel)%nat ->
  read_events cs false fuel (zlen (enc_raws chs rs revs)) last (enc_raws chs rs revs ++ rest) = Ok (evs, rest).
Proof.
  intros Hcs. induction evs as [|[t e] r IH]; intros revs chs fuel rs last rest Hall Ht Hr Hinv Hfuel; cbn [raw_of_track] in Hr.
  - injection Hr as <-. destruct fuel; reflexivity.
  - apply Forall_cons_iff in Ht as [(dt & Et & Hdt) Ht']. cbn [fst] in Et. subst t.
    apply Forall_cons_iff in Hall as [Hok Hall']. cbn [snd] in Hok.
    destruct (raw_of_event cs e) as [re|] eqn:Ere; revert Hr; mstep; [|discriminate].
    destruct (raw_of_track cs r) as [rr|] eqn:Err; mstep; [|discriminate]. intros Hr; injection Hr as <-.
    destruct fuel as [|f]; [cbn [length] in Hfuel; lia|].
    assert (Hstep : forall c cr, read_events cs false (S f) (zlen (enc_raw c rs (dt, re) ++ enc_raws cr (rs_after re) rr)) last
                                   ((enc_raw c rs (dt, re) ++ enc_raws cr (rs_after re) rr) ++ rest) = Ok ((TInt dt, e) :: r, rest)).
    { intros c cr. cbn [read_events]. pose proof (enc_raw_nonempty c rs (dt, re)) as Hne.
      assert (Hpos : 0 < zlen (enc_raw c rs (dt, re))) by (unfold zlen; destruct (enc_raw c rs (dt, re)); [congruence|cbn [length]; lia]).
      destruct (zlen (enc_raw c rs (dt, re) ++ enc_raws cr (rs_after re) rr) =? 0) eqn:E0; [unfold zlen in *; rewrite app_length in E0; lia|].
      rewrite <- app_assoc.
      destruct (read_event_enc cs c rs last dt e re (enc_raws cr (rs_after re) rr ++ rest) Hcs Hdt Hok Ere Hinv) as (last' & Hre & Hinv').
      rewrite Hre. mstep.
      replace (zlen (enc_raw c rs (dt, re) ++ enc_raws cr (rs_after re) rr) -
               (zlen (enc_raw c rs (dt, re) ++ enc_raws cr (rs_after re) rr ++ rest) - zlen (enc_raws cr (rs_after re) rr ++ rest)))
        with (zlen (enc_raws cr (rs_after re) rr)) by (unfold zlen; rewrite !app_length; lia).
      rewrite (IH rr cr f _ last' rest Hall' Ht' eq_refl Hinv' ltac:(cbn [length] in Hfuel; lia)). reflexivity. }
    destruct chs as [|c cr]; cbn [enc_raws snd]; apply Hstep.
Qed.

Lemma unbe32_be32s n : 0 <= n < 4294967296 ->
  unbe32 ((n / 16777216) mod 256) ((n / 65536) mod 256) ((n / 256) mod 256) (n mod 256) = n.
Proof. intros H. unfold unbe32. now apply be32s_value. Qed.

Theorem read_track_enc cs evs revs chs rest : codec_ok cs -> track_ok cs evs -> times_ok evs -> raw_of_track cs evs = Ok revs ->
  zlen (enc_raws chs None revs) < 4294967296 ->
  read_track cs false (enc_chunk MTrk (enc_raws chs None revs) ++ rest) = Ok (evs, rest).
Proof.
  intros Hcs Hok Ht Hr Hsz. unfold read_track, enc_chunk, MTrk at 1, be32s. cbn [app read_chunk_header]. mstep.
  rewrite unbe32_be32s by (unfold zlen in *; lia). change (list_eqb [77; 84; 114; 107] MTrk) with true. mstep.
  apply (read_events_enc cs Hcs evs revs chs _ None None rest Hok Ht Hr).
  - intros s Hs; discriminate.
  - assert (H : length revs = @length tev evs).
    { clear - Hr. revert revs Hr. induction evs as [|[t e] r IH]; intros revs Hr; cbn [raw_of_track] in Hr; [injection Hr as <-; reflexivity|].
      destruct t; [|discriminate]. destruct (raw_of_event cs e); revert Hr; mstep; [|discriminate].
      destruct (raw_of_track cs r) as [rr|]; mstep; [|discriminate]. intros Hr; injection Hr as <-. cbn [length]. now rewrite (IH rr eq_refl). }
    pose proof (enc_raws_length revs chs None) as Hl. rewrite app_length. change (@length (tval * event) evs) with (@length tev evs) in *. apply le_S. rewrite <- H. eapply Nat.le_trans; [exact Hl|apply Nat.le_add_r].
Qed.

Theorem read_tracks_enc cs : codec_ok cs -> forall trs rtrs css rest, Forall (track_ok cs) trs -> Forall times_ok trs ->
  raw_of_tracks cs trs = Ok rtrs ->
  Forall (fun p => zlen (enc_raws (fst p) None (snd p)) < 4294967296) (combine (map (fun i => nth i css []) (seq 0 (length rtrs))) rtrs) ->
  read_tracks cs false (length trs) (enc_tracks css rtrs ++ rest) = Ok trs.
Proof.
  intros Hcs. induction trs as [|tr r IH]; intros rtrs css rest Hok Ht Hr Hsz; cbn [raw_of_tracks] in Hr.
  - injection Hr as <-. reflexivity.
  - destruct (raw_of_track cs tr) as [revs|] eqn:E1; revert Hr; mstep; [|discriminate].
    destruct (raw_of_tracks cs r) as [rr|] eqn:E2; mstep; [|discriminate]. intros Hr; injection Hr as <-.
    apply Forall_cons_iff in Hok as [H1 H2]. apply Forall_cons_iff in Ht as [T1 T2].
    cbn [length seq map combine] in Hsz. apply Forall_cons_iff in Hsz as [Hs1 Hs2]. cbn [fst snd] in Hs1.
    replace (nth 0 css []) with (hd [] css) in Hs1 by (destruct css; reflexivity).
    cbn [length read_tracks enc_tracks]. rewrite <- app_assoc. rewrite (read_track_enc cs tr revs (hd [] css) _ Hcs H1 T1 E1 Hs1). mstep.
    rewrite (IH rr (tl css) rest H2 T2 eq_refl); [reflexivity|].
    rewrite <- seq_shift, map_map in Hs2. erewrite map_ext in Hs2; [exact Hs2|]. intros i. destruct css; [destruct i; reflexivity|reflexivity].
Qed.

(* read direction: every legal encoding (any padding of any quantity, running status used or not wherever it is legal,
   a header chunk longer than 6 bytes) of the events of f loads to exactly f *)
Theorem load_enc cs f rf extra css : codec_ok cs -> file_ok cs f -> Forall times_ok (f_tracks f) -> header_std f ->
  zlen (f_tracks f) <= 32767 -> zlen extra < 4294967290 ->
  raw_of_file cs f = Ok rf ->
  Forall (fun p => zlen (enc_raws (fst p) None (snd p)) < 4294967296) (combine (map (fun i => nth i css []) (seq 0 (length (snd rf)))) (snd rf)) ->
  load cs false (enc_file extra css rf) = Ok f.
Proof.
  intros Hcs Hok Ht [Hty Hdv] Hn He Hr Hsz. unfold raw_of_file in Hr.
  destruct (raw_of_tracks cs (f_tracks f)) as [rtrs|] eqn:Er; revert Hr; mstep; intros Hr; [|discriminate]. injection Hr as <-. cbn [snd] in Hsz.
  unfold load, enc_file, enc_chunk, MThd, be32s. cbn [app read_chunk_header]. mstep.
  change (negb (list_eqb [77; 84; 104; 100] [77; 84; 104; 100])) with false. mstep.
  rewrite unbe32_be32s by (unfold zlen in *; rewrite !app_length; cbn [be16 length]; lia).
  set (hdr := be16 (f_type f) ++ be16 (zlen (f_tracks f)) ++ be16 (f_tpb f) ++ extra).
  rewrite Z.min_l by (unfold zlen; rewrite app_length; lia).
  replace (Z.to_nat (zlen hdr)) with (length hdr) by (unfold zlen; now rewrite Nat2Z.id).
  rewrite firstn_app, Nat.sub_diag, firstn_all, firstn_O, app_nil_r, skipn_app, Nat.sub_diag, skipn_all. cbn [skipn app].
  unfold hdr. cbn [be16 app].
  assert (E16 : forall z, 0 <= z <= 32767 -> unpack_h ((z / 256) mod 256) (z mod 256) = z).
  { intros z Hz. unfold unpack_h. destruct ((z / 256) mod 256 * 256 + z mod 256 <? 32768) eqn:E; Z.to_euclidean_division_equations; lia. }
  rewrite !E16 by (unfold zlen in *; lia). unfold zlen. rewrite Nat2Z.id.
  rewrite (read_tracks_enc cs Hcs (f_tracks f) rtrs css [] Hok Ht Er Hsz) || (rewrite <- (app_nil_r (enc_tracks css rtrs)); rewrite (read_tracks_enc cs Hcs (f_tracks f) rtrs css [] Hok Ht Er Hsz)).
  mstep. destruct f; reflexivity.
Qed.

(* ================= clip=True changes nothing on input that loads without it ================= *)
Lemma clip_id ds : forallb (fun b => b <=? 127) ds = true -> clip_bytes true ds = ds.
Proof.
  unfold clip_bytes. induction ds as [|b r IH]; cbn [forallb map]; [reflexivity|]. intros H. apply andb_prop in H as [Hb Hr].
  rewrite (IH Hr). destruct (b <? 127) eqn:E; [reflexivity|]. f_equal. lia.
Qed.
Lemma byte7_le127 ds : forallb byte7 ds = true -> forallb (fun b => b <=? 127) ds = true.
Proof. induction ds as [|b r IH]; cbn [forallb]; [reflexivity|]. unfold byte7 at 1. intros H. rewrite IH by lia. lia. Qed.

Lemma read_event_clip cs last bs r : read_event cs false last bs = Ok r -> read_event cs true last bs = Ok r.
Proof.
  unfold read_event. destruct (read_vi bs) as [[dt bs1]|]; mstep; [|discriminate].
  destruct bs1 as [|sb bs2]; [discriminate|].
  assert (Hbody : forall st peek (last' : option Z) r0,
    (if st =? 255 then r0
     else if (st =? 240) || (st =? 247)
       then lr <- read_vi bs2;; (let '(n, bs3) := lr in pr <- read_bytes n bs3;; (let '(d, bs4) := pr in
              let d' := clip_bytes false (strip_sysex d) in if forallb byte7 d' then Ok (TInt dt, EMsg (Sysex d'), last', bs4) else Raise ValueError))
       else match kind_of_status st with
            | Some k => pr <- read_bytes (match spec_length k with Some l => l | None => 0 end - 1 - zlen peek) bs2;;
                (let '(ds, bs3) := pr in let data := peek ++ ds in
                 if false || forallb (fun b => b <=? 127) data then m <- dec (st :: clip_bytes false data);; Ok (TInt dt, EMsg m, last', bs3) else Raise OSError)
            | None => Raise OSError end) = Ok r ->
    (if st =? 255 then r0
     else if (st =? 240) || (st =? 247)
       then lr <- read_vi bs2;; (let '(n, bs3) := lr in pr <- read_bytes n bs3;; (let '(d, bs4) := pr in
              let d' := clip_bytes true (strip_sysex d) in if forallb byte7 d' then Ok (TInt dt, EMsg (Sysex d'), last', bs4) else Raise ValueError))
       else match kind_of_status st with
            | Some k => pr <- read_bytes (match spec_length k with Some l => l | None => 0 end - 1 - zlen peek) bs2;;
                (let '(ds, bs3) := pr in let data := peek ++ ds in
                 if true || forallb (fun b => b <=? 127) data then m <- dec (st :: clip_bytes true data);; Ok (TInt dt, EMsg m, last', bs3) else Raise OSError)
            | None => Raise OSError end) = Ok r).
  2:{ destruct (sb <? 128); [destruct last as [l|]; [|discriminate]|]; mstep; apply Hbody. }
  intros st peek last' r0. mstep.
  destruct (st =? 255); [exact (fun H => H)|].
  destruct ((st =? 240) || (st =? 247)).
  - destruct (read_vi bs2) as [[n bs3]|]; mstep; [|discriminate].
    destruct (read_bytes n bs3) as [[d bs4]|]; mstep; [|discriminate].
    unfold clip_bytes at 1 2. destruct (forallb byte7 (strip_sysex d)) eqn:E; [|discriminate].
    rewrite (clip_id _ (byte7_le127 _ E)), E. exact (fun H => H).
  - destruct (kind_of_status st) as [k|]; [|discriminate].
    match goal with |- context [read_bytes ?s bs2] => destruct (read_bytes s bs2) as [[ds bs3]|]; mstep; [|discriminate] end.
    cbn [orb]. destruct (forallb (fun b => b <=? 127) (peek ++ ds)) eqn:E; [|discriminate].
    rewrite (clip_id _ E). unfold clip_bytes. exact (fun H => H).
Qed.

Lemma read_events_clip cs : forall fuel remaining last bs r, read_events cs false fuel remaining last bs = Ok r -> read_events cs true fuel remaining last bs = Ok r.
Proof.
  induction fuel as [|f IH]; intros remaining last bs r; cbn [read_events]; destruct (remaining =? 0); try exact (fun H => H).
  destruct (read_event cs false last bs) as [[[te last'] rest]|] eqn:E; mstep; [|discriminate].
  rewrite (read_event_clip cs last bs _ E). mstep.
  destruct (read_events cs false f (remaining - (zlen bs - zlen rest)) last' rest) as [[evs rest']|] eqn:E2; mstep; [|discriminate].
  now rewrite (IH _ _ _ _ E2).
Qed.

Theorem load_clip cs bs f : load cs false bs = Ok f -> load cs true bs = Ok f.
Proof.
  unfold load. destruct (read_chunk_header bs) as [[[name size] r]|]; mstep; [|discriminate].
  destruct (negb (list_eqb name MThd)); [discriminate|].
  destruct (firstn (Z.to_nat (Z.min size (zlen r))) r) as [|t0 [|t1 [|n0 [|n1 [|d0 [|d1 tl]]]]]]; try discriminate.
  assert (Ht : forall n bs' trs, read_tracks cs false n bs' = Ok trs -> read_tracks cs true n bs' = Ok trs).
  { induction n as [|n IH]; intros bs' trs; cbn [read_tracks]; [exact (fun H => H)|].
    unfold read_track. destruct (read_chunk_header bs') as [[[nm sz] r']|]; mstep; [|discriminate].
    destruct (list_eqb nm MTrk); [|discriminate].
    destruct (read_events cs false (S (length r')) sz None r') as [[tr rest]|] eqn:E; mstep; [|discriminate].
    rewrite (read_events_clip cs _ _ _ _ _ E). mstep.
    destruct (read_tracks cs false n rest) as [rs|] eqn:E2; mstep; [|discriminate]. now rewrite (IH _ _ E2). }
  destruct (read_tracks cs false (Z.to_nat (unpack_h n0 n1)) (skipn (Z.to_nat (Z.min size (zlen r))) r)) as [trs|] eqn:E; mstep; [|discriminate].
  now rewrite (Ht _ _ _ E).
Qed.
