(* ConcHelpersProofs.v — multi_send / multi_receive on a caller's list of ports, mixed with every other use of a MultiPort: the theorems
   of ConcMixProofs.v hold of every helper program under every schedule, and what a thread's multi_send calls put into each sub-port's
   deque is, in order, what the calls say. *)
From Coq Require Import ZArith List Bool Arith Lia.
Require Import Mido.Model.Base Mido.Model.Codec Mido.Model.Conc Mido.Model.ConcMulti Mido.Model.ConcMix Mido.Model.ConcHelpers.
Require Import Mido.Proofs.ConcMixProofs.
Import ListNotations.

(* specification side: what a helper program sends to sub-port i, in program order: multi_send(ports, m) sends m once for every
   occurrence of sub-port i in the list, and once for every occurrence of the MultiPort (which passes it on to every sub-port) *)
Definition hsend1 (n i : nat) (h : hop) : list msg :=
  match h with
  | HPlain o => xsend1 n i o
  | HMSend ps m => flat_map (fun p => match p with O => if Nat.ltb i n then [m] else [] | S j => if Nat.eqb j i then [m] else [] end) ps
  | HMRecv _ => []
  end.
Definition hsends (n i : nat) (p : list hop) : list msg := flat_map (hsend1 n i) p.

Lemma xsends_app n i p q : xsends n i (p ++ q) = xsends n i p ++ xsends n i q.
Proof. unfold xsends. apply flat_map_app. Qed.

Lemma hsend1_expand n i h : xsends n i (expand1 h) = hsend1 n i h.
Proof.
  destruct h as [o|ps m|ps]; cbn [expand1 hsend1].
  - unfold xsends. cbn [flat_map]. apply app_nil_r.
  - induction ps as [|p ps IH]; [reflexivity|]. cbn [map flat_map]. change (xsends n i (XSend p m :: map (fun p0 => XSend p0 m) ps))
      with (xsend1 n i (XSend p m) ++ xsends n i (map (fun p0 => XSend p0 m) ps)). rewrite IH. destruct p; reflexivity.
  - induction ps as [|p ps IH]; [reflexivity|]. cbn [map]. change (xsends n i (XIterP p [] :: map (fun p0 => XIterP p0 []) ps))
      with (xsend1 n i (XIterP p []) ++ xsends n i (map (fun p0 => XIterP p0 []) ps)). rewrite IH. reflexivity.
Qed.
Lemma hsends_expand n i p : xsends n i (expand p) = hsends n i p.
Proof.
  induction p as [|h p IH]; [reflexivity|]. unfold expand, hsends. cbn [flat_map]. fold (expand p). fold (hsends n i p).
  rewrite xsends_app, hsend1_expand, IH. reflexivity.
Qed.

Theorem helpers_no_raise n hprogs sched t e : xat (snd (xrun sched (hinit n hprogs)) t) <> XRaised e.
Proof. apply mix_no_raise. Qed.

Theorem helpers_sender_order n hprogs sched t i :
  let '(s, ts) := xrun sched (hinit n hprogs) in
  hsends n i (hprogs t) = mine_of t (xapp s (S i)) ++ xpending n i (ts t).
Proof.
  pose proof (mix_sender_order_n n (fun t => expand (hprogs t)) sched t i) as H. unfold hinit.
  destruct (xrun sched (xinit n (fun t => expand (hprogs t)))) as [s ts]. rewrite <- hsends_expand. exact H.
Qed.

Theorem helpers_end_to_end n hprogs sched :
  let '(s, ts) := xrun sched (hinit n hprogs) in
  swept (xpops s) = popped 0 (xpops s) ++ xq s 0 ++ inflight s ts /\
  forall i, exists rest, map snd (xapp s (S i)) = popped (S i) (xpops s) ++ rest.
Proof. apply mix_end_to_end. Qed.

(* a call of multi_send on a list of distinct sub-ports puts the message into each of them exactly once *)
Lemma hsend1_msend_nodup n i js m : NoDup js -> hsend1 n i (HMSend (map S js) m) = if existsb (Nat.eqb i) js then [m] else [].
Proof.
  intros Hnd. cbn [hsend1]. induction js as [|j js IH]; [reflexivity|]. inversion Hnd as [|? ? Hnin Hnd']; subst.
  cbn [map flat_map existsb]. rewrite (IH Hnd'). destruct (Nat.eqb j i) eqn:E.
  - apply Nat.eqb_eq in E. subst j. rewrite Nat.eqb_refl. cbn [orb].
    destruct (existsb (Nat.eqb i) js) eqn:E2; [|reflexivity]. apply existsb_exists in E2. destruct E2 as [x [Hin Hx]].
    apply Nat.eqb_eq in Hx. subst x. contradiction.
  - rewrite Nat.eqb_sym in E. rewrite E. reflexivity.
Qed.

(* folding back the results: a program without helper calls sees its results unchanged, and a finished multi_receive hands its caller
   the drains of the ports, in polling order, as one list *)
Lemma collapse_plain os rs : (length rs <= length os)%nat -> collapse (map HPlain os) rs = rs.
Proof.
  revert rs. induction os as [|o os IH]; intros [|r rs] Hl; cbn in *; try reflexivity; try lia. rewrite IH by lia. reflexivity.
Qed.
Lemma take_lists_all ls acc rest : take_lists (length ls) (map RList ls ++ rest) acc = Some (acc ++ concat ls, rest).
Proof.
  revert acc. induction ls as [|l ls IH]; intros acc; cbn; [rewrite app_nil_r; reflexivity|]. rewrite IH, app_assoc. reflexivity.
Qed.
Lemma collapse_mrecv ps ls p rest : length ls = length ps ->
  collapse (HMRecv ps :: p) (map RList ls ++ rest) = RList (concat ls) :: collapse p rest.
Proof. intros Hl. cbn [collapse]. rewrite <- Hl, take_lists_all. reflexivity. Qed.
