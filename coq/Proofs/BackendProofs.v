(* BackendProofs.v — backend selection and port-opening arguments resolve deterministically (C20). *)
From Coq Require Import ZArith List Bool Lia.
Require Import Mido.Model.Base Mido.Model.Backend.
Import ListNotations.
Open Scope Z_scope.

(* ---- declarative precedence ---- *)
(* first non-empty choice of: explicit argument, environment (when use_environ), nothing *)
Definition spec_port (explicit : option Z) (c : bcfg) (var : option Z) : option Z :=
  match explicit with Some n => Some n | None => if c_useenv c then var else None end.
(* the API that reaches a constructor or device query: the caller's api=, else Backend(api=), else the suffix of the backend name *)
Definition spec_api (c : bcfg) (kw : option Z) : option Z :=
  match kw with
  | Some a => Some a
  | None =>
      if str_truthy (c_api c) then c_api c
      else let nm := if bname_truthy (c_name c) then c_name c else match e_backend c with Some b => Some b | None => Some DEFAULT_BACKEND end in
           match nm with Some b => if str_truthy (bn_api b) then bn_api b else None | None => None end
  end.
Definition spec_module (c : bcfg) : Z :=
  if bname_truthy (c_name c) then match c_name c with Some b => bn_mod b | None => 1 end
  else match e_backend c with Some b => bn_mod b | None => 1 end.

Lemma load_api s : s_api (b_load s) = s_api s.
Proof. unfold b_load. destruct (s_imports s); reflexivity. Qed.
Lemma load_mod s : s_mod (b_load s) = s_mod s.
Proof. unfold b_load. destruct (s_imports s); reflexivity. Qed.
Lemma step_keeps c s o : s_api (fst (b_step c s o)) = s_api s /\ s_mod (fst (b_step c s o)) = s_mod s.
Proof. destruct o; cbn [b_step]; try (destruct (m_native_ioport c); [|destruct (str_truthy _)]); cbn [fst]; split; auto using load_api, load_mod. Qed.

Lemma init_api c kw : add_api (b_init c) kw = spec_api c kw.
Proof.
  unfold add_api, spec_api, b_init. destruct kw as [a|]; [reflexivity|]. cbn [s_api].
  destruct (str_truthy (c_api c)) eqn:E1; [now rewrite E1|].
  destruct (bname_truthy (c_name c)) eqn:E2.
  - destruct (c_name c) as [b|]; [|discriminate]. destruct (str_truthy (bn_api b)) eqn:E3; [now rewrite E3|reflexivity].
  - destruct (e_backend c) as [b|]; [destruct (str_truthy (bn_api b)) eqn:E3; [now rewrite E3|reflexivity]|reflexivity].
Qed.

(* every reachable state keeps the API and module chosen at construction *)
Lemma run_keeps c : forall ops s, s_api (fst (b_run c s ops)) = s_api s /\ s_mod (fst (b_run c s ops)) = s_mod s.
Proof.
  induction ops as [|o r IH]; intros s; [split; reflexivity|]. cbn [b_run].
  destruct (b_step c s o) as [s1 x] eqn:E. destruct (step_keeps c s o) as [A B]. rewrite E in A, B. cbn [fst] in A, B.
  destruct (IH s1) as [A' B']. destruct (b_run c s1 r). cbn [fst] in *. split; congruence.
Qed.

(* the call that reaches the module, for ANY state reachable from construction: name by precedence, API by precedence *)
Theorem open_input_resolves c ops name kw :
  snd (b_step c (fst (b_run c (b_init c) ops)) (OpenInput name kw)) = CInput (spec_port name c (e_in c)) (spec_api c kw).
Proof.
  assert (Hapi : add_api (fst (b_run c (b_init c) ops)) kw = spec_api c kw).
  { rewrite <- init_api. unfold add_api. destruct (run_keeps c ops (b_init c)) as [A _]. now rewrite A. }
  cbn [b_step snd]. rewrite Hapi. unfold spec_port, env. destruct name; reflexivity.
Qed.
Theorem open_output_resolves c ops name kw :
  snd (b_step c (fst (b_run c (b_init c) ops)) (OpenOutput name kw)) = COutput (spec_port name c (e_out c)) (spec_api c kw).
Proof.
  assert (Hapi : add_api (fst (b_run c (b_init c) ops)) kw = spec_api c kw).
  { rewrite <- init_api. unfold add_api. destruct (run_keeps c ops (b_init c)) as [A _]. now rewrite A. }
  cbn [b_step snd]. rewrite Hapi. unfold spec_port, env. destruct name; reflexivity.
Qed.
(* open_ioport: the native IOPort when the module has one, else the wrapper around an Input/Output pair; MIDO_DEFAULT_IOPORT beats
   the INPUT/OUTPUT variables; an empty MIDO_DEFAULT_IOPORT counts as unset *)
Definition spec_ioname (name : option Z) (c : bcfg) : option Z :=
  match name with Some n => Some n | None => if c_useenv c && str_truthy (e_io c) then e_io c else None end.
Theorem open_ioport_resolves c ops name kw :
  snd (b_step c (fst (b_run c (b_init c) ops)) (OpenIOPort name kw)) =
    if m_native_ioport c then CIOPort (spec_ioname name c) (spec_api c kw)
    else if str_truthy (spec_ioname name c) then CWrap (spec_ioname name c) (spec_ioname name c) (spec_api c kw)
    else CWrap (spec_port None c (e_in c)) (spec_port None c (e_out c)) (spec_api c kw).
Proof.
  assert (Hapi : add_api (fst (b_run c (b_init c) ops)) kw = spec_api c kw).
  { rewrite <- init_api. unfold add_api. destruct (run_keeps c ops (b_init c)) as [A _]. now rewrite A. }
  assert (Hn : match name with Some n => Some n | None => if str_truthy (env c (e_io c)) then env c (e_io c) else None end = spec_ioname name c).
  { unfold spec_ioname, env. destruct name; [reflexivity|]. destruct (c_useenv c); cbn [andb str_truthy]; [destruct (str_truthy (e_io c)); reflexivity|reflexivity]. }
  cbn [b_step]. rewrite Hn. destruct (m_native_ioport c); cbn [snd]; [now rewrite Hapi|].
  destruct (str_truthy (spec_ioname name c)); cbn [snd]; rewrite Hapi; [reflexivity|]. unfold spec_port, env. reflexivity.
Qed.
Theorem devices_resolve c ops kw o : o = GetInputNames kw \/ o = GetOutputNames kw \/ o = GetIOPortNames kw ->
  snd (b_step c (fst (b_run c (b_init c) ops)) o) = if m_get_devices c then CDevices (spec_api c kw) else CNoDevices.
Proof.
  assert (Hapi : add_api (fst (b_run c (b_init c) ops)) kw = spec_api c kw).
  { rewrite <- init_api. unfold add_api. destruct (run_keeps c ops (b_init c)) as [A _]. now rewrite A. }
  intros [H|[H|H]]; subst o; cbn [b_step snd]; now rewrite Hapi.
Qed.

(* lazy import: nothing is imported before the first operation unless load=True; then exactly the chosen module, exactly once *)
Theorem import_lazy c : s_imports (b_init c) = if c_load c then [spec_module c] else [].
Proof.
  unfold b_init, spec_module. cbn [s_imports]. destruct (c_load c); [|reflexivity]. f_equal.
  destruct (bname_truthy (c_name c)); [destruct (c_name c); reflexivity|destruct (e_backend c); reflexivity].
Qed.
Lemma load_imports s : s_imports (b_load s) = match s_imports s with [] => [s_mod s] | l => l end.
Proof. unfold b_load. destruct (s_imports s) eqn:E; cbn [s_imports]; [reflexivity|exact E]. Qed.
Theorem import_once c : forall ops s, s_imports s = [s_mod s] \/ s_imports s = [] ->
  s_imports (fst (b_run c s ops)) = match ops with [] => s_imports s | _ => [s_mod s] end.
Proof.
  induction ops as [|o r IH]; intros s Hs; [reflexivity|]. cbn [b_run].
  assert (H1 : s_imports (fst (b_step c s o)) = [s_mod s] /\ s_mod (fst (b_step c s o)) = s_mod s).
  { split; [|apply step_keeps]. assert (Hl : s_imports (b_load s) = [s_mod s]) by (rewrite load_imports; destruct Hs as [Hs|Hs]; rewrite Hs; reflexivity).
    destruct o; cbn [b_step]; try (destruct (m_native_ioport c); [|destruct (str_truthy _)]); cbn [fst]; exact Hl. }
  destruct (b_step c s o) as [s1 x]. cbn [fst] in H1. destruct H1 as [Hi Hm].
  specialize (IH s1 (or_introl (eq_trans Hi (f_equal (fun z => [z]) (eq_sym Hm))))). destruct (b_run c s1 r) as [s2 xs]. cbn [fst] in *.
  rewrite IH. destruct r; [exact Hi|now rewrite Hm].
Qed.

(* name listings: I/O names are those that are both input and output, in input order *)
Theorem ioport_names_spec devs n : In n (ioport_names devs) <-> In n (input_names devs) /\ In n (output_names devs).
Proof.
  unfold ioport_names. rewrite filter_In. split; intros [H1 H2]; split; auto.
  - apply existsb_exists in H2 as (x & Hx & E). apply Z.eqb_eq in E. now subst x.
  - apply existsb_exists. exists n. split; [assumption|apply Z.eqb_refl].
Qed.
Theorem ioport_names_order devs : exists keep, ioport_names devs = filter keep (input_names devs).
Proof. eexists. reflexivity. Qed.
