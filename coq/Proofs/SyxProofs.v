(* SyxProofs.v — SYX files round-trip sysex messages (C19). *)
From Coq Require Import ZArith List Bool Lia ZifyBool.
Require Import Mido.Model.Base Mido.Model.Codec Mido.Model.Tokenizer Mido.Model.Parser Mido.Model.Syx.
Require Import Mido.Proofs.CodecProofs Mido.Proofs.TokProofs Mido.Proofs.ParseProofs.
Import ListNotations.
Open Scope Z_scope.

(* fromhex reads a text that parses completely, then goes on with what follows *)
Lemma fromhex_app_gen : forall n a b x, (length a <= n)%nat -> fromhex a = Ok x ->
  fromhex (a ++ b) = match fromhex b with Ok y => Ok (x ++ y) | Raise e => Raise e end.
Proof.
  induction n as [|n IH]; intros a b x Hl H.
  - destruct a; [|cbn in Hl; lia]. cbn in H. injection H as <-. cbn. destruct (fromhex b); reflexivity.
  - destruct a as [|c r]; [cbn in H; injection H as <-; cbn; destruct (fromhex b); reflexivity|].
    cbn [fromhex app] in *. destruct (is_ascii_ws c).
    + apply IH; [cbn in Hl; lia|assumption].
    + destruct (hexval c) as [h|]; [|discriminate]. destruct r as [|c2 r2]; [discriminate|].
      cbn [app]. destruct (hexval c2) as [l|]; [|discriminate].
      destruct (fromhex r2) as [bs|] eqn:E; [|discriminate]. injection H as <-.
      rewrite (IH r2 b bs); [|cbn in Hl; lia|assumption]. destruct (fromhex b); reflexivity.
Qed.
Lemma fromhex_app a b x : fromhex a = Ok x -> fromhex (a ++ b) = match fromhex b with Ok y => Ok (x ++ y) | Raise e => Raise e end.
Proof. apply (fromhex_app_gen (length a)). lia. Qed.

Lemma fromhex_raises t e : fromhex t = Raise e -> e = ValueError.
Proof.
  remember (length t) as n eqn:Hn. revert t Hn. induction n as [n IH] using lt_wf_ind. intros t Hn H.
  destruct t as [|c r]; [discriminate|]. cbn [fromhex] in H. destruct (is_ascii_ws c).
  - apply (IH (length r)) with (t := r); [cbn in Hn; lia|reflexivity|assumption].
  - destruct (hexval c); [|now injection H as <-]. destruct r as [|c2 r2]; [now injection H as <-|].
    destruct (hexval c2); [|now injection H as <-]. destruct (fromhex r2) eqn:E; [discriminate|].
    injection H as <-. apply (IH (length r2)) with (t := r2); [cbn in Hn; lia|reflexivity|assumption].
Qed.

Definition wsnorm (c : Z) : Z := if is_ws c then 32 else c.

Lemma enc_sysex_bytes d : data7 d -> Forall (fun b => 0 <= b <= 255) (enc (Sysex d)).
Proof. intros H. apply enc_bytes. cbn [valid]. now apply forallb_byte7_of_Forall. Qed.

Lemma valid_sysex_data d : valid (Sysex d) = true -> data7 d.
Proof. intros H. exact (valid_split (Sysex d) H). Qed.

(* the text format read back: one hex line per sysex message *)
Lemma fromhex_lines sx : Forall (fun m => valid m = true) sx ->
  fromhex (map wsnorm (flat_map (fun m => hex m [32] ++ [10]) sx)) = Ok (flat_map enc sx).
Proof.
  induction 1 as [|m r Hm Hr IH]; [reflexivity|].
  cbn [flat_map]. rewrite !map_app. rewrite <- app_assoc.
  assert (H1 : fromhex (map wsnorm (hex m [32])) = Ok (enc m)).
  { unfold hex. change (map wsnorm (join [32] (map hex_byte (enc m)))) with (norm wsnorm [32] (enc m)).
    apply fromhex_norm; [now apply enc_bytes| |repeat constructor].
    intros n Hn. unfold wsnorm. destruct (hexdigit_facts n Hn) as (_ & -> & _). reflexivity. }
  rewrite (fromhex_app _ _ _ H1). cbn [map app]. change (wsnorm 10) with 32. cbn [fromhex is_ascii_ws].
  change (((9 <=? 32) && (32 <=? 13)) || (32 =? 32)) with true. cbv iota. now rewrite IH.
Qed.

Lemma filter_sysex_all sx : Forall (fun m => is_sysex m = true) sx -> filter is_sysex sx = sx.
Proof. induction 1 as [|m r Hm Hr IH]; [reflexivity|]. cbn [filter]. now rewrite Hm, IH. Qed.
Lemma filter_sysex_is l : Forall (fun m => is_sysex m = true) (filter is_sysex l).
Proof. induction l as [|m r IH]; cbn [filter]; [constructor|]. destruct (is_sysex m) eqn:E; [constructor; assumption|assumption]. Qed.
Lemma filter_valid l : Forall (fun m => valid m = true) l -> Forall (fun m => valid m = true) (filter is_sysex l).
Proof. induction 1 as [|m r Hm Hr IH]; cbn [filter]; [constructor|]. destruct (is_sysex m); [constructor; assumption|assumption]. Qed.

Theorem syx_roundtrip plaintext ms : Forall (fun m => valid m = true) ms ->
  read_syx (write_syx plaintext ms) = Ok (filter is_sysex ms).
Proof.
  intros Hv. unfold write_syx. set (sx := filter is_sysex ms).
  assert (Hsv : Forall (fun m => valid m = true) sx) by now apply filter_valid.
  assert (Hss : Forall (fun m => is_sysex m = true) sx) by apply filter_sysex_is.
  assert (Hparse : parse_all (flat_map enc sx) = Ok sx).
  { rewrite flat_map_concat_map. now apply (C06_concat true). }
  destruct sx as [|m r] eqn:Esx; [destruct plaintext; reflexivity|].
  pose proof (Forall_inv Hss) as Hm. destruct m; try discriminate Hm. clear Hm.
  destruct plaintext.
  - (* text *)
    set (txt := flat_map (fun m => hex m [32] ++ [10]) (Sysex data :: r)).
    assert (Hhead : exists rest, txt = 70 :: rest).
    { unfold txt. cbn [flat_map]. unfold hex at 1. cbn [enc app map]. change (hex_byte 240) with [70; 48].
      destruct (map hex_byte (data ++ [247])) as [|w ws]; cbn [join app]; eexists; reflexivity. }
    assert (Hread : read_syx txt = (bytes <- fromhex (map wsnorm txt) ;; ms0 <- parse_all bytes ;; Ok (filter is_sysex ms0))).
    { destruct Hhead as [rest ->]. reflexivity. }
    rewrite Hread. unfold txt. rewrite (fromhex_lines _ Hsv). cbn [bind]. rewrite Hparse. cbn [bind].
    now rewrite (filter_sysex_all _ Hss).
  - (* binary *)
    unfold read_syx. cbn [flat_map enc app]. change (240 =? 240) with true. cbv iota. cbn [bind].
    cbn [flat_map enc app] in Hparse. rewrite Hparse. cbn [bind]. now rewrite (filter_sysex_all _ Hss).
Qed.

(* any whitespace layout, either letter case: the text denotes the same bytes *)
Lemma hex_lower_sweep : forallb (fun n => match hexval (hex_lower n) with Some v => (v =? n) | None => false end
     && negb (is_ws (hex_lower n)) && negb (is_ascii_ws (hex_lower n))) (range 16) = true.
Proof. vm_compute. reflexivity. Qed.
Lemma hex_lower_facts n : 0 <= n < 16 -> hexval (hex_lower n) = Some n /\ is_ws (hex_lower n) = false /\ is_ascii_ws (hex_lower n) = false.
Proof.
  intros Hn. pose proof hex_lower_sweep as S. rewrite forallb_forall in S. specialize (S n (in_range 16 n ltac:(lia))).
  apply andb_prop in S as [S S3]. apply andb_prop in S as [S1 S2].
  destruct (hexval (hex_lower n)) as [v|]; [|discriminate]. apply Z.eqb_eq in S1. subst v.
  repeat split; [now destruct (is_ws _)|now destruct (is_ascii_ws _)].
Qed.

Lemma fromhex_ws ws rest : Forall (fun c => is_ws c = true) ws -> fromhex (map wsnorm ws ++ rest) = fromhex rest.
Proof.
  induction 1 as [|c r Hc Hr IH]; [reflexivity|]. cbn [map app fromhex]. unfold wsnorm at 1. rewrite Hc.
  change (is_ascii_ws 32) with true. cbv iota. exact IH.
Qed.

Theorem fromhex_render : forall items ws0,
  Forall (fun c => is_ws c = true) ws0 ->
  Forall (fun it => 0 <= fst (fst it) <= 255 /\ Forall (fun c => is_ws c = true) (snd it)) items ->
  fromhex (map wsnorm (render ws0 items)) = Ok (map (fun it => fst (fst it)) items).
Proof.
  induction items as [|[[b up] ws] r IH]; intros ws0 H0 Hi; cbn [render map].
  - rewrite <- (app_nil_r (map wsnorm ws0)). now rewrite fromhex_ws.
  - apply Forall_cons_iff in Hi as [[Hb Hws] Hr]. cbn [fst snd] in *.
    rewrite map_app, fromhex_ws by assumption. rewrite map_app.
    assert (Hhi : 0 <= b / 16 < 16) by (Z.to_euclidean_division_equations; lia).
    assert (Hlo : 0 <= b mod 16 < 16) by (Z.to_euclidean_division_equations; lia).
    assert (Hpair : forall rest, fromhex (map wsnorm (render_byte up b) ++ rest) =
              match fromhex rest with Ok bs => Ok (b :: bs) | Raise e => Raise e end).
    { intros rest. unfold render_byte, hex_byte. destruct up; cbn [map app fromhex]; unfold wsnorm.
      - destruct (hexdigit_facts _ Hhi) as (V1 & W1 & A1). destruct (hexdigit_facts _ Hlo) as (V2 & W2 & A2).
        rewrite W1, W2, A1, V1, V2. replace (16 * (b / 16) + b mod 16) with b by (apply Z.div_mod; lia). reflexivity.
      - destruct (hex_lower_facts _ Hhi) as (V1 & W1 & A1). destruct (hex_lower_facts _ Hlo) as (V2 & W2 & A2).
        rewrite W1, W2, A1, V1, V2. replace (16 * (b / 16) + b mod 16) with b by (apply Z.div_mod; lia). reflexivity. }
    rewrite Hpair, (IH ws Hws Hr). reflexivity.
Qed.

(* reading never fails with anything but ValueError (bad hex text); the parser itself never fails on bytes *)
Lemma hexval_range c h : hexval c = Some h -> 0 <= h < 16.
Proof.
  unfold hexval. destruct ((48 <=? c) && (c <=? 57)) eqn:E1; [intros H; injection H as <-; lia|].
  destruct ((65 <=? c) && (c <=? 70)) eqn:E2; [intros H; injection H as <-; lia|].
  destruct ((97 <=? c) && (c <=? 102)) eqn:E3; [intros H; injection H as <-; lia|discriminate].
Qed.

Lemma fromhex_bytes t bs : fromhex t = Ok bs -> Forall byte bs.
Proof.
  remember (length t) as n eqn:Hn. revert t bs Hn. induction n as [n IH] using lt_wf_ind. intros t bs Hn H.
  destruct t as [|c r]; [injection H as <-; constructor|]. cbn [fromhex] in H. destruct (is_ascii_ws c).
  - apply (IH (length r)) with (t := r); [cbn in Hn; lia|reflexivity|assumption].
  - destruct (hexval c) as [h|] eqn:Eh; [|discriminate]. destruct r as [|c2 r2]; [discriminate|].
    destruct (hexval c2) as [l|] eqn:El; [|discriminate]. destruct (fromhex r2) as [bs'|] eqn:E; [|discriminate].
    injection H as <-. constructor.
    + apply hexval_range in Eh, El. change (0 <= 16 * h + l <= 255). lia.
    + apply (IH (length r2)) with (t := r2); [cbn in Hn; lia|reflexivity|assumption].
Qed.

Theorem read_syx_outcome data : Forall byte data ->
  match read_syx data with
  | Ok ms => Forall (fun m => is_sysex m = true /\ valid m = true) ms
  | Raise e => e = ValueError
  end.
Proof.
  intros Hb. unfold read_syx. destruct data as [|b r]; [constructor|].
  destruct (b =? 240).
  - cbn [bind]. destruct (C04_total true (b :: r) Hb) as (ms & Hp & Hv & _). unfold parse_all. rewrite Hp. cbn [bind].
    clear Hp. induction Hv as [|m l Hm Hl IH]; cbn [filter]; [constructor|]. destruct (is_sysex m) eqn:E; [constructor; auto|assumption].
  - destruct (fromhex _) as [bs|e] eqn:E; cbn [bind]; [|now apply fromhex_raises in E].
    apply fromhex_bytes in E. destruct (C04_total true bs E) as (ms & Hp & Hv & _). unfold parse_all. rewrite Hp. cbn [bind].
    clear Hp. induction Hv as [|m l Hm Hl IH]; cbn [filter]; [constructor|]. destruct (is_sysex m) eqn:E2; [constructor; auto|assumption].
Qed.
