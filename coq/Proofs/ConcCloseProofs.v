(* ConcCloseProofs.v — close() from any number of threads, any schedule: the device is released at most once, exactly once as soon as one
   close() call has returned; without the lock it can be released twice. *)
From Coq Require Import List Bool Arith Lia.
Require Import Mido.Model.ConcClose.
Import ListNotations.

Definition inside (p : cpc) : bool := match p with KCheck | KRelease | KSet | KUnlock => true | _ => false end.

(* who holds the lock is exactly who is inside; the release count is told by the flag and by whether the holder is between _close and the flag *)
Definition KInv (cf : ccfg) : Prop :=
  let '(s, ts) := cf in
  (forall t, inside (ts t) = true <-> k_lock s = Some t) /\
  (k_closed s = true -> k_releases s = 1 /\ forall t, ts t <> KRelease /\ ts t <> KSet) /\
  (k_closed s = false -> (k_releases s = 0 /\ forall t, ts t <> KSet /\ ts t <> KDone /\ ts t <> KUnlock) \/
                         (k_releases s = 1 /\ exists t, ts t = KSet /\ forall u, ts u <> KDone /\ ts u <> KUnlock)).

Lemma kupd_same ts t p : kupd ts t p t = p.
Proof. unfold kupd. now rewrite Nat.eqb_refl. Qed.
Lemma kupd_other ts t p u : u <> t -> kupd ts t p u = ts u.
Proof. intros H. unfold kupd. destruct (Nat.eqb_spec u t); congruence. Qed.

Lemma holder_unique s ts t u : (forall x, inside (ts x) = true <-> k_lock s = Some x) -> inside (ts t) = true -> inside (ts u) = true -> u = t.
Proof. intros H Ht Hu. apply H in Ht. apply H in Hu. congruence. Qed.

Lemma kstep_inv cf t : KInv cf -> KInv (kstep true cf t).
Proof.
  destruct cf as [s ts]. intros (HL & HC & HO). unfold kstep.
  destruct (ts t) eqn:Ep.
  - (* KStart *)
    destruct (k_lock s) as [o|] eqn:El; [unfold KInv; rewrite El; exact (conj HL (conj HC HO))|].
    unfold KInv. cbn [k_lock k_closed k_releases]. split; [|split].
    + intros u. destruct (Nat.eq_dec u t) as [->|Hne].
      * rewrite kupd_same. cbn. split; auto.
      * rewrite kupd_other by exact Hne. split.
        -- intros Hi. apply HL in Hi. congruence.
        -- intros Hs. injection Hs as <-. contradiction.
    + intros Hc. destruct (HC Hc) as [R N]. split; [exact R|]. intros u. destruct (Nat.eq_dec u t) as [->|Hne]; [rewrite kupd_same; split; discriminate|rewrite kupd_other by exact Hne; apply N].
    + intros Hc. destruct (HO Hc) as [[R N]|[R (x & Hx & N)]].
      * left. split; [exact R|]. intros u. destruct (Nat.eq_dec u t) as [->|Hne]; [rewrite kupd_same; repeat split; discriminate|rewrite kupd_other by exact Hne; apply N].
      * exfalso. assert (Hi : inside (ts x) = true) by (rewrite Hx; reflexivity). apply HL in Hi. congruence.
  - (* KCheck *)
    assert (Hh : k_lock s = Some t) by (apply HL; rewrite Ep; reflexivity).
    destruct (k_closed s) eqn:Hc0.
    + (* already closed: straight to the unlock *)
      unfold KInv. rewrite Hc0. split; [|split].
      * intros u. destruct (Nat.eq_dec u t) as [->|Hne]; [rewrite kupd_same; cbn; split; auto|rewrite kupd_other by exact Hne; apply HL].
      * intros _. destruct (HC eq_refl) as [R N]. split; [exact R|]. intros u. destruct (Nat.eq_dec u t) as [->|Hne]; [rewrite kupd_same; split; discriminate|rewrite kupd_other by exact Hne; apply N].
      * discriminate.
    + unfold KInv. rewrite Hc0. split; [|split].
      * intros u. destruct (Nat.eq_dec u t) as [->|Hne]; [rewrite kupd_same; cbn; split; auto|rewrite kupd_other by exact Hne; apply HL].
      * discriminate.
      * intros _. destruct (HO eq_refl) as [[R N]|[R (x & Hx & N)]].
        -- left. split; [exact R|]. intros u. destruct (Nat.eq_dec u t) as [->|Hne]; [rewrite kupd_same; repeat split; discriminate|rewrite kupd_other by exact Hne; apply N].
        -- exfalso. assert (x = t) by (eapply holder_unique; eauto; [rewrite Ep|rewrite Hx]; reflexivity). subst x. congruence.
  - (* KRelease: the device's _close *)
    assert (Hh : k_lock s = Some t) by (apply HL; rewrite Ep; reflexivity).
    destruct (k_closed s) eqn:Hc.
    { exfalso. destruct (HC eq_refl) as [_ N]. destruct (N t) as [N1 _]. congruence. }
    unfold KInv. cbn [k_lock k_closed k_releases]. split; [|split].
    + intros u. destruct (Nat.eq_dec u t) as [->|Hne]; [rewrite kupd_same; cbn; split; auto|rewrite kupd_other by exact Hne; apply HL].
    + discriminate.
    + intros _. destruct (HO eq_refl) as [[R N]|[R (x & Hx & N)]].
      * right. split; [lia|]. exists t. rewrite kupd_same. split; [reflexivity|]. intros u.
        destruct (Nat.eq_dec u t) as [->|Hne]; [rewrite kupd_same; split; discriminate|rewrite kupd_other by exact Hne; destruct (N u) as (_ & A & B); auto].
      * exfalso. assert (x = t) by (eapply holder_unique; eauto; [rewrite Ep|rewrite Hx]; reflexivity). subst x. congruence.
  - (* KSet *)
    assert (Hh : k_lock s = Some t) by (apply HL; rewrite Ep; reflexivity).
    destruct (k_closed s) eqn:Hc.
    { exfalso. destruct (HC eq_refl) as [_ N]. destruct (N t) as [_ N2]. congruence. }
    unfold KInv. cbn [k_lock k_closed k_releases]. split; [|split].
    + intros u. destruct (Nat.eq_dec u t) as [->|Hne]; [rewrite kupd_same; cbn; split; auto|rewrite kupd_other by exact Hne; apply HL].
    + intros _. destruct (HO eq_refl) as [[R N]|[R (x & Hx & N)]].
      * exfalso. destruct (N t) as (A & _). congruence.
      * split; [exact R|]. intros u. destruct (Nat.eq_dec u t) as [->|Hne]; [rewrite kupd_same; split; discriminate|].
        rewrite kupd_other by exact Hne. split; intro Q.
        -- assert (u = t) by (eapply holder_unique; eauto; [rewrite Ep|rewrite Q]; reflexivity). contradiction.
        -- assert (u = t) by (eapply holder_unique; eauto; [rewrite Ep|rewrite Q]; reflexivity). contradiction.
    + discriminate.
  - (* KUnlock *)
    assert (Hh : k_lock s = Some t) by (apply HL; rewrite Ep; reflexivity).
    unfold KInv. cbn [k_lock k_closed k_releases]. split; [|split].
    + intros u. destruct (Nat.eq_dec u t) as [->|Hne].
      * rewrite kupd_same. cbn. split; discriminate.
      * rewrite kupd_other by exact Hne. split.
        -- intros Hi. apply HL in Hi. congruence.
        -- discriminate.
    + intros Hc. destruct (HC Hc) as [R N]. split; [exact R|]. intros u. destruct (Nat.eq_dec u t) as [->|Hne]; [rewrite kupd_same; split; discriminate|rewrite kupd_other by exact Hne; apply N].
    + intros Hc. exfalso. destruct (HO Hc) as [[R N]|[R (x & Hx & N)]].
      * destruct (N t) as (_ & _ & A). congruence.
      * destruct (N t) as (_ & A). congruence.
  - exact (conj HL (conj HC HO)).
Qed.

Lemma kinit_inv : KInv kinit.
Proof.
  unfold KInv, kinit. cbn. split; [|split].
  - intros t. split; discriminate.
  - discriminate.
  - intros _. left. split; [reflexivity|]. intros t. repeat split; discriminate.
Qed.
Lemma krun_inv : forall sched cf, KInv cf -> KInv (krun true sched cf).
Proof. induction sched as [|t r IH]; intros cf H; cbn [krun fold_left]; [exact H|]. apply IH, kstep_inv, H. Qed.

(* ---- the statements ---- *)
Theorem close_threads_at_most_once sched : k_releases (fst (krun true sched kinit)) <= 1.
Proof.
  pose proof (krun_inv sched kinit kinit_inv) as H. destruct (krun true sched kinit) as [s ts]. destruct H as (_ & HC & HO). cbn [fst].
  destruct (k_closed s) eqn:Hc; [destruct (HC eq_refl); lia|destruct (HO eq_refl) as [[R _]|[R _]]; lia].
Qed.
Theorem close_threads_exactly_once sched t : snd (krun true sched kinit) t = KDone ->
  k_closed (fst (krun true sched kinit)) = true /\ k_releases (fst (krun true sched kinit)) = 1.
Proof.
  pose proof (krun_inv sched kinit kinit_inv) as H. destruct (krun true sched kinit) as [s ts]. destruct H as (_ & HC & HO). cbn [fst snd]. intros Hd.
  destruct (k_closed s) eqn:Hc; [split; [reflexivity|apply (HC eq_refl)]|].
  exfalso. destruct (HO eq_refl) as [[_ N]|[_ (x & _ & N)]]; [destruct (N t) as (_ & A & _)|destruct (N t) as (A & _)]; congruence.
Qed.
(* without the lock two threads can both find the port open: two releases *)
Theorem close_unlocked_refuted : k_releases (fst (krun false [0; 0; 1; 1; 0; 1] kinit)) = 2.
Proof. reflexivity. Qed.
Example close_threads_example : let '(s, ts) := krun true [0; 1; 0; 2; 0; 0; 0; 1; 1; 1; 2; 2; 2] kinit in (k_releases s, k_closed s, ts 0, ts 1, ts 2) = (1, true, KDone, KDone, KDone).
Proof. reflexivity. Qed.
