(* IOPortProofs.v — the IOPort wrapper inherits the lifecycle of the ports it wraps (C11), for every history. *)
From Coq Require Import ZArith List Bool Lia.
Require Import Mido.Model.Base Mido.Model.Ports Mido.Model.IOPortM Mido.Proofs.PortsProofs.
Import ListNotations.
Open Scope Z_scope.

(* both wrapped ports are in a consistent state (released exactly when closed, never twice), and a closed wrapper has closed both *)
Definition IOInv (io : ioport) : Prop := Inv (io_in io) /\ Inv (io_out io) /\ (io_closed io = true -> p_closed (io_in io) = true /\ p_closed (io_out io) = true).

Lemma close_keeps_closed p : p_closed p = true -> p_closed (close p) = true.
Proof. intros H. unfold close. now rewrite H. Qed.
Lemma send_keeps_closed p m : p_closed p = true -> p_closed (fst (send p m)) = true.
Proof. intros H. rewrite (send_closed p m H). exact H. Qed.

Lemma io_close_inv io : IOInv io -> IOInv (io_close io) /\ io_closed (io_close io) = true.
Proof.
  intros (Hi & Ho & Hc). unfold io_close. destruct (io_closed io) eqn:E; [split; [repeat split; auto; apply Hc; reflexivity | exact E]|].
  destruct (close_inv _ Hi) as [Hi' Hic]. destruct (close_inv _ Ho) as [Ho' Hoc]. cbn. repeat split; auto.
Qed.

Lemma io_send_inv io m : IOInv io -> IOInv (fst (io_send io m)).
Proof.
  intros (Hi & Ho & Hc). unfold io_send. destruct (io_closed io) eqn:E; [cbn [fst]; unfold IOInv; auto|].
  destruct (send (io_out io) m) as [o r] eqn:Es. cbn. pose proof (send_inv _ m Ho) as H. rewrite Es in H. cbn in H.
  unfold IOInv. cbn [with_out io_in io_out io_closed]. split; [exact Hi|split; [exact H|]]. intros Hx. rewrite E in Hx. discriminate.
Qed.

(* the operations on the input port keep it closed once it is closed *)
Lemma receive_closed fuel b p : p_closed p = true -> p_closed (fst (receive fuel b p)) = true.
Proof.
  intros H. unfold receive. destruct (pop p) as [[p1 m]|] eqn:Ep.
  - cbn. unfold pop in Ep. destruct (p_queue p); [discriminate|]. injection Ep as <- _. cbn. exact H.
  - rewrite H. cbn. exact H.
Qed.
Lemma iter_pending_closed : forall n fuel p, p_closed p = true -> p_closed (fst (iter_pending n fuel p)) = true.
Proof.
  induction n as [|k IH]; intros fuel p H; cbn [iter_pending]; [exact H|]. unfold poll.
  pose proof (receive_closed fuel false p H) as Hr. destruct (receive fuel false p) as [p1 [[m|]|e]]; cbn in Hr |- *; try exact Hr.
  specialize (IH fuel p1 Hr). destruct (iter_pending k fuel p1) as [p2 r]. cbn in *. exact IH.
Qed.
Lemma take_pending_closed : forall n fuel p, p_closed p = true -> p_closed (fst (take_pending n fuel p)) = true.
Proof.
  induction n as [|k IH]; intros fuel p H; cbn [take_pending]; [exact H|]. unfold poll.
  pose proof (receive_closed fuel false p H) as Hr. destruct (receive fuel false p) as [p1 [[m|]|e]]; cbn in Hr |- *; try exact Hr.
  specialize (IH fuel p1 Hr). destruct (take_pending k fuel p1) as [p2 r]. cbn in *. exact IH.
Qed.
Lemma iterate_closed : forall n fuel p, p_closed p = true -> p_closed (fst (iterate n fuel p)) = true.
Proof.
  induction n as [|k IH]; intros fuel p H; cbn [iterate]; [exact H|].
  destruct (p_closed p && match p_queue p with [] => true | _ => false end); [exact H|].
  pose proof (receive_closed fuel true p H) as Hr. destruct (receive fuel true p) as [p1 [[m|]|e]]; cbn in Hr |- *; try exact Hr.
  - specialize (IH fuel p1 Hr). destruct (iterate k fuel p1) as [p2 r]. cbn in *. exact IH.
  - destruct e; try exact Hr. destruct (p_closed p1) eqn:Q; cbn [fst]; [exact Q|discriminate].
Qed.

Lemma with_in_inv io p : IOInv io -> Inv p -> (p_closed (io_in io) = true -> p_closed p = true) -> IOInv (with_in io p).
Proof. intros (Hi & Ho & Hc) Hp Hk. unfold IOInv. cbn. repeat split; auto; [apply Hk|]; apply Hc; assumption. Qed.

Lemma io_send_all_inv : forall l io, IOInv io -> IOInv (fst (io_send_all l io)).
Proof.
  induction l as [|m r IH]; intros io H; cbn [io_send_all]; [exact H|].
  pose proof (io_send_inv io m H) as H1. destruct (io_send io m) as [io1 [u|e]]; cbn in H1 |- *; [apply IH|]; exact H1.
Qed.

Lemma io_step_inv fuel io o : IOInv io -> IOInv (fst (io_step fuel io o)).
Proof.
  intros H. pose proof H as (Hi & Ho & Hc). destruct o; cbn [io_step].
  - pose proof (io_send_inv io m H) as H1. destruct (io_send io m). exact H1.
  - unfold io_receive. pose proof (receive_inv fuel block _ Hi) as H1. pose proof (receive_closed fuel block (io_in io)) as H2.
    destruct (receive fuel block (io_in io)) as [i r]. cbn in *. apply with_in_inv; assumption.
  - unfold io_receive. pose proof (receive_inv fuel false _ Hi) as H1. pose proof (receive_closed fuel false (io_in io)) as H2.
    destruct (receive fuel false (io_in io)) as [i r]. cbn in *. apply with_in_inv; assumption.
  - unfold io_iter_pending. pose proof (iter_pending_inv 2000 fuel _ Hi) as H1. pose proof (iter_pending_closed 2000 fuel (io_in io)) as H2.
    destruct (iter_pending 2000 fuel (io_in io)) as [i r]. cbn in *. apply with_in_inv; assumption.
  - unfold io_iterate. destruct (p_echo (io_in io)).
    + pose proof (take_pending_inv limit fuel _ Hi) as H1. pose proof (take_pending_closed limit fuel (io_in io)) as H2.
      destruct (take_pending limit fuel (io_in io)) as [i r]. cbn in *. apply with_in_inv; assumption.
    + pose proof (iterate_inv limit fuel _ Hi) as H1. pose proof (iterate_closed limit fuel (io_in io)) as H2.
      destruct (iterate limit fuel (io_in io)) as [i r]. cbn in *. apply with_in_inv; assumption.
  - apply io_close_inv, H.
  - pose proof (io_send_inv io m H) as H1. destruct (io_send io m) as [io1 r]. cbn in *. apply io_close_inv, H1.
  - unfold io_reset. destruct (io_closed io); [exact H|]. pose proof (io_send_all_inv reset_ids io H) as H1. destruct (io_send_all reset_ids io). exact H1.
  - destruct (close_inv _ Hi) as [Hi' Hic]. apply with_in_inv; auto.
  - destruct (close_inv _ Ho) as [Ho' Hoc]. unfold IOInv. cbn. repeat split; auto. apply Hc; assumption.
Qed.

Theorem io_run_inv fuel : forall ops io, IOInv io -> IOInv (fst (io_run fuel io ops)).
Proof.
  induction ops as [|o r IH]; intros io H; cbn [io_run]; [exact H|].
  pose proof (io_step_inv fuel io o H) as H1. destruct (io_step fuel io o) as [io1 x]. cbn in H1.
  specialize (IH io1 H1). destruct (io_run fuel io1 r) as [io2 xs]. exact IH.
Qed.

(* ---- the statements ---- *)
(* for EVERY pair of device scripts, fault sequences and EVERY history on the wrapper and on the wrapped ports: each device is released
   exactly when its port is closed and never twice, and a closed wrapper has released both *)
Theorem io_close_once fuel ar_i echo_i script_i faults_i ar_o echo_o script_o faults_o ops :
  let io := fst (io_run fuel (new_ioport (new_port ar_i echo_i script_i faults_i) (new_port ar_o echo_o script_o faults_o)) ops) in
  Inv (io_in io) /\ Inv (io_out io) /\ (io_closed io = true -> p_closes (io_in io) = 1%nat /\ p_closes (io_out io) = 1%nat).
Proof.
  intros io. assert (H : IOInv io).
  { apply io_run_inv. unfold IOInv, new_ioport. cbn. repeat split; try apply new_port_inv; discriminate. }
  destruct H as (Hi & Ho & Hc). repeat split; auto; destruct (Hc H) as [Ci Co].
  - destruct Hi as [[E _]|[_ E]]; [congruence|exact E].
  - destruct Ho as [[E _]|[_ E]]; [congruence|exact E].
Qed.

Theorem io_close_idempotent io : io_closed io = true -> io_close io = io.
Proof. intros H. unfold io_close. now rewrite H. Qed.

(* after close: send raises ValueError and changes nothing *)
Theorem io_send_closed io m : io_closed io = true -> io_send io m = (io, Raise ValueError).
Proof. intros H. unfold io_send. now rewrite H. Qed.

(* after close: receive, poll and iteration hand out what the input port had taken in, in order, then stop *)
Theorem io_drain_receive fuel b io m q : IOInv io -> io_closed io = true -> p_queue (io_in io) = m :: q ->
  exists io', io_receive fuel b io = (io', Ok (Some m)) /\ p_queue (io_in io') = q /\ io_closed io' = true.
Proof.
  intros (_ & _ & Hc) E Hq. destruct (Hc E) as [Ci _]. destruct (closed_receive_drains fuel b _ m q Ci Hq) as (p' & Hr & Hq' & _).
  unfold io_receive. rewrite Hr. eexists. split; [reflexivity|]. cbn. auto.
Qed.
Theorem io_drain_iteration fuel io q n : IOInv io -> io_closed io = true -> p_echo (io_in io) = false -> p_queue (io_in io) = q -> (length q < n)%nat ->
  exists io', io_iterate n fuel io = (io', Ok q) /\ p_queue (io_in io') = [] /\ io_closed io' = true.
Proof.
  intros (_ & _ & Hc) E He Hq Hn. destruct (Hc E) as [Ci _]. destruct (closed_iteration_drains fuel q _ n Ci Hq Hn) as (p' & Hr & Hq' & _).
  unfold io_iterate. rewrite He, Hr. eexists. split; [reflexivity|]. cbn. auto.
Qed.
Theorem io_then_stops fuel io : IOInv io -> io_closed io = true -> p_queue (io_in io) = [] ->
  snd (io_receive fuel false io) = Ok None /\ snd (io_receive fuel true io) = Raise ValueError /\
  (p_echo (io_in io) = false -> forall n, snd (io_iterate n fuel io) = Ok []).
Proof.
  intros (_ & _ & Hc) E Hq. destruct (Hc E) as [Ci _]. destruct (closed_empty_stops fuel _ Ci Hq) as (H1 & H2 & H3 & _).
  unfold io_receive, io_iterate. rewrite H1, H2. repeat split; auto. intros He n. rewrite He, H3. reflexivity.
Qed.
(* iteration over the wrapper never ends with an exception, wherever the input port closes (by itself, too) *)
Theorem io_iteration_ends_cleanly n fuel io io' e : p_echo (io_in io) = false -> io_iterate n fuel io = (io', Raise e) -> e = Diverges.
Proof.
  intros He H. unfold io_iterate in H. rewrite He in H. destruct (iterate n fuel (io_in io)) as [i r] eqn:Ei. injection H as _ ->.
  eapply iteration_ends_cleanly; eauto.
Qed.
