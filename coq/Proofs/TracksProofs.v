(* TracksProofs.v — merge_tracks keeps every event at its absolute time (C12). *)
From Coq Require Import ZArith List Bool Lia Sorting.Permutation Sorting.Sorted.
Require Import Mido.Model.Base Mido.Model.Tracks.
Import ListNotations.
Open Scope Z_scope.

Lemma set_time_id e : set_time e (time e) = e.
Proof. destruct e; reflexivity. Qed.
Lemma set_time_set e a b : set_time (set_time e a) b = set_time e b.
Proof. reflexivity. Qed.

(* ---- the sort: a permutation, sorted by (time, original position); stable ---- *)
Definition pos_lt (a b : ev) : Prop := (trk a < trk b)%nat \/ (trk a = trk b /\ (idx a < idx b)%nat).
Definition lex_le (a b : ev) : Prop := time a < time b \/ (time a = time b /\ (pos_lt a b \/ (trk a = trk b /\ idx a = idx b))).

Lemma insert_perm x l : Permutation (x :: l) (insert x l).
Proof.
  induction l as [|y r IH]; cbn [insert]; [reflexivity|].
  destruct (time y <=? time x); [|reflexivity]. rewrite perm_swap. now constructor.
Qed.
Lemma ssort_acc_perm l : forall acc, Permutation (l ++ acc) (fold_left (fun a x => insert x a) l acc).
Proof.
  induction l as [|x r IH]; intros acc; cbn [fold_left app]; [reflexivity|].
  rewrite <- IH. rewrite <- insert_perm. now rewrite Permutation_middle.
Qed.
Lemma ssort_perm l : Permutation l (ssort l).
Proof. unfold ssort. rewrite <- ssort_acc_perm. now rewrite app_nil_r. Qed.

(* inserting x, which comes AFTER (in original position) everything already present *)
Definition after_all (x : ev) (l : list ev) := Forall (fun y => pos_lt y x) l.

Lemma insert_sorted x l : StronglySorted lex_le l -> after_all x l -> StronglySorted lex_le (insert x l).
Proof.
  induction l as [|y r IH]; intros Hs Ha; cbn [insert].
  - constructor; constructor.
  - inversion Hs as [|? ? Hsr Hyr]; subst. inversion Ha as [|? ? Hyx Hrx]; subst.
    destruct (time y <=? time x) eqn:E.
    + constructor; [apply IH; assumption|]. rewrite Forall_forall. intros z Hz.
      apply (Permutation_in _ (Permutation_sym (insert_perm x r))) in Hz. destruct Hz as [<-|Hz].
      * unfold lex_le. destruct (Z.eq_dec (time y) (time x)); [right; split; [assumption|left; assumption]|left; lia].
      * rewrite Forall_forall in Hyr. auto.
    + constructor; [assumption|]. constructor; [left; lia|].
      rewrite Forall_forall in *. intros z Hz. specialize (Hyr z Hz). left. unfold lex_le in Hyr. lia.
Qed.

(* the concatenated input is in increasing original position *)
Inductive pos_sorted : list ev -> Prop :=
| ps_nil : pos_sorted []
| ps_snoc l x : pos_sorted l -> after_all x l -> pos_sorted (l ++ [x]).

Lemma after_all_perm x l l' : Permutation l l' -> after_all x l -> after_all x l'.
Proof. intros P H. unfold after_all in *. rewrite Forall_forall in *. intros z Hz. apply H. eapply Permutation_in; [symmetry; exact P|assumption]. Qed.

Lemma ssort_snoc l x : ssort (l ++ [x]) = insert x (ssort l).
Proof. unfold ssort. now rewrite fold_left_app. Qed.

Theorem ssort_lex l : pos_sorted l -> StronglySorted lex_le (ssort l).
Proof.
  induction 1 as [|l x Hp IH Ha]; [constructor|]. rewrite ssort_snoc.
  apply insert_sorted; [assumption|]. eapply after_all_perm; [apply ssort_perm|assumption].
Qed.

Definition key_eq (a b : ev) := time a = time b /\ trk a = trk b /\ idx a = idx b.
Lemma lex_antisym a b : lex_le a b -> lex_le b a -> key_eq a b.
Proof. unfold lex_le, pos_lt, key_eq. intros H1 H2. lia. Qed.

(* ---- absolute times survive to_rel and fix_end_of_track ---- *)
Lemma abs_rel : forall l nw, to_abs nw (to_rel nw l) = l.
Proof.
  induction l as [|e r IH]; intros nw; cbn [to_rel to_abs]; [reflexivity|].
  assert (H : nw + time (set_time e (time e - nw)) = time e) by (unfold set_time; cbn [time]; lia).
  rewrite H, set_time_set, set_time_id. f_equal. apply IH.
Qed.

Definition noneot (e : ev) : bool := negb (eot e).
Lemma fix_eot_abs : forall l nw acc,
  filter noneot (to_abs nw (fix_eot_z acc l)) = filter noneot (to_abs (nw + acc) l).
Proof.
  induction l as [|e r IH]; intros nw acc; cbn [fix_eot_z to_abs]; [reflexivity|].
  destruct (eot e) eqn:E.
  - cbn [filter]. unfold noneot at 2. cbn [eot set_time]. rewrite E. cbn [negb]. rewrite IH. f_equal. f_equal. lia.
  - cbn [to_abs]. assert (Ht : nw + time (if acc =? 0 then e else set_time e (acc + time e)) = nw + acc + time e).
    { destruct (acc =? 0) eqn:E0; cbn [time set_time]; lia. }
    rewrite Ht. assert (Hs : set_time (if acc =? 0 then e else set_time e (acc + time e)) (nw + acc + time e) = set_time e (nw + acc + time e)).
    { destruct (acc =? 0); reflexivity. }
    rewrite Hs. cbn [filter]. assert (Hn : forall t, noneot (set_time e t) = true) by (intros t; unfold noneot; cbn [eot set_time]; now rewrite E).
    rewrite !Hn. f_equal. rewrite IH. f_equal. f_equal. lia.
Qed.

Theorem merge_abs tracks :
  filter noneot (to_abs 0 (merge_tracks tracks)) = filter noneot (ssort (concat (map (to_abs 0) tracks))).
Proof. unfold merge_tracks. rewrite fix_eot_abs. cbn. now rewrite abs_rel. Qed.

(* ---- exactly one end_of_track, at the end ---- *)
Theorem fix_eot_one : forall l acc, exists body t, fix_eot_z acc l = body ++ [new_eot t] /\ Forall (fun e => eot e = false) body.
Proof.
  induction l as [|e r IH]; intros acc; cbn [fix_eot_z].
  - exists [], acc. split; [reflexivity|constructor].
  - destruct (eot e) eqn:E; [apply IH|]. destruct (IH 0) as (body & t & -> & Hb).
    exists ((if acc =? 0 then e else set_time e (acc + time e)) :: body), t. split; [reflexivity|].
    constructor; [destruct (acc =? 0); exact E|exact Hb].
Qed.

(* ---- duration ---- *)
Definition total (l : list ev) : Z := fold_right (fun e s => time e + s) 0 l.
Definition last_time (l : list ev) (d : Z) : Z := match rev l with e :: _ => time e | [] => d end.
Definition maxtime (l : list ev) : Z := fold_right (fun e m => Z.max (time e) m) 0 l.

Lemma total_fix : forall l acc, total (fix_eot_z acc l) = acc + total l.
Proof.
  induction l as [|e r IH]; intros acc; cbn [fix_eot_z total fold_right]; [cbn; lia|].
  destruct (eot e); [fold (total r); rewrite IH; lia|]. cbn [total fold_right]. fold (total (fix_eot_z 0 r)). rewrite IH. fold (total r).
  destruct (acc =? 0) eqn:E; cbn [time set_time]; lia.
Qed.
Lemma last_time_cons e r d : last_time (e :: r) d = last_time r (time e).
Proof.
  unfold last_time. cbn [rev]. destruct (rev r) as [|x t] eqn:E; cbn [app]; reflexivity.
Qed.
Lemma total_rel : forall l nw, total (to_rel nw l) = last_time l nw - nw.
Proof.
  induction l as [|e r IH]; intros nw; [unfold last_time; cbn; lia|].
  cbn [to_rel total fold_right]. fold (total (to_rel (time e) r)). rewrite IH, last_time_cons. cbn [time set_time]. lia.
Qed.
Lemma maxtime_perm l l' : Permutation l l' -> maxtime l = maxtime l'.
Proof. induction 1; cbn [maxtime fold_right]; try lia; fold (maxtime l) in *; fold (maxtime l') in *; lia. Qed.
Lemma maxtime_app a b : maxtime (a ++ b) = Z.max (maxtime a) (maxtime b).
Proof. induction a as [|e r IH]; cbn [app maxtime fold_right]; [unfold maxtime; cbn; fold (maxtime b)|fold (maxtime (r ++ b)); fold (maxtime r); rewrite IH]; try lia.
  assert (0 <= maxtime b) by (clear; induction b; cbn; [lia|fold (maxtime b); lia]). lia. Qed.
Lemma maxtime_nonneg l : 0 <= maxtime l.
Proof. induction l; cbn; [lia|fold (maxtime l); lia]. Qed.

Definition time_le (a b : ev) : Prop := time a <= time b.
Lemma lex_time a b : lex_le a b -> time_le a b.
Proof. unfold lex_le, time_le. lia. Qed.
Lemma sorted_last : forall l d, StronglySorted time_le l -> Forall (fun e => d <= time e) l -> 0 <= d ->
  last_time l d = Z.max d (maxtime l).
Proof.
  induction l as [|e r IH]; intros d Hs Hf Hd; [unfold last_time; cbn; lia|].
  rewrite last_time_cons. inversion Hs as [|? ? Hsr Her]; subst. apply Forall_cons_iff in Hf as [He Hfr].
  rewrite (IH (time e) Hsr); [|eapply Forall_impl; [|exact Her]; unfold time_le; cbn; lia|lia].
  cbn [maxtime fold_right]. fold (maxtime r). lia.
Qed.

(* within a track with non-negative deltas the absolute times grow, and the total is the largest *)
Lemma to_abs_max : forall l nw, Forall (fun e => 0 <= time e) l -> 0 <= nw ->
  Z.max nw (maxtime (to_abs nw l)) = nw + total l /\ Forall (fun e => nw <= time e) (to_abs nw l).
Proof.
  induction l as [|e r IH]; intros nw Hf Hn; cbn [to_abs maxtime fold_right total]; [split; [lia|constructor]|].
  apply Forall_cons_iff in Hf as [He Hr]. fold (maxtime (to_abs (nw + time e) r)). fold (total r).
  destruct (IH (nw + time e) Hr ltac:(lia)) as [Hm Hfa]. cbn [time set_time]. split; [lia|].
  constructor; [cbn; lia|]. eapply Forall_impl; [|exact Hfa]. cbn. lia.
Qed.

Definition nonneg_track (l : list ev) : Prop := Forall (fun e => 0 <= time e) l.

Lemma maxtime_concat_abs : forall tracks, Forall nonneg_track tracks ->
  maxtime (concat (map (to_abs 0) tracks)) = fold_right (fun tr m => Z.max (total tr) m) 0 tracks.
Proof.
  induction tracks as [|tr r IH]; intros Hf; [reflexivity|]. apply Forall_cons_iff in Hf as [H1 H2].
  cbn [map concat fold_right]. rewrite maxtime_app, IH by assumption.
  destruct (to_abs_max tr 0 H1 ltac:(lia)) as [Hm _]. pose proof (maxtime_nonneg (to_abs 0 tr)). lia.
Qed.

Theorem merge_duration tracks : Forall nonneg_track tracks -> pos_sorted (concat (map (to_abs 0) tracks)) ->
  total (merge_tracks tracks) = fold_right (fun tr m => Z.max (total tr) m) 0 tracks.
Proof.
  intros Hnn Hps. unfold merge_tracks. rewrite total_fix, total_rel. set (all := concat (map (to_abs 0) tracks)).
  assert (Hs : StronglySorted time_le (ssort all)).
  { pose proof (ssort_lex all Hps) as H. clear - H. induction H; constructor; [assumption|]. eapply Forall_impl; [|eassumption]. intros a0 Ha. now apply lex_time. }
  assert (Hall : Forall (fun e => 0 <= time e) all).
  { unfold all. clear Hps Hs all. induction tracks as [|tr r IH]; [constructor|]. apply Forall_cons_iff in Hnn as [H1 H2].
    cbn [map concat]. apply Forall_app; split; [|now apply IH]. destruct (to_abs_max tr 0 H1 ltac:(lia)) as [_ Hf]. exact Hf. }
  rewrite (sorted_last (ssort all) 0 Hs); [|eapply Permutation_Forall; [apply ssort_perm|exact Hall]|lia].
  rewrite <- (maxtime_perm all (ssort all) (ssort_perm all)). unfold all. rewrite maxtime_concat_abs by assumption.
  pose proof (maxtime_nonneg (concat (map (to_abs 0) tracks))). rewrite <- maxtime_concat_abs by assumption. lia.
Qed.

(* ---- the labelled input is in increasing original position ---- *)
Lemma ss_app_inv (R : ev -> ev -> Prop) a b : StronglySorted R (a ++ b) ->
  StronglySorted R a /\ StronglySorted R b /\ Forall (fun x => Forall (R x) b) a.
Proof.
  induction a as [|x r IH]; cbn [app]; intros H; [repeat split; [constructor|assumption|constructor]|].
  inversion H as [|? ? Hs Hf]; subst. destruct (IH Hs) as (H1 & H2 & H3). apply Forall_app in Hf as [Hf1 Hf2].
  repeat split; [constructor; assumption|assumption|constructor; assumption].
Qed.
Lemma ss_pos_sorted l : StronglySorted pos_lt l -> pos_sorted l.
Proof.
  induction l as [|x l IH] using rev_ind; intros H; [constructor|].
  destruct (ss_app_inv _ _ _ H) as (H1 & _ & H3). constructor; [now apply IH|].
  unfold after_all. eapply Forall_impl; [|exact H3]. intros a Ha. now apply Forall_inv in Ha.
Qed.

Lemma to_abs_ids : forall l nw, map (fun e => (trk e, idx e)) (to_abs nw l) = map (fun e => (trk e, idx e)) l.
Proof. induction l as [|e r IH]; intros nw; cbn [to_abs map]; [reflexivity|]. now rewrite IH. Qed.

Lemma ss_by_ids l l' : map (fun e => (trk e, idx e)) l = map (fun e => (trk e, idx e)) l' -> StronglySorted pos_lt l' -> StronglySorted pos_lt l.
Proof.
  revert l'. induction l as [|x r IH]; intros l' Hm Hs; [constructor|]. destruct l' as [|y r']; [discriminate|].
  cbn [map] in Hm. injection Hm as Ht Hi Hr. inversion Hs as [|? ? Hsr Hf]; subst. constructor; [eapply IH; eauto|].
  clear - Ht Hi Hr Hf. revert r' Hr Hf. induction r as [|z r IH]; intros r' Hr Hf; [constructor|]. destruct r' as [|w r'']; [discriminate|].
  cbn [map] in Hr. injection Hr as Hzt Hzi Hr. apply Forall_cons_iff in Hf as [Hw Hf]. constructor; [|eapply IH; eauto].
  unfold pos_lt in *. lia.
Qed.

Lemma label_from_sorted : forall t i j, StronglySorted pos_lt (label_from i j t) /\ Forall (fun e => trk e = i /\ (j <= idx e)%nat) (label_from i j t).
Proof.
  induction t as [|[tm b] r IH]; intros i j; cbn [label_from]; [split; constructor|].
  destruct (IH i (S j)) as [Hs Hf]. split.
  - constructor; [assumption|]. eapply Forall_impl; [|exact Hf]. intros a [Ha1 Ha2]. unfold pos_lt. cbn. right. split; [symmetry; exact Ha1|apply Ha2].
  - constructor; [cbn; lia|]. eapply Forall_impl; [|exact Hf]. cbn. lia.
Qed.

Lemma label_tracks_sorted : forall ts i, StronglySorted pos_lt (concat (label_tracks i ts)) /\ Forall (fun e => (i <= trk e)%nat) (concat (label_tracks i ts)).
Proof.
  induction ts as [|t r IH]; intros i; cbn [label_tracks concat]; [split; constructor|].
  destruct (IH (S i)) as [Hs Hf]. destruct (label_from_sorted t i 0) as [Ht Hft]. split.
  - clear IH. induction (label_from i 0 t) as [|x l IHl]; cbn [app]; [assumption|].
    inversion Ht as [|? ? Hsl Hfl]; subst. apply Forall_cons_iff in Hft as [Hx Hft]. constructor; [now apply IHl|].
    apply Forall_app; split; [assumption|]. eapply Forall_impl; [|exact Hf]. intros a Ha. cbn beta in Hx, Ha. destruct Hx as [Hx1 Hx2]. left. lia.
  - apply Forall_app; split; [eapply Forall_impl; [|exact Hft]; intros a [Ha1 Ha2]; lia|eapply Forall_impl; [|exact Hf]; intros a Ha; cbn beta in Ha; lia].
Qed.

Theorem labelled_pos_sorted ts : pos_sorted (concat (map (to_abs 0) (label_tracks 0 ts))).
Proof.
  apply ss_pos_sorted. eapply ss_by_ids; [|exact (proj1 (label_tracks_sorted ts 0))].
  generalize (label_tracks 0 ts). intros l. induction l as [|t r IH]; [reflexivity|]. cbn [map concat]. now rewrite !map_app, to_abs_ids, IH.
Qed.
