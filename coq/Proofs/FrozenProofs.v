(* FrozenProofs.v — copy, freeze and thaw have value semantics (C15). *)
From Coq Require Import ZArith List Bool Lia.
Require Import Mido.Model.Base Mido.Model.Frozen.
Import ListNotations.
Open Scope Z_scope.

Lemma nth_error_app_new {A} (h : list A) x : nth_error (h ++ [x]) (length h) = Some x.
Proof. rewrite nth_error_app2 by lia. now rewrite Nat.sub_diag. Qed.
Lemma nth_error_app_old {A} (h : list A) x l o : nth_error h l = Some o -> nth_error (h ++ [x]) l = Some o.
Proof. intros H. rewrite nth_error_app1; [exact H|]. apply nth_error_Some. congruence. Qed.

(* copy without overrides: a NEW object of the same class (frozen stays frozen), equal to the original; the original stays *)
Theorem copy_plain h l o : nth_error h l = Some o ->
  exists h', do_copy h l [] = (h', Ok (Some (length h))) /\ nth_error h' (length h) = Some o /\ nth_error h' l = Some o /\ length h <> l.
Proof.
  intros H. unfold do_copy. rewrite H. cbn [forallb fold_left]. eexists. split; [reflexivity|].
  assert (Hl : (l < length h)%nat) by (apply nth_error_Some; congruence).
  split; [rewrite nth_error_app_new; destruct o; reflexivity|]. split; [now apply nth_error_app_old|lia].
Qed.

(* freeze: None -> None; a frozen message is returned unchanged (the same object); otherwise a new frozen object with the same content *)
Theorem freeze_none h : do_freeze h None = (h, Ok None).
Proof. reflexivity. Qed.
Theorem freeze_frozen h l o : nth_error h l = Some o -> o_frozen o = true -> do_freeze h (Some l) = (h, Ok (Some l)).
Proof. intros H F. unfold do_freeze. now rewrite H, F. Qed.
Theorem freeze_new h l o : nth_error h l = Some o -> o_frozen o = false ->
  exists h' o', do_freeze h (Some l) = (h', Ok (Some (length h))) /\ nth_error h' (length h) = Some o' /\
    o_frozen o' = true /\ o_cls o' = o_cls o /\ obj_eq o' o /\ nth_error h' l = Some o.
Proof.
  intros H F. unfold do_freeze. rewrite H, F. eexists; eexists. split; [reflexivity|]. rewrite nth_error_app_new.
  repeat split; try reflexivity. now apply nth_error_app_old.
Qed.
(* thaw: None -> None; always a new plain object of the matching class with the same content *)
Theorem thaw_none h : do_thaw h None = (h, Ok None).
Proof. reflexivity. Qed.
Theorem thaw_new h l o : nth_error h l = Some o ->
  exists h' o', do_thaw h (Some l) = (h', Ok (Some (length h))) /\ nth_error h' (length h) = Some o' /\
    o_frozen o' = false /\ o_cls o' = o_cls o /\ obj_eq o' o /\ nth_error h' l = Some o.
Proof.
  intros H. unfold do_thaw. rewrite H. eexists; eexists. split; [reflexivity|]. rewrite nth_error_app_new.
  repeat split; try reflexivity. now apply nth_error_app_old.
Qed.
(* thaw(freeze(m)) equals m and has m's class *)
Theorem thaw_freeze h l o : nth_error h l = Some o -> o_frozen o = false ->
  exists h1 l1 h2 l2 o2, do_freeze h (Some l) = (h1, Ok (Some l1)) /\ do_thaw h1 (Some l1) = (h2, Ok (Some l2)) /\
    nth_error h2 l2 = Some o2 /\ obj_eq o2 o /\ o_cls o2 = o_cls o /\ o_frozen o2 = false.
Proof.
  intros H F. destruct (freeze_new h l o H F) as (h1 & o1 & E1 & N1 & F1 & C1 & Q1 & _).
  destruct (thaw_new h1 (length h) o1 N1) as (h2 & o2 & E2 & N2 & F2 & C2 & Q2 & _).
  exists h1, (length h), h2, (length h1), o2. repeat split; try assumption; try congruence;
    destruct Q1, Q2; congruence.
Qed.

(* frozen messages reject every mutation and nothing changes *)
Theorem frozen_immutable h l o a v : nth_error h l = Some o -> o_frozen o = true ->
  do_set h l a v = (h, Raise ValueError) /\ do_del h l a = (h, Raise AttributeError).
Proof. intros H F. unfold do_set, do_del. now rewrite H, F. Qed.

(* independence: an assignment on one object never affects another one *)
Lemma hset_other : forall h l o l', l <> l' -> nth_error (hset h l o) l' = nth_error h l'.
Proof.
  induction h as [|x r IH]; intros l o l' Hne; [destruct l; reflexivity|].
  destruct l as [|l], l' as [|l']; cbn [hset nth_error]; try reflexivity; try congruence. apply IH. congruence.
Qed.
Theorem set_frame h l a v l' : l <> l' -> nth_error (fst (do_set h l a v)) l' = nth_error h l'.
Proof.
  intros Hne. unfold do_set. destruct (nth_error h l) as [o|]; [|reflexivity].
  destruct (o_frozen o); [reflexivity|]. destruct (aget a (o_attrs o)); [|reflexivity]. cbn [fst]. now apply hset_other.
Qed.
Theorem sets_frame : forall ops h l', Forall (fun op => fst (fst op) <> l') ops ->
  nth_error (fold_left (fun hh op => fst (do_set hh (fst (fst op)) (snd (fst op)) (snd op))) ops h) l' = nth_error h l'.
Proof.
  induction ops as [|[[l a] v] r IH]; intros h l' Hf; cbn [fold_left]; [reflexivity|].
  apply Forall_cons_iff in Hf as [H1 H2]. cbn [fst snd] in *. rewrite IH by assumption. now apply set_frame.
Qed.

(* equal messages have equal hash keys (and the key is always defined) *)
Theorem hash_equal a b : obj_eq a b -> hash_key a = hash_key b.
Proof. intros [H1 H2]. unfold hash_key. now rewrite H1, H2. Qed.
