(* StringsProofs.v — text representations round-trip (C14). *)
From Coq Require Import ZArith List Bool Lia String Ascii Decimal DecimalZ DecimalPos DecimalN.
Require Import Mido.Model.Base Mido.Model.Codec Mido.Model.Names Mido.Model.Checks Mido.Model.Strings.
Require Import Mido.Proofs.CodecProofs Mido.Proofs.ChecksProofs.
Import ListNotations.
Open Scope Z_scope.

(* ---- int(str(z)) = z ---- *)
Lemma int_digits_acc : forall u p, int_digits (Zpos p) false (uint_digits u) = Some (Zpos (Pos.of_uint_acc u p)).
Proof.
  induction u; intros q; cbn [uint_digits int_digits Pos.of_uint_acc]; [reflexivity| | | | | | | | | |];
    (match goal with |- context [is_digit ?c] => change (is_digit c) with true end; cbv iota;
     match goal with |- int_digits ?a false _ = Some (Zpos (Pos.of_uint_acc _ ?b)) => replace a with (Zpos b) by lia end; apply IHu).
Qed.
Lemma int_digits_zero : forall u, int_digits 0 false (uint_digits u) = Some (Z.of_N (Pos.of_uint u)).
Proof.
  induction u; cbn [uint_digits int_digits Pos.of_uint]; [reflexivity| | | | | | | | | |];
    match goal with |- context [is_digit ?c] => change (is_digit c) with true end; cbv iota;
    [exact IHu| | | | | | | | |];
    match goal with |- int_digits ?a false _ = _ => let v := eval cbv in a in change a with v end; rewrite int_digits_acc; reflexivity.
Qed.
Lemma py_int_digits u : u <> Nil -> py_int (uint_digits u) = Some (Z.of_N (Pos.of_uint u)).
Proof.
  intros Hne. rewrite <- int_digits_zero.
  destruct u; [congruence| | | | | | | | | |]; cbn [uint_digits]; unfold py_int; cbv beta iota;
    match goal with |- context [is_digit ?c] => change (is_digit c) with true end; cbv iota; cbn [int_digits];
    match goal with |- context [is_digit ?c] => change (is_digit c) with true end; cbv iota;
    rewrite Z.mul_0_l, Z.add_0_l;
    match goal with |- option_map _ ?o = _ => destruct o; cbn [option_map]; [f_equal; cbv beta; lia|reflexivity] end.
Qed.
Lemma to_int_nonnil z u : Z.to_int z = Pos u \/ Z.to_int z = Neg u -> u <> Nil.
Proof.
  intros H ->. pose proof (DecimalZ.of_to z) as Hz.
  destruct H as [H|H]; rewrite H in Hz; cbn in Hz; subst z; cbn in H; discriminate.
Qed.
Theorem py_int_show z : py_int (show_Z z) = Some z.
Proof.
  unfold show_Z. pose proof (DecimalZ.of_to z) as Hz. destruct (Z.to_int z) as [u|u] eqn:E.
  - rewrite (py_int_digits u (to_int_nonnil z u (or_introl E))). f_equal. exact Hz.
  - pose proof (to_int_nonnil z u (or_intror E)) as Hne.
    assert (H : py_int (45 :: uint_digits u) = option_map (fun v => -1 * v) (py_int (uint_digits u))).
    { destruct u; [congruence| | | | | | | | | |]; cbn [uint_digits]; unfold py_int; cbv beta iota;
        repeat match goal with |- context [is_digit ?c] => change (is_digit c) with true end; cbv iota;
        match goal with |- option_map _ ?o = _ => destruct o; cbn [option_map]; [f_equal; cbv beta; lia|reflexivity] end. }
    rewrite H, (py_int_digits u Hne). cbn [option_map]. f_equal. rewrite <- Hz. cbn [Z.of_int]. unfold Z.of_uint. lia.
Qed.

(* the characters of a printed integer are digits or '-': no whitespace, no '=', no ',' ... *)
Definition plain (c : Z) : bool := negb (is_ws c) && negb (c =? 61) && negb (c =? 44) && negb (c =? 35).
Lemma uint_digits_plain u : forallb plain (uint_digits u) = true.
Proof. induction u; cbn [uint_digits forallb]; try reflexivity; rewrite IHu; reflexivity. Qed.
Lemma show_Z_plain z : forallb plain (show_Z z) = true /\ show_Z z <> [].
Proof.
  unfold show_Z. destruct (Z.to_int z) as [u|u] eqn:E.
  - split; [apply uint_digits_plain|]. pose proof (to_int_nonnil z u (or_introl E)). destruct u; [congruence| | | | | | | | | |]; discriminate.
  - split; [cbn [forallb]; now rewrite uint_digits_plain|discriminate].
Qed.

(* ---- str.split() of a ' '.join of words ---- *)
Definition word (w : text) : Prop := w <> [] /\ forallb (fun c => negb (is_ws c)) w = true.
Lemma split_go_word w : forall acc rest, forallb (fun c => negb (is_ws c)) w = true ->
  split_go (w ++ rest) acc = split_go rest (List.rev w ++ acc).
Proof.
  induction w as [|c w IH]; intros acc rest Hf; [reflexivity|]. cbn [forallb] in Hf. apply andb_prop in Hf as [Hc Hw].
  change ((c :: w) ++ rest) with (c :: (w ++ rest)). cbn [split_go List.rev]. apply negb_true_iff in Hc. rewrite Hc, IH by assumption. now rewrite <- app_assoc.
Qed.
Lemma flush_word w k : w <> [] -> flush (List.rev w ++ []) k = w :: k.
Proof.
  intros Hne. rewrite app_nil_r. unfold flush. destruct (List.rev w) eqn:E.
  - apply (f_equal (@List.rev Z)) in E. rewrite rev_involutive in E. cbn in E. congruence.
  - rewrite <- E, rev_involutive. reflexivity.
Qed.
Theorem split_join ws : Forall word ws -> split_ws (join [32] ws) = ws.
Proof.
  unfold split_ws. induction ws as [|w r IH]; intros H; [reflexivity|].
  apply Forall_cons_iff in H as [[Hne Hf] Hr]. destruct r as [|w2 r].
  - cbn [join]. rewrite <- (app_nil_r w) at 1. rewrite split_go_word by assumption. cbn [split_go]. now apply flush_word.
  - rewrite join_cons by discriminate. rewrite split_go_word by assumption.
    change ([32] ++ join [32] (w2 :: r)) with (32 :: join [32] (w2 :: r)). cbn [split_go]. change (is_ws 32) with true. cbv iota.
    rewrite flush_word by assumption. f_equal. now apply IH.
Qed.

(* ---- a float time is carried as a token: what repr() of a finite float gives ---- *)
Definition float_tok_ok (w : text) : Prop :=
  py_int w = None /\ is_float_syntax w = true /\ forallb plain w = true /\ w <> [].
Definition time_ok (t : tmv) : Prop := match t with TvInt _ => True | TvFloat w => float_tok_ok w end.

Lemma parse_time_show t : time_ok t -> parse_time (show_time t) = Ok t.
Proof.
  destruct t as [z|w]; cbn [time_ok show_time]; unfold parse_time.
  - intros _. now rewrite py_int_show.
  - intros (H1 & H2 & _). now rewrite H1, H2.
Qed.
Lemma show_time_plain t : time_ok t -> forallb plain (show_time t) = true /\ show_time t <> [].
Proof. destruct t as [z|w]; cbn [time_ok show_time]; [intros _; apply show_Z_plain|intros (_ & _ & H3 & H4); auto]. Qed.

Lemma plain_nows w : forallb plain w = true -> forallb (fun c => negb (is_ws c)) w = true.
Proof.
  induction w as [|c r IH]; cbn [forallb]; [reflexivity|]. intros H. apply andb_prop in H as [Hc Hr]. rewrite (IH Hr).
  unfold plain in Hc. apply andb_prop in Hc as [Hc _]. apply andb_prop in Hc as [Hc _]. apply andb_prop in Hc as [Hc _]. now rewrite Hc.
Qed.

(* ---- the data word "(b,b,...)" ---- *)
Lemma split_on_plain w : forall acc rest, forallb plain w = true -> split_on 44 (w ++ 44 :: rest) acc = List.rev (List.rev w ++ acc) :: split_on 44 rest [].
Proof.
  induction w as [|c r IH]; intros acc rest H; [cbn [List.app split_on List.rev]; change (44 =? 44) with true; reflexivity|].
  change ((c :: r) ++ 44 :: rest) with (c :: (r ++ 44 :: rest)). cbn [split_on List.rev].
  cbn [forallb] in H. apply andb_prop in H as [Hc Hr]. assert (E : (c =? 44) = false).
  { unfold plain in Hc. apply andb_prop in Hc as [Hc _]. apply andb_prop in Hc as [_ Hc]. now apply negb_true_iff in Hc. }
  rewrite E, IH by assumption. now rewrite <- app_assoc.
Qed.
Lemma split_on_last w : forall acc, forallb plain w = true -> split_on 44 w acc = [List.rev (List.rev w ++ acc)].
Proof.
  induction w as [|c r IH]; intros acc H; cbn [split_on List.rev List.app]; [reflexivity|].
  cbn [forallb] in H. apply andb_prop in H as [Hc Hr]. assert (E : (c =? 44) = false).
  { unfold plain in Hc. apply andb_prop in Hc as [Hc _]. apply andb_prop in Hc as [_ Hc]. now apply negb_true_iff in Hc. }
  rewrite E, IH by assumption. now rewrite <- app_assoc.
Qed.
Lemma split_on_join : forall ds, ds <> [] -> split_on 44 (join [44] (map show_Z ds)) [] = map show_Z ds.
Proof.
  induction ds as [|d r IH]; intros Hne; [congruence|]. destruct r as [|d2 r].
  - cbn [map join]. rewrite split_on_last by apply show_Z_plain. cbn [List.rev List.app]. now rewrite app_nil_r, rev_involutive.
  - change (map show_Z (d :: d2 :: r)) with (show_Z d :: map show_Z (d2 :: r)).
    rewrite join_cons by discriminate. change ([44] ++ join [44] (map show_Z (d2 :: r))) with (44 :: join [44] (map show_Z (d2 :: r))).
    rewrite split_on_plain by apply show_Z_plain. rewrite app_nil_r, rev_involutive.
    f_equal. apply IH. discriminate.
Qed.
Lemma parse_ints ds : sequence (map (fun p => match py_int p with Some z => Ok z | None => Raise ValueError end) (map show_Z ds)) = Ok ds.
Proof. induction ds as [|d r IH]; [reflexivity|]. cbn [map sequence]. now rewrite py_int_show, IH. Qed.

Lemma join_plain_last ds : forallb plain (join [44] (map show_Z ds)) = true -> True. Proof. trivial. Qed.

Lemma parse_data_show ds : parse_data ([40] ++ join [44] (map show_Z ds) ++ [41]) = Ok ds.
Proof.
  unfold parse_data. cbn [List.app]. rewrite rev_app_distr. cbn [List.rev List.app]. rewrite rev_involutive.
  destruct ds as [|d r]; [reflexivity|].
  assert (Hne : join [44] (map show_Z (d :: r)) <> []).
  { cbn [map]. pose proof (proj2 (show_Z_plain d)). destruct r; cbn [join]; [assumption|]. destruct (show_Z d); [congruence|discriminate]. }
  destruct (join [44] (map show_Z (d :: r))) eqn:E; [congruence|]. rewrite <- E.
  rewrite split_on_join by discriminate. apply parse_ints.
Qed.

(* ---- from_dict(m.dict()), eval(repr(m)) and the dict str2msg builds all call the constructor with the values of the message itself ---- *)
Lemma check_items_ints d : forallb byte7 d = true -> check_items (map AInt d) = Ok d.
Proof.
  induction d as [|x r IH]; cbn [map check_items forallb]; [reflexivity|]. intros H. apply andb_prop in H as [Hx Hr].
  cbn [integral]. rewrite Hx, (IH Hr). reflexivity.
Qed.

Theorem ctor_of_valid m : valid m = true ->
  ctor (kind_of m) (kwargs_of_msg m ++ [(ATime, PA (AInt 0))]) = Ok (m, PA (AInt 0)).
Proof.
  intros Hv. pose proof (valid_split m Hv) as Hs. cbn beta iota in Hs.
  destruct m; unfold ctor, kwargs_of_msg; cbn -[Z.leb Z.ltb Z.eqb check_items];
    try (repeat match goal with |- context [(?a <=? ?b) && (?c <=? ?d)] => replace ((a <=? b) && (c <=? d)) with true by lia end; reflexivity).
  cbn [valid] in Hv. now rewrite (check_items_ints data Hv).
Qed.

(* from_dict(m.dict()) and eval(repr(m)): the same constructor call, with the message's time *)
Theorem ctor_of_valid_time m tv : valid m = true -> is_real tv = true ->
  ctor (kind_of m) (kwargs_of_msg m ++ [(ATime, tv)]) = Ok (m, tv).
Proof.
  intros Hv Ht. pose proof (valid_split m Hv) as Hs. cbn beta iota in Hs.
  destruct m; unfold ctor, kwargs_of_msg; cbn -[Z.leb Z.ltb Z.eqb check_items is_real]; unfold check_time; rewrite Ht; cbn -[Z.leb Z.ltb Z.eqb check_items];
    try (repeat match goal with |- context [(?a <=? ?b) && (?c <=? ?d)] => replace ((a <=? b) && (c <=? d)) with true by lia end; reflexivity).
  cbn [valid] in Hv. now rewrite (check_items_ints data Hv).
Qed.

(* ---- the words of str(m) ---- *)
Lemma nows_app a b : forallb (fun c => negb (is_ws c)) a = true -> forallb (fun c => negb (is_ws c)) b = true -> forallb (fun c => negb (is_ws c)) (a ++ b) = true.
Proof. intros Ha Hb. now rewrite forallb_app, Ha, Hb. Qed.
Lemma word_app a b : a <> [] -> forallb (fun c => negb (is_ws c)) a = true -> forallb (fun c => negb (is_ws c)) b = true -> word (a ++ b).
Proof. intros Hne Ha Hb. split; [destruct a; [congruence|discriminate]|now apply nows_app]. Qed.
Lemma show_Z_nows z : forallb (fun c => negb (is_ws c)) (show_Z z) = true.
Proof. apply plain_nows, show_Z_plain. Qed.
Lemma join_ints_nows ds : forallb (fun c => negb (is_ws c)) (join [44] (map show_Z ds)) = true.
Proof.
  induction ds as [|d r IH]; [reflexivity|]. destruct r as [|d2 r]; [cbn [map join]; apply show_Z_nows|].
  change (map show_Z (d :: d2 :: r)) with (show_Z d :: map show_Z (d2 :: r)). rewrite join_cons by discriminate.
  apply nows_app; [apply show_Z_nows|]. apply nows_app; [reflexivity|exact IH].
Qed.

Ltac norm_codes :=
  repeat match goal with
         | |- context [attr_codes ?a] => let v := eval vm_compute in (attr_codes a) in change (attr_codes a) with v
         | |- context [codes ?s] => let v := eval vm_compute in (codes s) in change (codes s) with v
         end.

Lemma parse_arg_int a z : int_range a <> None -> parse_arg (attr_codes a ++ [61] ++ show_Z z) = Ok (a, PA (AInt z), None).
Proof.
  intros Hr. destruct a; cbn [int_range] in Hr; try congruence; unfold parse_arg; norm_codes; cbn -[show_Z py_int]; now rewrite py_int_show.
Qed.
Lemma parse_arg_data d : parse_arg (attr_codes AData ++ [61] ++ [40] ++ join [44] (map show_Z d) ++ [41]) = Ok (AData, PSeq (map AInt d), None).
Proof.
  unfold parse_arg. norm_codes. cbn -[show_Z py_int parse_data join]. change (40 :: join [44] (map show_Z d) ++ [41]) with ([40] ++ join [44] (map show_Z d) ++ [41]).
  now rewrite parse_data_show.
Qed.
Lemma parse_arg_time t : time_ok t -> parse_arg (codes "time" ++ [61] ++ show_time t) = Ok (ATime, PA (AInt 0), Some t).
Proof. intros Ht. unfold parse_arg. norm_codes. cbn -[show_time parse_time]. now rewrite parse_time_show. Qed.

Lemma show_items_ints d : map (fun x => match x with AInt z => show_Z z | _ => [] end) (map AInt d) = map show_Z d.
Proof. now rewrite map_map. Qed.

(* an attribute of m whose value prints and parses back *)
Definition attr_good (m : msg) (a : attr) : Prop :=
  (a = AData /\ exists d, get_attr m a = Some (PSeq (map AInt d))) \/
  (int_range a <> None /\ exists z, get_attr m a = Some (PA (AInt z))).

Lemma attrs_good m : Forall (attr_good m) (attrs_of (kind_of m)).
Proof.
  destruct m; cbn [kind_of attrs_of];
    repeat (apply Forall_cons; [first [right; split; [discriminate|eexists; reflexivity] | left; split; [reflexivity|eexists; reflexivity]]|]);
    apply Forall_nil.
Qed.

Lemma show_attr_word m a : attr_good m a -> word (show_attr m a) /\
  parse_arg (show_attr m a) = Ok (a, match get_attr m a with Some v => v | None => PA ANone end, None).
Proof.
  intros [[-> (d & Hd)]|[Hr (z & Hz)]]; unfold show_attr.
  - rewrite Hd, show_items_ints. split; [|apply parse_arg_data].
    apply word_app; [discriminate|reflexivity|]. apply nows_app; [reflexivity|]. apply nows_app; [reflexivity|]. apply nows_app; [apply join_ints_nows|reflexivity].
  - rewrite Hz. split; [|now apply parse_arg_int].
    apply word_app; [destruct a; discriminate|destruct a; cbn [int_range] in Hr; try congruence; reflexivity|apply nows_app; [reflexivity|apply show_Z_nows]].
Qed.

Lemma parse_args_show m t tw : parse_arg tw = Ok (ATime, PA (AInt 0), Some t) -> forall attrs, Forall (attr_good m) attrs ->
  parse_args (map (show_attr m) attrs ++ [tw]) =
  Ok (map (fun a => (a, match get_attr m a with Some v => v | None => PA ANone end)) attrs ++ [(ATime, PA (AInt 0))], Some t).
Proof.
  intros Ht. induction attrs as [|a r IH]; intros Hg.
  - cbn [map]. rewrite !app_nil_l. cbn [parse_args]. rewrite Ht. reflexivity.
  - apply Forall_cons_iff in Hg as [Ha Hr]. cbn [map]. rewrite <- !app_comm_cons. cbn [parse_args]. destruct (show_attr_word m a Ha) as [_ Hp]. rewrite Hp.
    unfold bind at 1. cbv beta iota. rewrite (IH Hr). reflexivity.
Qed.

Lemma kind_by_name_ok k : kind_by_name (codes (kind_name k)) = Some k.
Proof. destruct k; vm_compute; reflexivity. Qed.
Lemma kind_name_word k : word (codes (kind_name k)).
Proof. destruct k; split; try discriminate; vm_compute; reflexivity. Qed.

Lemma no_unknown m : existsb (fun av : attr * pyval => match fst av with AUnknown _ | AType => true | _ => false end)
  (map (fun a => (a, match get_attr m a with Some v => v | None => PA ANone end)) (attrs_of (kind_of m)) ++ [(ATime, PA (AInt 0))]) = false.
Proof. destruct m; reflexivity. Qed.

(* from_str(str(m)) == m, for every valid message and every int or float time *)
Theorem str_roundtrip m t : valid m = true -> time_ok t -> parse_string (msg2str m t) = Ok (m, t).
Proof.
  intros Hv Ht. destruct (show_time_plain t Ht) as [Htp Htn].
  assert (Htw : word (codes "time" ++ [61] ++ show_time t)) by (apply word_app; [discriminate|reflexivity|apply nows_app; [reflexivity|now apply plain_nows]]).
  unfold parse_string, msg2str. rewrite split_join.
  - cbv beta iota. rewrite kind_by_name_ok. pose proof (parse_args_show m t _ (parse_arg_time t Ht) _ (attrs_good m)) as Hpa.
    unfold text in *. rewrite Hpa. unfold bind at 1. cbv beta iota.
    rewrite no_unknown. fold (kwargs_of_msg m). rewrite (ctor_of_valid m Hv). reflexivity.
  - constructor; [apply kind_name_word|]. apply Forall_app; split; [|constructor; [exact Htw|constructor]].
    pose proof (attrs_good m) as Hg. induction Hg as [|a r Ha Hr IH]; [constructor|]. constructor; [exact (proj1 (show_attr_word m a Ha))|exact IH].
Qed.

(* ---- parse_string on ANY text: a valid message or ValueError ---- *)
Definition wt (av : attr * pyval) : Prop :=
  match fst av with
  | AData => exists d, snd av = PSeq (map AInt d)
  | _ => exists z, snd av = PA (AInt z)
  end.

Lemma sequence_raises_ve {A} (l : list (res A)) e : Forall (fun r => forall e', r = Raise e' -> e' = ValueError) l -> sequence l = Raise e -> e = ValueError.
Proof.
  induction 1 as [|r l Hr Hl IH]; cbn [sequence]; [discriminate|]. destruct r as [a|e1].
  - destruct (sequence l); [discriminate|]. intros H; injection H as <-. now apply IH.
  - intros H; injection H as <-. now apply Hr.
Qed.
Lemma parse_data_raises w e : parse_data w = Raise e -> e = ValueError.
Proof.
  unfold parse_data. destruct w as [|c r]; [intros H; now injection H as <-|].
  destruct c as [|p|p]; try (intros H; now injection H as <-).
  repeat (destruct p as [p|p|]; try (intros H; now injection H as <-)).
  destruct (List.rev r) as [|c2 ri]; [intros H; now injection H as <-|].
  destruct c2 as [|q|q]; try (intros H; now injection H as <-).
  repeat (destruct q as [q|q|]; try (intros H; now injection H as <-)).
  destruct (List.rev ri); [discriminate|]. apply sequence_raises_ve. apply Forall_forall. intros x Hx. apply in_map_iff in Hx as (p & <- & _).
  destruct (py_int p); [discriminate|]. intros e' H; now injection H as <-.
Qed.
Lemma parse_data_ok w d : parse_data w = Ok d -> True. Proof. trivial. Qed.

Lemma parse_arg_spec w : match parse_arg w with Ok (a, v, t) => wt (a, v) | Raise e => e = ValueError end.
Proof.
  unfold parse_arg. destruct (split_first 61 w []) as [[name value]|]; [|reflexivity].
  destruct (attr_by_name name) eqn:Ea;
    try (destruct (py_int value); [eexists; reflexivity|reflexivity]).
  - destruct (parse_data value) eqn:Ed; cbn [bind]; [eexists; reflexivity|now apply parse_data_raises in Ed].
  - unfold parse_time. destruct (py_int value); cbn [bind]; [eexists; reflexivity|]. destruct (is_float_syntax value); cbn [bind]; [eexists; reflexivity|reflexivity].
Qed.
Lemma parse_args_spec : forall ws, match parse_args ws with Ok (kw, t) => Forall wt kw | Raise e => e = ValueError end.
Proof.
  induction ws as [|w r IH]; cbn [parse_args]; [constructor|].
  pose proof (parse_arg_spec w) as Hw. destruct (parse_arg w) as [[[a v] t]|e]; cbn [bind]; [|exact Hw].
  destruct (parse_args r) as [[kw t']|e]; cbn [bind]; [constructor; assumption|exact IH].
Qed.

Lemma attr_eqb_eq a b : attr_eqb a b = true -> (forall n, a <> AUnknown n) -> a = b.
Proof. destruct a, b; cbn; intros H Hn; try discriminate; try reflexivity. exfalso. now apply (Hn n). Qed.
Lemma assoc_wt a : (forall n, a <> AUnknown n) -> forall kw v, Forall wt kw -> assoc a kw = Some v -> wt (a, v).
Proof.
  intros Hn. induction kw as [|[b w] r IH]; intros v Hf H; cbn [assoc] in H; [discriminate|].
  apply Forall_cons_iff in Hf as [Hb Hr]. destruct (attr_eqb a b) eqn:E; [|now apply IH].
  injection H as <-. apply attr_eqb_eq in E; [|exact Hn]. now subst b.
Qed.
Lemma lookup_wt a kw v : (forall n, a <> AUnknown n) -> Forall wt kw -> lookup a kw = Some v -> wt (a, v).
Proof. intros Hn Hf H. unfold lookup in H. apply (assoc_wt a Hn (List.rev kw) v); [now apply Forall_rev|exact H]. Qed.

Lemma check_items_ints_raise d e : check_items (map AInt d) = Raise e -> e = ValueError.
Proof.
  induction d as [|x r IH]; cbn [map check_items integral]; [discriminate|]. destruct (byte7 x); [|intros H; now injection H as <-].
  destruct (check_items (map AInt r)); [discriminate|]. intros H; injection H as <-. now apply IH.
Qed.

Theorem ctor_wt_raises k kw e : Forall wt kw -> ctor k kw = Raise e -> e = ValueError.
Proof.
  intros Hf. unfold ctor.
  set (src := fun a => match lookup a kw with Some v => v | None => default_of a end). cbv zeta.
  assert (Hsrc : forall a, (forall n, a <> AUnknown n) -> a <> AData -> exists z, src a = PA (AInt z)).
  { intros a Hn Hd. unfold src. destruct (lookup a kw) as [v|] eqn:E.
    - pose proof (lookup_wt a kw v Hn Hf E) as H. unfold wt in H. cbn [fst snd] in H. destruct a; try exact H. congruence.
    - destruct a; cbn; eauto. congruence. }
  assert (Hdata : exists d, src AData = PSeq (map AInt d)).
  { unfold src. destruct (lookup AData kw) as [v|] eqn:E; [exact (lookup_wt AData kw v ltac:(discriminate) Hf E)|exists []; reflexivity]. }
  destruct (Hsrc ATime ltac:(discriminate) ltac:(discriminate)) as [zt Ezt]. pose proof Ezt as Ezt'. unfold src in Ezt'.
  assert (Hattrs : forall names e', Forall (fun a => int_range a <> None) names -> check_attrs names src = Raise e' -> e' = ValueError).
  { induction names as [|a r IH]; intros e' Hn H; cbn [check_attrs] in H; [discriminate|]. apply Forall_cons_iff in Hn as [Ha Hr].
    assert (Ha1 : forall n, a <> AUnknown n) by (intros n ->; now cbn in Ha). assert (Ha2 : a <> AData) by (intros ->; now cbn in Ha).
    destruct (Hsrc a Ha1 Ha2) as [z Ez]. rewrite Ez in H. unfold check_int in H. destruct (int_range a) as [[lo hi]|]; [|congruence].
    cbn [integral] in H. destruct ((lo <=? z) && (z <=? hi)); [|now injection H as <-].
    destruct (check_attrs r src) eqn:Er; [discriminate|]. injection H as <-. eapply IH; eauto. }
  destruct k; cbn [is_channel_kind bind attrs_of]; unfold check_time; rewrite ?Ezt, ?Ezt'; cbn [is_real bind];
    try (match goal with |- context [check_attrs ?n src] => destruct (check_attrs n src) eqn:Ea end; cbn [bind];
         [destruct (first_unknown _ kw); [intros H; now injection H as <-|discriminate]
         | intros H; injection H as <-; eapply Hattrs; [|exact Ea]; repeat constructor; discriminate]).
  (* sysex *)
  destruct Hdata as [d Ed]. pose proof Ed as Ed'. unfold src in Ed'. rewrite ?Ed, ?Ed'. cbn [iter_items bind]. destruct (check_items (map AInt d)) eqn:Ec; cbn [bind].
  - destruct (first_unknown _ kw); [intros H; now injection H as <-|discriminate].
  - intros H; injection H as <-. now apply check_items_ints_raise in Ec.
Qed.

Theorem parse_total s : match parse_string s with Ok (m, t) => valid m = true | Raise e => e = ValueError end.
Proof.
  unfold parse_string. destruct (split_ws s) as [|tw args]; [reflexivity|]. destruct (kind_by_name tw) as [k|]; [|reflexivity].
  pose proof (parse_args_spec args) as Ha. destruct (parse_args args) as [[kw t]|e]; cbn [bind]; [|exact Ha].
  destruct (existsb _ kw); [reflexivity|].
  destruct (ctor k kw) as [o|e] eqn:Ec; cbn [bind].
  - destruct (ctor_valid k kw o Ec) as [Hv _]. unfold obj_valid in Hv. cbn [fst]. now apply andb_prop in Hv as [Hv _].
  - now apply (ctor_wt_raises k kw e Ha).
Qed.

(* ---- parse_string_stream ---- *)
Definition blank (l : text) : bool := match split_ws (strip_comment l) with [] => true | _ => false end.
Theorem stream_blank n l r : blank l = true -> parse_stream n (l :: r) = parse_stream (n + 1) r.
Proof. unfold blank. cbn [parse_stream]. destruct (split_ws (strip_comment l)); [reflexivity|discriminate]. Qed.
Theorem stream_line n l r : blank l = false ->
  parse_stream n (l :: r) = (match parse_string (strip_comment l) with Ok (m, t) => SMsg m t | Raise _ => SErr n end) :: parse_stream (n + 1) r.
Proof. unfold blank. cbn [parse_stream]. destruct (split_ws (strip_comment l)); [discriminate|reflexivity]. Qed.
