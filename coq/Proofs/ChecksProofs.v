(* ChecksProofs.v — no invalid message state is reachable through the checked API (C03). *)
From Coq Require Import ZArith List Bool Lia ZifyBool.
Require Import Mido.Model.Base Mido.Model.Codec Mido.Model.Names Mido.Model.Checks Mido.Proofs.CodecProofs.
Import ListNotations.
Open Scope Z_scope.

Definition rejected (e : exn) : Prop := e = ValueError \/ e = TypeError \/ e = AttributeError.

Lemma check_int_ok a v z : check_int a v = Ok z ->
  exists lo hi, int_range a = Some (lo, hi) /\ integral v = Some z /\ lo <= z <= hi.
Proof.
  unfold check_int. destruct (int_range a) as [[lo hi]|]; [|discriminate].
  destruct (integral v) as [x|]; [|discriminate].
  destruct ((lo <=? x) && (x <=? hi)) eqn:E; [|discriminate]. intros H. injection H as <-.
  exists lo, hi. repeat split; lia.
Qed.
Lemma check_int_raise a v e : int_range a <> None -> check_int a v = Raise e -> e = ValueError \/ e = TypeError.
Proof.
  unfold check_int. destruct (int_range a) as [[lo hi]|]; [|congruence]. intros _.
  destruct (integral v) as [x|]; [|intros H; injection H as <-; auto].
  destruct ((lo <=? x) && (x <=? hi)); [discriminate|]. intros H; injection H as <-; auto.
Qed.

(* accepts exactly the documented domain *)
Theorem check_accepts_domain a v : int_range a <> None -> (in_domain a v = true <-> exists z, check_int a v = Ok z).
Proof.
  intros Hr. unfold in_domain, check_int. destruct (integral v) as [z|].
  - destruct a; cbn [int_range] in *; try congruence;
      match goal with |- context [(?lo <=? z) && (z <=? ?hi)] => destruct ((lo <=? z) && (z <=? hi)) eqn:E end;
      split; intros H; try (eexists; reflexivity); try lia; destruct H as [? H]; discriminate.
  - destruct (int_range a) as [[lo hi]|]; [|congruence]. split; [discriminate|]. intros [? H]. discriminate.
Qed.

Lemma check_items_ok l d : check_items l = Ok d -> forallb byte7 d = true.
Proof.
  revert d. induction l as [|a r IH]; intros d H; cbn [check_items] in H.
  - injection H as <-. reflexivity.
  - destruct (integral (PA a)) as [z|]; [|discriminate]. destruct (byte7 z) eqn:E; [|discriminate].
    destruct (check_items r) as [zs|]; [|discriminate]. injection H as <-. cbn [forallb]. now rewrite E, (IH zs eq_refl).
Qed.
Lemma check_items_raise l e : check_items l = Raise e -> e = ValueError \/ e = TypeError.
Proof.
  induction l as [|a r IH]; cbn [check_items]; [discriminate|].
  destruct (integral (PA a)) as [z|]; [|intros H; injection H as <-; auto].
  destruct (byte7 z); [|intros H; injection H as <-; auto].
  destruct (check_items r); [discriminate|]. intros H. injection H as <-. auto.
Qed.
Lemma iter_items_raise v e : iter_items v = Raise e -> e = TypeError.
Proof. destruct v as [[]| |]; cbn; intros H; try discriminate; now injection H as <-. Qed.
Lemma check_data_val_ok v d : check_data_val v = Ok d -> forallb byte7 d = true.
Proof. unfold check_data_val. destruct (iter_items v); cbn [bind]; [apply check_items_ok|discriminate]. Qed.
Lemma check_data_val_raise v e : check_data_val v = Raise e -> e = ValueError \/ e = TypeError.
Proof.
  unfold check_data_val. destruct (iter_items v) eqn:E; cbn [bind]; [apply check_items_raise|].
  intros H. injection H as <-. right. now apply (iter_items_raise v).
Qed.

Ltac split_checks H :=
  repeat match type of H with
  | context [check_int ?a ?v] =>
      let z := fresh "z" in let E := fresh "E" in
      destruct (check_int a v) as [z|] eqn:E; cbn [bind] in H; [apply check_int_ok in E as (? & ? & E & _ & ?); cbn [int_range] in E; injection E as ? ?; subst | discriminate H]
  end.

Theorem ctor_valid k kw o : ctor k kw = Ok o -> obj_valid o = true /\ kind_of (fst o) = k.
Proof.
  unfold ctor, obj_valid. intros H.
  destruct (if is_channel_kind k then Ok [] else match k with KSysex => iter_items _ | _ => Ok [] end) as [items|] eqn:Ei; cbn [bind] in H; [|discriminate].
  set (tv := match lookup ATime kw with Some v => v | None => default_of ATime end) in *.
  unfold check_time in H. destruct (is_real tv) eqn:Et; cbn [bind] in H; [|discriminate].
  destruct k; cbn [attrs_of check_attrs] in H;
    try (split_checks H; destruct (first_unknown _ kw); [discriminate|]; injection H as <-; cbn [fst snd build zassoc attr_eqb valid kind_of];
         rewrite Et; unfold chan, byte7; split; [lia|reflexivity]).
  (* sysex *)
  destruct (check_items items) as [d|] eqn:Ed; cbn [bind] in H; [|discriminate].
  destruct (first_unknown _ kw); [discriminate|]. injection H as <-. cbn [fst snd valid kind_of].
  rewrite Et, (check_items_ok _ _ Ed). split; reflexivity.
Qed.

Theorem ctor_raises k kw e : ctor k kw = Raise e -> e = ValueError \/ e = TypeError.
Proof.
  unfold ctor. intros H.
  destruct (if is_channel_kind k then Ok [] else match k with KSysex => iter_items _ | _ => Ok [] end) as [items|] eqn:Ei; cbn [bind] in H.
  2:{ injection H as <-. destruct k; cbn in Ei; try discriminate. right. now apply iter_items_raise in Ei. }
  unfold check_time in H. destruct (is_real _); cbn [bind] in H; [|injection H as <-; auto].
  assert (Hc : forall names src e', check_attrs names src = Raise e' -> Forall (fun a => int_range a <> None) names -> e' = ValueError \/ e' = TypeError).
  { induction names as [|a r IH]; intros src e' Hx Hf; cbn [check_attrs] in Hx; [discriminate|].
    apply Forall_cons_iff in Hf as [Ha Hr]. destruct (check_int a (src a)) eqn:Ec.
    - destruct (check_attrs r src) eqn:Er; [discriminate|]. injection Hx as <-. eapply IH; eauto.
    - injection Hx as <-. eapply check_int_raise; eauto. }
  destruct k;
    try (match type of H with context [check_attrs ?n ?s] => destruct (check_attrs n s) eqn:Ea end; cbn [bind] in H;
         [destruct (first_unknown _ kw); [injection H as <-; auto|discriminate]
         | injection H as <-; eapply Hc; [exact Ea|cbn [attrs_of]; repeat constructor; discriminate]]).
  destruct (check_items items) eqn:Ed; cbn [bind] in H.
  - destruct (first_unknown _ kw); [injection H as <-; auto|discriminate].
  - injection H as <-. now apply check_items_raise in Ed.
Qed.

Theorem copy_valid fixed o ovs c : obj_valid o = true -> copy_gen fixed o ovs = Ok c -> obj_valid c = true /\ kind_of (fst c) = kind_of (fst o).
Proof.
  intros Hv. unfold copy_gen. destruct ovs as [|ov ovs]; [intros H; injection H as <-; auto|].
  intros H.
  match type of H with context [bind ?a _] => destruct a; cbn [bind] in H; [|discriminate] end.
  match type of H with context [bind ?a _] => destruct a; cbn [bind] in H; [|discriminate] end.
  now apply ctor_valid in H.
Qed.

Lemma materialise_raise fixed v e : materialise fixed v = Raise e -> fixed = true -> e = TypeError.
Proof.
  intros H ->. unfold materialise in H. destruct (iter_items v) eqn:E; cbn [bind] in H; [discriminate|].
  injection H as <-. now apply iter_items_raise in E.
Qed.

Theorem copy_raises o ovs e : copy o ovs = Raise e -> e = ValueError \/ e = TypeError.
Proof.
  unfold copy, copy_gen. destruct ovs as [|ov ovs]; [discriminate|]. intros H.
  match type of H with context [bind ?a _] => destruct a eqn:E1; cbn [bind] in H end.
  2:{ injection H as <-. destruct (lookup AType (ov :: ovs)) as [[[]| |]|]; try discriminate;
      try (injection E1 as <-; auto). destruct (list_eqb _ _); [discriminate|]. injection E1 as <-; auto. }
  match type of H with context [bind ?a _] => destruct a eqn:E2; cbn [bind] in H end.
  - now apply ctor_raises in H.
  - injection H as <-. destruct (lookup AData (ov :: ovs)); [|discriminate].
    destruct (materialise true p) eqn:Em; cbn [bind] in E2; [discriminate|]. injection E2 as <-.
    right. now apply (materialise_raise true p).
Qed.

Lemma valid_build_set o a z lo hi : obj_valid o = true -> has_attr (kind_of (fst o)) a = true ->
  int_range a = Some (lo, hi) -> lo <= z <= hi ->
  valid (build (kind_of (fst o)) (fun b => if attr_eqb a b then z else match integral (obj_src o b) with Some x => x | None => 0 end) []) = true
  /\ kind_of (build (kind_of (fst o)) (fun b => if attr_eqb a b then z else match integral (obj_src o b) with Some x => x | None => 0 end) []) = kind_of (fst o).
Proof.
  unfold obj_valid. destruct o as [m t]. cbn [fst snd]. intros Hv Ha Hr Hz. apply andb_prop in Hv as [Hv _].
  destruct m; cbn [kind_of has_attr attrs_of existsb] in Ha; try discriminate;
    destruct a; cbn [attr_eqb orb] in Ha; try discriminate; cbn [int_range] in Hr; injection Hr as <- <-;
    cbn [kind_of build attr_eqb obj_src get_attr fst integral valid] in *; unfold chan, byte7 in *; split; try reflexivity; lia.
Qed.

Theorem setattr_valid o a v o' : obj_valid o = true -> setattr o a v = Ok o' ->
  obj_valid o' = true /\ kind_of (fst o') = kind_of (fst o).
Proof.
  intros Hv. unfold setattr. destruct a; try discriminate;
    try (destruct (has_attr (kind_of (fst o)) _) eqn:Ha; [|discriminate];
         match goal with |- context [check_int ?a v] => destruct (check_int a v) as [z|] eqn:Ec; cbn [bind]; [|discriminate] end;
         apply check_int_ok in Ec as (lo & hi & Hr & _ & Hz); intros H; injection H as <-;
         destruct (valid_build_set o _ z lo hi Hv Ha Hr Hz) as [V K]; unfold obj_valid in *;
         apply andb_prop in Hv as [_ Ht]; split; [apply andb_true_intro; split; [exact V|exact Ht]|exact K]).
  - (* data *)
    destruct (has_attr (kind_of (fst o)) AData) eqn:Ha; [|discriminate].
    destruct (check_data_val v) as [d|] eqn:Ed; cbn [bind]; [|discriminate]. intros H; injection H as <-.
    unfold obj_valid in *. cbn [fst snd valid]. apply andb_prop in Hv as [_ Ht]. rewrite Ht, (check_data_val_ok _ _ Ed).
    split; [reflexivity|]. destruct o as [m t]. destruct m; cbn in Ha; try discriminate. reflexivity.
  - (* time *)
    unfold check_time. destruct (is_real v) eqn:Et; cbn [bind]; [|discriminate]. intros H; injection H as <-.
    unfold obj_valid in *. cbn [fst snd]. apply andb_prop in Hv as [Hm _]. now rewrite Hm, Et.
Qed.

Theorem setattr_raises o a v e : setattr o a v = Raise e -> rejected e.
Proof.
  unfold setattr, rejected. destruct a;
    try (destruct (has_attr _ _); [|intros H; injection H as <-; auto];
         match goal with |- context [check_int ?a v] => destruct (check_int a v) eqn:Ec; cbn [bind]; [discriminate|] end;
         intros H; injection H as <-; apply check_int_raise in Ec; [tauto|discriminate]).
  - destruct (has_attr _ _); [|intros H; injection H as <-; auto].
    destruct (check_data_val v) eqn:Ed; cbn [bind]; [discriminate|]. intros H; injection H as <-.
    apply check_data_val_raise in Ed. tauto.
  - unfold check_time. destruct (is_real v); cbn [bind]; [discriminate|]. intros H; injection H as <-; auto.
  - intros H; injection H as <-; auto.
  - destruct (has_attr _ _) eqn:Ha; [|intros H; injection H as <-; auto].
    exfalso. destruct (kind_of (fst o)); cbn in Ha; discriminate.
Qed.

(* one step of any operation: validity, type and attribute set are preserved; a rejected operation changes nothing;
   a returned copy is valid and of the same type; only the three documented exception classes occur *)
Theorem apply_op_inv o op : obj_valid o = true ->
  let '(o', r) := apply_op o op in
  obj_valid o' = true /\ kind_of (fst o') = kind_of (fst o) /\
  match r with
  | Raise e => o' = o /\ rejected e
  | Ok None => True
  | Ok (Some c) => o' = o /\ obj_valid c = true /\ kind_of (fst c) = kind_of (fst o)
  end.
Proof.
  intros Hv. destruct op as [a v|a|ovs|v]; cbn [apply_op].
  - destruct (setattr o a v) as [o'|e] eqn:E.
    + destruct (setattr_valid o a v o' Hv E). auto.
    + repeat split; auto. now apply (setattr_raises o a v).
  - repeat split; auto. unfold rejected; auto.
  - destruct (copy o ovs) as [c|e] eqn:E.
    + destruct (copy_valid true o ovs c Hv E). auto.
    + repeat split; auto. apply copy_raises in E. unfold rejected. tauto.
  - destruct o as [m t]. destruct m; cbn [fst snd]; try (repeat split; auto; unfold rejected; auto).
    destruct (check_data_val v) as [more|e] eqn:E.
    + unfold obj_valid in *. cbn [fst snd valid kind_of] in *. apply andb_prop in Hv as [Hd Ht].
      rewrite forallb_app, Hd, (check_data_val_ok _ _ E), Ht. auto.
    + repeat split; auto. apply check_data_val_raise in E. unfold rejected. tauto.
Qed.

(* every history of accepted and rejected operations on one object *)
Theorem history_inv ops : forall o, obj_valid o = true ->
  obj_valid (fold_left (fun s op => fst (apply_op s op)) ops o) = true /\
  kind_of (fst (fold_left (fun s op => fst (apply_op s op)) ops o)) = kind_of (fst o).
Proof.
  induction ops as [|op r IH]; intros o Hv; cbn [fold_left]; [auto|].
  pose proof (apply_op_inv o op Hv) as H. destruct (apply_op o op) as [o' res]. destruct H as (Hv' & Hk & _).
  cbn [fst]. destruct (IH o' Hv') as [A B]. split; [assumption|congruence].
Qed.

(* the tree before the repair accepted an integer as sysex data in copy() *)
Lemma copy_unfixed_refuted : exists c, copy_gen false (Sysex [], PA (AInt 0)) [(AData, PA (AInt 5))] = Ok c /\ fst c = Sysex [0;0;0;0;0].
Proof. eexists. split; reflexivity. Qed.
Lemma copy_fixed_rejects : copy (Sysex [], PA (AInt 0)) [(AData, PA (AInt 5))] = Raise TypeError.
Proof. reflexivity. Qed.

(* ---- from_bytes on arbitrary items: a message only for a sequence of integers that is exactly its encoding ---- *)
Theorem dec_items_spec items :
  match dec_items items with
  | Ok m => exists zs, atoms_ints items = Some zs /\ valid m = true /\ enc m = zs
  | Raise e => e = ValueError \/ (e = TypeError /\ atoms_ints items = None)
  end.
Proof.
  unfold dec_items. destruct items as [|a r]; [left; reflexivity|].
  destruct (atoms_ints (a :: r)) as [zs|] eqn:E; [|right; auto].
  pose proof (exact zs) as H. destruct (dec zs) as [m|e]; [exists zs; destruct H; auto|left; exact H].
Qed.
Theorem dec_items_non_integer items : items <> [] -> atoms_ints items = None -> dec_items items = Raise TypeError.
Proof. intros Hne H. unfold dec_items. destruct items; [congruence|]. now rewrite H. Qed.
