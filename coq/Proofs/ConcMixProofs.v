(* ConcMixProofs.v — for every schedule and every mix of uses of a MultiPort over EchoPorts: no call raises, every deque hands out
   exactly what was put into it, in that order, and what the MultiPort sweeps off its sub-ports is what it puts into its own deque. *)
From Coq Require Import ZArith List Bool Arith Lia.
Require Import Mido.Model.Base Mido.Model.Codec Mido.Model.Conc Mido.Model.ConcMulti.
Require Import Mido.Model.ConcMix.
Import ListNotations.

Definition rholds (p : rph) : bool := match p with PBool1 | PPop1 | PRel1 _ | PBool2 | PPop2 | PRel2 _ _ => true | _ => false end.
Definition ispop (p : rph) : bool := match p with PPop1 | PPop2 => true | _ => false end.
Definition holds (p : xpc) (l : nat) : bool :=
  match p with
  | XStart | XRaised _ => false
  | XSub _ _ | XRel0 | XExtend _ => Nat.eqb l 0
  | XApp via i _ | XRelSub via i _ => Nat.eqb l (S i) || (via && Nat.eqb l 0)
  | XPoll i p => rholds p && Nat.eqb l (S i)
  | XM p => rholds p && Nat.eqb l 0
  | XSweep i p _ => Nat.eqb l 0 || (rholds p && Nat.eqb l (S i))
  end.
Definition popping (p : xpc) (l : nat) : bool :=
  match p with
  | XPoll i p => ispop p && Nat.eqb l (S i)
  | XM p => ispop p && Nat.eqb l 0
  | XSweep i p _ => ispop p && Nat.eqb l (S i)
  | _ => false
  end.
Definition xtinv (s : xshared) (t : tid) (th : xthread) : Prop :=
  (forall l, holds (xat th) l = true -> xlk s l = Some t) /\ (forall l, popping (xat th) l = true -> xq s l <> []).

Definition popped (l : nat) (ps : list (nat * (tid * (bool * msg)))) : list msg :=
  map (fun e => snd (snd (snd e))) (filter (fun e => Nat.eqb (fst e) l) ps).
Definition swept (ps : list (nat * (tid * (bool * msg)))) : list msg :=
  map (fun e => snd (snd (snd e))) (filter (fun e => fst (snd (snd e))) ps).
Arguments updf : simpl never.
Arguments swept : simpl never.
Arguments popped : simpl never.
Definition xdata (s : xshared) : Prop := forall l, map snd (xapp s l) = popped l (xpops s) ++ xq s l.
Definition accof (p : xpc) : list msg :=
  match p with
  | XSweep _ p acc => acc ++ match p with PRel1 (Some m) | PRel2 (Some m) _ => [m] | _ => [] end
  | XExtend acc => acc
  | _ => []
  end.
Definition inflight (s : xshared) (ts : tid -> xthread) : list msg := match xlk s 0 with Some t => accof (xat (ts t)) | None => [] end.
Definition xlink (s : xshared) (ts : tid -> xthread) : Prop := swept (xpops s) = map snd (xapp s 0) ++ inflight s ts.
Definition XInv (cf : xcfg) : Prop := (forall t, xtinv (fst cf) t (snd cf t)) /\ xdata (fst cf) /\ xlink (fst cf) (snd cf).

Definition xframe (s s' : xshared) (u : tid) : Prop :=
  (forall l, xlk s l = Some u -> xlk s' l = Some u) /\ (forall l, xlk s l = Some u -> xq s l <> [] -> xq s' l <> []).

Lemma popping_holds p l : popping p l = true -> holds p l = true.
Proof. destruct p as [| | | | |i q|q|i q acc| |]; cbn; try discriminate; destruct q; cbn; try discriminate; intros H; rewrite ?H, ?orb_true_r; auto. Qed.

Lemma xtinv_other s s' u th : xtinv s u th -> xframe s s' u -> xtinv s' u th.
Proof.
  intros [H1 H2] [F1 F2]. split; intros l Hl.
  - apply F1, H1, Hl.
  - apply F2; [apply H1, popping_holds, Hl | apply H2, Hl].
Qed.

Lemma updf_same {A} (f : nat -> A) i v : updf f i v i = v.
Proof. unfold updf. now rewrite Nat.eqb_refl. Qed.
Lemma updf_other {A} (f : nat -> A) i j v : j <> i -> updf f i v j = f j.
Proof. unfold updf. intros H. apply Nat.eqb_neq in H. now rewrite H. Qed.

Lemma frame_refl s u : xframe s s u.
Proof. split; auto. Qed.
Lemma frame_acq s l t u : u <> t -> x_can s l t = true -> xframe s (x_set_lock s l (Some t)) u.
Proof.
  intros Hu Hc. split; cbn; intros l' Hl; auto.
  destruct (Nat.eq_dec l' l) as [->|Hn]; [|now rewrite updf_other].
  unfold x_can in Hc. rewrite Hl in Hc. apply Nat.eqb_eq in Hc. congruence.
Qed.
Lemma frame_rel s l t u : u <> t -> xlk s l = Some t -> xframe s (x_set_lock s l None) u.
Proof.
  intros Hu Ho. split; cbn; intros l' Hl; auto.
  destruct (Nat.eq_dec l' l) as [->|Hn]; [congruence|now rewrite updf_other].
Qed.
Lemma frame_append s t l ms u : xframe s (x_append s t l ms) u.
Proof.
  split; cbn; intros l' Hl; auto. intros Hq.
  destruct (Nat.eq_dec l' l) as [->|Hn]; [rewrite updf_same|now rewrite updf_other].
  destruct (xq s l); [congruence|discriminate].
Qed.
Lemma frame_pop s t l sw m r u : u <> t -> xlk s l = Some t -> xframe s (x_pop s t l sw m r) u.
Proof.
  intros Hu Ho. split; cbn; intros l' Hl; auto. intros Hq.
  destruct (Nat.eq_dec l' l) as [->|Hn]; [congruence|now rewrite updf_other].
Qed.
Lemma frame_sleep s u : xframe s (x_sleep s) u.
Proof. split; auto. Qed.

Lemma popped_app l ps e : popped l (ps ++ [e]) = popped l ps ++ (if Nat.eqb (fst e) l then [snd (snd (snd e))] else []).
Proof. unfold popped. rewrite filter_app, map_app. cbn. destruct (Nat.eqb (fst e) l); reflexivity. Qed.
Lemma swept_app ps e : swept (ps ++ [e]) = swept ps ++ (if fst (snd (snd e)) then [snd (snd (snd e))] else []).
Proof. unfold swept. rewrite filter_app, map_app. cbn. destruct (fst (snd (snd e))); reflexivity. Qed.

Lemma data_lock s l o : xdata s -> xdata (x_set_lock s l o).
Proof. intros H l'. apply H. Qed.
Lemma data_sleep s : xdata s -> xdata (x_sleep s).
Proof. intros H l'. apply H. Qed.
Lemma data_append s t l ms : xdata s -> xdata (x_append s t l ms).
Proof.
  intros H l'. cbn. destruct (Nat.eq_dec l' l) as [->|Hn].
  - rewrite !updf_same, map_app, map_map, H. cbn. rewrite map_id, app_assoc. reflexivity.
  - rewrite !updf_other by assumption. apply H.
Qed.
Lemma data_pop s t l sw m r : xq s l = m :: r -> xdata s -> xdata (x_pop s t l sw m r).
Proof.
  intros Hq H l'. unfold x_pop; cbn [xpops xq xapp]. rewrite popped_app. cbn [fst snd]. destruct (Nat.eq_dec l' l) as [->|Hn].
  - rewrite Nat.eqb_refl, updf_same, H, Hq, <- app_assoc. reflexivity.
  - rewrite updf_other by assumption. assert (E : Nat.eqb l l' = false) by (apply Nat.eqb_neq; congruence). rewrite E, app_nil_r. apply H.
Qed.

Ltac seven := split; [|split; [|split; [|split; [|split; [|split]]]]].
Ltac eight := split; [|split; [|split; [|split; [|split; [|split; [|split]]]]]].

(* what one access of a receive does *)
Definition newacc (p : rph) (res : rph + option msg) : list msg :=
  match p, res with
  | PPop1, inl (PRel1 (Some m)) | PPop2, inl (PRel2 (Some m) _) => [m]
  | _, _ => []
  end.
Lemma rstep_spec s t l sw blk p s' res :
  rstep s t l sw blk p = Some (s', res) -> (rholds p = true -> xlk s l = Some t) ->
  (forall u, u <> t -> xframe s s' u) /\
  (forall l', l' <> l -> xlk s' l' = xlk s l') /\
  (xdata s -> xdata s') /\
  match res with inl p' => (rholds p' = true -> xlk s' l = Some t) /\ (ispop p' = true -> xq s' l <> []) | inr _ => xlk s' l = None end /\
  swept (xpops s') = swept (xpops s) ++ (if sw then newacc p res else []) /\
  xapp s' = xapp s /\ xnsubs s' = xnsubs s /\ (xlk s' l = xlk s l \/ xlk s' l = Some t \/ xlk s' l = None).
Proof.
  intros H Ho.
  assert (Hnil : forall (b : bool) (x : list msg), x = x ++ (if b then [] else [])) by (intros [|] x; now rewrite app_nil_r).
  destruct p as [| | |r| | | |r slp|]; cbn in H.
  - destruct (x_can s l t) eqn:Hc; [|discriminate]. injection H as <- <-.
    eight; cbn; intros; try (now apply frame_acq); try (now apply data_lock); try (now rewrite updf_other); auto.
    all: try (rewrite updf_same; now auto).
    all: try (split; [now rewrite updf_same|discriminate]).
  - injection H as <- <-. specialize (Ho eq_refl).
    eight; cbn; intros; try apply frame_refl; auto.
    all: try (rewrite updf_same; now auto).
    all: try (split; intros Hp; [exact Ho|]; destruct (xq s l); [discriminate|]; discriminate).
  - specialize (Ho eq_refl). destruct (xq s l) as [|m r] eqn:Hq; [discriminate|]. injection H as <- <-.
    eight; cbn; intros; try (now apply frame_pop); try (now apply data_pop); auto.
    all: try (rewrite updf_same; now auto).
    all: try (split; [auto|discriminate]).
    all: try (rewrite swept_app; cbn; destruct sw; reflexivity).
  - specialize (Ho eq_refl). injection H as <- <-.
    eight; cbn; intros; try (now apply (frame_rel _ _ t)); try (now apply data_lock); try (now rewrite updf_other); auto.
    all: try (rewrite updf_same; now auto).
    all: try (destruct r; apply Hnil).
    all: try (destruct r; cbn; [now rewrite updf_same|split; discriminate]).
  - destruct (x_can s l t) eqn:Hc; [|discriminate]. injection H as <- <-.
    eight; cbn; intros; try (now apply frame_acq); try (now apply data_lock); try (now rewrite updf_other); auto.
    all: try (rewrite updf_same; now auto).
    all: try (split; [now rewrite updf_same|discriminate]).
  - injection H as <- <-. specialize (Ho eq_refl).
    eight; cbn; intros; try apply frame_refl; auto.
    all: try (rewrite updf_same; now auto).
    all: try (split; intros Hp; [exact Ho|]; destruct (xq s l); [discriminate|]; discriminate).
  - specialize (Ho eq_refl). destruct (xq s l) as [|m r] eqn:Hq; [discriminate|]. injection H as <- <-.
    eight; cbn; intros; try (now apply frame_pop); try (now apply data_pop); auto.
    all: try (rewrite updf_same; now auto).
    all: try (split; [auto|discriminate]).
    all: try (rewrite swept_app; cbn; destruct sw; reflexivity).
  - specialize (Ho eq_refl). injection H as <- <-.
    eight; cbn; intros; try (now apply (frame_rel _ _ t)); try (now apply data_lock); try (now rewrite updf_other); auto.
    all: try (rewrite updf_same; now auto).
    all: try (destruct slp, r; apply Hnil).
    all: try (destruct r, slp; cbn; try (now rewrite updf_same); split; discriminate).
  - injection H as <- <-.
    eight; cbn; intros; try apply frame_sleep; try (now apply data_sleep); auto.
    all: try (split; discriminate).
    all: try (rewrite updf_same; now auto).
Qed.

Lemma finish_recv_at th r : xat (x_finish_recv th r) = XStart.
Proof. unfold x_finish_recv. destruct (xprog th) as [|[p m|p b|p acc] rest]; try reflexivity. destruct r; reflexivity. Qed.
Lemma accof_holds p : holds p 0 = false -> accof p = [].
Proof. destruct p; cbn; auto; discriminate. Qed.

Ltac btrue H := repeat (rewrite orb_true_iff in H || rewrite andb_true_iff in H || rewrite Nat.eqb_eq in H).
Ltac lockgoal := cbn [xlk xq x_set_lock x_append x_pop x_sleep]; rewrite ?updf_same; rewrite ?updf_other by (discriminate || lia); auto.

Definition step_ok (s : xshared) (t : tid) (th : xthread) (s' : xshared) (th' : xthread) : Prop :=
  xtinv s' t th' /\
  (forall u, u <> t -> xframe s s' u) /\
  (xdata s -> xdata s') /\
  (swept (xpops s) = map snd (xapp s 0) ++ accof (xat th) -> swept (xpops s') = map snd (xapp s' 0) ++ accof (xat th')) /\
  (holds (xat th) 0 = false -> swept (xpops s') = swept (xpops s) /\ xapp s' 0 = xapp s 0) /\
  (forall l, xlk s' l = xlk s l \/ xlk s' l = Some t \/ xlk s' l = None) /\
  (forall e, xat th' <> XRaised e).

(* the steps that only take a lock *)
Lemma ok_acquire s t th l p' :
  x_can s l t = true -> accof (xat th) = [] -> accof p' = [] -> (forall e, p' <> XRaised e) ->
  (forall l', holds p' l' = true -> l' = l \/ holds (xat th) l' = true) -> (forall l', popping p' l' = false) ->
  xtinv s t th -> step_ok s t th (x_set_lock s l (Some t)) (xset_pc th p').
Proof.
  intros Hc Ha Ha' Hr Hh Hp [H1 H2]. unfold step_ok. seven.
  - split; cbn [xat xset_pc]; intros l' Hl.
    + destruct (Hh l' Hl) as [->|Hold]; [lockgoal|]. destruct (Nat.eq_dec l' l) as [->|Hn]; [lockgoal|]. cbn. rewrite updf_other by assumption. auto.
    + rewrite Hp in Hl. discriminate.
  - intros u Hu. now apply frame_acq.
  - apply data_lock.
  - cbn. now rewrite Ha, Ha'.
  - cbn. auto.
  - intros l'. cbn. destruct (Nat.eq_dec l' l) as [->|Hn]; [right; left; apply updf_same|left; now apply updf_other].
  - exact Hr.
Qed.

Lemma ok_release s t th l th' :
  xlk s l = Some t -> accof (xat th) = [] -> accof (xat th') = [] -> (forall e, xat th' <> XRaised e) ->
  (forall l', holds (xat th') l' = true -> l' <> l /\ holds (xat th) l' = true) -> (forall l', popping (xat th') l' = false) ->
  xtinv s t th -> step_ok s t th (x_set_lock s l None) th'.
Proof.
  intros Ho Ha Ha' Hr Hh Hp [H1 H2]. unfold step_ok. seven.
  - split; intros l' Hl.
    + destruct (Hh l' Hl) as [Hn Hold]. cbn. rewrite updf_other by assumption. auto.
    + rewrite Hp in Hl. discriminate.
  - intros u Hu. now apply (frame_rel _ _ t).
  - apply data_lock.
  - cbn. now rewrite Ha, Ha'.
  - cbn. auto.
  - intros l'. cbn. destruct (Nat.eq_dec l' l) as [->|Hn]; [right; right; apply updf_same|left; now apply updf_other].
  - exact Hr.
Qed.

Lemma ok_append_sub s t th i m via :
  xat th = XApp via i m -> xtinv s t th -> step_ok s t th (x_append s t (S i) [m]) (xset_pc th (XRelSub via i m)).
Proof.
  intros Hat [H1 H2]. unfold step_ok. rewrite Hat in *. seven.
  - split; cbn [xat xset_pc]; intros l' Hl; [cbn; apply H1, Hl|discriminate].
  - intros u Hu. apply frame_append.
  - apply data_append.
  - cbn. rewrite updf_other by discriminate. auto.
  - cbn. rewrite updf_other by discriminate. auto.
  - intros l'. left. reflexivity.
  - cbn. discriminate.
Qed.

Lemma ok_extend s t th acc :
  xat th = XExtend acc -> xtinv s t th -> step_ok s t th (x_append s t 0 acc) (xset_pc th (XM PBool2)).
Proof.
  intros Hat [H1 H2]. unfold step_ok. rewrite Hat in *. seven.
  - split; cbn [xat xset_pc]; intros l' Hl; [cbn; apply H1; cbn in *; exact Hl|discriminate].
  - intros u Hu. apply frame_append.
  - apply data_append.
  - cbn. rewrite updf_same, map_app, map_map. cbn. rewrite map_id, app_nil_r. auto.
  - cbn. discriminate.
  - intros l'. left. reflexivity.
  - cbn. discriminate.
Qed.

Lemma pops_empty_false s l p : (ispop p = true -> xq s l <> []) -> pops_empty s l p = false.
Proof. unfold pops_empty. destruct p; auto; cbn; intros H; destruct (xq s l); auto; exfalso; now apply H. Qed.

Lemma ok_poll s t th i p s' res :
  xat th = XPoll i p -> xtinv s t th -> rstep s t (S i) false (x_is_block th) p = Some (s', res) ->
  step_ok s t th s' (match res with inl p' => xset_pc th (XPoll i p') | inr r => x_finish_recv th r end).
Proof.
  intros Hat [H1 H2] Hr. unfold step_ok. rewrite Hat in *.
  assert (Ho : rholds p = true -> xlk s (S i) = Some t) by (intros Hp; apply H1; cbn; now rewrite Hp, Nat.eqb_refl).
  destruct (rstep_spec _ _ _ _ _ _ _ _ Hr Ho) as (F & Lo & D & R & Sw & Ap & _ & Sh).
  seven; auto.
  - destruct res as [p'|r]; split; cbn [xat xset_pc]; rewrite ?finish_recv_at; intros l' Hl; cbn in Hl; try discriminate; btrue Hl; destruct Hl as [Hp ->]; now apply R.
  - cbn [app] in Sw. rewrite app_nil_r in Sw. rewrite Sw, Ap. destruct res; cbn [xat xset_pc]; rewrite ?finish_recv_at; cbn; auto.
  - cbn [app] in Sw. rewrite app_nil_r in Sw. rewrite Sw, Ap. auto.
  - intros l'. destruct (Nat.eq_dec l' (S i)) as [->|Hn]; [exact Sh|left; now apply Lo].
  - destruct res; cbn [xat xset_pc]; rewrite ?finish_recv_at; discriminate.
Qed.

Lemma ok_m s t th p s' res :
  xat th = XM p -> xtinv s t th -> rstep s t 0 false (x_is_block th) p = Some (s', res) ->
  step_ok s t th s' (match res with inl p' => xset_pc th (XM p') | inr r => x_finish_recv th r end).
Proof.
  intros Hat [H1 H2] Hr. unfold step_ok. rewrite Hat in *.
  assert (Ho : rholds p = true -> xlk s 0 = Some t) by (intros Hp; apply H1; cbn; now rewrite Hp).
  destruct (rstep_spec _ _ _ _ _ _ _ _ Hr Ho) as (F & Lo & D & R & Sw & Ap & _ & Sh).
  seven; auto.
  - destruct res as [p'|r]; split; cbn [xat xset_pc]; rewrite ?finish_recv_at; intros l' Hl; cbn in Hl; try discriminate; btrue Hl; destruct Hl as [Hp ->]; now apply R.
  - cbn [app] in Sw. rewrite app_nil_r in Sw. rewrite Sw, Ap. destruct res; cbn [xat xset_pc]; rewrite ?finish_recv_at; cbn; auto.
  - cbn [app] in Sw. rewrite app_nil_r in Sw. rewrite Sw, Ap. auto.
  - intros l'. destruct (Nat.eq_dec l' 0) as [->|Hn]; [exact Sh|left; now apply Lo].
  - destruct res; cbn [xat xset_pc]; rewrite ?finish_recv_at; discriminate.
Qed.

Definition extra (p : rph) : list msg := match p with PRel1 (Some m) | PRel2 (Some m) _ => [m] | _ => [] end.
Lemma sweep_acc s t l p s' res :
  rstep s t l true false p = Some (s', res) ->
  match res with
  | inl p' => extra p = [] /\ extra p' = newacc p res
  | inr (Some m) => extra p = [m] /\ newacc p res = []
  | inr None => extra p = [] /\ newacc p res = []
  end.
Proof.
  destruct p as [| | |r| | | |r slp|]; cbn; intros H.
  - destruct (x_can s l t); [|discriminate]. injection H as <- <-. auto.
  - injection H as <- <-. destruct (xq s l); auto.
  - destruct (xq s l); [discriminate|]. injection H as <- <-. auto.
  - injection H as <- <-. destruct r; auto.
  - destruct (x_can s l t); [|discriminate]. injection H as <- <-. auto.
  - injection H as <- <-. destruct (xq s l); auto.
  - destruct (xq s l); [discriminate|]. injection H as <- <-. auto.
  - injection H as <- <-. destruct slp, r; auto.
  - injection H as <- <-. auto.
Qed.

Lemma ok_sweep s t th i p acc s' res :
  xat th = XSweep i p acc -> xtinv s t th -> rstep s t (S i) true false p = Some (s', res) ->
  step_ok s t th s' (xset_pc th (match res with
                                 | inl p' => XSweep i p' acc
                                 | inr (Some m) => XSweep i PAcq1 (acc ++ [m])
                                 | inr None => x_next_sweep s' i acc
                                 end)).
Proof.
  intros Hat [H1 H2] Hr. unfold step_ok. rewrite Hat in *.
  assert (Ho : rholds p = true -> xlk s (S i) = Some t) by (intros Hp; apply H1; cbn; now rewrite Hp, Nat.eqb_refl).
  assert (H0 : xlk s 0 = Some t) by (apply H1; reflexivity).
  destruct (rstep_spec _ _ _ _ _ _ _ _ Hr Ho) as (F & Lo & D & R & Sw & Ap & _ & Sh).
  pose proof (sweep_acc _ _ _ _ _ _ Hr) as Ac.
  assert (H0' : xlk s' 0 = Some t) by (rewrite Lo by discriminate; exact H0).
  seven; auto.
  - destruct res as [p'|[m|]]; [| |unfold x_next_sweep; destruct (Nat.ltb (S i) (xnsubs s'))]; split; cbn [xat xset_pc]; intros l' Hl; cbn in Hl; try discriminate;
      btrue Hl; try (destruct Hl as [->|Hf]; [exact H0'|discriminate]); try (destruct Hl as [->|[Hp ->]]; [exact H0'|now apply R]); try (destruct Hl as [->|[Hp _]]; [exact H0'|discriminate]);
      try (destruct Hl as [Hp ->]; now apply R); try (subst l'; exact H0'); try (destruct Hl as [Hp _]; discriminate).
  - cbn [xat xset_pc]. rewrite Sw, Ap. cbn [accof]. fold (extra p). intros E. rewrite E, <- app_assoc. f_equal.
    destruct res as [p'|[m|]]; [| |unfold x_next_sweep; destruct (Nat.ltb (S i) (xnsubs s'))]; cbn [accof]; try fold (extra p'); destruct Ac as [A1 A2]; rewrite A1, A2;
      cbn; rewrite ?app_nil_r; reflexivity.
  - cbn. discriminate.
  - intros l'. destruct (Nat.eq_dec l' (S i)) as [->|Hn]; [exact Sh|left; now apply Lo].
  - cbn [xat xset_pc]. destruct res as [p'|[m|]]; try discriminate. unfold x_next_sweep. destruct (Nat.ltb (S i) (xnsubs s')); discriminate.
Qed.

Lemma xstep_ok s t th s' th' : xstep_thread s t th = Some (s', th') -> xtinv s t th -> step_ok s t th s' th'.
Proof.
  intros H Hi. pose proof Hi as [H1 H2]. unfold xstep_thread in H. destruct (xat th) as [|i m|via i m|via i m| |i p|p|i p acc|acc|e] eqn:Hat.
  - destruct (xprog th) as [|[[|i] m|[|i] b|[|i] acc] rest] eqn:Hp; try discriminate;
      match type of H with (if x_can s ?l t then _ else _) = _ => destruct (x_can s l t) eqn:Hc; [|discriminate] end; injection H as <- <-.
    + destruct (Nat.ltb 0 (xnsubs s)); apply ok_acquire; auto; try (now rewrite Hat); try discriminate; cbn; intros l' Hl; btrue Hl; auto.
    + apply ok_acquire; auto; try (now rewrite Hat); try discriminate; cbn; intros l' Hl; btrue Hl; destruct Hl as [Hl|Hf]; [auto|discriminate].
    + apply ok_acquire; auto; try (now rewrite Hat); try discriminate; cbn; intros l' Hl; btrue Hl; auto.
    + apply ok_acquire; auto; try (now rewrite Hat); try discriminate; cbn; intros l' Hl; btrue Hl; destruct Hl as [_ Hl]; auto.
    + apply ok_acquire; auto; try (now rewrite Hat); try discriminate; cbn; intros l' Hl; btrue Hl; auto.
    + apply ok_acquire; auto; try (now rewrite Hat); try discriminate; cbn; intros l' Hl; btrue Hl; destruct Hl as [_ Hl]; auto.
  - destruct (x_can s (S i) t) eqn:Hc; [|discriminate]. injection H as <- <-.
    apply ok_acquire; auto; try (now rewrite Hat); try discriminate. rewrite Hat. cbn. intros l' Hl. btrue Hl. destruct Hl as [Hl| ->]; auto.
  - injection H as <- <-. now apply ok_append_sub.
  - injection H as <- <-. apply ok_release; auto; try (now rewrite Hat).
    + apply H1. cbn. now rewrite Nat.eqb_refl.
    + destruct via; [unfold x_next; destruct (Nat.ltb (S i) (xnsubs s))|]; reflexivity.
    + destruct via; [unfold x_next; destruct (Nat.ltb (S i) (xnsubs s))|]; cbn; discriminate.
    + rewrite Hat. destruct via; [unfold x_next; destruct (Nat.ltb (S i) (xnsubs s))|]; cbn; intros l' Hl; try discriminate; btrue Hl; subst l'; (split; [discriminate|reflexivity]).
    + destruct via; [unfold x_next; destruct (Nat.ltb (S i) (xnsubs s))|]; reflexivity.
  - injection H as <- <-. apply ok_release; auto; try (now rewrite Hat); try discriminate.
  - rewrite pops_empty_false in H by (intros Hp; apply H2; cbn; now rewrite Hp, Nat.eqb_refl).
    destruct (rstep s t (S i) false (x_is_block th) p) as [[s1 res]|] eqn:Hr; [|discriminate].
    pose proof (ok_poll _ _ _ _ _ _ _ Hat Hi Hr) as K. destruct res; injection H as <- <-; exact K.
  - assert (Hpe : pops_empty s 0 p = false) by (apply pops_empty_false; intros Hp; apply H2; cbn; now rewrite Hp).
    destruct p; rewrite ?Hpe in H;
      try (match type of H with match rstep ?a ?b ?c ?d ?e ?f with _ => _ end = _ => destruct (rstep a b c d e f) as [[s1 res]|] eqn:Hr; [|discriminate] end;
           pose proof (ok_m _ _ _ _ _ _ Hat Hi Hr) as K; destruct res; injection H as <- <-; exact K).
    destruct (x_can s 0 t) eqn:Hc; [|discriminate]. injection H as <- <-.
    destruct (Nat.ltb 0 (xnsubs s)); apply ok_acquire; auto; try (now rewrite Hat); try discriminate; cbn; intros l' Hl; btrue Hl; auto.
    destruct Hl as [Hl|Hf]; [auto|discriminate].
  - rewrite pops_empty_false in H by (intros Hp; apply H2; cbn; now rewrite Hp, Nat.eqb_refl).
    destruct (rstep s t (S i) true false p) as [[s1 res]|] eqn:Hr; [|discriminate].
    pose proof (ok_sweep _ _ _ _ _ _ _ _ Hat Hi Hr) as K. destruct res as [p'|[m|]]; injection H as <- <-; exact K.
  - injection H as <- <-. now apply ok_extend.
  - discriminate.
Qed.

Definition XInvR (cf : xcfg) : Prop := XInv cf /\ forall t e, xat (snd cf t) <> XRaised e.

Lemma xupd_same ts t th : xupd ts t th t = th.
Proof. unfold xupd. now rewrite Nat.eqb_refl. Qed.
Lemma xupd_other ts t th u : u <> t -> xupd ts t th u = ts u.
Proof. unfold xupd. intros H. apply Nat.eqb_neq in H. now rewrite H. Qed.

Lemma xstep_inv cf t : XInvR cf -> XInvR (xstep cf t).
Proof.
  destruct cf as [s ts]. intros [(Ht & Hd & Hl) Hr]. cbn [fst snd] in *. unfold xstep.
  destruct (xstep_thread s t (ts t)) as [[s' th']|] eqn:E; [|split; [split; [|split]|]; assumption].
  destruct (xstep_ok _ _ _ _ _ E (Ht t)) as (T & F & D & L & U & Sh & R).
  split; [split; [|split]|]; cbn [fst snd].
  - intros u. destruct (Nat.eq_dec u t) as [->|Hn]; [now rewrite xupd_same|]. rewrite xupd_other by assumption. eapply xtinv_other; [apply Ht|now apply F].
  - now apply D.
  - unfold xlink, inflight in *. destruct (xlk s 0) as [o|] eqn:Eo.
    + destruct (Nat.eq_dec o t) as [->|Hn].
      * specialize (L Hl). rewrite L. f_equal. destruct (Sh 0%nat) as [Q|[Q|Q]]; rewrite Q, ?Eo, ?xupd_same; auto.
        apply accof_holds. destruct (holds (xat th') 0) eqn:Hh; auto. destruct T as [T1 _]. rewrite (T1 0%nat Hh) in Q. discriminate.
      * assert (Hh : holds (xat (ts t)) 0 = false).
        { destruct (holds (xat (ts t)) 0) eqn:Hh; auto. destruct (Ht t) as [T1 _]. rewrite (T1 0%nat Hh) in Eo. congruence. }
        destruct (U Hh) as [U1 U2]. destruct (F o Hn) as [F1 _]. rewrite (F1 0%nat Eo), U1, U2, xupd_other by assumption. exact Hl.
    + assert (Hh : holds (xat (ts t)) 0 = false).
      { destruct (holds (xat (ts t)) 0) eqn:Hh; auto. destruct (Ht t) as [T1 _]. rewrite (T1 0%nat Hh) in Eo. discriminate. }
      rewrite app_nil_r in Hl. rewrite <- (app_nil_r (map snd (xapp s 0))), <- (accof_holds _ Hh) in Hl. specialize (L Hl). rewrite L. f_equal.
      destruct (Sh 0%nat) as [Q|[Q|Q]]; rewrite Q, ?Eo, ?xupd_same; auto;
        apply accof_holds; destruct (holds (xat th') 0) eqn:Hh'; auto; destruct T as [T1 _]; rewrite (T1 0%nat Hh') in Q; congruence.
  - intros u e. destruct (Nat.eq_dec u t) as [->|Hn]; [rewrite xupd_same; apply R|rewrite xupd_other by assumption; apply Hr].
Qed.

Lemma xinit_inv n progs : XInvR (xinit n progs).
Proof.
  split; [split; [|split]|]; cbn.
  - intros t. split; cbn; intros; discriminate.
  - intros l. reflexivity.
  - reflexivity.
  - intros; discriminate.
Qed.

Lemma xrun_inv : forall sched cf, XInvR cf -> XInvR (xrun sched cf).
Proof. induction sched as [|t r IH]; intros cf H; [exact H|]. cbn. apply IH, xstep_inv, H. Qed.

(* ---- the statements ---- *)
Theorem mix_no_raise n progs sched t e : xat (snd (xrun sched (xinit n progs)) t) <> XRaised e.
Proof. apply (xrun_inv sched _ (xinit_inv n progs)). Qed.

(* every deque (the MultiPort's own and every sub-port's) hands out exactly what was put into it, in that order, each message once *)
Theorem mix_exactly_once n progs sched :
  let s := fst (xrun sched (xinit n progs)) in forall l, map snd (xapp s l) = popped l (xpops s) ++ xq s l.
Proof. intros s. apply (xrun_inv sched _ (xinit_inv n progs)). Qed.

(* what the MultiPort's receive takes off the sub-ports is what it puts into its own deque, in that order; only what the one thread that
   is inside the sweep has taken so far is still in its hands *)
Theorem mix_sweep_conserves n progs sched :
  let '(s, ts) := xrun sched (xinit n progs) in swept (xpops s) = map snd (xapp s 0) ++ inflight s ts.
Proof.
  pose proof (xrun_inv sched _ (xinit_inv n progs)) as [(_ & _ & H) _]. destruct (xrun sched (xinit n progs)) as [s ts]. exact H.
Qed.

(* a lock is never held by a thread that does not say so: mutual exclusion on every port *)
Theorem mix_mutual_exclusion n progs sched t u l :
  let '(s, ts) := xrun sched (xinit n progs) in holds (xat (ts t)) l = true -> holds (xat (ts u)) l = true -> t = u.
Proof.
  pose proof (xrun_inv sched _ (xinit_inv n progs)) as [(H & _ & _) _]. destruct (xrun sched (xinit n progs)) as [s ts]. cbn in H.
  intros Ht Hu. destruct (H t) as [T _]. destruct (H u) as [U _]. specialize (T l Ht). specialize (U l Hu). congruence.
Qed.

(* ---- the order of one sender: what thread t has put into the deque of sub-port i so far, followed by what its program still has to put
   there, is what its program says - so (with mix_exactly_once: every deque is first-in first-out) each sender's messages leave every
   sub-port in the order they were sent ---- *)
Definition mine_of (t : nat) (l : list (nat * msg)) : list msg := map snd (filter (fun e => Nat.eqb (fst e) t) l).
Definition xsend1 (n i : nat) (o : xop) : list msg :=
  match o with
  | XSend 0 m => if Nat.ltb i n then [m] else []
  | XSend (S j) m => if Nat.eqb j i then [m] else []
  | _ => []
  end.
Definition xsends (n i : nat) (p : list xop) : list msg := flat_map (xsend1 n i) p.
Definition xpending (n i : nat) (th : xthread) : list msg :=
  let rest := xsends n i (tl (xprog th)) in
  match xat th with
  | XSub j m | XApp true j m => (if Nat.ltb i j then [] else if Nat.ltb i n then [m] else []) ++ rest
  | XRelSub true j m => (if Nat.leb i j then [] else if Nat.ltb i n then [m] else []) ++ rest
  | XApp false j m => (if Nat.eqb j i then [m] else []) ++ rest
  | XRelSub false j m => rest
  | XRel0 => rest
  | _ => xsends n i (xprog th)
  end.
Definition is_recv (o : xop) : bool := match o with XSend _ _ => false | _ => true end.
Definition xcons (n : nat) (th : xthread) : Prop :=
  match xat th with
  | XSub j m | XApp true j m | XRelSub true j m => (j < n)%nat /\ exists rest, xprog th = XSend 0 m :: rest
  | XRel0 => exists m rest, xprog th = XSend 0 m :: rest
  | XApp false j m | XRelSub false j m => exists rest, xprog th = XSend (S j) m :: rest
  | XPoll _ _ | XM _ | XSweep _ _ _ | XExtend _ => exists o rest, xprog th = o :: rest /\ is_recv o = true
  | XStart | XRaised _ => True
  end.
Definition XOrd (progs : tid -> list xop) (cf : xcfg) : Prop :=
  let n := xnsubs (fst cf) in
  forall t, xcons n (snd cf t) /\ forall i, xsends n i (progs t) = mine_of t (xapp (fst cf) (S i)) ++ xpending n i (snd cf t).

Lemma mine_app t l (e : nat * msg) : mine_of t (l ++ [e]) = mine_of t l ++ (if Nat.eqb (fst e) t then [snd e] else []).
Proof. unfold mine_of. rewrite filter_app, map_app. simpl. destruct (Nat.eqb (fst e) t); reflexivity. Qed.

Lemma rstep_keeps s t l sw blk p s' res : rstep s t l sw blk p = Some (s', res) -> xapp s' = xapp s /\ xnsubs s' = xnsubs s.
Proof.
  destruct p; cbn; intros H;
    repeat match type of H with
           | (if ?c then _ else _) = _ => destruct c; [|discriminate]
           | match xq s l with _ => _ end = _ => destruct (xq s l); [discriminate|]
           end; injection H as <- <-; auto.
Qed.

Lemma finish_recv_prog n i th r o rest : xprog th = o :: rest -> is_recv o = true -> xsends n i (xprog (x_finish_recv th r)) = xsends n i (xprog th).
Proof.
  intros Hp Ho. unfold x_finish_recv. rewrite Hp. destruct o as [p m|p b|p acc]; try discriminate; [reflexivity|]. destruct r; reflexivity.
Qed.

Local Arguments Nat.ltb : simpl never.
Local Arguments Nat.leb : simpl never.
Local Arguments Nat.eqb : simpl never.
Ltac bdestr := repeat match goal with
  | |- context [Nat.ltb ?a ?b] => destruct (Nat.ltb_spec a b)
  | |- context [Nat.leb ?a ?b] => destruct (Nat.leb_spec a b)
  | |- context [Nat.eqb ?a ?b] => destruct (Nat.eqb_spec a b)
  end.
Ltac fin := cbn; bdestr; subst; try lia; try reflexivity; try congruence; auto.

Lemma app_sub_mine s t u j m i :
  mine_of u (xapp (x_append s t (S j) [m]) (S i)) = mine_of u (xapp s (S i)) ++ (if Nat.eqb j i then if Nat.eqb t u then [m] else [] else []).
Proof.
  cbn [xapp x_append]. destruct (Nat.eqb_spec j i) as [->|Hn].
  - rewrite updf_same. cbn [map]. rewrite mine_app. reflexivity.
  - rewrite updf_other by congruence. now rewrite app_nil_r.
Qed.

Lemma xstep_thread_ord s t th s' th' :
  xstep_thread s t th = Some (s', th') -> xcons (xnsubs s) th ->
  xnsubs s' = xnsubs s /\ xcons (xnsubs s) th' /\
  (forall i, mine_of t (xapp s' (S i)) ++ xpending (xnsubs s) i th' = mine_of t (xapp s (S i)) ++ xpending (xnsubs s) i th) /\
  (forall u i, u <> t -> mine_of u (xapp s' (S i)) = mine_of u (xapp s (S i))).
Proof.
  intros H K. unfold xstep_thread in H. unfold xcons in K. unfold xcons, xpending.
  destruct (xat th) as [|j m|via j m|via j m| |j p|p|j p acc|acc|e] eqn:Hat.
  - destruct (xprog th) as [|[[|j] m|[|j] b|[|j] acc] rest] eqn:Hp; try discriminate;
      match type of H with (if x_can s ?l t then _ else _) = _ => destruct (x_can s l t) eqn:Hc; [|discriminate] end; injection H as <- <-;
      cbn [xat xset_pc xprog xnsubs x_set_lock xapp]; rewrite ?Hp.
    + destruct (Nat.ltb_spec 0 (xnsubs s)); (split; [reflexivity|split; [eauto|split; [intros i; f_equal; fin|auto]]]).
    + split; [reflexivity|split; [eauto|split; [intros i; f_equal; fin|auto]]].
    + split; [reflexivity|split; [exists (XRecv 0 b), rest; auto|split; [intros i; f_equal|auto]]].
    + split; [reflexivity|split; [exists (XRecv (S j) b), rest; auto|split; [intros i; f_equal|auto]]].
    + split; [reflexivity|split; [exists (XIterP 0 acc), rest; auto|split; [intros i; f_equal|auto]]].
    + split; [reflexivity|split; [exists (XIterP (S j) acc), rest; auto|split; [intros i; f_equal|auto]]].
  - destruct (x_can s (S j) t) eqn:Hc; [|discriminate]. injection H as <- <-. cbn [xat xset_pc xprog xnsubs x_set_lock xapp].
    split; [reflexivity|split; [exact K|split; [reflexivity|auto]]].
  - injection H as <- <-. cbn [xat xset_pc xprog xnsubs x_append]. split; [reflexivity|]. split; [exact K|]. split.
    + intros i. rewrite app_sub_mine, Nat.eqb_refl, <- app_assoc. f_equal. destruct via; [destruct K as [Hj _]|]; fin.
    + intros u i Hu. rewrite app_sub_mine. apply Nat.eqb_neq in Hu. rewrite Nat.eqb_sym in Hu. rewrite Hu. destruct (Nat.eqb j i); now rewrite app_nil_r.
  - injection H as <- <-. cbn [xnsubs x_set_lock xapp]. split; [reflexivity|]. destruct via.
    + destruct K as [Hj [rest Hp]]. unfold x_next. destruct (Nat.ltb_spec (S j) (xnsubs s)); cbn [xat xset_pc xprog]; rewrite ?Hp;
        (split; [eauto|split; [intros i; f_equal; fin|auto]]).
    + destruct K as [rest Hp]. cbn [x_finish_send xat xprog]. rewrite Hp. split; [exact I|split; [reflexivity|auto]].
  - injection H as <- <-. cbn [xnsubs x_set_lock xapp x_finish_send xat xprog]. destruct K as (m & rest & Hp). rewrite Hp.
    split; [reflexivity|split; [exact I|split; [reflexivity|auto]]].
  - destruct K as (o & rest & Hp & Ho).
    destruct (pops_empty s (S j) p); [injection H as <- <-; cbn [xat xset_pc xprog]; rewrite Hp; split; [reflexivity|split; [exact I|split; [reflexivity|auto]]]|].
    destruct (rstep s t (S j) false (x_is_block th) p) as [[s1 res]|] eqn:Hr; [|discriminate]. destruct (rstep_keeps _ _ _ _ _ _ _ _ Hr) as [Ha Hn].
    destruct res as [p'|r]; injection H as <- <-; rewrite Ha, Hn; (split; [reflexivity|]).
    + cbn [xat xset_pc xprog]. split; [eauto|split; [reflexivity|auto]].
    + rewrite finish_recv_at. split; [exact I|split; [|auto]]. intros i. f_equal. now apply (finish_recv_prog _ _ _ _ o rest).
  - destruct K as (o & rest & Hp & Ho).
    assert (G : forall p0 s1 res, rstep s t 0 false (x_is_block th) p0 = Some (s1, res) ->
                (match res with inl p' => Some (s1, xset_pc th (XM p')) | inr r => Some (s1, x_finish_recv th r) end) = Some (s', th') ->
                xnsubs s' = xnsubs s /\ match xat th' with XM _ => (exists o rest, xprog th' = o :: rest /\ is_recv o = true) | XStart => True | _ => False end /\
                (forall i, mine_of t (xapp s' (S i)) ++ xsends (xnsubs s) i (xprog th') = mine_of t (xapp s (S i)) ++ xsends (xnsubs s) i (xprog th)) /\
                (forall u i, u <> t -> mine_of u (xapp s' (S i)) = mine_of u (xapp s (S i)))).
    { intros p0 s1 res Hr H1. destruct (rstep_keeps _ _ _ _ _ _ _ _ Hr) as [Ha Hn]. destruct res as [p'|r]; injection H1 as <- <-; rewrite Ha, Hn; (split; [reflexivity|]).
      - cbn [xat xset_pc xprog]. split; [eauto|split; [reflexivity|auto]].
      - rewrite finish_recv_at. split; [exact I|split; [|auto]]. intros i. f_equal. now apply (finish_recv_prog _ _ _ _ o rest). }
    destruct p;
      try (destruct (pops_empty s 0 _); [injection H as <- <-; cbn [xat xset_pc xprog]; rewrite Hp; split; [reflexivity|split; [exact I|split; [reflexivity|auto]]]|];
           match type of H with match rstep ?a ?b ?c ?d ?e ?f with _ => _ end = _ => destruct (rstep a b c d e f) as [[s1 res]|] eqn:Hr; [|discriminate] end;
           destruct (G _ _ _ Hr H) as (G1 & G2 & G3 & G4); split; [exact G1|];
           destruct (xat th'); try contradiction; (split; [exact G2|split; [exact G3|exact G4]])).
    destruct (x_can s 0 t); [|discriminate]. injection H as <- <-. cbn [xnsubs x_set_lock xapp]. split; [reflexivity|].
    destruct (Nat.ltb 0 (xnsubs s)); cbn [xat xset_pc xprog]; (split; [eauto|split; [reflexivity|auto]]).
  - destruct K as (o & rest & Hp & Ho).
    destruct (pops_empty s (S j) p); [injection H as <- <-; cbn [xat xset_pc xprog]; rewrite Hp; split; [reflexivity|split; [exact I|split; [reflexivity|auto]]]|].
    destruct (rstep s t (S j) true false p) as [[s1 res]|] eqn:Hr; [|discriminate]. destruct (rstep_keeps _ _ _ _ _ _ _ _ Hr) as [Ha Hn].
    destruct res as [p'|[m|]]; injection H as <- <-; rewrite Ha, ?Hn; (split; [reflexivity|]); cbn [xat xset_pc xprog];
      try (unfold x_next_sweep; destruct (Nat.ltb (S j) (xnsubs s1))); cbn [xat xset_pc xprog]; (split; [eauto|split; [reflexivity|auto]]).
  - destruct K as (o & rest & Hp & Ho). injection H as <- <-. cbn [xat xset_pc xprog xnsubs x_append xapp]. split; [reflexivity|split; [eauto|split]].
    + intros i. rewrite updf_other by discriminate. reflexivity.
    + intros u i Hu. rewrite updf_other by discriminate. reflexivity.
  - discriminate.
Qed.

Lemma xstep_ord progs cf t : XOrd progs cf -> XOrd progs (xstep cf t).
Proof.
  destruct cf as [s ts]. unfold XOrd, xstep. cbn [fst snd]. intros H.
  destruct (xstep_thread s t (ts t)) as [[s' th']|] eqn:E; [|exact H]. cbn [fst snd].
  destruct (xstep_thread_ord _ _ _ _ _ E (proj1 (H t))) as (Hn & Kc & Mt & Mu). rewrite Hn.
  intros u. destruct (Nat.eq_dec u t) as [->|Hu].
  - rewrite xupd_same. split; [exact Kc|]. intros i. rewrite Mt. apply (proj2 (H t)).
  - rewrite xupd_other by assumption. split; [apply (proj1 (H u))|]. intros i. rewrite Mu by assumption. apply (proj2 (H u)).
Qed.

Lemma xrun_ord progs : forall sched cf, XOrd progs cf -> XOrd progs (xrun sched cf).
Proof. induction sched as [|t r IH]; intros cf H; [exact H|]. cbn. apply IH, xstep_ord, H. Qed.

Lemma xinit_ord n progs : XOrd progs (xinit n progs).
Proof. intros t. split; [exact I|]. intros i. reflexivity. Qed.

(* what thread t has put into the deque of sub-port i, followed by what it still has to put there, is what its program sends to that
   sub-port (directly, or through the MultiPort, which passes every message on to every sub-port), in program order *)
Theorem mix_sender_order n progs sched t i :
  let '(s, ts) := xrun sched (xinit n progs) in
  xsends (xnsubs s) i (progs t) = mine_of t (xapp s (S i)) ++ xpending (xnsubs s) i (ts t).
Proof.
  pose proof (xrun_ord progs sched _ (xinit_ord n progs)) as H. destruct (xrun sched (xinit n progs)) as [s ts]. apply (proj2 (H t)).
Qed.

Lemma xstep_keeps_nsubs cf t : xnsubs (fst (xstep cf t)) = xnsubs (fst cf).
Proof.
  destruct cf as [s ts]. unfold xstep. destruct (xstep_thread s t (ts t)) as [[s' th']|] eqn:E; [|reflexivity]. cbn [fst].
  unfold xstep_thread in E. destruct (xat (ts t)) as [|j m|via j m|via j m| |j p|p|j p acc|acc|e].
  - destruct (xprog (ts t)) as [|[[|j] m|[|j] b|[|j] acc] rest]; try discriminate;
      match type of E with (if x_can s ?l t then _ else _) = _ => destruct (x_can s l t); [|discriminate] end; injection E as <- _; reflexivity.
  - destruct (x_can s (S j) t); [|discriminate]. injection E as <- _. reflexivity.
  - injection E as <- _. reflexivity.
  - injection E as <- _. reflexivity.
  - injection E as <- _. reflexivity.
  - destruct (pops_empty s (S j) p); [injection E as <- _; reflexivity|].
    destruct (rstep s t (S j) false (x_is_block (ts t)) p) as [[s1 res]|] eqn:Hr; [|discriminate]. destruct (rstep_keeps _ _ _ _ _ _ _ _ Hr) as [_ Hn].
    destruct res; injection E as <- _; exact Hn.
  - destruct p; try (destruct (pops_empty s 0 _); [injection E as <- _; reflexivity|];
      match type of E with match rstep ?a ?b ?c ?d ?e ?f with _ => _ end = _ => destruct (rstep a b c d e f) as [[s1 res]|] eqn:Hr; [|discriminate] end;
      destruct (rstep_keeps _ _ _ _ _ _ _ _ Hr) as [_ Hn]; destruct res; injection E as <- _; exact Hn).
    destruct (x_can s 0 t); [|discriminate]. injection E as <- _. reflexivity.
  - destruct (pops_empty s (S j) p); [injection E as <- _; reflexivity|].
    destruct (rstep s t (S j) true false p) as [[s1 res]|] eqn:Hr; [|discriminate]. destruct (rstep_keeps _ _ _ _ _ _ _ _ Hr) as [_ Hn].
    destruct res as [p'|[m|]]; injection E as <- _; exact Hn.
  - injection E as <- _. reflexivity.
  - discriminate.
Qed.
Lemma xrun_keeps_nsubs : forall sched cf, xnsubs (fst (xrun sched cf)) = xnsubs (fst cf).
Proof. induction sched as [|t r IH]; intros cf; [reflexivity|]. cbn. rewrite IH. apply xstep_keeps_nsubs. Qed.

(* the same with the number of sub-ports named: it never changes *)
Theorem mix_sender_order_n n progs sched t i :
  let '(s, ts) := xrun sched (xinit n progs) in
  xsends n i (progs t) = mine_of t (xapp s (S i)) ++ xpending n i (ts t).
Proof.
  pose proof (mix_sender_order n progs sched t i) as H. pose proof (xrun_keeps_nsubs sched (xinit n progs)) as Hn.
  destruct (xrun sched (xinit n progs)) as [s ts]. cbn in Hn. rewrite Hn in H. exact H.
Qed.

(* end to end: at any moment, what the receivers of the MultiPort have been handed, plus what waits in its deque, plus what the one
   thread inside a sweep holds, is exactly what was taken off the sub-ports by sweeps, in that order; and every sub-port's deque
   has handed out (to direct receivers and to sweeps together) a prefix of what was put into it *)
Theorem mix_end_to_end n progs sched :
  let '(s, ts) := xrun sched (xinit n progs) in
  swept (xpops s) = popped 0 (xpops s) ++ xq s 0 ++ inflight s ts /\
  forall i, exists rest, map snd (xapp s (S i)) = popped (S i) (xpops s) ++ rest.
Proof.
  pose proof (mix_sweep_conserves n progs sched) as H1. pose proof (mix_exactly_once n progs sched) as H2.
  destruct (xrun sched (xinit n progs)) as [s ts]. cbn [fst] in H2. split.
  - rewrite H1, (H2 0%nat), <- app_assoc. reflexivity.
  - intros i. exists (xq s (S i)). apply H2.
Qed.
