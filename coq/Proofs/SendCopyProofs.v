(* SendCopyProofs.v — what a receiver gets is a copy: no edit by the caller reaches it, no edit by a receiver reaches the caller or another
   receiver (fan-out included), for every history of creating, editing, sending, receiving. *)
From Coq Require Import ZArith List Bool Arith Lia Permutation.
Require Import Mido.Model.SendCopy.
Import ListNotations.

Definition entry := (oid * hval)%type.
Definition entries (s : sc_state) : list entry := (sc_mine s ++ sc_got s) ++ concat (sc_queues s).

(* every listed object has a distinct identity below the allocation mark and currently holds the value recorded for it *)
Definition good (h : oid -> hval) (n : oid) (l : list entry) : Prop :=
  NoDup (map fst l) /\ Forall (fun e => fst e < n /\ h (fst e) = snd e) l.

Lemma good_perm h n l l' : Permutation l l' -> good h n l -> good h n l'.
Proof.
  intros P [ND F]. split.
  - eapply Permutation_NoDup; [apply Permutation_map; exact P | exact ND].
  - eapply Permutation_Forall; eauto.
Qed.

Lemma good_cons_fresh h n v l : good h n l -> good (hupd h n v) (S n) ((n, v) :: l).
Proof.
  intros [ND F]. split.
  - cbn. constructor; [| exact ND]. intro I. apply in_map_iff in I. destruct I as [e [E I]].
    rewrite Forall_forall in F. specialize (F e I). cbn beta in F. lia.
  - constructor.
    + cbn. split; [lia|]. unfold hupd. rewrite Nat.eqb_refl. reflexivity.
    + rewrite Forall_forall in *. intros e I. specialize (F e I). cbn beta in F. destruct F as [L E]. split; [lia|].
      unfold hupd. destruct (Nat.eqb (fst e) n) eqn:Q; [apply Nat.eqb_eq in Q; lia | exact E].
Qed.

Lemma good_replace h n A C o w v : good h n (A ++ (o, w) :: C) -> good (hupd h o v) n (A ++ (o, v) :: C).
Proof.
  intros [ND F]. split.
  - rewrite map_app in *. cbn in *. exact ND.
  - rewrite map_app in ND. cbn in ND. apply NoDup_remove_2 in ND.
    rewrite Forall_forall in *. intros e I. apply in_app_or in I. destruct I as [I | [I | I]].
    + assert (fst e <> o) as NE by (intro Q; apply ND; apply in_or_app; left; rewrite <- Q; apply in_map; exact I).
      specialize (F e (in_or_app _ _ _ (or_introl I))). destruct F as [L E]. split; [exact L|].
      unfold hupd. destruct (Nat.eqb (fst e) o) eqn:Q; [apply Nat.eqb_eq in Q; contradiction | exact E].
    + subst e. cbn. assert (In (o, w) (A ++ (o, w) :: C)) as Iw by (apply in_or_app; right; left; reflexivity). specialize (F (o, w) Iw). cbn in F. split; [apply F|].
      unfold hupd. rewrite Nat.eqb_refl. reflexivity.
    + assert (fst e <> o) as NE by (intro Q; apply ND; apply in_or_app; right; rewrite <- Q; apply in_map; exact I).
      assert (In e (A ++ (o, w) :: C)) as Ie by (apply in_or_app; right; right; exact I). specialize (F e Ie). destruct F as [L E]. split; [exact L|].
      unfold hupd. destruct (Nat.eqb (fst e) o) eqn:Q; [apply Nat.eqb_eq in Q; contradiction | exact E].
Qed.

Lemma nth_error_split_set {A} (l : list A) k y x :
  nth_error l k = Some y -> exists a b, l = a ++ y :: b /\ set_nth l k x = a ++ x :: b.
Proof.
  intro H. destruct (nth_error_split l k H) as [a [b [E L]]]. exists a, b. split; [exact E|].
  unfold set_nth. subst l k. rewrite firstn_app, firstn_all, Nat.sub_diag. cbn. rewrite app_nil_r.
  rewrite skipn_app, skipn_all, Nat.sub_diag. cbn. reflexivity.
Qed.

Lemma push_copies_good qs : forall E h n v h' n' qs',
  push_copies h n v qs = (h', n', qs') -> good h n (E ++ concat qs) -> good h' n' (E ++ concat qs') /\ n <= n'.
Proof.
  induction qs as [|q r IH]; intros E h n v h' n' qs' P G.
  - cbn in P. inversion P; subst. split; [exact G | lia].
  - cbn in P. destruct (push_copies (hupd h n v) (S n) v r) as [[h1 n1] r1] eqn:R. inversion P; subst h' n' qs'. clear P.
    specialize (IH (E ++ q ++ [(n, v)]) (hupd h n v) (S n) v h1 n1 r1 R).
    assert (good (hupd h n v) (S n) ((E ++ q ++ [(n, v)]) ++ concat r)) as G1.
    { eapply good_perm; [| apply good_cons_fresh; exact G].
      cbn [concat]. rewrite <- !app_assoc. cbn [app].
      change ((n, v) :: E ++ q ++ concat r) with ([(n, v)] ++ E ++ q ++ concat r).
      rewrite (app_assoc E q), (app_assoc E q). apply Permutation_app_swap_app. }
    destruct (IH G1) as [G2 L]. split; [| lia].
    cbn [concat]. rewrite <- !app_assoc in *. cbn [app] in *. exact G2.
Qed.

Lemma nodup_app_l {A} (l l' : list A) : NoDup (l ++ l') -> NoDup l.
Proof.
  induction l as [|a l IH]; cbn; intro H; [constructor|]. inversion H; subst. constructor; [| apply IH; assumption].
  intro I. apply H2. apply in_or_app. left. exact I.
Qed.
Lemma nodup_app_r {A} (l l' : list A) : NoDup (l ++ l') -> NoDup l'.
Proof. induction l as [|a l IH]; cbn; intro H; [exact H|]. inversion H; subst. apply IH. assumption. Qed.

Definition SInv (s : sc_state) : Prop := good (sc_hp s) (sc_nxt s) (entries s).

Lemma good_weaken h n n' l : n <= n' -> good h n l -> good h n' l.
Proof. intros L [ND F]. split; [exact ND|]. rewrite Forall_forall in *. intros e I. specialize (F e I). cbn beta in F. intuition lia. Qed.

Lemma sc_step_inv s op : SInv s -> SInv (sc_step true s op).
Proof.
  unfold SInv, entries. intro G. destruct op as [v | k v | k | i | k v]; cbn [sc_step].
  - (* SNew *) cbn. eapply good_perm; [| apply good_cons_fresh; exact G].
    rewrite <- !app_assoc. cbn [app]. apply Permutation_middle.
  - (* SSet *) destruct (nth_error (sc_mine s) k) as [[o w]|] eqn:N; [| exact G]. cbn.
    destruct (nth_error_split_set _ _ _ (o, v) N) as [a [b [E1 E2]]]. rewrite E2. rewrite E1 in G.
    rewrite <- !app_assoc in *. cbn [app] in *. apply good_replace with (w := w). exact G.
  - (* SSend *) destruct (nth_error (sc_mine s) k) as [[o w]|] eqn:N; [| exact G].
    destruct (push_copies (sc_hp s) (sc_nxt s) (sc_hp s o) (sc_queues s)) as [[h' n'] qs'] eqn:P. cbn.
    apply (push_copies_good _ _ _ _ _ _ _ _ P G).
  - (* SRecv *) destruct (nth_error (sc_queues s) i) as [[|e r]|] eqn:N; try exact G. cbn.
    destruct (nth_error_split_set _ _ _ r N) as [qa [qb [E1 E2]]]. rewrite E2. rewrite E1 in G.
    eapply good_perm; [| exact G].
    rewrite !concat_app. cbn [concat]. rewrite <- !app_assoc. cbn [app].
    apply Permutation_app_head.
    (* sc_got ++ concat qa ++ e :: r ++ concat qb   ~   sc_got ++ [e] ++ concat qa ++ r ++ concat qb *)
    apply Permutation_app_head. symmetry. apply Permutation_middle.
  - (* SSetGot *) destruct (nth_error (sc_got s) k) as [[o w]|] eqn:N; [| exact G]. cbn.
    destruct (nth_error_split_set _ _ _ (o, v) N) as [a [b [E1 E2]]]. rewrite E2. rewrite E1 in G.
    rewrite <- !app_assoc in *. cbn [app] in *.
    rewrite (app_assoc (sc_mine s) a) in *. apply good_replace with (w := w). exact G.
Qed.

Lemma sc_init_inv n : SInv (sc_init n).
Proof.
  unfold SInv, entries, sc_init. cbn [sc_hp sc_nxt sc_mine sc_got sc_queues app].
  assert (concat (repeat (@nil entry) n) = []) as E by (induction n; cbn; auto). unfold entry in E. rewrite E.
  split; cbn; constructor.
Qed.

Lemma sc_run_inv n ops : SInv (sc_run true n ops).
Proof.
  unfold sc_run. generalize (sc_init_inv n). generalize (sc_init n). induction ops as [|op ops IH]; intros s G; cbn; [exact G|].
  apply IH. apply sc_step_inv. exact G.
Qed.

(* ---- the statement ---- *)
Theorem received_is_copy : forall n ops, let s := sc_run true n ops in
  (* every object a receiver holds has the value the sent object had when it was sent, or what the receiver itself wrote since *)
  map (fun e => sc_hp s (fst e)) (sc_got s) = map snd (sc_got s) /\
  (* every object of the caller has what the caller last wrote, whatever the receivers did *)
  map (fun e => sc_hp s (fst e)) (sc_mine s) = map snd (sc_mine s) /\
  (* no received object is one of the caller's objects, and no two received objects are the same object (fan-out: one copy per sub-port) *)
  (forall e m, In e (sc_got s) -> In m (sc_mine s) -> fst e <> fst m) /\ NoDup (map fst (sc_got s)).
Proof.
  intros n ops s. pose proof (sc_run_inv n ops) as G. fold s in G. unfold SInv, entries in G. destruct G as [ND F].
  rewrite Forall_forall in F.
  assert (forall l, (forall e, In e l -> In e ((sc_mine s ++ sc_got s) ++ concat (sc_queues s))) -> map (fun e => sc_hp s (fst e)) l = map snd l) as M.
  { intros l Hl. apply map_ext_in. intros e I. apply (F e (Hl e I)). }
  repeat split.
  - apply M. intros e I. apply in_or_app. left. apply in_or_app. right. exact I.
  - apply M. intros e I. apply in_or_app. left. apply in_or_app. left. exact I.
  - intros e m Ie Im Q. rewrite !map_app in ND. apply nodup_app_l in ND.
    revert Ie Im Q ND. generalize (sc_got s) (sc_mine s). intros g mi Ie Im Q ND.
    apply in_split in Im. destruct Im as [m1 [m2 Em]]. subst mi. rewrite map_app in ND. cbn in ND. rewrite <- app_assoc in ND. cbn in ND.
    apply NoDup_remove_2 in ND. apply ND. apply in_or_app. right. apply in_or_app. right. rewrite <- Q. apply in_map. exact Ie.
  - rewrite !map_app in ND. apply nodup_app_l in ND. apply nodup_app_r in ND. exact ND.
Qed.

(* the value recorded for a queued object is the sent object's value at the moment of the send, and receiving hands it over unchanged:
   read off the definitions; as a check, the queued objects satisfy the same agreement *)
Theorem queued_is_copy : forall n ops, let s := sc_run true n ops in
  Forall (fun q => map (fun e => sc_hp s (fst e)) q = map snd q) (sc_queues s).
Proof.
  intros n ops s. pose proof (sc_run_inv n ops) as G. fold s in G. unfold SInv, entries in G. destruct G as [_ F].
  rewrite Forall_forall in *. intros q Iq. apply map_ext_in. intros e I. apply F. apply in_or_app. right. apply in_concat. exists q. split; assumption.
Qed.

(* a port that stored the caller's object: an edit after the send changes what the receiver gets *)
Theorem alias_refuted : exists n ops, let s := sc_run false n ops in map (fun e => sc_hp s (fst e)) (sc_got s) <> map snd (sc_got s).
Proof. exists 1, [SNew 1%Z; SSend 0; SSet 0 2%Z; SRecv 0]. vm_compute. discriminate. Qed.

(* non-vacuity: a history with edits on both sides of a fan-out *)
Example copy_example :
  sc_observe (sc_run true 2 [SNew 5%Z; SSend 0; SSet 0 6%Z; SRecv 0; SRecv 1; SSetGot 0 9%Z; SSend 0; SRecv 1]) = ([9; 5; 6]%Z, [6%Z], false).
Proof. vm_compute. reflexivity. Qed.
