(* SmfProofs.v — MIDI file save then load preserves every track (C07). *)
From Coq Require Import ZArith List Bool Lia ZifyBool.
Require Import Mido.Model.Base Mido.Model.Codec Mido.Model.Varint Mido.Model.Meta Mido.Model.Smf.
Require Import Mido.Proofs.CodecProofs Mido.Proofs.VarintProofs Mido.Proofs.MetaProofs.
Import ListNotations.
Open Scope Z_scope.

Ltac mstep := unfold bind; cbv beta iota zeta.

(* ---- reader primitives on what the writer produces ---- *)
Lemma take_app n (a b : list Z) : length a = n -> take n (a ++ b) = Some (a, b).
Proof.
  intros <-. unfold take. rewrite app_length.
  destruct (Nat.ltb_spec (length a + length b) (length a)); [lia|].
  now rewrite firstn_app, Nat.sub_diag, firstn_all, firstn_O, app_nil_r, skipn_app, Nat.sub_diag, skipn_all.
Qed.
Lemma read_vi_enc n rest : 0 <= n -> read_vi (enc_varint n ++ rest) = Ok (n, rest).
Proof. intros H. unfold read_vi. now rewrite read_enc_varint. Qed.
Lemma read_bytes_app a rest : zlen a <= MAX_MESSAGE_LENGTH -> read_bytes (zlen a) (a ++ rest) = Ok (a, rest).
Proof.
  intros H. unfold read_bytes. destruct (MAX_MESSAGE_LENGTH <? zlen a) eqn:E; [lia|].
  destruct (zlen (a ++ rest) <? zlen a) eqn:E2; [unfold zlen in E2; rewrite app_length in E2; lia|].
  unfold zlen. rewrite Nat2Z.id, take_app by reflexivity. reflexivity.
Qed.

Lemma strip_ok d : data7 d -> strip_sysex (d ++ [247]) = d.
Proof.
  intros H. unfold strip_sysex.
  assert (E : match d ++ [247] with x :: t => if x =? 240 then t else d ++ [247] | [] => d ++ [247] end = d ++ [247]).
  { destruct d as [|x d]; [reflexivity|]. apply Forall_inv in H. cbn [app]. destruct (x =? 240) eqn:E; [lia|reflexivity]. }
  rewrite E, rev_app_distr. cbn [rev app]. change (247 =? 247) with true. cbv iota. apply rev_involutive.
Qed.

(* ---- what the encoding of a storable non-sysex message looks like to the reader ---- *)
Lemma enc_kind m : valid m = true -> kind_of m <> KSysex ->
  exists st ds, enc m = st :: ds /\ kind_of_status st = Some (kind_of m) /\ spec_length (kind_of m) = Some (1 + zlen ds) /\
    data7 ds /\ 128 <= st <= 255 /\ (st < 240 -> ds <> []) /\ (is_realtime (EMsg m) = false -> st <> 255) /\ st <> 240 /\ st <> 247.
Proof.
  intros Hv Hk. rewrite (layout m Hv). pose proof (valid_split m Hv) as Hs.
  destruct m; cbn [std_enc kind_of] in *; try congruence;
    eexists; eexists; (split; [reflexivity|]).
  1-7: match goal with |- kind_of_status (?b + ?c) = _ /\ _ => rewrite (kind_chan b c _ ltac:(cbn; tauto) ltac:(lia) eq_refl) end.
  all: cbn [spec_length zlen length is_realtime]; repeat split; try reflexivity; try lia; try discriminate;
    try (unfold data7; repeat constructor; try lia; Z.to_euclidean_division_equations; lia).
Qed.

Lemma spec_length_le k l : spec_length k = Some l -> 1 <= l <= 3.
Proof. destruct k; cbn; intros H; try discriminate; injection H as <-; lia. Qed.

Definition rs_inv (rs last : option Z) : Prop := forall s, rs = Some s -> 128 <= s < 240 /\ last = Some s.

(* what can be stored and read back as itself *)
Definition ev_ok (cs : codec) (e : event) : Prop :=
  match e with
  | EMsg m => valid m = true /\ is_realtime (EMsg m) = false /\ (forall d, m = Sysex d -> zlen d + 1 <= MAX_MESSAGE_LENGTH)
  | EMeta x => meta_rt x = true /\ (forall p, meta_payload cs x = Ok p -> zlen p <= MAX_MESSAGE_LENGTH)
  end.

Lemma data7_forallb d : data7 d -> forallb byte7 d = true.
Proof. induction 1; cbn; [reflexivity|]. unfold byte7 at 1. rewrite IHForall. lia. Qed.
Lemma data7_le127 d : data7 d -> forallb (fun b => b <=? 127) d = true.
Proof. induction 1; cbn; [reflexivity|]. rewrite IHForall. lia. Qed.

Lemma next_rs_msg m st ds : enc m = st :: ds -> kind_of m <> KSysex -> next_rs (EMsg m) = if st <? 240 then Some st else None.
Proof. intros He Hk. unfold next_rs. destruct m; try (rewrite He; reflexivity). cbn in Hk. congruence. Qed.

Theorem read_event_write cs rs last dt e rest body : codec_ok cs ->
  0 <= dt -> ev_ok cs e -> rs_inv rs last -> write_event cs rs (TInt dt, e) = Ok body ->
  exists last', read_event cs false last (body ++ rest) = Ok ((TInt dt, e), last', rest) /\ rs_inv (next_rs e) last'.
Proof.
  intros Hcs Hdt Hok Hinv Hw. unfold write_event in Hw. destruct (dt <? 0) eqn:E0; [lia|].
  destruct e as [m|x]; cbn [ev_ok] in Hok.
  - destruct Hok as (Hv & Hrt & Hsx). rewrite Hrt in Hw.
    destruct (kind_eq_dec_sysex m) as [[d ->]|Hk].
    + (* sysex *)
      revert Hw. mstep. intros Hw. injection Hw as <-. specialize (Hsx d eq_refl).
      pose proof (valid_split _ Hv) as Hd. cbn beta iota in Hd.
      unfold read_event. rewrite <- app_assoc, read_vi_enc by assumption. mstep. cbn [app].
      change (240 <? 128) with false. change (240 =? 255) with false. mstep. change ((240 =? 240) || (240 =? 247)) with true. mstep.
      rewrite <- app_assoc, read_vi_enc by (unfold zlen; lia). mstep.
      replace (zlen d + 1) with (zlen (d ++ [247])) by (unfold zlen; rewrite app_length; cbn [length]; lia).
      replace ((d ++ [247]) ++ rest) with ((d ++ [247]) ++ rest) by reflexivity. rewrite <- app_assoc.
      replace (d ++ [247] ++ rest) with ((d ++ [247]) ++ rest) by now rewrite <- app_assoc.
      rewrite read_bytes_app by (unfold zlen in *; rewrite app_length; cbn [length]; lia). mstep.
      rewrite strip_ok by assumption. unfold clip_bytes. rewrite (data7_forallb _ Hd).
      eexists. split; [reflexivity|]. intros s Hs. discriminate.
    + (* channel / system common *)
      destruct (enc_kind m Hv Hk) as (st & ds & He & Hks & Hlen & Hd & Hst & Hne & Hnrt & H240 & H247).
      specialize (Hnrt Hrt).
      assert (Hbody : body = enc_varint dt ++ (if opt_eqb rs st then ds else st :: ds)).
      { destruct m; try (cbn in Hk; congruence); rewrite He in Hw; revert Hw; mstep; intros Hw; congruence. }
      clear Hw. subst body. rewrite (next_rs_msg m st ds He Hk).
      unfold read_event. rewrite <- app_assoc, read_vi_enc by assumption. mstep.
      destruct (opt_eqb rs st) eqn:Ers.
      * (* running status *)
        destruct rs as [s|]; [|discriminate]. cbn in Ers. apply Z.eqb_eq in Ers. subst s.
        destruct (Hinv st eq_refl) as [Hr Hlast]. subst last.
        destruct ds as [|d1 ds']; [exfalso; apply Hne; [lia|reflexivity]|].
        pose proof (Forall_inv Hd) as Hd1. cbn beta in Hd1. cbn [app].
        destruct (d1 <? 128) eqn:Ed1; [|lia]. mstep.
        destruct (st =? 255) eqn:E255; [lia|]. destruct ((st =? 240) || (st =? 247)) eqn:E24; [lia|].
        rewrite Hks, Hlen. mstep.
        replace (1 + zlen (d1 :: ds') - 1 - zlen [d1]) with (zlen ds') by (unfold zlen; cbn [length]; lia).
        rewrite read_bytes_app by (pose proof (spec_length_le _ _ Hlen); unfold zlen, MAX_MESSAGE_LENGTH in *; cbn [length] in *; lia).
        mstep. cbn [app orb]. rewrite (data7_le127 _ Hd). unfold clip_bytes.
        rewrite <- He. unfold dec. rewrite (roundtrip true m Hv). mstep.
        eexists. split; [reflexivity|]. intros s Hs. destruct (st <? 240); inversion Hs; subst. split; [lia|reflexivity].
      * cbn [app]. destruct (st <? 128) eqn:E128; [lia|]. mstep.
        destruct (st =? 255) eqn:E255; [lia|]. mstep. destruct ((st =? 240) || (st =? 247)) eqn:E24; [lia|].
        rewrite Hks, Hlen. mstep.
        replace (1 + zlen ds - 1 - zlen (@nil Z)) with (zlen ds) by (unfold zlen; cbn [length]; lia).
        rewrite read_bytes_app by (pose proof (spec_length_le _ _ Hlen); unfold zlen, MAX_MESSAGE_LENGTH in *; lia).
        mstep. cbn [app orb]. rewrite (data7_le127 _ Hd). unfold clip_bytes.
        rewrite <- He. unfold dec. rewrite (roundtrip true m Hv). mstep.
        eexists. split; [reflexivity|]. intros s Hs. destruct (st <? 240) eqn:E4; inversion Hs; subst. split; [lia|reflexivity].
  - (* meta *)
    destruct Hok as [Hrt Hsz]. assert (is_realtime (EMeta x) = false) as Hn by reflexivity. rewrite Hn in Hw.
    unfold meta_bytes in Hw. destruct (meta_payload cs x) as [p|] eqn:Hp; revert Hw; mstep; intros Hw; [|discriminate].
    injection Hw as <-. specialize (Hsz p eq_refl). destruct (payload_roundtrip cs x p Hcs Hrt Hp) as [Hdec _].
    unfold read_event. rewrite <- app_assoc, read_vi_enc by assumption. mstep. cbn [app].
    change (255 <? 128) with false. change (255 =? 255) with true. mstep.
    rewrite <- app_assoc, read_vi_enc by (unfold zlen; lia). mstep.
    rewrite read_bytes_app by assumption. mstep. rewrite Hdec. mstep.
    eexists. split; [reflexivity|]. intros s Hs. discriminate.
Qed.

(* ---- the event loop ---- *)
Lemma write_event_time cs rs t e a : write_event cs rs (t, e) = Ok a -> exists dt, t = TInt dt /\ 0 <= dt /\ a <> [].
Proof.
  unfold write_event. destruct t as [dt|tok]; [|discriminate]. destruct (dt <? 0) eqn:E; [discriminate|].
  destruct (is_realtime e); [discriminate|].
  match goal with |- context [bind ?b _] => destruct b as [body|] end; mstep; [|discriminate].
  intros H. injection H as <-. exists dt. repeat split; [lia|].
  destruct (enc_varint_shape dt ltac:(lia)) as (hi & l & -> & _). destruct hi; discriminate.
Qed.

Lemma write_events_length cs : forall evs rs data, write_events cs rs evs = Ok data -> (length evs <= length data)%nat.
Proof.
  induction evs as [|[t e] r IH]; intros rs data H; cbn [write_events] in H; [cbn; lia|].
  destruct (write_event cs rs (t, e)) as [a|] eqn:Ea; revert H; mstep; [|discriminate].
  destruct (write_events cs (next_rs (snd (t, e))) r) as [b|] eqn:Eb; mstep; [|discriminate]. intros H; injection H as <-.
  destruct (write_event_time _ _ _ _ _ Ea) as (dt & _ & _ & Hne). specialize (IH _ _ Eb).
  rewrite app_length. cbn [length]. destruct a; [congruence|cbn [length]; lia].
Qed.

Theorem read_write_events cs : codec_ok cs -> forall evs fuel rs last rest data,
  Forall (fun te => ev_ok cs (snd te)) evs -> rs_inv rs last -> (length evs <= fuel)%nat ->
  write_events cs rs evs = Ok data ->
  read_events cs false fuel (zlen data) last (data ++ rest) = Ok (evs, rest).
Proof.
  intros Hcs. induction evs as [|[t e] r IH]; intros fuel rs last rest data Hall Hinv Hfuel Hw; cbn [write_events] in Hw.
  - injection Hw as <-. destruct fuel; reflexivity.
  - destruct (write_event cs rs (t, e)) as [a|] eqn:Ea; revert Hw; mstep; [|discriminate].
    destruct (write_events cs (next_rs (snd (t, e))) r) as [b|] eqn:Eb; mstep; [|discriminate]. intros Hw; injection Hw as <-.
    destruct (write_event_time _ _ _ _ _ Ea) as (dt & -> & Hdt & Hne).
    apply Forall_cons_iff in Hall as [Hok Hall']. cbn [snd] in *.
    destruct fuel as [|f]; [cbn [length] in Hfuel; lia|]. cbn [read_events].
    assert (Hpos : 0 < zlen a) by (unfold zlen; destruct a; [congruence|cbn [length]; lia]).
    destruct (zlen (a ++ b) =? 0) eqn:E0; [unfold zlen in *; rewrite app_length in E0; lia|].
    rewrite <- app_assoc.
    destruct (read_event_write cs rs last dt e (b ++ rest) a Hcs Hdt Hok Hinv Ea) as (last' & Hre & Hinv').
    rewrite Hre. mstep.
    replace (zlen (a ++ b) - (zlen (a ++ b ++ rest) - zlen (b ++ rest))) with (zlen b)
      by (unfold zlen; rewrite !app_length; lia).
    rewrite (IH f _ last' rest b Hall' Hinv' ltac:(cbn [length] in Hfuel; lia) Eb). reflexivity.
Qed.

(* ---- chunks and the header ---- *)
Lemma unbe32_be32 n : 0 <= n < 4294967296 ->
  match be32 n with [a; b; c; d] => unbe32 a b c d = n | _ => False end.
Proof.
  intros Hn. unfold be32, unbe32. rewrite !Z.shiftr_div_pow2 by lia.
  change (2 ^ 24) with 16777216. change (2 ^ 16) with 65536. change (2 ^ 8) with 256.
  Z.to_euclidean_division_equations. lia.
Qed.

Lemma pack_unpack z l : pack_h z = Ok l -> exists hi lo, l = [hi; lo] /\ unpack_h hi lo = z.
Proof.
  unfold pack_h. destruct ((-32768 <=? z) && (z <=? 32767)) eqn:E; [|discriminate]. intros H; injection H as <-.
  eexists; eexists; split; [reflexivity|]. unfold unpack_h. rewrite Z.shiftr_div_pow2 by lia. change (2 ^ 8) with 256.
  destruct (z mod 65536 / 256 * 256 + z mod 65536 mod 256 <? 32768) eqn:E2; Z.to_euclidean_division_equations; lia.
Qed.

Lemma fix_eot_events (P : event -> Prop) : P (EMeta MEot) -> forall tr a, Forall (fun te => P (snd te)) tr -> Forall (fun te => P (snd te)) (fix_eot_acc a tr).
Proof.
  intros He. induction tr as [|[t e] r IH]; intros a H; cbn [fix_eot_acc]; [repeat constructor; exact He|].
  apply Forall_cons_iff in H as [H1 H2]. destruct (is_eot e); [now apply IH|].
  destruct (truthy a); constructor; auto.
Qed.

Lemma ev_ok_eot cs : ev_ok cs (EMeta MEot).
Proof. split; [reflexivity|]. intros p H. injection H as <-. cbn. unfold MAX_MESSAGE_LENGTH. lia. Qed.

Definition track_ok cs (tr : list tev) : Prop := Forall (fun te => ev_ok cs (snd te)) tr.

Theorem read_write_track cs tr bytes_ rest : codec_ok cs -> track_ok cs tr -> write_track cs tr = Ok bytes_ ->
  read_track cs false (bytes_ ++ rest) = Ok (fix_eot tr, rest).
Proof.
  intros Hcs Hok Hw. unfold write_track in Hw. destruct (write_events cs None (fix_eot tr)) as [data|] eqn:Ed; revert Hw; mstep; [|discriminate].
  unfold write_chunk. destruct (zlen data <? 4294967296) eqn:E; [|discriminate]. intros Hw; injection Hw as <-.
  pose proof (unbe32_be32 (zlen data) ltac:(unfold zlen in *; lia)) as Hbe.
  unfold read_track. unfold MTrk at 1. cbn [app].
  unfold be32 in Hbe |- *. cbv iota in Hbe. cbn [app read_chunk_header]. mstep. rewrite Hbe.
  change (list_eqb [77; 84; 114; 107] [77; 84; 114; 107]) with true. mstep.
  apply (read_write_events cs Hcs (fix_eot tr) _ None None rest data).
  - apply fix_eot_events; [apply ev_ok_eot|exact Hok].
  - intros s Hs. discriminate.
  - pose proof (write_events_length cs _ _ _ Ed) as Hl. rewrite app_length. apply le_S. eapply Nat.le_trans; [exact Hl|apply Nat.le_add_r].
  - exact Ed.
Qed.

Theorem read_write_tracks cs : codec_ok cs -> forall trs bytes_ rest, Forall (track_ok cs) trs -> write_tracks cs trs = Ok bytes_ ->
  read_tracks cs false (length trs) (bytes_ ++ rest) = Ok (map fix_eot trs).
Proof.
  intros Hcs. induction trs as [|tr r IH]; intros bytes_ rest Hok Hw; cbn [write_tracks] in Hw; [reflexivity|].
  destruct (write_track cs tr) as [a|] eqn:Ea; revert Hw; mstep; [|discriminate].
  destruct (write_tracks cs r) as [b|] eqn:Eb; mstep; [|discriminate]. intros Hw; injection Hw as <-.
  apply Forall_cons_iff in Hok as [H1 H2]. cbn [length read_tracks map]. rewrite <- app_assoc.
  rewrite (read_write_track cs tr a (b ++ rest) Hcs H1 Ea). mstep. rewrite (IH b rest H2 eq_refl). reflexivity.
Qed.

Definition normalise (f : midifile) : midifile :=
  {| f_type := f_type f; f_tpb := f_tpb f; f_tracks := map fix_eot (f_tracks f) |}.
Definition file_ok cs (f : midifile) : Prop := Forall (track_ok cs) (f_tracks f).

Theorem save_load cs f bs : codec_ok cs -> file_ok cs f -> save cs f = Ok bs -> load cs false bs = Ok (normalise f).
Proof.
  intros Hcs Hok Hs. unfold save in Hs.
  destruct ((f_type f =? 0) && negb (length (f_tracks f) =? 1)%nat); [discriminate|].
  destruct (pack_h (f_type f)) as [a|] eqn:Ea; revert Hs; mstep; [|discriminate].
  destruct (pack_h (zlen (f_tracks f))) as [b|] eqn:Eb; mstep; [|discriminate].
  destruct (pack_h (f_tpb f)) as [c|] eqn:Ec; mstep; [|discriminate].
  destruct (write_tracks cs (f_tracks f)) as [body|] eqn:Et; mstep; [|discriminate].
  destruct (pack_unpack _ _ Ea) as (a1 & a2 & -> & Ha). destruct (pack_unpack _ _ Eb) as (b1 & b2 & -> & Hb).
  destruct (pack_unpack _ _ Ec) as (c1 & c2 & -> & Hc).
  unfold write_chunk. cbn [app zlen length]. change (Z.of_nat 6 <? 4294967296) with true. mstep. intros Hs; injection Hs as <-.
  unfold load, MThd, be32. cbn [app read_chunk_header]. mstep.
  change (negb (list_eqb [77; 84; 104; 100] [77; 84; 104; 100])) with false. mstep.
  repeat match goal with |- context [unbe32 ?a ?b ?c ?d] => change (unbe32 a b c d) with 6 end.
  rewrite Z.min_l by (unfold zlen; cbn [length]; lia). change (Z.to_nat 6) with 6%nat.
  cbn [firstn skipn]. rewrite Hb. unfold zlen. rewrite Nat2Z.id.
  rewrite <- (app_nil_r body). rewrite (read_write_tracks cs Hcs (f_tracks f) body [] Hok Et).
  mstep. unfold normalise. now rewrite Ha, Hc.
Qed.

(* ---- normalisation: exactly one end_of_track, at the end; idempotent ---- *)
Lemma fix_eot_shape : forall tr a, exists body t,
  fix_eot_acc a tr = body ++ [(t, EMeta MEot)] /\ Forall (fun te => is_eot (snd te) = false) body /\
  map snd body = filter (fun e => negb (is_eot e)) (map snd tr).
Proof.
  induction tr as [|[t e] r IH]; intros a; cbn [fix_eot_acc map filter].
  - exists [], a. repeat split; constructor.
  - cbn [snd]. destruct (is_eot e) eqn:E; cbn [negb].
    + apply IH.
    + destruct (IH (TInt 0)) as (body & t' & Hb & Hf & Hm). destruct (truthy a).
      * exists ((tadd a t, e) :: body), t'. rewrite Hb. repeat split; [constructor; assumption|cbn [map snd]; now rewrite Hm].
      * exists ((t, e) :: body), t'. rewrite Hb. repeat split; [constructor; assumption|cbn [map snd]; now rewrite Hm].
Qed.

Lemma fix_eot_noeot : forall body t, Forall (fun te => is_eot (snd te) = false) body ->
  fix_eot_acc (TInt 0) (body ++ [(t, EMeta MEot)]) = body ++ [(tadd (TInt 0) t, EMeta MEot)].
Proof.
  induction body as [|[t0 e0] r IH]; intros t Hf; cbn [app fix_eot_acc]; [reflexivity|].
  apply Forall_cons_iff in Hf as [H1 H2]. cbn [snd] in H1. rewrite H1. cbn [truthy Z.eqb negb]. f_equal. now apply IH.
Qed.

Theorem fix_eot_idem tr : fix_eot (fix_eot tr) = fix_eot tr.
Proof.
  unfold fix_eot. destruct (fix_eot_shape tr (TInt 0)) as (body & t & -> & Hf & _).
  rewrite fix_eot_noeot by assumption. destruct t; reflexivity.
Qed.

(* ---- what save can raise, and that unstorable content is refused ---- *)
Lemma write_event_raises cs rs te e : codec_ok cs -> write_event cs rs te = Raise e -> e = ValueError.
Proof.
  intros [_ Hc]. destruct te as [t ev]. unfold write_event. destruct t as [dt|tok]; [|intros H; now injection H as <-].
  destruct (dt <? 0); [intros H; now injection H as <-|]. destruct (is_realtime ev); [intros H; now injection H as <-|].
  destruct ev as [m|x].
  - destruct m; mstep; try discriminate; try (destruct (opt_eqb rs _); discriminate).
  - unfold meta_bytes. destruct (meta_payload cs x) as [p|e'] eqn:Hp; mstep; [discriminate|].
    intros H; injection H as <-. destruct x; cbn [meta_payload] in Hp; try discriminate. now apply Hc in Hp.
Qed.

Lemma write_events_raises cs : codec_ok cs -> forall evs rs e, write_events cs rs evs = Raise e -> e = ValueError.
Proof.
  intros Hcs. induction evs as [|te r IH]; intros rs e H; cbn [write_events] in H; [discriminate|].
  destruct (write_event cs rs te) as [a|e1] eqn:Ea; revert H; mstep.
  - destruct (write_events cs (next_rs (snd te)) r) as [b|e2] eqn:Eb; mstep; [discriminate|]. intros H; injection H as <-. eapply IH; eauto.
  - intros H; injection H as <-. eapply write_event_raises; eauto.
Qed.

Definition unstorable (te : tev) : bool :=
  match fst te with TFloat _ => true | TInt z => z <? 0 end || is_realtime (snd te).

Lemma write_events_unstorable cs : codec_ok cs -> forall evs rs, existsb unstorable evs = true -> write_events cs rs evs = Raise ValueError.
Proof.
  intros Hcs. induction evs as [|te r IH]; intros rs H; cbn [existsb] in H; [discriminate|]. cbn [write_events].
  destruct (write_event cs rs te) as [a|e1] eqn:Ea; mstep.
  - destruct (unstorable te) eqn:Eu.
    + exfalso. destruct te as [t ev]. unfold unstorable in Eu. cbn [fst snd] in Eu. unfold write_event in Ea.
      destruct t as [z|tok]; [|discriminate]. destruct (z <? 0); [discriminate|]. cbn [orb] in Eu. rewrite Eu in Ea. discriminate.
    + cbn [orb] in H. now rewrite (IH _ H).
  - now rewrite (write_event_raises cs rs te e1 Hcs Ea).
Qed.

Theorem save_raises cs f e : codec_ok cs -> save cs f = Raise e -> e = ValueError \/ e = StructError.
Proof.
  intros Hcs. unfold save. destruct ((f_type f =? 0) && negb (length (f_tracks f) =? 1)%nat); [intros H; injection H as <-; auto|].
  assert (Hp : forall z e', pack_h z = Raise e' -> e' = StructError).
  { intros z e'. unfold pack_h. destruct ((-32768 <=? z) && (z <=? 32767)); [discriminate|]. intros H; now injection H as <-. }
  destruct (pack_h (f_type f)) eqn:E1; mstep; [|intros H; injection H as <-; right; eapply Hp; eauto].
  destruct (pack_h (zlen (f_tracks f))) eqn:E2; mstep; [|intros H; injection H as <-; right; eapply Hp; eauto].
  destruct (pack_h (f_tpb f)) eqn:E3; mstep; [|intros H; injection H as <-; right; eapply Hp; eauto].
  assert (Ht : forall trs e', write_tracks cs trs = Raise e' -> e' = ValueError \/ e' = StructError).
  { induction trs as [|tr r IH]; intros e' H; cbn [write_tracks] in H; [discriminate|].
    destruct (write_track cs tr) as [wa|e1] eqn:Ea; revert H; mstep.
    - destruct (write_tracks cs r) as [wb|e2]; mstep; [discriminate|]. intros H; injection H as <-. now apply IH.
    - intros H; injection H as <-. unfold write_track in Ea.
      destruct (write_events cs None (fix_eot tr)) as [wd|e3] eqn:Ed; revert Ea; mstep.
      + unfold write_chunk. destruct (zlen wd <? 4294967296); [discriminate|]. intros H; injection H as <-; auto.
      + intros H; injection H as <-. left. eapply write_events_raises; eauto. }
  destruct (write_tracks cs (f_tracks f)) eqn:E4; mstep; [|intros H; injection H as <-; eapply Ht; eauto].
  unfold write_chunk. destruct (zlen _ <? 4294967296); mstep; [discriminate|]. intros H; injection H as <-; auto.
Qed.

Theorem save_rejects cs f : codec_ok cs -> existsb (fun tr => existsb unstorable (fix_eot tr)) (f_tracks f) = true ->
  is_raise (save cs f) = true.
Proof.
  intros Hcs Hu. unfold save. destruct ((f_type f =? 0) && negb (length (f_tracks f) =? 1)%nat); [reflexivity|].
  destruct (pack_h (f_type f)); mstep; [|reflexivity]. destruct (pack_h (zlen (f_tracks f))); mstep; [|reflexivity].
  destruct (pack_h (f_tpb f)); mstep; [|reflexivity].
  assert (Ht : forall trs, existsb (fun tr => existsb unstorable (fix_eot tr)) trs = true -> is_raise (write_tracks cs trs) = true).
  { induction trs as [|tr r IH]; intros H; cbn [existsb] in H; [discriminate|]. cbn [write_tracks].
    destruct (existsb unstorable (fix_eot tr)) eqn:E.
    - unfold write_track. rewrite (write_events_unstorable cs Hcs _ None E). reflexivity.
    - cbn [orb] in H. destruct (write_track cs tr); mstep; [|reflexivity]. specialize (IH H). destruct (write_tracks cs r); [discriminate|reflexivity]. }
  specialize (Ht _ Hu). destruct (write_tracks cs (f_tracks f)); [discriminate|reflexivity].
Qed.

Theorem save_type0 cs f : f_type f = 0 -> length (f_tracks f) <> 1%nat -> save cs f = Raise ValueError.
Proof.
  intros H0 H1. unfold save. rewrite H0. change (0 =? 0) with true. destruct (Nat.eqb_spec (length (f_tracks f)) 1); [contradiction|reflexivity].
Qed.
