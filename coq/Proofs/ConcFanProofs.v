(* ConcFanProofs.v — MultiPort fan-out under every schedule (C10): no call raises; every sub-port gets every message exactly once, all
   sub-ports in the same order (the order in which the senders got the MultiPort's lock); what a sub-port was given is what was popped
   from it plus what it still holds. *)
From Coq Require Import ZArith List Bool Arith Lia.
Require Import Mido.Model.Base Mido.Model.Codec Mido.Model.Conc Mido.Model.ConcMulti Mido.Model.ConcFan.
Require Import Mido.Proofs.ConcProofs Mido.Proofs.ConcMultiProofs.
Import ListNotations.
Open Scope nat_scope.

Definition fpoll_ok (p : pc) : bool := match p with RBool1 | RPop1 | RRel1 _ | LAcq | LBool | LPop | LRel _ _ | LSleep => true | _ => false end.
Definition fholds (p : fpc) (l : nat) : bool :=
  match p with
  | FSub _ _ | FRel0 => Nat.eqb l 0
  | FApp i _ | FRelSub i _ => Nat.eqb l 0 || Nat.eqb l (S i)
  | FPoll i inner => Nat.eqb l (S i) && inner_holds inner
  | _ => false
  end.
Definition sending (p : fpc) : bool := match p with FSub _ _ | FApp _ _ | FRelSub _ _ | FRel0 => true | _ => false end.

Definition ftinv (s : fshared) (t : tid) (th : fthread) : Prop :=
  (forall l, fholds (fat th) l = true -> flk s l = Some t) /\
  (forall i, (fat th = FPoll i RPop1 \/ fat th = FPoll i LPop) -> fq s (S i) <> []) /\
  (forall e, fat th <> FRaised e) /\
  (forall i p, fat th = FPoll i p -> fpoll_ok p = true) /\
  (forall i m, (fat th = FSub i m \/ fat th = FApp i m \/ fat th = FRelSub i m) -> i < fnsubs s /\ exists r, fprog th = FSend m :: r) /\
  (fat th = FRel0 -> exists m r, fprog th = FSend m :: r) /\
  (forall i p, fat th = FPoll i p -> (exists b r, fprog th = FRecv i b :: r) \/ (exists acc r, fprog th = FIterPending i acc :: r)).

(* the state of the fan-out, told by who holds the MultiPort's lock *)
Definition fgfan (s : fshared) (ts : tid -> fthread) : Prop :=
  match flk s 0 with
  | None => forall i, i < fnsubs s -> fsent s i = map snd (forder s)
  | Some t =>
      match fat (ts t) with
      | FSub j m | FApp j m => exists o, forder s = o ++ [(t, m)] /\ forall i, i < fnsubs s -> fsent s i = map snd o ++ (if i <? j then [m] else [])
      | FRelSub j m => exists o, forder s = o ++ [(t, m)] /\ forall i, i < fnsubs s -> fsent s i = map snd o ++ (if i <=? j then [m] else [])
      | FRel0 => forall i, i < fnsubs s -> fsent s i = map snd (forder s)
      | _ => False
      end
  end.
Definition fgdata (s : fshared) : Prop := forall i, fsent s i = map snd (fpopped s i) ++ fq s (S i).
Definition FInv (cf : fcfg) : Prop := let '(s, ts) := cf in (forall t, ftinv s t (ts t)) /\ fgfan s ts /\ fgdata s.

Lemma fupd_same ts t th : fupd ts t th t = th.
Proof. unfold fupd. now rewrite Nat.eqb_refl. Qed.
Lemma fupd_other ts t th u : u <> t -> fupd ts t th u = ts u.
Proof. intros H. unfold fupd. destruct (Nat.eqb_spec u t); congruence. Qed.

(* a step of another thread leaves alone what this thread's locks protect *)
Definition fframe (s s' : fshared) (u : tid) : Prop :=
  (forall l, flk s l = Some u -> flk s' l = Some u /\ (fq s l <> [] -> fq s' l <> [])) /\ fnsubs s' = fnsubs s.

Lemma ftinv_other s s' u th : ftinv s u th -> fframe s s' u -> ftinv s' u th.
Proof.
  intros (H1 & H2 & H3 & H4 & H5 & H6 & H7) (Fl & Fn).
  split; [|split; [|split; [|split; [|split; [|split]]]]]; auto.
  - intros l Hl. apply (Fl l), H1, Hl.
  - intros i Hp. assert (Hh : fholds (fat th) (S i) = true) by (destruct Hp as [-> | ->]; cbn [fholds inner_holds]; rewrite Nat.eqb_refl; reflexivity).
    apply (Fl (S i) (H1 (S i) Hh)), (H2 i), Hp.
  - intros i m Hp. rewrite Fn. apply (H5 i m Hp).
Qed.

Lemma fframe_acq s l t u : u <> t -> f_can s l t = true -> fframe s (f_set_lock s l (Some t)) u.
Proof.
  intros Hne Hc. split; [|reflexivity]. intros l' Ho. cbn [f_set_lock flk fq]. split; [|auto].
  destruct (Nat.eq_dec l' l) as [->|Hd]; [|now rewrite updf_other].
  unfold f_can in Hc. rewrite Ho in Hc. apply Nat.eqb_eq in Hc. congruence.
Qed.
Lemma fframe_rel s l t u : u <> t -> flk s l = Some t -> fframe s (f_set_lock s l None) u.
Proof.
  intros Hne Hc. split; [|reflexivity]. intros l' Ho. cbn [f_set_lock flk fq]. split; [|auto].
  destruct (Nat.eq_dec l' l) as [->|Hd]; [congruence|now rewrite updf_other].
Qed.
(* a step that changes only the deque of a port whose lock t holds *)
Lemma fframe_data s s' lq t u : u <> t -> flk s lq = Some t -> flk s' = flk s -> (forall l', l' <> lq -> fq s' l' = fq s l') -> fnsubs s' = fnsubs s ->
  fframe s s' u.
Proof.
  intros Hne Ht Hl Hq Hn. split; [|exact Hn]. intros l' Ho. rewrite Hl. split; [exact Ho|].
  destruct (Nat.eq_dec l' lq) as [->|Hd]; [congruence|now rewrite Hq].
Qed.
Lemma fframe_none s s' u : flk s' = flk s -> fq s' = fq s -> fnsubs s' = fnsubs s -> fframe s s' u.
Proof. intros E1 E2 E3. split; [|exact E3]. intros l Ho. rewrite E1, E2. auto. Qed.

Lemma f_others s s' ts t th' : (forall u, ftinv s u (ts u)) -> ftinv s' t th' -> (forall u, u <> t -> fframe s s' u) -> forall u, ftinv s' u (fupd ts t th' u).
Proof.
  intros Hall Hme Hfr u. destruct (Nat.eq_dec u t) as [->|Hne]; [now rewrite fupd_same|].
  rewrite fupd_other by exact Hne. eapply ftinv_other; eauto.
Qed.

(* a thread that is not sending does not hold the MultiPort's lock *)
Lemma not_owner s ts t : fgfan s ts -> sending (fat (ts t)) = false -> flk s 0 <> Some t.
Proof. unfold fgfan. intros G Hs Ho. rewrite Ho in G. destruct (fat (ts t)); try discriminate; exact G. Qed.

(* a step of a thread that is not sending, and that touches neither the order nor what was sent nor the MultiPort's lock, keeps the fan-out state *)
Lemma fgfan_keep s s' ts t th' : fgfan s ts -> sending (fat (ts t)) = false ->
  flk s' 0 = flk s 0 -> fnsubs s' = fnsubs s -> forder s' = forder s -> fsent s' = fsent s -> fgfan s' (fupd ts t th').
Proof.
  intros G Hs El En Eo Es. pose proof (not_owner s ts t G Hs) as Hno. unfold fgfan in *. rewrite El, En, Eo, Es.
  destruct (flk s 0) as [t0|]; [|exact G]. assert (t0 <> t) by congruence. rewrite fupd_other by assumption. exact G.
Qed.

Lemma fgdata_eq s s' : fq s' = fq s -> fsent s' = fsent s -> fpopped s' = fpopped s -> fgdata s -> fgdata s'.
Proof. unfold fgdata. intros -> -> ->. auto. Qed.

Ltac fsplit := (split; [|split; [|split; [|split; [|split; [|split]]]]]);
  cbn [fset_pc f_finish_recv f_finish_send fat fprog fholds inner_holds fpoll_ok];
  try solve [discriminate | intros; discriminate | intros [?|?]; discriminate | intros ? [?|?]; discriminate | intros ? ? [?|[?|?]]; discriminate | intros ? ? ?; discriminate | auto].

Ltac c_lock := intros l Hl; rewrite ?andb_true_r in Hl; apply Nat.eqb_eq in Hl; subst l; cbn [flk f_set_lock]; rewrite ?updf_same; solve [auto | rewrite updf_other by discriminate; auto].
Ltac c_fromprog := match goal with Ep : fprog _ = _ |- _ => intros i0 p0 H0; injection H0 as <- _; rewrite Ep; eauto end.
Ltac c_pollok := intros i0 p0 H0; injection H0 as <- <-; reflexivity.
Ltac fkeep E := eapply fgfan_keep; eauto; try reflexivity; try solve [rewrite E; reflexivity]; try solve [cbn [flk f_set_lock]; now rewrite updf_other].
Ltac c_nonempty := intros i0 [H0|H0]; try discriminate; injection H0 as <-; congruence.
Ltac c_recvop := match goal with Hop : _ \/ _ |- _ => intros i0 p0 H0; injection H0 as <- _; exact Hop end.
Ltac c_nolock := intros l Hl; rewrite andb_false_r in Hl; discriminate.
Ltac fclose := try solve [c_nolock | c_lock | c_pollok | c_nonempty | c_recvop | c_fromprog].

Lemma ftinv_start s t th : fat th = FStart -> ftinv s t th.
Proof. intros E. unfold ftinv. rewrite E. fsplit. Qed.
Lemma finish_recv_start th r i : ((exists b r0, fprog th = FRecv i b :: r0) \/ (exists acc r0, fprog th = FIterPending i acc :: r0)) -> fat (f_finish_recv th r) = FStart.
Proof. intros [(b & r0 & E)|(acc & r0 & E)]; unfold f_finish_recv; rewrite E; [reflexivity|destruct r; reflexivity]. Qed.

Lemma pop_data s t i m r : flk s (S i) = Some t -> fq s (S i) = m :: r -> fgdata s -> fgdata (f_pop s t i m r).
Proof.
  intros Ho Eq Hd j. cbn [f_pop fsent fpopped fq]. destruct (Nat.eq_dec j i) as [->|Hne].
  - rewrite !updf_same, map_app, (Hd i), Eq. cbn [map snd]. now rewrite <- app_assoc.
  - rewrite updf_other by exact Hne. rewrite updf_other by congruence. apply Hd.
Qed.

Lemma fstep_inv cf t : FInv cf -> FInv (fstep cf t).
Proof.
  destruct cf as [s ts]. intros (Hall & Hg & Hd). unfold fstep.
  destruct (fstep_thread s t (ts t)) as [[s' th']|] eqn:E; [|exact (conj Hall (conj Hg Hd))].
  pose proof (Hall t) as (M1 & M2 & M3 & M4 & M5 & M6 & M7). unfold fstep_thread in E.
  destruct (fat (ts t)) as [ | j m | j m | j m | | j p | e] eqn:Epc.
  - (* FStart *)
    destruct (fprog (ts t)) as [|o r] eqn:Ep; [discriminate|]. destruct o as [m|i b|i acc].
    + (* send on the MultiPort *)
      destruct (f_can s 0 t) eqn:Ec; [|discriminate]. apply Ok_some in E. destruct E as [<- <-].
      assert (Hfree : flk s 0 = None).
      { destruct (flk s 0) as [t0|] eqn:El; [|reflexivity]. exfalso. unfold f_can in Ec. rewrite El in Ec. apply Nat.eqb_eq in Ec. subst t0.
        eapply not_owner; eauto. rewrite Epc. reflexivity. }
      split; [|split].
      * eapply f_others with (s := s); [exact Hall| |].
        -- destruct (0 <? fnsubs s) eqn:En; fsplit.
           ++ intros l Hl. apply Nat.eqb_eq in Hl. subst l. cbn [flk f_set_lock]. now rewrite updf_same.
           ++ intros i m0 [H0|[H0|H0]]; try discriminate. injection H0 as <- <-. cbn [fnsubs f_set_lock]. apply Nat.ltb_lt in En. split; [exact En|]. rewrite Ep. eauto.
           ++ intros l Hl. apply Nat.eqb_eq in Hl. subst l. cbn [flk f_set_lock]. now rewrite updf_same.
           ++ intros _. rewrite Ep. eauto.
        -- intros u Hne. destruct (fframe_acq s 0 t u Hne Ec) as [F1 F2]. split; [exact F1|exact F2].
      * unfold fgfan. cbn [flk f_set_lock fnsubs forder fsent]. rewrite updf_same, fupd_same. unfold fgfan in Hg. rewrite Hfree in Hg.
        destruct (0 <? fnsubs s) eqn:En; cbn [fset_pc fat].
        -- exists (forder s). split; [reflexivity|]. intros i Hi. rewrite (Hg i Hi). cbn. now rewrite app_nil_r.
        -- apply Nat.ltb_ge in En. intros i Hi. lia.
      * revert Hd. apply fgdata_eq; reflexivity.
    + (* receive on a sub-port *)
      destruct (f_can s (S i) t) eqn:Ec; [|discriminate]. apply Ok_some in E. destruct E as [<- <-].
      split; [|split].
      * eapply f_others with (s := s); [exact Hall| |intros u Hne; exact (fframe_acq s (S i) t u Hne Ec)].
        fsplit; fclose.
      * fkeep Epc.
      * revert Hd. apply fgdata_eq; reflexivity.
    + destruct (f_can s (S i) t) eqn:Ec; [|discriminate]. apply Ok_some in E. destruct E as [<- <-].
      split; [|split].
      * eapply f_others with (s := s); [exact Hall| |intros u Hne; exact (fframe_acq s (S i) t u Hne Ec)].
        fsplit; fclose.
      * fkeep Epc.
      * revert Hd. apply fgdata_eq; reflexivity.
  - (* FSub: take the sub-port's lock *)
    destruct (f_can s (S j) t) eqn:Ec; [|discriminate]. apply Ok_some in E. destruct E as [<- <-].
    assert (Ho : flk s 0 = Some t) by (apply M1; reflexivity).
    destruct (M5 j m (or_introl eq_refl)) as [Hj Hr].
    split; [|split].
    + eapply f_others with (s := s); [exact Hall| |intros u Hne; exact (fframe_acq s (S j) t u Hne Ec)].
      fsplit.
      * intros l Hl. apply orb_true_iff in Hl. destruct Hl as [Hl|Hl]; apply Nat.eqb_eq in Hl; subst l; cbn [flk f_set_lock]; [rewrite updf_other by discriminate; exact Ho|now rewrite updf_same].
      * intros i m0 [H0|[H0|H0]]; try discriminate. injection H0 as <- <-. cbn [fnsubs f_set_lock]. auto.
    + unfold fgfan in *. cbn [flk f_set_lock fnsubs forder fsent]. rewrite updf_other by discriminate. rewrite Ho in *. rewrite fupd_same. rewrite Epc in Hg. cbn [fset_pc fat]. exact Hg.
    + revert Hd. apply fgdata_eq; reflexivity.
  - (* FApp: append *)
    apply Ok_some in E. destruct E as [<- <-].
    assert (Ho : flk s 0 = Some t) by (apply M1; reflexivity).
    assert (Hs : flk s (S j) = Some t) by (apply M1; cbn [fholds]; rewrite Nat.eqb_refl; apply orb_true_r).
    destruct (M5 j m (or_intror (or_introl eq_refl))) as [Hj Hr].
    split; [|split].
    + eapply f_others with (s := s); [exact Hall| |intros u Hne; apply (fframe_data s _ (S j) t u Hne Hs); [reflexivity|intros l' Hl'; cbn [fq]; now rewrite updf_other|reflexivity]].
      fsplit.
      * intros i m0 [H0|[H0|H0]]; try discriminate. injection H0 as <- <-. cbn [fnsubs]. auto.
    + unfold fgfan in *. cbn [flk fnsubs forder fsent]. rewrite Ho in *. rewrite fupd_same. rewrite Epc in Hg. cbn [fset_pc fat].
      destruct Hg as (o & Eo & Hs'). exists o. split; [exact Eo|]. intros i Hi.
      destruct (Nat.eq_dec i j) as [->|Hne].
      * rewrite updf_same, (Hs' j Hi), Nat.ltb_irrefl, Nat.leb_refl. now rewrite app_nil_r.
      * rewrite updf_other by exact Hne. rewrite (Hs' i Hi).
        destruct (i <? j) eqn:E1; destruct (i <=? j) eqn:E2; try reflexivity.
        -- apply Nat.ltb_lt in E1. apply Nat.leb_gt in E2. lia.
        -- apply Nat.ltb_ge in E1. apply Nat.leb_le in E2. lia.
    + intros i. cbn [fsent fpopped fq]. destruct (Nat.eq_dec i j) as [->|Hne].
      * rewrite !updf_same, (Hd j). now rewrite app_assoc.
      * rewrite updf_other by exact Hne. rewrite updf_other by congruence. apply Hd.
  - (* FRelSub: release the sub-port's lock, go on *)
    apply Ok_some in E. destruct E as [<- <-].
    assert (Ho : flk s 0 = Some t) by (apply M1; reflexivity).
    assert (Hs : flk s (S j) = Some t) by (apply M1; cbn [fholds]; rewrite Nat.eqb_refl; apply orb_true_r).
    destruct (M5 j m (or_intror (or_intror eq_refl))) as [Hj [r Hr]].
    split; [|split].
    + eapply f_others with (s := s); [exact Hall| |intros u Hne; exact (fframe_rel s (S j) t u Hne Hs)].
      unfold f_next. destruct (S j <? fnsubs s) eqn:En; fsplit.
      * intros l Hl. apply Nat.eqb_eq in Hl. subst l. cbn [flk f_set_lock]. rewrite updf_other by discriminate. exact Ho.
      * intros i m0 [H0|[H0|H0]]; try discriminate. injection H0 as <- <-. cbn [fnsubs f_set_lock]. apply Nat.ltb_lt in En. eauto.
      * intros l Hl. apply Nat.eqb_eq in Hl. subst l. cbn [flk f_set_lock]. rewrite updf_other by discriminate. exact Ho.
      * intros _. eauto.
    + unfold fgfan in *. cbn [flk f_set_lock fnsubs forder fsent]. rewrite updf_other by discriminate. rewrite Ho in *. rewrite fupd_same. rewrite Epc in Hg.
      destruct Hg as (o & Eo & Hs'). unfold f_next. destruct (S j <? fnsubs s) eqn:En; cbn [fset_pc fat].
      * exists o. split; [exact Eo|]. intros i Hi. rewrite (Hs' i Hi).
        destruct (i <=? j) eqn:E1; destruct (i <? S j) eqn:E2; try reflexivity.
        -- apply Nat.leb_le in E1. apply Nat.ltb_ge in E2. lia.
        -- apply Nat.leb_gt in E1. apply Nat.ltb_lt in E2. lia.
      * apply Nat.ltb_ge in En. intros i Hi. rewrite (Hs' i Hi), Eo, map_app. cbn [map snd].
        assert (E1 : (i <=? j) = true) by (apply Nat.leb_le; lia). now rewrite E1.
    + revert Hd. apply fgdata_eq; reflexivity.
  - (* FRel0: release the MultiPort's lock *)
    apply Ok_some in E. destruct E as [<- <-].
    assert (Ho : flk s 0 = Some t) by (apply M1; reflexivity).
    split; [|split].
    + eapply f_others with (s := s); [exact Hall| |intros u Hne; exact (fframe_rel s 0 t u Hne Ho)]. fsplit.
    + unfold fgfan in *. cbn [flk f_set_lock fnsubs forder fsent]. rewrite updf_same. rewrite Ho in Hg. rewrite Epc in Hg. exact Hg.
    + revert Hd. apply fgdata_eq; reflexivity.
  - (* FPoll: a receive on a sub-port *)
    assert (Hns : sending (fat (ts t)) = false) by (rewrite Epc; reflexivity).
    pose proof (M4 j p eq_refl) as Hok. pose proof (M7 j p eq_refl) as Hop.
    destruct p; try discriminate.
    + (* RBool1 *)
      apply Ok_some in E. destruct E as [<- <-]. assert (Ho : flk s (S j) = Some t) by (apply M1; cbn [fholds inner_holds]; rewrite Nat.eqb_refl; reflexivity).
      split; [|split; [|exact Hd]].
      * eapply f_others with (s := s); [exact Hall| |intros u Hne; apply fframe_none; reflexivity].
        destruct (fq s (S j)) eqn:Eq; fsplit; fclose.
      * fkeep Epc.
    + (* RPop1 *)
      assert (Ho : flk s (S j) = Some t) by (apply M1; cbn [fholds inner_holds]; rewrite Nat.eqb_refl; reflexivity).
      destruct (fq s (S j)) as [|m r] eqn:Eq; [exfalso; apply (M2 j); auto|]. apply Ok_some in E. destruct E as [<- <-].
      split; [|split].
      * eapply f_others with (s := s); [exact Hall| |intros u Hne; apply (fframe_data s _ (S j) t u Hne Ho); [reflexivity|intros l' Hl'; cbn [f_pop fq]; now rewrite updf_other|reflexivity]].
        fsplit; fclose.
      * fkeep Epc.
      * apply pop_data; assumption.
    + (* RRel1 *)
      assert (Ho : flk s (S j) = Some t) by (apply M1; cbn [fholds inner_holds]; rewrite Nat.eqb_refl; reflexivity).
      apply Ok_some in E. destruct E as [<- <-].
      split; [|split].
      * eapply f_others with (s := s); [exact Hall| |intros u Hne; exact (fframe_rel s (S j) t u Hne Ho)].
        destruct r as [m|].
        -- apply ftinv_start. eapply finish_recv_start; eauto.
        -- fsplit; fclose.
      * fkeep Epc.
      * revert Hd. apply fgdata_eq; reflexivity.
    + (* LAcq *)
      destruct (f_can s (S j) t) eqn:Ec; [|discriminate]. apply Ok_some in E. destruct E as [<- <-].
      split; [|split].
      * eapply f_others with (s := s); [exact Hall| |intros u Hne; exact (fframe_acq s (S j) t u Hne Ec)].
        fsplit; fclose.
      * fkeep Epc.
      * revert Hd. apply fgdata_eq; reflexivity.
    + (* LBool *)
      apply Ok_some in E. destruct E as [<- <-]. assert (Ho : flk s (S j) = Some t) by (apply M1; cbn [fholds inner_holds]; rewrite Nat.eqb_refl; reflexivity).
      split; [|split; [|exact Hd]].
      * eapply f_others with (s := s); [exact Hall| |intros u Hne; apply fframe_none; reflexivity].
        destruct (fq s (S j)) eqn:Eq; fsplit; fclose.
      * fkeep Epc.
    + (* LPop *)
      assert (Ho : flk s (S j) = Some t) by (apply M1; cbn [fholds inner_holds]; rewrite Nat.eqb_refl; reflexivity).
      destruct (fq s (S j)) as [|m r] eqn:Eq; [exfalso; apply (M2 j); auto|]. apply Ok_some in E. destruct E as [<- <-].
      split; [|split].
      * eapply f_others with (s := s); [exact Hall| |intros u Hne; apply (fframe_data s _ (S j) t u Hne Ho); [reflexivity|intros l' Hl'; cbn [f_pop fq]; now rewrite updf_other|reflexivity]].
        fsplit; fclose.
      * fkeep Epc.
      * apply pop_data; assumption.
    + (* LRel *)
      assert (Ho : flk s (S j) = Some t) by (apply M1; cbn [fholds inner_holds]; rewrite Nat.eqb_refl; reflexivity).
      apply Ok_some in E. destruct E as [<- <-].
      split; [|split].
      * eapply f_others with (s := s); [exact Hall| |intros u Hne; exact (fframe_rel s (S j) t u Hne Ho)].
        destruct slp.
        -- fsplit; fclose.
        -- apply ftinv_start. eapply finish_recv_start; eauto.
      * fkeep Epc.
      * revert Hd. apply fgdata_eq; reflexivity.
    + (* LSleep *)
      apply Ok_some in E. destruct E as [<- <-].
      split; [|split].
      * eapply f_others with (s := s); [exact Hall| |intros u Hne; apply fframe_none; reflexivity].
        fsplit; fclose.
      * fkeep Epc.
      * revert Hd. apply fgdata_eq; reflexivity.
  - discriminate.
Qed.

Lemma finit_inv n progs : FInv (finit n progs).
Proof.
  unfold FInv, finit. split; [|split].
  - intros t. apply ftinv_start. reflexivity.
  - unfold fgfan. cbn. intros i _. reflexivity.
  - intros i. reflexivity.
Qed.
Lemma frun_inv : forall sched cf, FInv cf -> FInv (frun sched cf).
Proof. induction sched as [|t r IH]; intros cf H; cbn [frun fold_left]; [exact H|]. apply IH, fstep_inv, H. Qed.

(* ---- per-sender order ---- *)
Definition fsends (p : list fop) : list msg := flat_map (fun o => match o with FSend m => [m] | _ => [] end) p.
(* the sends of a thread that are not yet in [forder] *)
Definition fpending (th : fthread) : list msg := if sending (fat th) then fsends (tl (fprog th)) else fsends (fprog th).

Section FOrder.
Variable progs : tid -> list fop.
Definition FSinv (cf : fcfg) : Prop := let '(s, ts) := cf in forall t, fsends (progs t) = mine t (forder s) ++ fpending (ts t).

Lemma fstep_sends cf t : FInv cf -> FSinv cf -> FSinv (fstep cf t).
Proof.
  destruct cf as [s ts]. intros (Hall & _ & _) HS. unfold fstep.
  destruct (fstep_thread s t (ts t)) as [[s' th']|] eqn:E; [|exact HS].
  pose proof (Hall t) as (M1 & M2 & M3 & M4 & M5 & M6 & M7). pose proof (HS t) as St.
  unfold fstep_thread in E.
  change (forall u, fsends (progs u) = mine u (forder s') ++ fpending (fupd ts t th' u)).
  assert (Hsame : forall th2, forder s' = forder s -> fpending th2 = fpending (ts t) -> forall u, fsends (progs u) = mine u (forder s') ++ fpending (fupd ts t th2 u)).
  { intros th2 Hst Hp u. rewrite Hst. destruct (Nat.eq_dec u t) as [->|Hne]; [rewrite fupd_same, Hp; exact St|rewrite fupd_other by exact Hne; apply HS]. }
  destruct (fat (ts t)) as [ | j m | j m | j m | | j p | e] eqn:Epc.
  - destruct (fprog (ts t)) as [|o r] eqn:Ep; [discriminate|]. destruct o as [m|i b|i acc].
    + destruct (f_can s 0 t); [|discriminate]. apply Ok_some in E. destruct E as [<- <-]. intros u. cbn [forder f_set_lock]. rewrite mine_app. cbn [fst snd].
      assert (Hp : fpending (ts t) = m :: fpending (fset_pc (ts t) (if 0 <? fnsubs s then FSub 0 m else FRel0))).
      { unfold fpending. rewrite Epc. cbn [sending fset_pc fat fprog]. rewrite Ep. destruct (0 <? fnsubs s); reflexivity. }
      destruct (Nat.eq_dec u t) as [->|Hne].
      * rewrite fupd_same, Nat.eqb_refl, St, Hp, <- app_assoc. reflexivity.
      * rewrite fupd_other by exact Hne. replace (Nat.eqb t u) with false by (symmetry; apply Nat.eqb_neq; congruence). rewrite app_nil_r. apply HS.
    + destruct (f_can s (S i) t); [|discriminate]. apply Ok_some in E. destruct E as [<- <-]. apply Hsame; [reflexivity|]. unfold fpending. cbn [fset_pc fat fprog sending]. now rewrite Epc.
    + destruct (f_can s (S i) t); [|discriminate]. apply Ok_some in E. destruct E as [<- <-]. apply Hsame; [reflexivity|]. unfold fpending. cbn [fset_pc fat fprog sending]. now rewrite Epc.
  - destruct (f_can s (S j) t); [|discriminate]. apply Ok_some in E. destruct E as [<- <-]. apply Hsame; [reflexivity|]. unfold fpending. cbn [fset_pc fat fprog sending]. now rewrite Epc.
  - apply Ok_some in E. destruct E as [<- <-]. apply Hsame; [reflexivity|]. unfold fpending. cbn [fset_pc fat fprog sending]. now rewrite Epc.
  - apply Ok_some in E. destruct E as [<- <-]. apply Hsame; [reflexivity|]. unfold fpending, f_next. cbn [fset_pc fat fprog sending]. rewrite Epc. destruct (S j <? fnsubs s); reflexivity.
  - apply Ok_some in E. destruct E as [<- <-]. apply Hsame; [reflexivity|]. unfold fpending, f_finish_send. cbn [fat fprog sending]. now rewrite Epc.
  - pose proof (M7 j p eq_refl) as Hop.
    assert (Hfin : forall r, fpending (f_finish_recv (ts t) r) = fpending (ts t)).
    { intros r. unfold fpending at 2. rewrite Epc. cbn [sending]. unfold f_finish_recv, fpending.
      destruct Hop as [(b & r0 & Ep)|(acc & r0 & Ep)]; rewrite Ep; [|destruct r]; cbn [fat sending fprog]; unfold fsends; cbn [flat_map app]; reflexivity. }
    assert (Hpc : forall p', fpending (fset_pc (ts t) (FPoll j p')) = fpending (ts t)) by (intros p'; unfold fpending; cbn [fset_pc fat fprog sending]; now rewrite Epc).
    destruct p; try discriminate.
    + apply Ok_some in E. destruct E as [<- <-]. apply Hsame; [reflexivity|apply Hpc].
    + destruct (fq s (S j)) as [|m r]; apply Ok_some in E; destruct E as [<- <-]; (apply Hsame; [reflexivity|]); [unfold fpending; cbn [fset_pc fat fprog sending]; now rewrite Epc|apply Hpc].
    + apply Ok_some in E. destruct E as [<- <-]. apply Hsame; [reflexivity|]. destruct r; [apply Hfin|apply Hpc].
    + destruct (f_can s (S j) t); [|discriminate]. apply Ok_some in E. destruct E as [<- <-]. apply Hsame; [reflexivity|apply Hpc].
    + apply Ok_some in E. destruct E as [<- <-]. apply Hsame; [reflexivity|apply Hpc].
    + destruct (fq s (S j)) as [|m r]; apply Ok_some in E; destruct E as [<- <-]; (apply Hsame; [reflexivity|]); [unfold fpending; cbn [fset_pc fat fprog sending]; now rewrite Epc|apply Hpc].
    + apply Ok_some in E. destruct E as [<- <-]. apply Hsame; [reflexivity|]. destruct slp; [apply Hpc|apply Hfin].
    + apply Ok_some in E. destruct E as [<- <-]. apply Hsame; [reflexivity|apply Hpc].
  - discriminate.
Qed.

Lemma frun_sends : forall sched cf, FInv cf -> FSinv cf -> FSinv (frun sched cf).
Proof. induction sched as [|t r IH]; intros cf H HS; cbn [frun fold_left]; [exact HS|]. apply IH; [apply fstep_inv; assumption|apply fstep_sends; assumption]. Qed.
End FOrder.

(* ---- the statements ---- *)
Theorem fan_no_raise n progs sched t e : fat (snd (frun sched (finit n progs)) t) <> FRaised e.
Proof.
  pose proof (frun_inv sched _ (finit_inv n progs)) as H. destruct (frun sched (finit n progs)) as [s ts]. destruct H as (Hall & _ & _).
  destruct (Hall t) as (_ & _ & H3 & _). apply H3.
Qed.

(* every sub-port: what it was given = what was popped from it, in order, followed by what it still holds *)
Theorem fan_exactly_once n progs sched : let s := fst (frun sched (finit n progs)) in forall i, fsent s i = map snd (fpopped s i) ++ fq s (S i).
Proof.
  pose proof (frun_inv sched _ (finit_inv n progs)) as H. destruct (frun sched (finit n progs)) as [s ts]. destruct H as (_ & _ & Hd). exact Hd.
Qed.

(* every sub-port is given the messages in ONE order - the order in which the senders got the MultiPort's lock - and is at most the one message
   of the send in progress behind; when no send is in progress every sub-port has been given every message *)
Theorem fan_all_subports_same_order n progs sched : let s := fst (frun sched (finit n progs)) in
  forall i, i < n -> exists rest, fsent s i ++ rest = map snd (forder s) /\ length rest <= 1 /\ (flk s 0 = None -> rest = []).
Proof.
  pose proof (frun_inv sched _ (finit_inv n progs)) as H.
  assert (Hn : fnsubs (fst (frun sched (finit n progs))) = n).
  { clear H. assert (G : forall cf, fnsubs (fst cf) = n -> fnsubs (fst (frun sched cf)) = n).
    { induction sched as [|t r IH]; intros cf Hc; cbn [frun fold_left]; [exact Hc|]. apply IH. destruct cf as [s ts]. unfold fstep.
      destruct (fstep_thread s t (ts t)) as [[s' th']|] eqn:E; [|exact Hc]. cbn [fst] in *. unfold fstep_thread in E.
      destruct (fat (ts t)) as [ | j m | j m | j m | | j p | e].
      - destruct (fprog (ts t)) as [|[m|i b|i acc] r0]; try discriminate; [destruct (f_can s 0 t)|destruct (f_can s (S i) t)|destruct (f_can s (S i) t)]; try discriminate;
          apply Ok_some in E; destruct E as [<- _]; exact Hc.
      - destruct (f_can s (S j) t); [|discriminate]. apply Ok_some in E; destruct E as [<- _]; exact Hc.
      - apply Ok_some in E; destruct E as [<- _]; exact Hc.
      - apply Ok_some in E; destruct E as [<- _]; exact Hc.
      - apply Ok_some in E; destruct E as [<- _]; exact Hc.
      - destruct p; try discriminate; try (destruct (fq s (S j))); try (destruct (f_can s (S j) t)); try discriminate; apply Ok_some in E; destruct E as [<- _]; exact Hc.
      - discriminate. }
    apply G. reflexivity. }
  destruct (frun sched (finit n progs)) as [s ts]. destruct H as (_ & Hg & _). cbn [fst] in *. intros i Hi. rewrite <- Hn in Hi.
  unfold fgfan in Hg. destruct (flk s 0) as [t0|] eqn:El.
  - destruct (fat (ts t0)) as [ | j m | j m | j m | | j p | e]; try contradiction.
    + destruct Hg as (o & Eo & Hs). rewrite (Hs i Hi), Eo, map_app. cbn [map snd]. destruct (i <? j).
      * exists []. rewrite app_nil_r. split; [reflexivity|split; [cbn; lia|discriminate]].
      * exists [m]. rewrite app_nil_r. split; [reflexivity|split; [cbn; lia|discriminate]].
    + destruct Hg as (o & Eo & Hs). rewrite (Hs i Hi), Eo, map_app. cbn [map snd]. destruct (i <? j).
      * exists []. rewrite app_nil_r. split; [reflexivity|split; [cbn; lia|discriminate]].
      * exists [m]. rewrite app_nil_r. split; [reflexivity|split; [cbn; lia|discriminate]].
    + destruct Hg as (o & Eo & Hs). rewrite (Hs i Hi), Eo, map_app. cbn [map snd]. destruct (i <=? j).
      * exists []. rewrite app_nil_r. split; [reflexivity|split; [cbn; lia|discriminate]].
      * exists [m]. rewrite app_nil_r. split; [reflexivity|split; [cbn; lia|discriminate]].
    + exists []. rewrite app_nil_r. split; [apply (Hg i Hi)|split; [cbn; lia|discriminate]].
  - exists []. rewrite app_nil_r. split; [apply (Hg i Hi)|split; [cbn; lia|reflexivity]].
Qed.

(* each sender's messages enter that one order as it sends them: the part of [forder] that comes from thread t is exactly the messages of the
   sends t has begun, in program order *)
Theorem fan_sender_order n progs sched t : let '(s, ts) := frun sched (finit n progs) in fsends (progs t) = mine t (forder s) ++ fpending (ts t).
Proof.
  assert (Hi : FSinv progs (finit n progs)) by (intros u; reflexivity).
  pose proof (frun_sends progs sched _ (finit_inv n progs) Hi) as H. destruct (frun sched (finit n progs)) as [s ts]. apply H.
Qed.

(* non-vacuity: two senders through a MultiPort over two sub-ports, receivers on both, an interleaved schedule *)
Example fan_example :
  let progs := fun t => match t with 0 => [FSend (NoteOn 0 1 2)] | 1 => [FSend (NoteOn 0 3 4)] | 2 => [FRecv 0 false; FRecv 0 false] | 3 => [FIterPending 1 []] | _ => [] end in
  let '(s, ts) := frun [0; 0; 1; 0; 0; 2; 2; 2; 2; 0; 0; 0; 0; 1; 1; 1; 1; 1; 1; 1; 1; 2; 2; 2; 2; 2; 2; 2; 2; 3; 3; 3; 3; 3; 3; 3; 3; 3; 3; 3; 3; 3; 3; 3; 3] (finit 2 progs) in
  (fresults (ts 2), fresults (ts 3), map snd (forder s)) =
  ([RGot (Some (NoteOn 0 1 2)); RGot (Some (NoteOn 0 3 4))], [RList [NoteOn 0 1 2; NoteOn 0 3 4]], [NoteOn 0 1 2; NoteOn 0 3 4]).
Proof. vm_compute. reflexivity. Qed.
