(* ConcMultiProofs.v — MultiPort fan-in under every schedule (C10). *)
From Coq Require Import ZArith List Bool Arith Lia.
Require Import Mido.Model.Base Mido.Model.Codec Mido.Model.Conc Mido.Model.ConcMulti.
Require Import Mido.Proofs.ConcProofs.
Import ListNotations.
Open Scope nat_scope.

Definition inner_holds (p : pc) : bool := match p with RBool1 | RPop1 | RRel1 _ | LBool | LPop | LRel _ _ => true | _ => false end.
Definition mholds (p : mpc) (l : nat) : bool :=
  match p with
  | MSApp i _ | MSRel i => Nat.eqb l (S i)
  | MBool1 | MPop1 | MRel1 _ | MExtend _ | MLBool | MLPop | MLRel _ _ => Nat.eqb l 0
  | MSweep i inner _ => Nat.eqb l 0 || (Nat.eqb l (S i) && inner_holds inner)
  | _ => false
  end.
Definition m_recv_pc (p : mpc) : bool := match p with MBool1 | MPop1 | MRel1 _ | MLAcq | MSweep _ _ _ | MExtend _ | MLBool | MLPop | MLRel _ _ | MLSleep => true | _ => false end.
Definition m_is_recv_op (o : mop) : bool := match o with MSend _ _ => false | _ => true end.
Definition inner_inflight (p : pc) : list msg := match p with RRel1 (Some m) => [m] | LRel (Some m) _ => [m] | _ => [] end.

Definition mtinv (s : mshared) (t : tid) (th : mthread) : Prop :=
  (forall l, mholds (mat th) l = true -> mlk s l = Some t) /\
  ((mat th = MPop1 \/ mat th = MLPop) -> mq s 0 <> []) /\
  (forall i acc, (mat th = MSweep i RPop1 acc \/ mat th = MSweep i LPop acc) -> mq s (S i) <> []) /\
  (forall e, mat th <> MRaised e) /\
  (forall i inner acc, mat th = MSweep i inner acc -> cur_acc s = acc ++ inner_inflight inner /\ forall e, inner <> Raised e) /\
  (forall acc, mat th = MExtend acc -> cur_acc s = acc) /\
  (forall i m, mat th = MSApp i m -> exists r, mprog th = MSend i m :: r) /\
  (forall i, mat th = MSRel i -> exists m r, mprog th = MSend i m :: r) /\
  (m_recv_pc (mat th) = true -> exists o r, mprog th = o :: r /\ m_is_recv_op o = true).

Definition sweeping (p : mpc) (a : list msg) : Prop := (exists i inner acc, p = MSweep i inner acc /\ a = acc ++ inner_inflight inner) \/ p = MExtend a.
Definition mgwit (s : mshared) (ts : tid -> mthread) : Prop := cur_acc s <> [] -> exists t, sweeping (mat (ts t)) (cur_acc s).
Definition mgdata (s : mshared) : Prop :=
  (forall i, msent s i = mine i (allpopped s) ++ mq s (S i)) /\
  map snd (allpopped s) = ext s ++ cur_acc s /\
  ext s = map snd (mrecvd s) ++ mq s 0.
Definition MInv (cf : mcfg) : Prop := let '(s, ts) := cf in (forall t, mtinv s t (ts t)) /\ mgwit s ts /\ mgdata s.

Lemma updf_same {A} (f : nat -> A) i v : updf f i v i = v.
Proof. unfold updf. now rewrite Nat.eqb_refl. Qed.
Lemma updf_other {A} (f : nat -> A) i v j : j <> i -> updf f i v j = f j.
Proof. intros H. unfold updf. destruct (Nat.eqb_spec j i); congruence. Qed.
Lemma mupd_same ts t th : mupd ts t th t = th.
Proof. unfold mupd. now rewrite Nat.eqb_refl. Qed.
Lemma mupd_other ts t th u : u <> t -> mupd ts t th u = ts u.
Proof. intros H. unfold mupd. destruct (Nat.eqb_spec u t); congruence. Qed.

(* a step of another thread: what this thread's locks protect is left alone *)
Lemma mtinv_other s s' u th : mtinv s u th ->
  (forall l, mlk s l = Some u -> mlk s' l = Some u /\ (mq s l <> [] -> mq s' l <> [])) ->
  (mlk s 0 = Some u -> cur_acc s' = cur_acc s) -> mtinv s' u th.
Proof.
  intros (H1 & H2 & H3 & H4 & H5 & H6 & H7 & H8 & H9) Fl Fa.
  split; [|split; [|split; [|split; [|split; [|split; [|split; [|split]]]]]]]; auto.
  - intros l Hl. apply (Fl l), H1, Hl.
  - intros Hp. assert (Hh : mholds (mat th) 0 = true) by (destruct Hp as [-> | ->]; reflexivity). apply (Fl 0 (H1 0 Hh)), H2, Hp.
  - intros i acc Hp. assert (Hh : mholds (mat th) (S i) = true) by (destruct Hp as [-> | ->]; cbn [mholds inner_holds]; rewrite Nat.eqb_refl; reflexivity).
    apply (Fl (S i) (H1 (S i) Hh)), (H3 i acc), Hp.
  - intros i inner acc Hp. assert (Hh : mholds (mat th) 0 = true) by (rewrite Hp; reflexivity). rewrite (Fa (H1 0 Hh)). apply (H5 i inner acc), Hp.
  - intros acc Hp. assert (Hh : mholds (mat th) 0 = true) by (rewrite Hp; reflexivity). rewrite (Fa (H1 0 Hh)). apply H6, Hp.
Qed.

Lemma frame_acq s l t u : u <> t -> m_can s l t = true ->
  (forall l', mlk s l' = Some u -> mlk (m_set_lock s l (Some t)) l' = Some u /\ (mq s l' <> [] -> mq (m_set_lock s l (Some t)) l' <> [])) /\
  (mlk s 0 = Some u -> cur_acc (m_set_lock s l (Some t)) = cur_acc s).
Proof.
  intros Hne Hc. split; [|reflexivity]. intros l' Ho. cbn [m_set_lock mlk mq]. split; [|auto].
  destruct (Nat.eq_dec l' l) as [->|Hd]; [|now rewrite updf_other].
  unfold m_can in Hc. rewrite Ho in Hc. apply Nat.eqb_eq in Hc. congruence.
Qed.
Lemma frame_rel s l t u : u <> t -> mlk s l = Some t ->
  (forall l', mlk s l' = Some u -> mlk (m_set_lock s l None) l' = Some u /\ (mq s l' <> [] -> mq (m_set_lock s l None) l' <> [])) /\
  (mlk s 0 = Some u -> cur_acc (m_set_lock s l None) = cur_acc s).
Proof.
  intros Hne Hc. split; [|reflexivity]. intros l' Ho. cbn [m_set_lock mlk mq]. split; [|auto].
  destruct (Nat.eq_dec l' l) as [->|Hd]; [congruence|now rewrite updf_other].
Qed.
(* a step that changes the deque of port lq (and perhaps cur_acc) while t holds lock lq (and lock 0 when cur_acc changes) *)
Lemma frame_data s s' lq t u : u <> t -> mlk s lq = Some t -> mlk s' = mlk s -> (forall l', l' <> lq -> mq s' l' = mq s l') ->
  (cur_acc s' = cur_acc s \/ mlk s 0 = Some t) ->
  (forall l', mlk s l' = Some u -> mlk s' l' = Some u /\ (mq s l' <> [] -> mq s' l' <> [])) /\
  (mlk s 0 = Some u -> cur_acc s' = cur_acc s).
Proof.
  intros Hne Ht Hl Hq Ha. split.
  - intros l' Ho. rewrite Hl. split; [exact Ho|]. destruct (Nat.eq_dec l' lq) as [->|Hd]; [congruence|now rewrite Hq].
  - intros Ho. destruct Ha as [Ha|Ha]; [exact Ha|congruence].
Qed.
Lemma frame_none s s' u : mlk s' = mlk s -> mq s' = mq s -> cur_acc s' = cur_acc s ->
  (forall l', mlk s l' = Some u -> mlk s' l' = Some u /\ (mq s l' <> [] -> mq s' l' <> [])) /\
  (mlk s 0 = Some u -> cur_acc s' = cur_acc s).
Proof. intros -> -> ->. split; auto. Qed.

Lemma m_others s s' ts t th' : (forall u, mtinv s u (ts u)) -> mtinv s' t th' ->
  (forall u, u <> t ->
    (forall l', mlk s l' = Some u -> mlk s' l' = Some u /\ (mq s l' <> [] -> mq s' l' <> [])) /\
    (mlk s 0 = Some u -> cur_acc s' = cur_acc s)) ->
  forall u, mtinv s' u (mupd ts t th' u).
Proof.
  intros Hall Hme Hfr u. destruct (Nat.eq_dec u t) as [->|Hne]; [now rewrite mupd_same|].
  rewrite mupd_other by exact Hne. destruct (Hfr u Hne) as [F1 F2]. eapply mtinv_other; eauto.
Qed.
Lemma mgwit_keep s s' ts t th' : cur_acc s' = cur_acc s -> (forall a, sweeping (mat (ts t)) a -> sweeping (mat th') a) -> mgwit s ts -> mgwit s' (mupd ts t th').
Proof.
  intros Hc Hs Hg Hne. rewrite Hc in *. destruct (Hg Hne) as (t0 & H0). exists t0.
  destruct (Nat.eq_dec t0 t) as [->|Hd]; [rewrite mupd_same; apply Hs, H0|now rewrite mupd_other].
Qed.
Lemma mgdata_eq s s' : mq s' = mq s -> msent s' = msent s -> allpopped s' = allpopped s -> ext s' = ext s -> mrecvd s' = mrecvd s -> cur_acc s' = cur_acc s ->
  mgdata s -> mgdata s'.
Proof. unfold mgdata. intros -> -> -> -> -> ->. auto. Qed.
Lemma not_sweeping p : (forall i inner acc, p <> MSweep i inner acc) -> (forall a, p <> MExtend a) -> forall a q, sweeping p a -> sweeping q a.
Proof. intros H1 H2 a q [(i & inner & acc & E & _)|E]; [exfalso; eapply H1; eauto|exfalso; eapply H2; eauto]. Qed.

(* when nobody holds the MultiPort's lock, no sweep is in progress *)
Lemma no_sweep_acc s ts t : (forall u, mtinv s u (ts u)) -> mgwit s ts -> m_can s 0 t = true -> (forall l, mholds (mat (ts t)) l = false) -> cur_acc s = [].
Proof.
  intros Hall Hw Hc Hn. destruct (cur_acc s) eqn:E; [reflexivity|]. exfalso. destruct (Hw ltac:(congruence)) as (t0 & Hs).
  assert (Hh : mholds (mat (ts t0)) 0 = true) by (destruct Hs as [(i & inner & acc & -> & _)| ->]; reflexivity).
  destruct (Hall t0) as (H1 & _). specialize (H1 0 Hh). destruct (Nat.eq_dec t0 t) as [->|Hd]; [rewrite Hn in Hh; discriminate|].
  unfold m_can in Hc. rewrite H1 in Hc. apply Nat.eqb_eq in Hc. congruence.
Qed.

Lemma Ok_some {A B} (a a' : A) (b b' : B) : Some (a, b) = Some (a', b') -> a = a' /\ b = b'.
Proof. intros H. injection H as H1 H2. auto. Qed.

Ltac tsplit := (split; [|split; [|split; [|split; [|split; [|split; [|split; [|split]]]]]]]);
  cbn [mset_pc m_finish_recv mat mprog mholds inner_holds m_recv_pc inner_inflight];
  try solve [discriminate | intros; discriminate | intros [?|?]; discriminate | intros ? ? [?|?]; discriminate | auto].
Ltac tlock := try solve [intros l Hl; apply Nat.eqb_eq in Hl; subst l; first [assumption | cbn [m_set_lock mlk]; rewrite ?updf_same; auto]].
Ltac tprog := try solve [intros ? ? H0; injection H0 as <- <-; eauto | intros ? H0; injection H0 as <-; eauto | intros _; eauto | intros _; congruence].
Ltac swfin Hlk Hacc :=
  first [ solve [apply (Hlk _ eq_refl)]
        | solve [intros i inner acc0 H0; injection H0 as <- <- <-; cbn [inner_inflight m_set_lock cur_acc] in *; split; [first [exact Hacc | rewrite ?app_nil_r in *; exact Hacc | rewrite Hacc, ?app_nil_r; reflexivity]|intros; discriminate]]
        | solve [intros i acc0 [H0|H0]; [|discriminate]; injection H0 as <- _; congruence]
        | solve [intros i acc0 [H0|H0]; [discriminate|]; injection H0 as <- _; congruence]
        | idtac ].
Ltac lockeq := cbn [m_set_lock mlk]; rewrite ?updf_same; auto.

Lemma mstep_inv cf t : MInv cf -> MInv (mstep cf t).
Proof.
  destruct cf as [s ts]. intros (Hall & Hw & Hd). unfold mstep.
  destruct (mstep_thread s t (ts t)) as [[s' th']|] eqn:E; [|exact (conj Hall (conj Hw Hd))].
  pose proof (Hall t) as (M1 & M2 & M3 & M4 & M5 & M6 & M7 & M8 & M9). unfold mstep_thread in E.
  destruct (mat (ts t)) eqn:Epc.
  - (* MStart *)
    assert (Hns : forall a q, sweeping (mat (ts t)) a -> sweeping q a) by (apply not_sweeping; intros; congruence).
    destruct (mprog (ts t)) as [|o r] eqn:Ep; [discriminate|]. destruct o as [i m|b|acc].
    + destruct (m_can s (S i) t) eqn:Ec; [|discriminate]. apply Ok_some in E. destruct E as [<- <-].
      split; [|split].
      * eapply m_others with (s := s); [exact Hall| |intros u Hne; exact (frame_acq s (S i) t u Hne Ec)].
        tsplit; tlock. intros i0 m0 H0. injection H0 as <- <-. rewrite Ep. eauto.
      * eapply mgwit_keep; eauto; try reflexivity.
      * revert Hd. apply mgdata_eq; reflexivity.
    + destruct (m_can s 0 t) eqn:Ec; [|discriminate]. apply Ok_some in E. destruct E as [<- <-].
      split; [|split].
      * eapply m_others with (s := s); [exact Hall| |intros u Hne; exact (frame_acq s 0 t u Hne Ec)].
        tsplit; tlock. intros _. rewrite Ep. eexists; eexists; split; reflexivity.
      * eapply mgwit_keep; eauto; try reflexivity.
      * revert Hd. apply mgdata_eq; reflexivity.
    + destruct (m_can s 0 t) eqn:Ec; [|discriminate]. apply Ok_some in E. destruct E as [<- <-].
      split; [|split].
      * eapply m_others with (s := s); [exact Hall| |intros u Hne; exact (frame_acq s 0 t u Hne Ec)].
        tsplit; tlock. intros _. rewrite Ep. eexists; eexists; split; reflexivity.
      * eapply mgwit_keep; eauto; try reflexivity.
      * revert Hd. apply mgdata_eq; reflexivity.
  - (* MSApp *)
    assert (Hns : forall a q, sweeping (mat (ts t)) a -> sweeping q a) by (apply not_sweeping; intros; congruence).
    apply Ok_some in E. destruct E as [<- <-]. assert (Ho : mlk s (S sub) = Some t) by (apply M1; cbn [mholds]; apply Nat.eqb_refl).
    destruct (M7 sub m eq_refl) as [r Hr].
    split; [|split].
    + eapply m_others with (s := s); [exact Hall| |intros u Hne; apply (frame_data s _ (S sub) t u Hne Ho); [reflexivity|intros l' Hl'; cbn [mq]; now rewrite updf_other|left; reflexivity]].
      tsplit; tlock; tprog.
    + eapply mgwit_keep; eauto; try reflexivity.
    + destruct Hd as (D1 & D2 & D3). unfold mgdata. cbn [msent allpopped mq ext mrecvd cur_acc]. split; [|split; [exact D2|rewrite updf_other by discriminate; exact D3]].
      intros i. destruct (Nat.eq_dec i sub) as [->|Hne]; [rewrite !updf_same, D1; now rewrite app_assoc|].
      rewrite updf_other by exact Hne. rewrite updf_other by congruence. apply D1.
  - (* MSRel *)
    assert (Hns : forall a q, sweeping (mat (ts t)) a -> sweeping q a) by (apply not_sweeping; intros; congruence).
    apply Ok_some in E. destruct E as [<- <-]. assert (Ho : mlk s (S sub) = Some t) by (apply M1; cbn [mholds]; apply Nat.eqb_refl).
    split; [|split].
    + eapply m_others with (s := s); [exact Hall| |intros u Hne; exact (frame_rel s (S sub) t u Hne Ho)]. tsplit; tlock; tprog.
    + eapply mgwit_keep; eauto; try reflexivity.
    + revert Hd. apply mgdata_eq; reflexivity.
  - (* MBool1 *)
    assert (Hns : forall a q, sweeping (mat (ts t)) a -> sweeping q a) by (apply not_sweeping; intros; congruence).
    apply Ok_some in E. destruct E as [<- <-]. assert (Ho : mlk s 0 = Some t) by (apply M1; reflexivity).
    split; [|split; [|exact Hd]].
    + eapply m_others with (s := s); [exact Hall| |intros u Hne; apply frame_none; reflexivity].
      destruct (mq s 0) eqn:Eq; tsplit; tlock; tprog.
    + eapply mgwit_keep; eauto; try reflexivity.
  - (* MPop1 *)
    assert (Hns : forall a q, sweeping (mat (ts t)) a -> sweeping q a) by (apply not_sweeping; intros; congruence).
    assert (Ho : mlk s 0 = Some t) by (apply M1; reflexivity).
    destruct (mq s 0) as [|m r] eqn:Eq; [exfalso; apply M2; auto|]. apply Ok_some in E. destruct E as [<- <-].
    split; [|split].
    + eapply m_others with (s := s); [exact Hall| |intros u Hne; apply (frame_data s _ 0 t u Hne Ho); [reflexivity|intros l' Hl'; cbn [mq]; now rewrite updf_other|left; reflexivity]].
      tsplit; tlock; tprog.
    + eapply mgwit_keep; eauto; try reflexivity.
    + destruct Hd as (D1 & D2 & D3). unfold mgdata. cbn [msent allpopped mq ext mrecvd cur_acc]. split; [|split; [exact D2|]].
      * intros i. rewrite updf_other by discriminate. apply D1.
      * rewrite updf_same, map_app, D3, Eq. cbn [map snd]. now rewrite <- app_assoc.
  - (* MRel1 *)
    assert (Hns : forall a q, sweeping (mat (ts t)) a -> sweeping q a) by (apply not_sweeping; intros; congruence).
    apply Ok_some in E. destruct E as [<- <-]. assert (Ho : mlk s 0 = Some t) by (apply M1; reflexivity).
    destruct (M9 eq_refl) as (o & rr & Hp & Hop).
    split; [|split].
    + eapply m_others with (s := s); [exact Hall| |intros u Hne; exact (frame_rel s 0 t u Hne Ho)].
      destruct r as [m|].
      * unfold m_finish_recv. rewrite Hp. destruct o as [i0 m0|b|acc]; [discriminate| |]; tsplit; tlock; tprog.
      * tsplit; tlock; tprog.
    + eapply mgwit_keep; eauto; try reflexivity.
    + revert Hd. apply mgdata_eq; reflexivity.
  - (* MLAcq *)
    destruct (m_can s 0 t) eqn:Ec; [|discriminate]. apply Ok_some in E. destruct E as [<- <-].
    assert (Hacc : cur_acc s = []) by (eapply no_sweep_acc; eauto; intros l; rewrite Epc; reflexivity).
    destruct (M9 eq_refl) as (o & rr & Hp & Hop).
    split; [|split].
    + eapply m_others with (s := s); [exact Hall| |intros u Hne; exact (frame_acq s 0 t u Hne Ec)].
      cbn [m_set_lock nsubs]. destruct (Nat.ltb 0 (nsubs s)); tsplit; tlock; tprog.
      * intros l Hl. rewrite andb_false_r, orb_false_r in Hl. apply Nat.eqb_eq in Hl. subst l. lockeq.
      * intros i inner acc H0. injection H0 as <- <- <-. cbn [m_set_lock cur_acc inner_inflight]. split; [rewrite app_nil_r; exact Hacc|intros; discriminate].
    + intros Hne. cbn [m_set_lock cur_acc] in Hne. congruence.
    + revert Hd. apply mgdata_eq; reflexivity.
  - (* MSweep *)
    assert (Ho0 : mlk s 0 = Some t) by (apply M1; reflexivity).
    destruct (M5 sub inner acc eq_refl) as [Hacc Hnr]. destruct (M9 eq_refl) as (o & rr & Hp & Hop).
    assert (Hsw : forall p' a, a = acc ++ inner_inflight p' -> sweeping (MSweep sub p' acc) a) by (intros p' a ->; left; eauto).
    destruct inner; cbn [poll_step] in E; try discriminate.
    + (* poll: acquire the sub-port *)
      destruct (m_can s (S sub) t) eqn:Ec; [|discriminate]. apply Ok_some in E. destruct E as [<- <-].
      split; [|split].
      * eapply m_others with (s := s); [exact Hall| |intros u Hne; exact (frame_acq s (S sub) t u Hne Ec)].
        tsplit; tprog.
        -- intros l Hl. cbn [m_set_lock mlk]. apply orb_true_iff in Hl as [Hl|Hl]; [apply Nat.eqb_eq in Hl; subst l; rewrite updf_other by discriminate; exact Ho0|].
           apply andb_true_iff in Hl as [Hl _]. apply Nat.eqb_eq in Hl. subst l. apply updf_same.
        -- intros i inner acc0 H0. injection H0 as <- <- <-. cbn [m_set_lock cur_acc inner_inflight] in *. split; [exact Hacc|intros; discriminate].
      * eapply mgwit_keep; [reflexivity| |exact Hw]. intros a [(i & inner & acc0 & E1 & ->)|E1]; [|congruence]. rewrite Epc in E1. injection E1 as <- <- <-. apply Hsw. reflexivity.
      * revert Hd. apply mgdata_eq; reflexivity.
    + (* poll: pending? *)
      assert (Hos : mlk s (S sub) = Some t) by (apply M1; cbn [mholds inner_holds]; rewrite Nat.eqb_refl; apply orb_true_r).
      assert (Hlk : forall p', inner_holds p' = true -> forall l, mholds (MSweep sub p' acc) l = true -> mlk s l = Some t).
      { intros p' Hp' l Hl. cbn [mholds] in Hl. apply orb_true_iff in Hl as [Hl|Hl]; [apply Nat.eqb_eq in Hl; subst l; exact Ho0|].
        apply andb_true_iff in Hl as [Hl _]. apply Nat.eqb_eq in Hl. subst l. exact Hos. }
      destruct (mq s (S sub)) as [|m0 r0] eqn:Eq; apply Ok_some in E; destruct E as [<- <-].
      * split; [|split; [|exact Hd]].
        -- eapply m_others with (s := s); [exact Hall| |intros u Hne; apply frame_none; reflexivity].
           tsplit; tprog; swfin Hlk Hacc.
        -- eapply mgwit_keep; [reflexivity| |exact Hw]. intros a [(i & inner & acc0 & E1 & ->)|E1]; [|congruence]. rewrite Epc in E1. injection E1 as <- <- <-. apply Hsw. reflexivity.
      * split; [|split; [|exact Hd]].
        -- eapply m_others with (s := s); [exact Hall| |intros u Hne; apply frame_none; reflexivity].
           tsplit; tprog; swfin Hlk Hacc.
        -- eapply mgwit_keep; [reflexivity| |exact Hw]. intros a [(i & inner & acc0 & E1 & ->)|E1]; [|congruence]. rewrite Epc in E1. injection E1 as <- <- <-. apply Hsw. reflexivity.
    + (* poll: popleft (first check) *)
      assert (Hos : mlk s (S sub) = Some t) by (apply M1; cbn [mholds inner_holds]; rewrite Nat.eqb_refl; apply orb_true_r).
      assert (Hlk : forall p', inner_holds p' = true -> forall l, mholds (MSweep sub p' acc) l = true -> mlk s l = Some t).
      { intros p' Hp' l Hl. cbn [mholds] in Hl. apply orb_true_iff in Hl as [Hl|Hl]; [apply Nat.eqb_eq in Hl; subst l; exact Ho0|].
        apply andb_true_iff in Hl as [Hl _]. apply Nat.eqb_eq in Hl. subst l. exact Hos. }
      destruct (mq s (S sub)) as [|m0 r0] eqn:Eq; [exfalso; eapply (M3 sub acc); eauto|]. apply Ok_some in E. destruct E as [<- <-].
      cbn [inner_inflight] in Hacc. rewrite app_nil_r in Hacc.
      split; [|split].
      * eapply m_others with (s := s); [exact Hall| |intros u Hne; apply (frame_data s _ (S sub) t u Hne Hos); [reflexivity|intros l' Hl'; cbn [mq]; now rewrite updf_other|right; exact Ho0]].
        tsplit; tprog; swfin Hlk Hacc.
      * intros _. exists t. rewrite mupd_same. cbn [mset_pc mat cur_acc]. apply Hsw. cbn [inner_inflight]. now rewrite Hacc.
      * destruct Hd as (D1 & D2 & D3). unfold mgdata. cbn [msent allpopped mq ext mrecvd cur_acc]. split; [|split].
        -- intros i. rewrite mine_app. cbn [fst snd]. destruct (Nat.eq_dec i sub) as [->|Hne].
           ++ rewrite Nat.eqb_refl, updf_same, D1, Eq. now rewrite <- app_assoc.
           ++ replace (Nat.eqb sub i) with false by (symmetry; apply Nat.eqb_neq; congruence). rewrite app_nil_r, updf_other by congruence. apply D1.
        -- rewrite map_app, D2. cbn [map snd]. now rewrite app_assoc.
        -- rewrite updf_other by discriminate. exact D3.
    + (* poll: release after the first check *)
      assert (Hos : mlk s (S sub) = Some t) by (apply M1; cbn [mholds inner_holds]; rewrite Nat.eqb_refl; apply orb_true_r).
      assert (Hlk0 : forall p' a0, inner_holds p' = false -> forall l, mholds (MSweep sub p' a0) l = true -> mlk (m_set_lock s (S sub) None) l = Some t).
      { intros p' a0 Hp' l Hl. cbn [mholds] in Hl. rewrite Hp', andb_false_r, orb_false_r in Hl. apply Nat.eqb_eq in Hl. subst l. cbn [m_set_lock mlk]. rewrite updf_other by discriminate. exact Ho0. }
      destruct r as [m0|]; apply Ok_some in E; destruct E as [<- <-]; cbn [inner_inflight] in Hacc.
      * split; [|split].
        -- eapply m_others with (s := s); [exact Hall| |intros u Hne; exact (frame_rel s (S sub) t u Hne Hos)].
           tsplit; tprog. ++ apply (Hlk0 AtStart (acc ++ [m0]) eq_refl).
           ++ intros i inner acc0 H0. injection H0 as <- <- <-. cbn [inner_inflight m_set_lock cur_acc]. split; [now rewrite app_nil_r|intros; discriminate].
        -- eapply mgwit_keep; [reflexivity| |exact Hw]. intros a [(i & inner & acc0 & E1 & ->)|E1]; [|congruence]. rewrite Epc in E1. injection E1 as <- <- <-.
           left. exists sub, AtStart, (acc ++ [m0]). split; [reflexivity|]. cbn [inner_inflight]. now rewrite app_nil_r.
        -- revert Hd. apply mgdata_eq; reflexivity.
      * split; [|split].
        -- eapply m_others with (s := s); [exact Hall| |intros u Hne; exact (frame_rel s (S sub) t u Hne Hos)].
           tsplit; tprog. ++ apply (Hlk0 LAcq acc eq_refl).
           ++ intros i inner acc0 H0. injection H0 as <- <- <-. cbn [inner_inflight m_set_lock cur_acc]. split; [exact Hacc|intros; discriminate].
        -- eapply mgwit_keep; [reflexivity| |exact Hw]. intros a [(i & inner & acc0 & E1 & ->)|E1]; [|congruence]. rewrite Epc in E1. injection E1 as <- <- <-. apply Hsw. reflexivity.
        -- revert Hd. apply mgdata_eq; reflexivity.
    + (* poll: acquire again for the loop body *)
      destruct (m_can s (S sub) t) eqn:Ec; [|discriminate]. apply Ok_some in E. destruct E as [<- <-].
      split; [|split].
      * eapply m_others with (s := s); [exact Hall| |intros u Hne; exact (frame_acq s (S sub) t u Hne Ec)].
        tsplit; tprog.
        -- intros l Hl. cbn [m_set_lock mlk]. apply orb_true_iff in Hl as [Hl|Hl]; [apply Nat.eqb_eq in Hl; subst l; rewrite updf_other by discriminate; exact Ho0|].
           apply andb_true_iff in Hl as [Hl _]. apply Nat.eqb_eq in Hl. subst l. apply updf_same.
        -- intros i inner acc0 H0. injection H0 as <- <- <-. cbn [m_set_lock cur_acc inner_inflight] in *. split; [exact Hacc|intros; discriminate].
      * eapply mgwit_keep; [reflexivity| |exact Hw]. intros a [(i & inner & acc0 & E1 & ->)|E1]; [|congruence]. rewrite Epc in E1. injection E1 as <- <- <-. apply Hsw. reflexivity.
      * revert Hd. apply mgdata_eq; reflexivity.
    + (* poll: pending? (loop body) *)
      assert (Hos : mlk s (S sub) = Some t) by (apply M1; cbn [mholds inner_holds]; rewrite Nat.eqb_refl; apply orb_true_r).
      assert (Hlk : forall p', inner_holds p' = true -> forall l, mholds (MSweep sub p' acc) l = true -> mlk s l = Some t).
      { intros p' Hp' l Hl. cbn [mholds] in Hl. apply orb_true_iff in Hl as [Hl|Hl]; [apply Nat.eqb_eq in Hl; subst l; exact Ho0|].
        apply andb_true_iff in Hl as [Hl _]. apply Nat.eqb_eq in Hl. subst l. exact Hos. }
      destruct (mq s (S sub)) as [|m0 r0] eqn:Eq; apply Ok_some in E; destruct E as [<- <-].
      * split; [|split; [|exact Hd]].
        -- eapply m_others with (s := s); [exact Hall| |intros u Hne; apply frame_none; reflexivity]. tsplit; tprog; swfin Hlk Hacc.
        -- eapply mgwit_keep; [reflexivity| |exact Hw]. intros a [(i & inner & acc0 & E1 & ->)|E1]; [|congruence]. rewrite Epc in E1. injection E1 as <- <- <-. apply Hsw. reflexivity.
      * split; [|split; [|exact Hd]].
        -- eapply m_others with (s := s); [exact Hall| |intros u Hne; apply frame_none; reflexivity]. tsplit; tprog; swfin Hlk Hacc.
        -- eapply mgwit_keep; [reflexivity| |exact Hw]. intros a [(i & inner & acc0 & E1 & ->)|E1]; [|congruence]. rewrite Epc in E1. injection E1 as <- <- <-. apply Hsw. reflexivity.
    + (* poll: popleft (loop body) *)
      assert (Hos : mlk s (S sub) = Some t) by (apply M1; cbn [mholds inner_holds]; rewrite Nat.eqb_refl; apply orb_true_r).
      assert (Hlk : forall p', inner_holds p' = true -> forall l, mholds (MSweep sub p' acc) l = true -> mlk s l = Some t).
      { intros p' Hp' l Hl. cbn [mholds] in Hl. apply orb_true_iff in Hl as [Hl|Hl]; [apply Nat.eqb_eq in Hl; subst l; exact Ho0|].
        apply andb_true_iff in Hl as [Hl _]. apply Nat.eqb_eq in Hl. subst l. exact Hos. }
      destruct (mq s (S sub)) as [|m0 r0] eqn:Eq; [exfalso; eapply (M3 sub acc); eauto|]. apply Ok_some in E. destruct E as [<- <-].
      cbn [inner_inflight] in Hacc. rewrite app_nil_r in Hacc.
      split; [|split].
      * eapply m_others with (s := s); [exact Hall| |intros u Hne; apply (frame_data s _ (S sub) t u Hne Hos); [reflexivity|intros l' Hl'; cbn [mq]; now rewrite updf_other|right; exact Ho0]].
        tsplit; tprog; swfin Hlk Hacc.
      * intros _. exists t. rewrite mupd_same. cbn [mset_pc mat cur_acc]. apply Hsw. cbn [inner_inflight]. now rewrite Hacc.
      * destruct Hd as (D1 & D2 & D3). unfold mgdata. cbn [msent allpopped mq ext mrecvd cur_acc]. split; [|split].
        -- intros i. rewrite mine_app. cbn [fst snd]. destruct (Nat.eq_dec i sub) as [->|Hne].
           ++ rewrite Nat.eqb_refl, updf_same, D1, Eq. now rewrite <- app_assoc.
           ++ replace (Nat.eqb sub i) with false by (symmetry; apply Nat.eqb_neq; congruence). rewrite app_nil_r, updf_other by congruence. apply D1.
        -- rewrite map_app, D2. cbn [map snd]. now rewrite app_assoc.
        -- rewrite updf_other by discriminate. exact D3.
    + (* poll: release, the poll returns *)
      assert (Hos : mlk s (S sub) = Some t) by (apply M1; cbn [mholds inner_holds]; rewrite Nat.eqb_refl; apply orb_true_r).
      assert (Hl0 : mlk (m_set_lock s (S sub) None) 0 = Some t) by (cbn [m_set_lock mlk]; rewrite updf_other by discriminate; exact Ho0).
      destruct r as [m0|]; apply Ok_some in E; destruct E as [<- <-]; cbn [inner_inflight] in Hacc.
      * split; [|split].
        -- eapply m_others with (s := s); [exact Hall| |intros u Hne; exact (frame_rel s (S sub) t u Hne Hos)].
           tsplit; tprog. ++ intros l Hl. rewrite andb_false_r, orb_false_r in Hl. apply Nat.eqb_eq in Hl. subst l. exact Hl0.
           ++ intros i inner acc0 H0. injection H0 as <- <- <-. cbn [inner_inflight m_set_lock cur_acc]. split; [now rewrite app_nil_r|intros; discriminate].
        -- eapply mgwit_keep; [reflexivity| |exact Hw]. intros a [(i & inner & acc0 & E1 & ->)|E1]; [|congruence]. rewrite Epc in E1. injection E1 as <- <- <-.
           left. exists sub, AtStart, (acc ++ [m0]). split; [reflexivity|]. cbn [inner_inflight]. now rewrite app_nil_r.
        -- revert Hd. apply mgdata_eq; reflexivity.
      * rewrite app_nil_r in Hacc. split; [|split].
        -- eapply m_others with (s := s); [exact Hall| |intros u Hne; exact (frame_rel s (S sub) t u Hne Hos)].
           unfold next_sub. cbn [m_set_lock nsubs]. destruct (Nat.ltb (S sub) (nsubs s)); tsplit; tprog.
           ++ intros l Hl. rewrite andb_false_r, orb_false_r in Hl. apply Nat.eqb_eq in Hl. subst l. exact Hl0.
           ++ intros i inner acc0 H0. injection H0 as <- <- <-. cbn [inner_inflight m_set_lock cur_acc]. split; [now rewrite app_nil_r|intros; discriminate].
           ++ intros l Hl. apply Nat.eqb_eq in Hl. subst l. exact Hl0.
        -- eapply mgwit_keep; [reflexivity| |exact Hw]. intros a [(i & inner & acc0 & E1 & ->)|E1]; [|congruence]. rewrite Epc in E1. injection E1 as <- <- <-.
           cbn [inner_inflight]. rewrite app_nil_r. unfold next_sub. cbn [m_set_lock nsubs]. destruct (Nat.ltb (S sub) (nsubs s)).
           ++ left. exists (S sub), AtStart, acc. split; [reflexivity|]. cbn [inner_inflight]. now rewrite app_nil_r.
           ++ right. reflexivity.
        -- revert Hd. apply mgdata_eq; reflexivity.
  - (* MExtend *)
    apply Ok_some in E. destruct E as [<- <-]. assert (Ho : mlk s 0 = Some t) by (apply M1; reflexivity).
    pose proof (M6 acc eq_refl) as Hacc. destruct (M9 eq_refl) as (o & rr & Hp & Hop).
    split; [|split].
    + eapply m_others with (s := s); [exact Hall| |intros u Hne; apply (frame_data s _ 0 t u Hne Ho); [reflexivity|intros l' Hl'; cbn [mq]; now rewrite updf_other|right; exact Ho]].
      tsplit; tlock; tprog.
    + intros Hne. cbn [cur_acc] in Hne. congruence.
    + destruct Hd as (D1 & D2 & D3). unfold mgdata. cbn [msent allpopped mq ext mrecvd cur_acc]. split; [|split].
      * intros i. rewrite updf_other by discriminate. apply D1.
      * rewrite D2, Hacc. now rewrite app_nil_r.
      * rewrite updf_same, D3. now rewrite app_assoc.
  - (* MLBool *)
    assert (Hns : forall a q, sweeping (mat (ts t)) a -> sweeping q a) by (apply not_sweeping; intros; congruence).
    apply Ok_some in E. destruct E as [<- <-]. assert (Ho : mlk s 0 = Some t) by (apply M1; reflexivity).
    destruct (M9 eq_refl) as (o & rr & Hp & Hop).
    split; [|split; [|exact Hd]].
    + eapply m_others with (s := s); [exact Hall| |intros u Hne; apply frame_none; reflexivity].
      destruct (mq s 0) eqn:Eq; tsplit; tlock; tprog.
    + eapply mgwit_keep; eauto; try reflexivity.
  - (* MLPop *)
    assert (Hns : forall a q, sweeping (mat (ts t)) a -> sweeping q a) by (apply not_sweeping; intros; congruence).
    assert (Ho : mlk s 0 = Some t) by (apply M1; reflexivity). destruct (M9 eq_refl) as (o & rr & Hp & Hop).
    destruct (mq s 0) as [|m r] eqn:Eq; [exfalso; apply M2; auto|]. apply Ok_some in E. destruct E as [<- <-].
    split; [|split].
    + eapply m_others with (s := s); [exact Hall| |intros u Hne; apply (frame_data s _ 0 t u Hne Ho); [reflexivity|intros l' Hl'; cbn [mq]; now rewrite updf_other|left; reflexivity]].
      tsplit; tlock; tprog.
    + eapply mgwit_keep; eauto; try reflexivity.
    + destruct Hd as (D1 & D2 & D3). unfold mgdata. cbn [msent allpopped mq ext mrecvd cur_acc]. split; [|split; [exact D2|]].
      * intros i. rewrite updf_other by discriminate. apply D1.
      * rewrite updf_same, map_app, D3, Eq. cbn [map snd]. now rewrite <- app_assoc.
  - (* MLRel *)
    assert (Hns : forall a q, sweeping (mat (ts t)) a -> sweeping q a) by (apply not_sweeping; intros; congruence).
    apply Ok_some in E. destruct E as [<- <-]. assert (Ho : mlk s 0 = Some t) by (apply M1; reflexivity).
    destruct (M9 eq_refl) as (o & rr & Hp & Hop).
    split; [|split].
    + eapply m_others with (s := s); [exact Hall| |intros u Hne; exact (frame_rel s 0 t u Hne Ho)].
      destruct slp.
      * tsplit; tlock; tprog.
      * unfold m_finish_recv. rewrite Hp. destruct o as [i0 m0|b|acc]; [discriminate| |]; [|destruct r as [m|]]; tsplit; tlock; tprog.
    + eapply mgwit_keep; eauto; try reflexivity.
    + revert Hd. apply mgdata_eq; reflexivity.
  - (* MLSleep *)
    assert (Hns : forall a q, sweeping (mat (ts t)) a -> sweeping q a) by (apply not_sweeping; intros; congruence).
    apply Ok_some in E. destruct E as [<- <-]. destruct (M9 eq_refl) as (o & rr & Hp & Hop).
    split; [|split].
    + eapply m_others with (s := s); [exact Hall| |intros u Hne; apply frame_none; reflexivity]. tsplit; tlock; tprog.
    + eapply mgwit_keep; eauto; try reflexivity.
    + revert Hd. apply mgdata_eq; reflexivity.
  - discriminate.
Qed.

Lemma minit_inv n progs : MInv (minit n progs).
Proof.
  unfold minit. split; [|split].
  - intros t. unfold mtinv. cbn [mat mprog mholds m_recv_pc]. tsplit.
  - intros H. cbn in H. congruence.
  - unfold mgdata. cbn. auto.
Qed.
Lemma mrun_inv : forall sched cf, MInv cf -> MInv (mrun sched cf).
Proof. induction sched as [|t r IH]; intros cf H; cbn [mrun fold_left]; [exact H|]. apply IH, mstep_inv, H. Qed.

(* MultiPort fan-in: for ANY number of sub-ports and threads, ANY programs (sends on sub-ports, blocking / non-blocking receives and
   iter_pending on the MultiPort) and ANY schedule: no call raises, *)
Theorem multi_no_raise n progs sched t e : mat (snd (mrun sched (minit n progs)) t) <> MRaised e.
Proof.
  pose proof (mrun_inv sched _ (minit_inv n progs)) as H. destruct (mrun sched (minit n progs)) as [s ts]. destruct H as (Hall & _).
  destruct (Hall t) as (_ & _ & _ & H4 & _). apply H4.
Qed.
(* and every message sent on a sub-port is in exactly one place: still in that sub-port's queue, or - in the order it was taken from there -
   among the messages the MultiPort took over, which are, in order, the ones its callers popped, the ones in its own queue, and the ones
   the sweep in progress is carrying *)
Theorem multi_exactly_once n progs sched : let s := fst (mrun sched (minit n progs)) in
  (forall i, msent s i = mine i (allpopped s) ++ mq s (S i)) /\ map snd (allpopped s) = (map snd (mrecvd s) ++ mq s 0) ++ cur_acc s.
Proof.
  pose proof (mrun_inv sched _ (minit_inv n progs)) as H. destruct (mrun sched (minit n progs)) as [s ts]. destruct H as (_ & _ & D1 & D2 & D3).
  cbn [fst]. split; [exact D1|]. rewrite D2, D3. reflexivity.
Qed.
Example multi_nonvacuous :
  let progs := fun t => match t with 0 => [MSend 0 (NoteOn 0 1 2)] | 1 => [MSend 1 (NoteOn 0 3 4)] | 2 => [MRecv true; MRecv false] | _ => [] end in
  mresults (snd (mrun [0; 0; 0; 1; 1; 1; 2; 2; 2; 2; 2; 2; 2; 2; 2; 2; 2; 2; 2; 2; 2; 2; 2; 2; 2; 2; 2; 2; 2; 2; 2; 2; 2; 2; 2; 2; 2; 2; 2; 2; 2; 2; 2; 2; 2; 2; 2; 2; 2; 2; 2; 2; 2; 2; 2; 2; 2; 2; 2; 2; 2; 2; 2; 2; 2; 2; 2] (minit 2 progs)) 2)
  = [RGot (Some (NoteOn 0 1 2)); RGot (Some (NoteOn 0 3 4))].
Proof. vm_compute. reflexivity. Qed.
