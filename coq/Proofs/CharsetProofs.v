(* CharsetProofs.v — the file charset is in force only for the duration of a load or save call (C17). *)
From Coq Require Import ZArith List Bool.
Require Import Mido.Model.Base Mido.Model.Meta Mido.Model.Smf Mido.Model.Charset Mido.Proofs.MetaProofs Mido.Proofs.SmfProofs.
Import ListNotations.
Open Scope Z_scope.

Lemma with_charset_restores A tmp st (body : gstate -> res A) : fst (with_charset true tmp st body) = st.
Proof. unfold with_charset. destruct st as [c]. destruct (body _); reflexivity. Qed.

Lemma with_charset_uses A guarded tmp st (body : gstate -> res A) : snd (with_charset guarded tmp st body) = body {| g_charset := tmp |}.
Proof. unfold with_charset. destruct (body _); reflexivity. Qed.

Section Codecs.
Variable codec_of : charset -> codec.

(* whatever the call does — succeed or raise at any point — the process-wide charset afterwards is what it was before *)
Theorem call_scope st k : fst (do_call codec_of true st k) = st.
Proof.
  destruct k as [c clip bs|c f]; cbn [do_call]; unfold load_g, save_g.
  - pose proof (with_charset_restores _ c st (fun st' => load (cur_codec codec_of st') clip bs)) as H.
    destruct (with_charset true c st _); exact H.
  - pose proof (with_charset_restores _ c st (fun st' => save (cur_codec codec_of st') f)) as H.
    destruct (with_charset true c st _); exact H.
Qed.

Theorem history_scope ks : forall st, fold_left (fun s k => fst (do_call codec_of true s k)) ks st = st.
Proof. induction ks as [|k r IH]; intros st; cbn [fold_left]; [reflexivity|]. now rewrite call_scope, IH. Qed.

(* consequently meta text encoded elsewhere after any history of calls uses the default charset again *)
Theorem default_after ks t : text_bytes_elsewhere codec_of (fold_left (fun s k => fst (do_call codec_of true s k)) ks g_default) t
  = meta_bytes (codec_of 0) (MText 1 t).
Proof. now rewrite history_scope. Qed.

(* inside the call the file's charset is the one in force: save/load run with exactly that codec *)
Theorem save_uses_file_charset guarded c st f : snd (save_g codec_of guarded c st f) = save (codec_of c) f.
Proof. unfold save_g. now rewrite with_charset_uses. Qed.
Theorem load_uses_file_charset guarded c clip st bs : snd (load_g codec_of guarded c clip st bs) = load (codec_of c) clip bs.
Proof. unfold load_g. now rewrite with_charset_uses. Qed.

(* text survives save then load with the same charset, for every charset whose codec decodes what it encodes *)
Theorem text_roundtrip c st f bs : codec_ok (codec_of c) -> file_ok (codec_of c) f ->
  snd (save_g codec_of true c st f) = Ok bs -> snd (load_g codec_of true c false st bs) = Ok (normalise f).
Proof.
  intros Hc Hok Hs. rewrite save_uses_file_charset in Hs. rewrite load_uses_file_charset. now apply save_load.
Qed.

(* the tree before the repair: a raising call left its charset behind *)
Theorem unguarded_leaks c st bs : is_raise (load (codec_of c) false bs) = true ->
  g_charset (fst (load_g codec_of false c false st bs)) = c.
Proof.
  intros H. unfold load_g, with_charset, cur_codec. cbn [g_charset]. destruct (load (codec_of c) false bs); [discriminate|reflexivity].
Qed.
End Codecs.
