(* SmfLoadProofs.v — whatever loads is a fixed point of load-save-load (C07, third clause). *)
From Coq Require Import ZArith List Bool Lia ZifyBool.
Require Import Mido.Model.Base Mido.Model.Codec Mido.Model.Varint Mido.Model.Meta Mido.Model.Smf.
Require Import Mido.Proofs.CodecProofs Mido.Proofs.VarintProofs Mido.Proofs.MetaProofs Mido.Proofs.SmfProofs.
Import ListNotations.
Open Scope Z_scope.

Ltac mstep := unfold bind; cbv beta iota zeta.
Definition byte (b : Z) : Prop := 0 <= b <= 255.
(* the text codec gives back the bytes it decoded (true of latin-1, ASCII, UTF-8 ...) *)
Definition codec_bij (cs : codec) : Prop := forall p t, Forall byte p -> c_dec cs p = Ok t -> c_enc cs t = Ok p.

Lemma Ok_inj {A} (a b : A) : Ok a = Ok b -> a = b.
Proof. intros H. injection H as H. exact H. Qed.
Lemma chk_ok lo hi x {A} (k : res A) v : chk lo hi x k = Ok v -> in_rng lo hi x = true /\ k = Ok v.
Proof. unfold chk. destruct (in_rng lo hi x); [auto|discriminate]. Qed.
Lemma idx_byte d i v : Forall byte d -> idx d i = Ok v -> byte v.
Proof. unfold idx. destruct (nth_error d i) eqn:E; [|discriminate]. intros H Hv. injection Hv as <-. rewrite Forall_forall in H. apply H. eapply nth_error_In; eauto. Qed.
Lemma bytes_byte8 d : Forall byte d -> forallb byte8 d = true.
Proof. induction 1 as [|x r Hx Hr IH]; [reflexivity|]. cbn [forallb]. rewrite IH. unfold byte8, byte in *. lia. Qed.

(* what the reader's meta decoder returns is in the domain on which the payload codec round-trips, and re-encodes to at most as many bytes *)
Lemma meta_decode_rt cs ty data x : codec_bij cs -> byte ty -> Forall byte data -> meta_decode cs ty data = Ok x ->
  meta_rt x = true /\ forall p, meta_payload cs x = Ok p -> zlen p <= Z.max (zlen data) 5.
Proof.
  intros Hbij Hty Hd. unfold meta_decode, meta_rt.
  destruct (ty =? 0) eqn:E0.
  { destruct data as [|a r]; [intros H; apply Ok_inj in H; subst x; split; [reflexivity|intros p Hp; apply Ok_inj in Hp; subst p; unfold zlen; cbn; lia]|].
    mstep. destruct (idx (a :: r) 0) as [d0|] eqn:I0; [|discriminate]. destruct (idx (a :: r) 1) as [d1|] eqn:I1; [|discriminate].
    intros H. apply chk_ok in H as [Hr H]. apply Ok_inj in H; subst x. split; [unfold meta_rt_b; cbn [meta_ok]; now rewrite Hr|intros p Hp; apply Ok_inj in Hp; subst p; unfold zlen; cbn [length]; lia]. }
  destruct (is_text_type ty) eqn:Et.
  { mstep. destruct (c_dec cs data) as [t|] eqn:Ec; [|discriminate]. intros H; apply Ok_inj in H; subst x. split; [unfold meta_rt_b; cbn [meta_ok]; now rewrite Et|].
    intros p Hp. cbn [meta_payload] in Hp. rewrite (Hbij _ _ Hd Ec) in Hp. apply Ok_inj in Hp. subst p. lia. }
  destruct (ty =? 32) eqn:E32.
  { mstep. destruct (idx data 0) as [d0|] eqn:I0; [|discriminate]. intros H. apply chk_ok in H as [Hr H]. apply Ok_inj in H; subst x.
    split; [unfold meta_rt_b; cbn [meta_ok]; now rewrite Hr|intros p Hp; apply Ok_inj in Hp; subst p; unfold zlen; cbn [length]; lia]. }
  destruct (ty =? 33) eqn:E33.
  { destruct data as [|d0 r]; [intros H; apply Ok_inj in H; subst x; split; [reflexivity|intros p Hp; apply Ok_inj in Hp; subst p; unfold zlen; cbn; lia]|].
    intros H. apply chk_ok in H as [Hr H]. apply Ok_inj in H; subst x. split; [unfold meta_rt_b; cbn [meta_ok]; now rewrite Hr|intros p Hp; apply Ok_inj in Hp; subst p; unfold zlen; cbn [length]; lia]. }
  destruct (ty =? 47) eqn:E47.
  { intros H; apply Ok_inj in H; subst x. split; [reflexivity|intros p Hp; apply Ok_inj in Hp; subst p; unfold zlen; cbn; lia]. }
  destruct (ty =? 81) eqn:E81.
  { mstep. destruct (idx data 0) as [d0|]; [|discriminate]. destruct (idx data 1) as [d1|]; [|discriminate]. destruct (idx data 2) as [d2|]; [|discriminate].
    intros H. apply chk_ok in H as [Hr H]. apply Ok_inj in H; subst x. split; [unfold meta_rt_b; cbn [meta_ok]; now rewrite Hr|intros p Hp; apply Ok_inj in Hp; subst p; unfold zlen; cbn [length]; lia]. }
  destruct (ty =? 84) eqn:E84.
  { mstep. destruct (idx data 0) as [d0|] eqn:I0; [|discriminate]. destruct (in_rng 0 3 (Z.shiftr d0 5)) eqn:Efr; [|discriminate].
    intros H. apply chk_ok in H as [Hh H]. revert H. mstep. destruct (idx data 1) as [m|]; [|discriminate]. intros H. apply chk_ok in H as [Hm H]. revert H. mstep.
    destruct (idx data 2) as [s|]; [|discriminate]. intros H. apply chk_ok in H as [Hs H]. revert H. mstep.
    destruct (idx data 3) as [f|]; [|discriminate]. intros H. apply chk_ok in H as [Hf H]. revert H. mstep.
    destruct (idx data 4) as [sf|]; [|discriminate]. intros H. apply chk_ok in H as [Hsf H]. apply Ok_inj in H; subst x.
    split; [|intros p Hp; apply Ok_inj in Hp; subst p; unfold zlen; cbn [length]; lia].
    unfold meta_rt_b; cbn [meta_ok]. rewrite Efr, Hh, Hm, Hs, Hf, Hsf. cbn [andb].
    pose proof (idx_byte _ _ _ Hd I0) as Hb. unfold byte in Hb.
    assert (Z.land d0 31 <= 31) by (change 31 with (Z.ones 5); rewrite Z.land_ones by lia; pose proof (Z.mod_pos_bound d0 (2^5) ltac:(lia)); change (Z.ones 5) with 31; lia).
    lia. }
  destruct (ty =? 88) eqn:E88.
  { mstep. destruct (idx data 0) as [n|]; [|discriminate]. intros H. apply chk_ok in H as [Hn H]. revert H. mstep.
    destruct (idx data 1) as [e|]; [|discriminate].
    destruct (in_rng 1 (2 ^ 255) (2 ^ e) && is_pow2 (2 ^ e)) eqn:Ed; [|discriminate]. mstep.
    destruct (idx data 2) as [cc|]; [|discriminate]. intros H. apply chk_ok in H as [Hc H]. revert H. mstep.
    destruct (idx data 3) as [b|]; [|discriminate]. intros H. apply chk_ok in H as [Hb H]. apply Ok_inj in H; subst x.
    split; [|intros p Hp; apply Ok_inj in Hp; subst p; unfold zlen; cbn [length]; lia].
    unfold meta_rt_b; cbn [meta_ok]. apply andb_true_iff in Ed as [Ed1 Ed2]. now rewrite Hn, Ed1, Ed2, Hc, Hb. }
  destruct (ty =? 89) eqn:E89.
  { mstep. destruct (idx data 0) as [d0|]; [|discriminate]. destruct (idx data 1) as [mode|]; [|discriminate].
    destruct (in_rng (-7) 7 (if d0 <? 128 then d0 else d0 - 256) && in_rng 0 1 mode) eqn:Ek; [|discriminate].
    intros H; apply Ok_inj in H; subst x. split; [|intros p Hp; apply Ok_inj in Hp; subst p; unfold zlen; cbn [length]; lia].
    unfold meta_rt_b; cbn [meta_ok]. now rewrite Ek. }
  destruct (ty =? 127) eqn:E127.
  { destruct (forallb byte8 data) eqn:Eb; [|discriminate]. intros H; apply Ok_inj in H; subst x.
    split; [unfold meta_rt_b; cbn [meta_ok]; now rewrite Eb|intros p Hp; apply Ok_inj in Hp; subst p; lia]. }
  intros H; apply Ok_inj in H; subst x. split; [|intros p Hp; apply Ok_inj in Hp; subst p; lia].
  unfold meta_rt_b; cbn [meta_ok]. rewrite (bytes_byte8 _ Hd). unfold known_type. rewrite E0, Et, E32, E33, E47, E81, E84, E88, E89, E127. cbn [orb negb andb].
  unfold in_rng, byte in *. lia.
Qed.

(* ---- the reader hands on bytes ---- *)
Lemma Forall_skipn {A} (P : A -> Prop) : forall n l, Forall P l -> Forall P (skipn n l).
Proof. induction n as [|n IH]; intros l H; [exact H|]. destruct l; [constructor|]. inversion H; subst. cbn [skipn]. auto. Qed.
Lemma Forall_firstn' {A} (P : A -> Prop) : forall n l, Forall P l -> Forall P (firstn n l).
Proof. induction n as [|n IH]; intros l H; [constructor|]. destruct l; [constructor|]. inversion H; subst. cbn [firstn]. constructor; auto. Qed.
Lemma read_varint_acc_bytes : forall bs acc n rest, Forall byte bs -> read_varint_acc acc bs = Some (n, rest) -> Forall byte rest.
Proof.
  induction bs as [|b r IH]; intros acc n rest Hb H; cbn [read_varint_acc] in H; [discriminate|]. inversion Hb; subst.
  destruct (b <? 128); [injection H as _ <-; assumption|eapply IH; eauto].
Qed.
Lemma read_vi_bytes bs n rest : Forall byte bs -> read_vi bs = Ok (n, rest) -> Forall byte rest.
Proof. unfold read_vi, read_varint. destruct (read_varint_acc 0 bs) as [[n' r']|] eqn:E; [|discriminate]. intros Hb H. apply Ok_inj in H. injection H as _ <-. eapply read_varint_acc_bytes; eauto. Qed.
Lemma read_bytes_bytes size bs p rest : Forall byte bs -> read_bytes size bs = Ok (p, rest) ->
  Forall byte p /\ Forall byte rest /\ zlen p <= MAX_MESSAGE_LENGTH.
Proof.
  unfold read_bytes, take. intros Hb. destruct (MAX_MESSAGE_LENGTH <? size) eqn:E1; [discriminate|]. destruct (zlen bs <? size) eqn:E2; [discriminate|].
  destruct (length bs <? Z.to_nat size)%nat eqn:E3; [discriminate|]. intros H. apply Ok_inj in H. injection H as <- <-.
  split; [now apply Forall_firstn'|]. split; [now apply Forall_skipn|]. unfold zlen in *. rewrite firstn_length. unfold MAX_MESSAGE_LENGTH in *. lia.
Qed.
Lemma strip_sysex_len d : zlen (strip_sysex d) <= zlen d.
Proof.
  unfold strip_sysex. set (d1 := match d with x :: t => if x =? 240 then t else d | [] => d end).
  assert (H1 : zlen d1 <= zlen d) by (unfold d1, zlen; destruct d as [|x t]; [lia|destruct (x =? 240); cbn [length]; lia]).
  destruct (rev d1) as [|x t] eqn:Er; [exact H1|]. destruct (x =? 247); [|exact H1].
  assert (zlen d1 = zlen t + 1) by (unfold zlen; rewrite <- (rev_length d1), Er; cbn [length]; lia). unfold zlen in *. rewrite rev_length. lia.
Qed.

(* what a loaded event can be *)
Definition ev_loaded (cs : codec) (e : event) : Prop :=
  match e with
  | EMsg m => valid m = true /\ (forall d, m = Sysex d -> zlen d <= MAX_MESSAGE_LENGTH)
  | EMeta x => meta_rt x = true /\ (forall p, meta_payload cs x = Ok p -> zlen p <= MAX_MESSAGE_LENGTH)
  end.

Lemma read_event_loaded cs last bs t e last' rest : codec_bij cs -> Forall byte bs ->
  read_event cs false last bs = Ok ((t, e), last', rest) -> ev_loaded cs e /\ Forall byte rest.
Proof.
  intros Hbij Hb. unfold read_event. mstep. destruct (read_vi bs) as [[dt bs1]|] eqn:Ev; [|discriminate].
  pose proof (read_vi_bytes _ _ _ Hb Ev) as Hb1. destruct bs1 as [|sb bs2]; [discriminate|]. inversion Hb1 as [|? ? Hsb Hb2]; subst.
  destruct (sb <? 128) eqn:Esb.
  - destruct last as [l|]; [|discriminate]. mstep.
    destruct (l =? 255) eqn:E255.
    + destruct bs2 as [|ty bs3]; [discriminate|]. inversion Hb2 as [|? ? Hty Hb3]; subst. mstep.
      destruct (read_vi bs3) as [[n bs4]|] eqn:Ev2; [|discriminate]. pose proof (read_vi_bytes _ _ _ Hb3 Ev2) as Hb4.
      destruct (read_bytes n bs4) as [[p bs5]|] eqn:Er; [|discriminate]. destruct (read_bytes_bytes _ _ _ _ Hb4 Er) as (Hp & Hb5 & Hlen).
      destruct (meta_decode cs ty p) as [x|] eqn:Em; [|discriminate]. intros H. apply Ok_inj in H. injection H as _ <- _ <-.
      destruct (meta_decode_rt cs ty p x Hbij Hty Hp Em) as [R1 R2]. split; [|exact Hb5]. split; [exact R1|].
      intros p' Hp'. specialize (R2 p' Hp'). unfold MAX_MESSAGE_LENGTH in *. lia.
    + destruct ((l =? 240) || (l =? 247)) eqn:Esx.
      * destruct (read_vi bs2) as [[n bs3]|] eqn:Ev2; [|discriminate]. pose proof (read_vi_bytes _ _ _ Hb2 Ev2) as Hb3.
        destruct (read_bytes n bs3) as [[d bs4]|] eqn:Er; [|discriminate]. destruct (read_bytes_bytes _ _ _ _ Hb3 Er) as (Hp & Hb4 & Hlen).
        unfold clip_bytes. destruct (forallb byte7 (strip_sysex d)) eqn:E7; [|discriminate]. intros H. apply Ok_inj in H. injection H as _ <- _ <-.
        split; [|exact Hb4]. split; [exact E7|]. intros d0 Hd0. injection Hd0 as <-. pose proof (strip_sysex_len d). lia.
      * destruct (kind_of_status l) as [k|] eqn:Ek; [|discriminate].
        destruct (read_bytes _ bs2) as [[ds bs3]|] eqn:Er; [|discriminate]. destruct (read_bytes_bytes _ _ _ _ Hb2 Er) as (Hp & Hb3 & Hlen).
        cbn [orb]. unfold clip_bytes. destruct (forallb (fun b => b <=? 127) ([sb] ++ ds)); [|discriminate].
        destruct (dec (l :: [sb] ++ ds)) as [m|] eqn:Ed; [|discriminate]. intros H. apply Ok_inj in H. injection H as _ <- _ <-.
        pose proof (exact (l :: [sb] ++ ds)) as Hg. rewrite Ed in Hg. destruct Hg as [Hv He]. split; [|exact Hb3]. split; [exact Hv|].
        intros d0 Hd0. subst m. cbn in He. injection He as He _. lia.
  - mstep. destruct (sb =? 255) eqn:E255.
    + destruct bs2 as [|ty bs3]; [discriminate|]. inversion Hb2 as [|? ? Hty Hb3]; subst. mstep.
      destruct (read_vi bs3) as [[n bs4]|] eqn:Ev2; [|discriminate]. pose proof (read_vi_bytes _ _ _ Hb3 Ev2) as Hb4.
      destruct (read_bytes n bs4) as [[p bs5]|] eqn:Er; [|discriminate]. destruct (read_bytes_bytes _ _ _ _ Hb4 Er) as (Hp & Hb5 & Hlen).
      destruct (meta_decode cs ty p) as [x|] eqn:Em; [|discriminate]. intros H. apply Ok_inj in H. injection H as _ <- _ <-.
      destruct (meta_decode_rt cs ty p x Hbij Hty Hp Em) as [R1 R2]. split; [|exact Hb5]. split; [exact R1|].
      intros p' Hp'. specialize (R2 p' Hp'). unfold MAX_MESSAGE_LENGTH in *. lia.
    + destruct ((sb =? 240) || (sb =? 247)) eqn:Esx.
      * destruct (read_vi bs2) as [[n bs3]|] eqn:Ev2; [|discriminate]. pose proof (read_vi_bytes _ _ _ Hb2 Ev2) as Hb3.
        destruct (read_bytes n bs3) as [[d bs4]|] eqn:Er; [|discriminate]. destruct (read_bytes_bytes _ _ _ _ Hb3 Er) as (Hp & Hb4 & Hlen).
        unfold clip_bytes. destruct (forallb byte7 (strip_sysex d)) eqn:E7; [|discriminate]. intros H. apply Ok_inj in H. injection H as _ <- _ <-.
        split; [|exact Hb4]. split; [exact E7|]. intros d0 Hd0. injection Hd0 as <-. pose proof (strip_sysex_len d). lia.
      * destruct (kind_of_status sb) as [k|] eqn:Ek; [|discriminate].
        destruct (read_bytes _ bs2) as [[ds bs3]|] eqn:Er; [|discriminate]. destruct (read_bytes_bytes _ _ _ _ Hb2 Er) as (Hp & Hb3 & Hlen).
        cbn [orb]. unfold clip_bytes. destruct (forallb (fun b => b <=? 127) ([] ++ ds)); [|discriminate].
        destruct (dec (sb :: [] ++ ds)) as [m|] eqn:Ed; [|discriminate]. intros H. apply Ok_inj in H. injection H as _ <- _ <-.
        pose proof (exact (sb :: [] ++ ds)) as Hg. rewrite Ed in Hg. destruct Hg as [Hv He]. split; [|exact Hb3]. split; [exact Hv|].
        intros d0 Hd0. subst m. cbn in He. injection He as He _. lia.
Qed.

Definition track_loaded cs (tr : list tev) : Prop := Forall (fun te => ev_loaded cs (snd te)) tr.

Lemma read_events_loaded cs : codec_bij cs -> forall fuel remaining last bs evs rest, Forall byte bs ->
  read_events cs false fuel remaining last bs = Ok (evs, rest) -> track_loaded cs evs /\ Forall byte rest.
Proof.
  intros Hbij. induction fuel as [|f IH]; intros remaining last bs evs rest Hb H; cbn [read_events] in H.
  - destruct (remaining =? 0); [|discriminate]. apply Ok_inj in H. injection H as <- <-. split; [constructor|exact Hb].
  - destruct (remaining =? 0); [apply Ok_inj in H; injection H as <- <-; split; [constructor|exact Hb]|].
    revert H. mstep. destruct (read_event cs false last bs) as [[[te last'] r1]|] eqn:Ee; [|discriminate]. destruct te as [t e].
    destruct (read_event_loaded cs last bs t e last' r1 Hbij Hb Ee) as [He Hr1].
    destruct (read_events cs false f _ last' r1) as [[evs' rest']|] eqn:Er; [|discriminate]. intros H. apply Ok_inj in H. injection H as <- <-.
    destruct (IH _ _ _ _ _ Hr1 Er) as [Ht Hrest]. split; [constructor; [exact He|exact Ht]|exact Hrest].
Qed.
Lemma read_track_loaded cs bs tr rest : codec_bij cs -> Forall byte bs -> read_track cs false bs = Ok (tr, rest) -> track_loaded cs tr /\ Forall byte rest.
Proof.
  intros Hbij Hb. unfold read_track, read_chunk_header. mstep.
  destruct bs as [|a [|b [|c [|d [|s0 [|s1 [|s2 [|s3 r]]]]]]]]; try discriminate. mstep.
  destruct (list_eqb [a; b; c; d] MTrk); [|discriminate]. apply read_events_loaded; [exact Hbij|].
  repeat (match goal with H : Forall byte (_ :: _) |- _ => inversion H; subst; clear H end). assumption.
Qed.
Lemma read_tracks_loaded cs : codec_bij cs -> forall n bs trs, Forall byte bs -> read_tracks cs false n bs = Ok trs -> Forall (track_loaded cs) trs.
Proof.
  intros Hbij. induction n as [|k IH]; intros bs trs Hb H; cbn [read_tracks] in H; [apply Ok_inj in H; subst; constructor|].
  revert H. mstep. destruct (read_track cs false bs) as [[tr r]|] eqn:Et; [|discriminate]. destruct (read_track_loaded cs bs tr r Hbij Hb Et) as [Htr Hr].
  destruct (read_tracks cs false k r) as [rest|] eqn:Er; [|discriminate]. intros H. apply Ok_inj in H. subst trs. constructor; [exact Htr|eapply IH; eauto].
Qed.
Theorem load_loaded cs bs f : codec_bij cs -> Forall byte bs -> load cs false bs = Ok f -> Forall (track_loaded cs) (f_tracks f).
Proof.
  intros Hbij Hb. unfold load, read_chunk_header. mstep.
  destruct bs as [|a [|b [|c [|d [|s0 [|s1 [|s2 [|s3 r]]]]]]]]; try discriminate. mstep.
  destruct (negb (list_eqb [a; b; c; d] MThd)); [discriminate|].
  assert (Hr : Forall byte r) by (repeat (match goal with H : Forall byte (_ :: _) |- _ => inversion H; subst; clear H end); assumption).
  destruct (firstn _ r) as [|t0 [|t1 [|n0 [|n1 [|d0 [|d1 tl6]]]]]]; try discriminate.
  destruct (read_tracks cs false _ _) as [trs|] eqn:Et; [|discriminate]. intros H. apply Ok_inj in H. subst f. cbn [f_tracks].
  eapply read_tracks_loaded; [exact Hbij| |exact Et]. now apply Forall_skipn.
Qed.

(* ---- a file that save accepts holds no real-time message ---- *)
Lemma fix_eot_keeps e : is_eot e = false -> forall tr a t, In (t, e) tr -> exists t', In (t', e) (fix_eot_acc a tr).
Proof.
  intros He. induction tr as [|[t0 e0] r IH]; intros a t Hi; [contradiction|]. cbn [fix_eot_acc].
  destruct Hi as [Hi|Hi].
  - injection Hi as -> ->. rewrite He. destruct (truthy a); eexists; left; reflexivity.
  - destruct (is_eot e0); [apply (IH _ _ Hi)|]. destruct (truthy a); destruct (IH (TInt 0) t Hi) as [t' Ht']; exists t'; right; exact Ht'.
Qed.
Lemma save_no_realtime cs f bs2 : codec_ok cs -> save cs f = Ok bs2 -> forall tr, In tr (f_tracks f) -> forall te, In te tr -> is_realtime (snd te) = false.
Proof.
  intros Hcs Hs tr Htr [t e] Hte. cbn [snd]. destruct (is_realtime e) eqn:Er; [|reflexivity]. exfalso.
  assert (Hne : is_eot e = false) by (destruct e as [m|x]; [reflexivity|destruct x; try reflexivity; discriminate]).
  destruct (fix_eot_keeps e Hne tr (TInt 0) t Hte) as [t' Ht'].
  assert (Hu : existsb (fun tr => existsb unstorable (fix_eot tr)) (f_tracks f) = true).
  { apply existsb_exists. exists tr. split; [exact Htr|]. apply existsb_exists. exists (t', e). split; [exact Ht'|]. unfold unstorable. cbn [fst snd]. rewrite Er. apply orb_true_r. }
  pose proof (save_rejects cs f Hcs Hu) as Hr. rewrite Hs in Hr. discriminate.
Qed.

(* the sysex events of the file leave room for the closing F7 within the reader's limit (what the known finding "sysex-at-limit" excludes) *)
Definition sysex_room (f : midifile) : Prop :=
  forall tr, In tr (f_tracks f) -> forall t d, In (t, EMsg (Sysex d)) tr -> zlen d + 1 <= MAX_MESSAGE_LENGTH.

(* THE clause: any byte string that loads is a fixed point of load-save-load - if saving what was loaded succeeds, loading that gives the
   first result again, normalised (exactly one end_of_track per track, at the end) *)
Theorem load_save_load cs bs f bs2 : codec_ok cs -> codec_bij cs -> Forall byte bs ->
  load cs false bs = Ok f -> sysex_room f -> save cs f = Ok bs2 -> load cs false bs2 = Ok (normalise f).
Proof.
  intros Hcs Hbij Hb Hl Hroom Hs. apply (save_load cs f bs2 Hcs); [|exact Hs].
  pose proof (load_loaded cs bs f Hbij Hb Hl) as HL. unfold file_ok. rewrite Forall_forall in *. intros tr Htr. specialize (HL tr Htr).
  unfold track_ok, track_loaded in *. rewrite Forall_forall in *. intros te Hte. specialize (HL te Hte).
  pose proof (save_no_realtime cs f bs2 Hcs Hs tr Htr te Hte) as Hnr. destruct te as [t e]. cbn [snd] in *.
  destruct e as [m|x]; cbn [ev_ok ev_loaded] in *.
  - destruct HL as [Hv Hsz]. split; [exact Hv|]. split; [exact Hnr|]. intros d ->. eapply Hroom; eauto.
  - exact HL.
Qed.
(* ... and from there on nothing changes any more *)
Corollary load_save_load_stable cs bs f bs2 bs3 : codec_ok cs -> codec_bij cs -> Forall byte bs ->
  load cs false bs = Ok f -> sysex_room f -> save cs f = Ok bs2 -> file_ok cs (normalise f) -> save cs (normalise f) = Ok bs3 ->
  load cs false bs3 = Ok (normalise f).
Proof.
  intros Hcs Hbij Hb Hl Hroom Hs Hok Hs3. rewrite (save_load cs (normalise f) bs3 Hcs Hok Hs3). f_equal. unfold normalise. cbn [f_type f_tpb f_tracks].
  f_equal. rewrite map_map. apply map_ext. intros tr. apply fix_eot_idem.
Qed.
Lemma latin1_bij : codec_bij latin1.
Proof. intros p t Hp H. cbn in *. apply Ok_inj in H. subst t. now rewrite (bytes_byte8 _ Hp). Qed.
Lemma ascii_bij : codec_bij ascii.
Proof. intros p t Hp H. cbn in *. destruct (forallb byte7 p) eqn:E; [|discriminate]. apply Ok_inj in H. subst t. now rewrite E. Qed.
