(* TempoProofs.v — playback timing follows the tempo map (C13), exact arithmetic. *)
From Coq Require Import ZArith QArith Qround List Bool Lia Lqa.
Require Import Mido.Model.Base Mido.Model.Tempo.
Import ListNotations.

Open Scope Z_scope.
Definition dflt : pmsg := {| p_dt := 0; p_tempo := None; p_meta := false |}.

(* the k-th yielded delta is (delta ticks) x (the tempo set by the last set_tempo strictly before message k) *)
Lemma iter_num_nth : forall ms tempo k, (k < length ms)%nat -> 0 <= p_dt (nth k ms dflt) ->
  nth k (iter_num tempo ms) 0 = p_dt (nth k ms dflt) * fold_left next_tempo (firstn k ms) tempo.
Proof.
  induction ms as [|m r IH]; intros tempo k Hk Hd; [cbn in Hk; lia|].
  destruct k as [|k]; cbn [iter_num nth firstn fold_left] in *.
  - destruct (0 <? p_dt m) eqn:E; [reflexivity|]. assert (p_dt m = 0) by lia. lia.
  - apply IH; [cbn [length] in Hk; lia|assumption].
Qed.

Lemma iter_num_length : forall ms tempo, length (iter_num tempo ms) = length ms.
Proof. induction ms as [|m r IH]; intros tempo; cbn; [reflexivity|]. now rewrite IH. Qed.

Definition sumz (l : list Z) : Z := fold_right Z.add 0 l.
Lemma sumz_firstn_S : forall (l : list Z) k, (k < length l)%nat -> sumz (firstn (S k) l) = sumz (firstn k l) + nth k l 0.
Proof.
  induction l as [|x r IH]; intros k Hk; [cbn in Hk; lia|]. destruct k as [|k]; [cbn; lia|].
  change (firstn (S (S k)) (x :: r)) with (x :: firstn (S k) r). change (firstn (S k) (x :: r)) with (x :: firstn k r).
  cbn [sumz fold_right nth]. fold (sumz (firstn (S k) r)). fold (sumz (firstn k r)). rewrite IH by (cbn [length] in Hk; lia). lia.
Qed.

(* cumulative time of message k = the tempo-map integral up to its absolute tick (numerators over 10^6 * ticks_per_beat) *)
Theorem cumulative_is_integral ms : Forall (fun m => 0 <= p_dt m) ms -> forall k, (k < length ms)%nat ->
  sumz (firstn (S k) (iter_num DEFAULT_TEMPO ms)) = integral_num ms k.
Proof.
  intros Hnn. induction k as [|k IH]; intros Hk.
  - unfold integral_num. cbn [seq map fold_right]. rewrite sumz_firstn_S by (rewrite iter_num_length; lia). cbn [firstn sumz fold_right].
    rewrite iter_num_nth by (try lia; rewrite Forall_forall in Hnn; apply Hnn, nth_In; lia). unfold tempo_before. fold dflt. lia.
  - rewrite sumz_firstn_S by (rewrite iter_num_length; lia). rewrite IH by lia.
    unfold integral_num. rewrite (seq_S (S k) 0), map_app. cbn [map plus].
    assert (Hs : forall a b, fold_right Z.add 0 (a ++ [b]) = fold_right Z.add 0 a + b) by (induction a; intros; cbn; [lia|rewrite IHa; lia]).
    rewrite Hs. f_equal. rewrite iter_num_nth by (try lia; rewrite Forall_forall in Hnn; apply Hnn, nth_In; lia). reflexivity.
Qed.

(* length = cumulative time of the last message *)
Theorem length_is_last ms : ms <> [] -> length_num ms = sumz (firstn (S (length ms - 1)) (iter_num DEFAULT_TEMPO ms)).
Proof.
  intros Hne. unfold length_num. fold (sumz (iter_num DEFAULT_TEMPO ms)). f_equal.
  rewrite firstn_all2; [reflexivity|]. rewrite iter_num_length. destruct ms; [congruence|cbn [length]; lia].
Qed.

(* a set_tempo applies only to the deltas AFTER it *)
Theorem tempo_applies_after ms k t : (S k < length ms)%nat -> p_tempo (nth k ms dflt) = Some t -> tempo_before ms (S k) = t.
Proof.
  intros Hk Ht. unfold tempo_before. revert ms Hk Ht. generalize DEFAULT_TEMPO.
  induction k as [|k IH]; intros t0 ms Hk Ht; (destruct ms as [|m r]; [cbn in Hk; lia|]).
  - cbn [nth] in Ht. cbn [firstn fold_left]. unfold next_tempo. rewrite Ht. destruct r; reflexivity.
  - cbn [nth] in Ht. change (firstn (S (S k)) (m :: r)) with (m :: firstn (S k) r). cbn [fold_left]. apply IH; [cbn [length] in Hk; lia|exact Ht].
Qed.

(* ---- tick2second / second2tick are mutually inverse on integer ticks, exactly ---- *)
Open Scope Q_scope.
Lemma round_int (n : Z) x : x == inject_Z n -> round_half_even x = n.
Proof.
  intros H. unfold round_half_even. rewrite (Qfloor_comp _ _ H), Qfloor_Z.
  assert (Hd : x - inject_Z n == 0) by (rewrite H; ring).
  destruct (Qcompare (x - inject_Z n) (1 # 2)) eqn:E.
  - apply Qeq_alt in E. rewrite Hd in E. discriminate.
  - reflexivity.
  - apply Qgt_alt in E. rewrite Hd in E. discriminate.
Qed.
Theorem second2tick_tick2second n tpb tempo : (0 < tempo)%Z -> (0 < tpb)%Z -> second2tick_q (tick2second_q n tpb tempo) tpb tempo = n.
Proof.
  intros Ht Hp. unfold second2tick_q, tick2second_q. apply round_int.
  assert (H1 : ~ inject_Z tempo == 0) by (intros H; apply (f_equal Qnum) in H || idtac; unfold Qeq in *; cbn in *; lia).
  assert (H2 : ~ inject_Z tpb == 0) by (intros H; unfold Qeq in *; cbn in *; lia).
  field. repeat split; assumption.
Qed.

(* ---- play ---- *)
Open Scope Z_scope.
Definition nonneg (l : list Z) : Prop := Forall (fun x => 0 <= x) l.

(* never before the scheduled time: every message is yielded at clock >= start + (its cumulative time) *)
Theorem play_not_early mm start : forall ms clock input_time k eps holds, nonneg eps -> nonneg holds ->
  Forall2 (fun yc s => start + s <= snd yc) (play mm start clock input_time k ms eps holds)
          (map snd (filter (fun p => negb (q_meta (fst p) && negb mm)) (combine ms (sched input_time ms)))).
Proof.
  induction ms as [|m r IH]; intros clock input_time k eps holds He Hh; cbn [play sched combine filter map]; [constructor|].
  set (it := input_time + q_delta m). set (dur := it - (clock - start)).
  assert (He' : nonneg (if 0 <? dur then tl eps else eps)) by (destruct (0 <? dur); [destruct eps; [constructor|now apply Forall_inv_tail in He]|assumption]).
  assert (Hhd : 0 <= hd 0 eps) by (destruct eps; [cbn; lia|now apply Forall_inv in He]).
  cbn [fst]. destruct (q_meta m && negb mm); cbn [negb].
  - apply IH; assumption.
  - cbn [map snd]. constructor; [|apply IH; [assumption|destruct holds; [constructor|now apply Forall_inv_tail in Hh]]].
    cbn [snd]. destruct (0 <? dur) eqn:Hd; unfold dur, it in *; lia.
Qed.

(* no accumulated drift: with exact sleeps a message is yielded at max(its scheduled time, the time the consumer came back);
   the next step starts from that clock plus the consumer's hold *)
Theorem play_no_drift mm start m r clock input_time k holds :
  q_meta m && negb mm = false ->
  play mm start clock input_time k (m :: r) [] holds =
    (k, Z.max (start + (input_time + q_delta m)) clock) ::
    play mm start (Z.max (start + (input_time + q_delta m)) clock + hd 0 holds) (input_time + q_delta m) (S k) r [] (tl holds).
Proof.
  intros Hk. cbn [play]. rewrite Hk. cbn [hd tl].
  destruct (0 <? input_time + q_delta m - (clock - start)) eqn:H.
  - assert (E : clock + (input_time + q_delta m - (clock - start)) + 0 = Z.max (start + (input_time + q_delta m)) clock) by lia.
    rewrite E. reflexivity.
  - assert (E : Z.max (start + (input_time + q_delta m)) clock = clock) by lia. rewrite E. reflexivity.
Qed.

(* play yields exactly the messages of iteration, meta messages only on request, in order *)
Theorem play_filter mm start : forall ms clock input_time k eps holds,
  map fst (play mm start clock input_time k ms eps holds) =
  map snd (filter (fun p => negb (q_meta (fst p) && negb mm)) (combine ms (seq k (length ms)))).
Proof.
  induction ms as [|m r IH]; intros clock input_time k eps holds; cbn [play length seq combine filter map]; [reflexivity|].
  cbn [fst]. destruct (q_meta m && negb mm); cbn [negb map fst snd]; [apply IH|]. f_equal. apply IH.
Qed.
