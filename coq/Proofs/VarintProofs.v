(* VarintProofs.v — variable-length quantities: reading an encoding gives the value back, for every n >= 0. *)
From Coq Require Import ZArith NArith List Bool Lia.
Require Import Mido.Model.Base Mido.Model.Varint.
Import ListNotations.
Open Scope Z_scope.

Lemma land_disjoint acc b : Z.land (Z.shiftl acc 7) (b mod 2^7) = 0.
Proof.
  apply Z.bits_inj'; intros n Hn. rewrite Z.land_spec, Z.bits_0.
  destruct (Z.ltb_spec n 7) as [Hlt|Hge].
  - rewrite Z.shiftl_spec_low by lia. reflexivity.
  - rewrite (Z.mod_pow2_bits_high b 7 n) by lia. apply andb_false_r.
Qed.

Lemma lor_shift7 acc b : 0 <= acc -> Z.lor (Z.shiftl acc 7) (Z.land b 127) = acc * 128 + b mod 128.
Proof.
  intros Ha.
  change 127 with (Z.ones 7). rewrite Z.land_ones by lia.
  rewrite <- Z.lxor_lor by apply land_disjoint.
  rewrite <- Z.add_nocarry_lxor by apply land_disjoint.
  rewrite Z.shiftl_mul_pow2 by lia. reflexivity.
Qed.

(* value of hi digit prefix: reading them with accumulator acc yields acc * 128^k + m *)
Lemma read_hi fuel : forall m acc tail, 0 <= acc -> 0 <= m -> m < 128 ^ (Z.of_nat fuel) ->
  exists k, 0 <= k /\ (m = 0 -> k = 0) /\ read_varint_acc acc (hi_digits fuel m ++ tail) = read_varint_acc (acc * 128 ^ k + m) tail /\ m < 128 ^ k.
Proof.
  induction fuel as [|f IH]; intros m acc tail Ha Hm Hlt.
  - exists 0. cbn in *. assert (m = 0) by lia. subst. repeat split; try lia. f_equal. lia.
  - cbn [hi_digits]. destruct (m =? 0) eqn:E.
    + apply Z.eqb_eq in E. subst. exists 0. cbn. repeat split; try lia. f_equal; lia.
    + apply Z.eqb_neq in E.
      assert (Hq : 0 <= m / 128) by (apply Z.div_pos; lia).
      assert (Hq2 : m / 128 < 128 ^ Z.of_nat f).
      { apply Z.div_lt_upper_bound; [lia|]. rewrite Nat2Z.inj_succ, Z.pow_succ_r in Hlt by lia. lia. }
      destruct (IH (m / 128) acc ((m mod 128 + 128) :: tail) Ha Hq Hq2) as [k [Hk [Hk0 [Hr Hb]]]].
      exists (k + 1). rewrite <- app_assoc. cbn [app]. rewrite Hr. cbn [read_varint_acc].
      pose proof (Z.mod_pos_bound m 128 ltac:(lia)) as Hmod.
      destruct (m mod 128 + 128 <? 128) eqn:E2; [lia|].
      rewrite lor_shift7 by (apply Z.add_nonneg_nonneg; [apply Z.mul_nonneg_nonneg; [lia|apply Z.pow_nonneg; lia]|lia]).
      replace ((m mod 128 + 128) mod 128) with (m mod 128).
      2:{ replace (m mod 128 + 128) with (m mod 128 + 1*128) by lia. rewrite Z.mod_add by lia. now rewrite Zmod_mod. }
      repeat split; try lia.
      * f_equal. rewrite Z.pow_add_r by lia. change (128^1) with 128.
        pose proof (Z.div_mod m 128 ltac:(lia)). lia.
      * rewrite Z.pow_add_r by lia. change (128^1) with 128.
        pose proof (Z.div_mod m 128 ltac:(lia)). lia.
Qed.

Theorem read_enc_varint n rest : 0 <= n -> read_varint (enc_varint n ++ rest) = Some (n, rest).
Proof.
  intros Hn. unfold read_varint, enc_varint. rewrite <- app_assoc. cbn [app].
  assert (Hq : 0 <= n / 128) by (apply Z.div_pos; lia).
  assert (Hlt : n / 128 < 128 ^ Z.of_nat (Z.to_nat (Z.log2 n) + 1)).
  { destruct (Z.eq_dec n 0) as [->|Hne]; [cbn; lia|].
    apply Z.div_lt_upper_bound; [lia|].
    rewrite Nat2Z.inj_add, Z2Nat.id by apply Z.log2_nonneg. change (Z.of_nat 1) with 1.
    pose proof (Z.log2_spec n ltac:(lia)) as [_ Hu].
    assert (2 ^ Z.succ (Z.log2 n) <= 128 ^ (Z.log2 n + 1)).
    { change 128 with (2^7). rewrite <- Z.pow_mul_r by (try lia; pose proof (Z.log2_nonneg n); lia).
      apply Z.pow_le_mono_r; pose proof (Z.log2_nonneg n); lia. }
    pose proof (Z.pow_pos_nonneg 128 (Z.log2 n + 1) ltac:(lia) ltac:(pose proof (Z.log2_nonneg n); lia)). nia. }
  destruct (read_hi _ (n / 128) 0 ((n mod 128) :: rest) ltac:(lia) Hq Hlt) as [k [Hk [_ [Hr _]]]].
  rewrite Hr. cbn [read_varint_acc]. pose proof (Z.mod_pos_bound n 128 ltac:(lia)).
  destruct (n mod 128 <? 128) eqn:E; [|lia].
  rewrite lor_shift7 by lia. rewrite Zmod_mod. f_equal. f_equal.
  pose proof (Z.div_mod n 128 ltac:(lia)). lia.
Qed.

(* ---- shape of an encoding: continuation digits (>= 128) then one final digit (< 128); minimal ---- *)
Lemma hi_digits_shape fuel : forall m, 0 <= m -> Forall (fun b => 128 <= b <= 255) (hi_digits fuel m).
Proof.
  induction fuel as [|f IH]; intros m Hm; cbn [hi_digits]; [constructor|].
  destruct (m =? 0); [constructor|]. apply Forall_app; split.
  - apply IH. apply Z.div_pos; lia.
  - constructor; [|constructor]. pose proof (Z.mod_pos_bound m 128 ltac:(lia)). lia.
Qed.

Lemma enc_varint_shape n : 0 <= n ->
  exists hi last, enc_varint n = hi ++ [last] /\ Forall (fun b => 128 <= b <= 255) hi /\ 0 <= last <= 127.
Proof.
  intros Hn. unfold enc_varint. eexists; eexists. split; [reflexivity|]. split.
  - apply hi_digits_shape. apply Z.div_pos; lia.
  - pose proof (Z.mod_pos_bound n 128 ltac:(lia)). lia.
Qed.

Lemma enc_varint_bytes n : 0 <= n -> Forall (fun b => 0 <= b <= 255) (enc_varint n).
Proof.
  intros Hn. destruct (enc_varint_shape n Hn) as (hi & last & -> & Hh & Hl). apply Forall_app; split.
  - eapply Forall_impl; [|exact Hh]. cbn; lia.
  - constructor; [lia|constructor].
Qed.

(* minimal: the first digit of a multi-digit encoding is not the padding byte 0x80 *)
Lemma hi_digits_head fuel : forall m, 0 < m -> m < 128 ^ Z.of_nat fuel -> exists d r, hi_digits fuel m = d :: r /\ d <> 128.
Proof.
  induction fuel as [|f IH]; intros m Hm Hlt; [cbn in Hlt; lia|].
  cbn [hi_digits]. destruct (m =? 0) eqn:E; [lia|].
  destruct (Z.eq_dec (m / 128) 0) as [Hz|Hnz].
  - rewrite Hz. assert (hi_digits f 0 = []) as -> by (destruct f; reflexivity). cbn [app].
    eexists; eexists; split; [reflexivity|]. assert (m mod 128 = m) by (apply Z.mod_small; apply Z.div_small_iff in Hz; lia). lia.
  - assert (0 < m / 128) by (pose proof (Z.div_pos m 128 ltac:(lia) ltac:(lia)); lia).
    assert (m / 128 < 128 ^ Z.of_nat f).
    { apply Z.div_lt_upper_bound; [lia|]. rewrite Nat2Z.inj_succ, Z.pow_succ_r in Hlt by lia. lia. }
    destruct (IH (m / 128) ltac:(lia) ltac:(lia)) as (d & r & -> & Hd). cbn [app]. eauto.
Qed.

Lemma enc_varint_fuel n : 0 <= n -> n / 128 < 128 ^ Z.of_nat (Z.to_nat (Z.log2 n) + 1).
Proof.
  intros Hn. destruct (Z.eq_dec n 0) as [->|Hne]; [cbn; lia|].
  apply Z.div_lt_upper_bound; [lia|].
  rewrite Nat2Z.inj_add, Z2Nat.id by apply Z.log2_nonneg. change (Z.of_nat 1) with 1.
  pose proof (Z.log2_spec n ltac:(lia)) as [_ Hu].
  assert (2 ^ Z.succ (Z.log2 n) <= 128 ^ (Z.log2 n + 1)).
  { change 128 with (2^7). rewrite <- Z.pow_mul_r by (try lia; pose proof (Z.log2_nonneg n); lia).
    apply Z.pow_le_mono_r; pose proof (Z.log2_nonneg n); lia. }
  pose proof (Z.pow_pos_nonneg 128 (Z.log2 n + 1) ltac:(lia) ltac:(pose proof (Z.log2_nonneg n); lia)). nia.
Qed.

Theorem enc_varint_minimal n : 0 <= n -> enc_varint n = [n] /\ n < 128 \/ exists d r, enc_varint n = d :: r /\ d <> 128 /\ 128 <= n.
Proof.
  intros Hn. unfold enc_varint. destruct (Z.eq_dec (n / 128) 0) as [Hz|Hnz].
  - left. rewrite Hz. assert (hi_digits (Z.to_nat (Z.log2 n) + 1) 0 = []) as -> by (destruct (Z.to_nat (Z.log2 n) + 1)%nat; reflexivity).
    apply Z.div_small_iff in Hz; [|lia]. cbn [app]. rewrite Z.mod_small by lia. split; [reflexivity|lia].
  - right. assert (0 < n / 128) by (pose proof (Z.div_pos n 128 ltac:(lia) ltac:(lia)); lia).
    destruct (hi_digits_head _ (n / 128) ltac:(lia) (enc_varint_fuel n Hn)) as (d & r & -> & Hd).
    cbn [app]. exists d, (r ++ [n mod 128]). repeat split; auto.
    destruct (Z_lt_le_dec n 128); [|assumption]. rewrite Z.div_small in Hnz by lia. congruence.
Qed.

(* ---- padded encodings: any number of 0x80 bytes in front denotes the same value ---- *)
Lemma read_varint_pad k : forall acc rest, read_varint_acc acc (repeat 128 k ++ rest) = read_varint_acc (acc * 128 ^ Z.of_nat k) rest.
Proof.
  induction k as [|k IH]; intros acc rest.
  - cbn. f_equal. lia.
  - cbn [repeat app read_varint_acc]. change (128 <? 128) with false. cbv iota. rewrite IH.
    f_equal. change (Z.land 128 127) with 0. rewrite Z.lor_0_r, Z.shiftl_mul_pow2 by lia.
    rewrite Nat2Z.inj_succ, Z.pow_succ_r by lia. change (2 ^ 7) with 128. lia.
Qed.
Theorem read_varint_padded k n rest : 0 <= n -> read_varint (repeat 128 k ++ enc_varint n ++ rest) = Some (n, rest).
Proof.
  intros Hn. unfold read_varint. rewrite read_varint_pad. cbn [Z.mul]. apply (read_enc_varint n rest Hn).
Qed.

(* ---- decode_variable_int on an encoding ---- *)
Lemma mask_sweep : forallb (fun d => Z.land (d + 128) (Z.lnot 128) =? d) (map Z.of_nat (seq 0 128)) = true.
Proof. vm_compute. reflexivity. Qed.
Lemma mask_digit d : 0 <= d < 128 -> Z.land (d + 128) (Z.lnot 128) = d.
Proof.
  intros Hd. pose proof mask_sweep as S. rewrite forallb_forall in S. apply Z.eqb_eq. apply S.
  apply in_map_iff. exists (Z.to_nat d). split; [lia|]. apply in_seq. lia.
Qed.
Lemma lor_digit v d : 0 <= v -> 0 <= d < 128 -> Z.lor (Z.shiftl v 7) d = v * 128 + d.
Proof.
  intros Hv Hd. pose proof (lor_shift7 v d Hv) as H. change 127 with (Z.ones 7) in H. rewrite Z.land_ones in H by lia.
  change (2 ^ 7) with 128 in H. rewrite (Z.mod_small d 128) in H by lia. exact H.
Qed.

Definition vstep (v i : Z) : Z := Z.lor (Z.shiftl v 7) i.
Lemma fold_hi fuel : forall m acc, 0 <= acc -> 0 <= m -> m < 128 ^ Z.of_nat fuel ->
  exists k, 0 <= k /\ fold_left vstep (map (fun b => Z.land b (Z.lnot 128)) (hi_digits fuel m)) acc = acc * 128 ^ k + m.
Proof.
  induction fuel as [|f IH]; intros m acc Ha Hm Hlt.
  - exists 0. cbn in *. split; lia.
  - cbn [hi_digits]. destruct (m =? 0) eqn:E.
    + exists 0. cbn. split; lia.
    + assert (Hq : 0 <= m / 128) by (apply Z.div_pos; lia).
      assert (Hq2 : m / 128 < 128 ^ Z.of_nat f).
      { apply Z.div_lt_upper_bound; [lia|]. rewrite Nat2Z.inj_succ, Z.pow_succ_r in Hlt by lia. lia. }
      destruct (IH (m / 128) acc Ha Hq Hq2) as (k & Hk & Hf).
      exists (k + 1). split; [lia|]. rewrite map_app, fold_left_app, Hf. cbn [map fold_left]. unfold vstep at 1.
      pose proof (Z.mod_pos_bound m 128 ltac:(lia)) as Hmod. rewrite mask_digit by lia.
      rewrite lor_digit; [|apply Z.add_nonneg_nonneg; [apply Z.mul_nonneg_nonneg; [lia|apply Z.pow_nonneg; lia]|lia]|lia].
      rewrite Z.pow_add_r by lia. change (128 ^ 1) with 128. pose proof (Z.div_mod m 128 ltac:(lia)). lia.
Qed.

Theorem decode_enc_varint n : 0 <= n -> decode_variable_int (enc_varint n) = n.
Proof.
  intros Hn. unfold decode_variable_int, enc_varint. rewrite rev_app_distr. cbn [rev app]. rewrite rev_involutive.
  rewrite fold_left_app. fold vstep.
  destruct (fold_hi _ (n / 128) 0 ltac:(lia) ltac:(apply Z.div_pos; lia) (enc_varint_fuel n Hn)) as (k & Hk & ->).
  cbn [fold_left]. unfold vstep. pose proof (Z.mod_pos_bound n 128 ltac:(lia)).
  rewrite lor_digit by (try lia; apply Z.div_pos; lia). pose proof (Z.div_mod n 128 ltac:(lia)). lia.
Qed.
