(* TokProofs.v — proofs about Model/Tokenizer.v: chunking, resynchronisation, soundness of tokens,
   real-time accounting, subsequence. *)
From Coq Require Import ZArith List Bool Lia ZifyBool.
Require Import Mido.Model.Base Mido.Model.Tokenizer.
Import ListNotations.
Open Scope Z_scope.

Lemma feed_app s a b : feed s (a ++ b) = let '(s1,o1) := feed s a in let '(s2,o2) := feed s1 b in (s2, o1 ++ o2).
Proof.
  revert s; induction a as [|x a IH]; intros s; cbn [feed app].
  - destruct (feed s b); reflexivity.
  - destruct (feed_byte s x) as [s1 o1]. rewrite IH.
    destruct (feed s1 a) as [s2 o2]. destruct (feed s2 b) as [s3 o3]. now rewrite app_assoc.
Qed.

Definition starts (b : Z) : Prop := 128 <= b <= 246 /\ spec_need b <> None.

Lemma feed_start_indep s b : starts b -> feed_byte s b = feed_byte Idle b.
Proof.
  intros [Hr Hd]. unfold feed_byte.
  destruct (b <=? 127) eqn:E; [lia|].
  unfold feed_status.
  destruct (b =? 247) eqn:E1; [lia|].
  destruct ((248 <=? b) && (b <=? 255)) eqn:E2; [lia|].
  destruct (spec_need b) as [[[|n]|]|] eqn:Es; try reflexivity. congruence.
Qed.

(* data bytes accumulate *)
Lemma feed_data_bytes st d k ds :
  Forall (fun x => 0 <= x <= 127) ds -> (length d + length ds < k)%nat ->
  feed (Coll st d (Some k)) ds = (Coll st (d ++ ds) (Some k), []).
Proof.
  revert d; induction ds as [|x ds IH]; intros d Hf Hl; cbn [feed].
  - now rewrite app_nil_r.
  - inversion Hf as [|? ? Hx Hf']; subst. unfold feed_byte.
    destruct (x <=? 127) eqn:E; [|lia]. cbn [feed_data].
    destruct (Nat.eqb (length (d ++ [x])) k) eqn:En.
    + apply Nat.eqb_eq in En. rewrite app_length in En. cbn [length] in *. lia.
    + rewrite IH; auto. * now rewrite <- app_assoc. * rewrite app_length. cbn [length] in *. lia.
Qed.

Lemma feed_complete st d k ds :
  Forall (fun x => 0 <= x <= 127) ds -> (length d + length ds = k)%nat -> ds <> [] ->
  feed (Coll st d (Some k)) ds = (Idle, [st :: d ++ ds]).
Proof.
  intros Hf Hl Hne.
  destruct (exists_last Hne) as [pre [lst ->]].
  apply Forall_app in Hf as [Hpre Hlst]. apply Forall_inv in Hlst as Hx.
  rewrite app_length in Hl. cbn [length] in Hl.
  rewrite feed_app. rewrite feed_data_bytes by (auto; lia).
  cbn [feed]. unfold feed_byte. destruct (lst <=? 127) eqn:E; [|lia]. cbn [feed_data].
  replace (Nat.eqb (length ((d ++ pre) ++ [lst])) k) with true.
  - now rewrite <- app_assoc.
  - symmetry. apply Nat.eqb_eq. rewrite !app_length. cbn. lia.
Qed.

Lemma feed_sysex_data d ds :
  Forall (fun x => 0 <= x <= 127) ds -> feed (Coll 240 d None) ds = (Coll 240 (d ++ ds) None, []).
Proof.
  revert d; induction ds as [|x ds IH]; intros d Hf; cbn [feed].
  - now rewrite app_nil_r.
  - inversion Hf as [|? ? Hx Hf']; subst. unfold feed_byte.
    destruct (x <=? 127) eqn:E; [|lia]. cbn [feed_data]. rewrite IH by auto. now rewrite <- app_assoc.
Qed.

(* a well-formed single non-realtime encoding *)
Inductive wf_enc : list Z -> Prop :=
| wf_fixed st ds k : starts st -> spec_need st = Some (Some k) -> length ds = k -> Forall (fun x => 0 <= x <= 127) ds -> wf_enc (st :: ds)
| wf_sysex ds : Forall (fun x => 0 <= x <= 127) ds -> wf_enc (240 :: ds ++ [247]).

Theorem resync_token s e : wf_enc e -> feed s e = (Idle, [e]).
Proof.
  intros H. destruct H as [st ds k Hst Hn Hl Hf | ds Hf].
  - cbn [feed]. rewrite (feed_start_indep s st Hst).
    unfold feed_byte. destruct Hst as [Hr Hd]. destruct (st <=? 127) eqn:E; [lia|].
    unfold feed_status. destruct (st =? 247) eqn:E1; [lia|].
    destruct ((248 <=? st) && (st <=? 255)) eqn:E2; [lia|]. rewrite Hn.
    destruct k as [|k].
    + destruct ds; [|discriminate]. reflexivity.
    + rewrite (feed_complete st [] (S k) ds); auto. destruct ds; [discriminate|congruence].
  - cbn [feed]. assert (Hs : starts 240) by (split; [lia| cbn; congruence]).
    rewrite (feed_start_indep s 240 Hs). cbn. rewrite feed_app. rewrite feed_sysex_data by auto.
    cbn. reflexivity.
Qed.

Theorem resync P e : wf_enc e -> tokens (P ++ e) = tokens P ++ [e].
Proof.
  intros H. unfold tokens. rewrite feed_app. destruct (feed Idle P) as [s o].
  rewrite (resync_token s e H). reflexivity.
Qed.

(* ================= C04: soundness of every token, realtime accounting, subsequence ================= *)
Definition byte (b : Z) := 0 <= b <= 255.
Definition rt_byte (b : Z) : bool := 248 <=? b.
Definition is_rt_tok (t : list Z) : bool := match t with [b] => rt_byte b | _ => false end.

Definition st_wf (s : tstate) : Prop :=
  match s with
  | Idle => True
  | Coll st d need => starts st /\ spec_need st = Some need /\ Forall (fun x => 0 <= x <= 127) d /\
                      match need with Some k => (length d < k)%nat | None => st = 240 end
  end.

Definition tok_wf (t : list Z) : Prop := wf_enc t \/ exists b, t = [b] /\ is_rt_defined b = true.

Lemma spec_need_cases st n : spec_need st = Some n -> 128 <= st <= 255.
Proof.
  unfold spec_need, is_rt_defined. intros H.
  repeat match type of H with context [if ?b then _ else _] => destruct b eqn:? end; try discriminate; lia.
Qed.

Lemma rt_defined_range b : is_rt_defined b = true -> 248 <= b <= 255.
Proof. unfold is_rt_defined. intros H. repeat (apply orb_prop in H as [H|H]); apply Z.eqb_eq in H; lia. Qed.

Lemma spec_need_240 st : spec_need st = Some None -> st = 240.
Proof.
  unfold spec_need. intros H.
  repeat match type of H with context [if ?b then _ else _] => destruct b eqn:? end; try discriminate; lia.
Qed.

Lemma step_wf s b : byte b -> st_wf s ->
  let '(s', o) := feed_byte s b in st_wf s' /\ Forall tok_wf o.
Proof.
  intros Hb Hs. unfold feed_byte. destruct (b <=? 127) eqn:E.
  - (* data byte *)
    destruct s as [|st d need]; cbn [feed_data]; [split; [exact I|constructor]|].
    destruct Hs as (Hst & Hn & Hd & Hk).
    assert (Hd' : Forall (fun x => 0 <= x <= 127) (d ++ [b])) by (apply Forall_app; split; [assumption|constructor; [unfold byte in Hb; lia|constructor]]).
    destruct need as [k|].
    + destruct (Nat.eqb (length (d ++ [b])) k) eqn:En.
      * apply Nat.eqb_eq in En. split; [exact I|]. constructor; [|constructor]. left.
        eapply wf_fixed; eauto.
      * apply Nat.eqb_neq in En. split; [|constructor]. cbn [st_wf].
        split; [assumption|]. split; [assumption|]. split; [assumption|].
        rewrite app_length in *. cbn [length] in *. lia.
    + split; [|constructor]. cbn [st_wf]. split; [assumption|]. split; [assumption|]. split; assumption.
  - (* status byte *)
    unfold feed_status. destruct (b =? 247) eqn:E1.
    + destruct s as [|st d need]; [split; [exact I|constructor]|].
      destruct Hs as (Hst & Hn & Hd & Hk).
      destruct (st =? 240) eqn:E240.
      * apply Z.eqb_eq in E240. subst st. split; [exact I|]. constructor; [|constructor]. left. now apply wf_sysex.
      * split; [exact I|constructor].
    + destruct ((248 <=? b) && (b <=? 255)) eqn:E2.
      * split.
        -- destruct s as [|st d need]; [exact I|]. destruct (st =? 240); [exact Hs|exact I].
        -- destruct (spec_need b) as [n|] eqn:Es; [|constructor]. constructor; [|constructor].
           right. exists b. split; [reflexivity|].
           unfold spec_need in Es. unfold is_rt_defined in *.
           repeat match type of Es with context [if ?c then _ else _] => destruct c eqn:? end; try discriminate; try lia; reflexivity.
      * assert (Hrange : 128 <= b <= 246) by (unfold byte in Hb; lia).
        destruct (spec_need b) as [[[|k]|]|] eqn:Es.
        -- split; [exact I|]. constructor; [|constructor]. left.
           apply (wf_fixed b [] 0%nat); [split; [assumption|congruence] | assumption | reflexivity | constructor].
        -- split; [|constructor]. cbn [st_wf]. split; [split; [assumption|congruence]|].
           split; [assumption|]. split; [constructor|]. cbn [length]. lia.
        -- split; [|constructor]. cbn [st_wf]. split; [split; [assumption|congruence]|].
           split; [assumption|]. split; [constructor|]. now apply spec_need_240.
        -- split; [assumption|constructor].
Qed.

Theorem tokens_wf : forall bs s, Forall byte bs -> st_wf s -> Forall tok_wf (snd (feed s bs)) /\ st_wf (fst (feed s bs)).
Proof.
  induction bs as [|b r IH]; intros s Hb Hs; cbn [feed].
  - split; [constructor|assumption].
  - inversion Hb as [|? ? Hb1 Hbr]; subst.
    pose proof (step_wf s b Hb1 Hs) as Hstep. destruct (feed_byte s b) as [s1 o1]. destruct Hstep as [Hs1 Ho1].
    specialize (IH s1 Hbr Hs1). destruct (feed s1 r) as [s2 o2]. cbn [fst snd] in *. destruct IH as [Ho2 Hs2].
    split; [apply Forall_app; split; assumption|assumption].
Qed.

(* ---- realtime accounting: each defined realtime byte yields exactly one realtime token, in order ---- *)
Lemma wf_enc_not_rt t : wf_enc t -> is_rt_tok t = false.
Proof.
  intros [st ds k [Hr _] _ _ _ | ds _]; cbn.
  - destruct ds; [|reflexivity]. unfold rt_byte. destruct (248 <=? st) eqn:E; [lia|reflexivity].
  - destruct ds; reflexivity.
Qed.

Lemma step_rt s b : byte b -> st_wf s ->
  filter is_rt_tok (snd (feed_byte s b)) = if is_rt_defined b then [[b]] else [].
Proof.
  intros Hb Hs. pose proof (step_wf s b Hb Hs) as Hw.
  unfold feed_byte in *. destruct (b <=? 127) eqn:E.
  - assert (is_rt_defined b = false) as -> by (destruct (is_rt_defined b) eqn:R; [apply rt_defined_range in R; lia|reflexivity]).
    destruct (feed_data s b) as [s1 o1] eqn:Ef. destruct Hw as [_ Ho]. cbn [snd].
    unfold feed_data in Ef. destruct s as [|st d need]; [inversion Ef; reflexivity|].
    destruct need as [k|]; [destruct (Nat.eqb (length (d ++ [b])) k)|]; inversion Ef; subst; try reflexivity.
    cbn [filter]. assert (is_rt_tok (st :: d ++ [b]) = false) as -> by (destruct d; reflexivity). reflexivity.
  - unfold feed_status in *. destruct (b =? 247) eqn:E1.
    + apply Z.eqb_eq in E1. subst b. cbn [is_rt_defined]. change (is_rt_defined 247) with false.
      destruct s as [|st d need]; [reflexivity|]. destruct (st =? 240); [|reflexivity]. cbn. now destruct d.
    + destruct ((248 <=? b) && (b <=? 255)) eqn:E2.
      * cbn [snd]. destruct (spec_need b) as [n|] eqn:Es.
        -- assert (is_rt_defined b = true) as ->.
           { unfold spec_need in Es. destruct (is_rt_defined b) eqn:R; [reflexivity|].
             repeat match type of Es with context [if ?c then _ else _] => destruct c eqn:? end; try discriminate; lia. }
           cbn. unfold rt_byte. destruct (248 <=? b) eqn:E3; [reflexivity|lia].
        -- assert (is_rt_defined b = false) as ->; [|reflexivity].
           unfold spec_need in Es. destruct (is_rt_defined b) eqn:R; [|reflexivity].
           repeat match type of Es with context [if ?c then _ else _] => destruct c eqn:? end; try discriminate.
      * assert (is_rt_defined b = false) as -> by (destruct (is_rt_defined b) eqn:R; [apply rt_defined_range in R; lia|reflexivity]).
        destruct (spec_need b) as [[[|k]|]|]; cbn; try reflexivity.
        unfold rt_byte, byte in *. destruct (248 <=? b) eqn:E3; [lia|reflexivity].
Qed.

Theorem realtime_exact : forall bs s, Forall byte bs -> st_wf s ->
  filter is_rt_tok (snd (feed s bs)) = map (fun b => [b]) (filter is_rt_defined bs).
Proof.
  induction bs as [|b r IH]; intros s Hb Hs; cbn [feed filter map]; [reflexivity|].
  inversion Hb as [|? ? Hb1 Hbr]; subst.
  pose proof (step_wf s b Hb1 Hs) as Hw. pose proof (step_rt s b Hb1 Hs) as Hr.
  destruct (feed_byte s b) as [s1 o1]. destruct Hw as [Hs1 _]. cbn [snd] in Hr.
  specialize (IH s1 Hbr Hs1). destruct (feed s1 r) as [s2 o2]. cbn [snd] in *.
  rewrite filter_app, Hr, IH. destruct (is_rt_defined b); reflexivity.
Qed.

(* ---- subsequence: bytes of non-realtime tokens are an ordered sub-list of the non-realtime input ---- *)
Inductive Subseq {A} : list A -> list A -> Prop :=
| ss_nil l : Subseq [] l
| ss_take x a b : Subseq a b -> Subseq (x :: a) (x :: b)
| ss_skip x a b : Subseq a b -> Subseq a (x :: b).

Lemma ss_refl {A} (l : list A) : Subseq l l.
Proof. induction l; constructor; auto. Qed.
Lemma ss_app_r {A} (a b c : list A) : Subseq a b -> Subseq a (c ++ b).
Proof. intros H. induction c; cbn; [assumption|now constructor]. Qed.
Lemma ss_app {A} (a a' b b' : list A) : Subseq a a' -> Subseq b b' -> Subseq (a ++ b) (a' ++ b').
Proof. intros H. induction H; intros Hb; cbn; [now apply ss_app_r| constructor; auto | constructor; auto]. Qed.
Lemma ss_trans {A} (a b c : list A) : Subseq a b -> Subseq b c -> Subseq a c.
Proof.
  intros Hab Hbc. revert a Hab. induction Hbc as [l | x b c Hbc IH | x b c Hbc IH]; intros a Hab.
  - inversion Hab; subst. constructor.
  - inversion Hab; subst; [constructor | constructor; auto | apply ss_skip; auto].
  - apply ss_skip; auto.
Qed.
Lemma ss_app_l_inv {A} (a b c : list A) : Subseq (a ++ b) c -> Subseq a c.
Proof. intros H. eapply ss_trans; [|exact H]. rewrite <- (app_nil_r a) at 1. apply ss_app; [apply ss_refl|constructor]. Qed.

Definition pend (s : tstate) : list Z := match s with Idle => [] | Coll st d _ => st :: d end.
Definition nonrt (ts : list (list Z)) : list Z := concat (filter (fun t => negb (is_rt_tok t)) ts).
Definition keep (b : Z) : list Z := if rt_byte b then [] else [b].

Lemma step_subseq s b : byte b -> st_wf s ->
  Subseq (nonrt (snd (feed_byte s b)) ++ pend (fst (feed_byte s b))) (pend s ++ keep b).
Proof.
  intros Hb Hs. unfold feed_byte, keep, rt_byte, byte in *. destruct (b <=? 127) eqn:E.
  - destruct (248 <=? b) eqn:E8; [lia|].
    destruct s as [|st d need]; cbn [feed_data fst snd pend nonrt filter concat app]; [constructor|].
    destruct need as [k|]; [destruct (Nat.eqb (length (d ++ [b])) k)|]; cbn [fst snd pend nonrt filter concat app].
    + assert (is_rt_tok (st :: d ++ [b]) = false) as -> by (destruct d; reflexivity). cbn [negb concat app].
      rewrite !app_nil_r. apply ss_refl.
    + apply ss_refl.
    + apply ss_refl.
  - unfold feed_status. destruct (b =? 247) eqn:E1.
    + destruct (248 <=? b) eqn:E8; [lia|].
      destruct s as [|st d need]; cbn [fst snd pend nonrt filter concat app]; [constructor|].
      destruct (st =? 240) eqn:E240; cbn [fst snd pend nonrt filter concat app]; [|constructor].
      apply Z.eqb_eq in E240, E1. subst.
      assert (is_rt_tok (240 :: d ++ [247]) = false) as -> by (destruct d; reflexivity). cbn [negb concat app].
      rewrite !app_nil_r. apply ss_refl.
    + destruct ((248 <=? b) && (b <=? 255)) eqn:E2.
      * destruct (248 <=? b) eqn:E8; [|lia]. cbn [fst snd]. rewrite app_nil_r.
        assert (nonrt (match spec_need b with Some _ => [[b]] | None => [] end) = []) as ->.
        { destruct (spec_need b); [|reflexivity]. unfold nonrt. cbn. unfold rt_byte. now rewrite E8. }
        cbn [app]. destruct s as [|st d need]; [constructor|]. destruct (st =? 240); [apply ss_refl|constructor].
      * destruct (248 <=? b) eqn:E8; [lia|].
        destruct (spec_need b) as [[[|k]|]|]; cbn [fst snd pend nonrt filter concat app is_rt_tok].
        -- unfold rt_byte. rewrite E8. cbn [negb concat app]. apply ss_app_r. apply ss_refl.
        -- apply ss_app_r. apply ss_refl.
        -- apply ss_app_r. apply ss_refl.
        -- apply (ss_app_l_inv (pend s) [b]). apply ss_refl.
Qed.

Theorem subseq_gen : forall bs s, Forall byte bs -> st_wf s ->
  Subseq (nonrt (snd (feed s bs)) ++ pend (fst (feed s bs))) (pend s ++ flat_map keep bs).
Proof.
  induction bs as [|b r IH]; intros s Hb Hs; cbn [feed flat_map].
  - cbn. rewrite app_nil_r. apply ss_refl.
  - inversion Hb as [|? ? Hb1 Hbr]; subst.
    pose proof (step_wf s b Hb1 Hs) as Hw. pose proof (step_subseq s b Hb1 Hs) as H1.
    destruct (feed_byte s b) as [s1 o1]. destruct Hw as [Hs1 _]. cbn [fst snd] in H1.
    specialize (IH s1 Hbr Hs1). destruct (feed s1 r) as [s2 o2]. cbn [fst snd] in *.
    unfold nonrt in *. rewrite filter_app, concat_app, <- app_assoc.
    eapply ss_trans.
    + apply ss_app; [apply ss_refl|exact IH].
    + rewrite !app_assoc. apply ss_app; [exact H1|apply ss_refl].
Qed.

Theorem tokens_subseq bs : Forall byte bs -> Subseq (nonrt (tokens bs)) (flat_map keep bs).
Proof.
  intros Hb. pose proof (subseq_gen bs Idle Hb I) as H. cbn [pend app] in H.
  unfold tokens. eapply ss_app_l_inv. exact H.
Qed.
