(* ParseProofs.v — the parser (tokenizer followed by decoding): totality, soundness, resynchronisation. *)
From Coq Require Import ZArith List Bool Lia ZifyBool.
Require Import Mido.Model.Base Mido.Model.Codec Mido.Model.Tokenizer Mido.Model.Parser Mido.Proofs.CodecProofs Mido.Proofs.TokProofs.
Import ListNotations.
Open Scope Z_scope.


(* ---- the tokenizer's length table is the decoder's kind table ---- *)
Definition need_of_kind (k : kind) : option nat :=
  match k with
  | KSysex => None
  | KNoteOff | KNoteOn | KPolytouch | KControlChange | KPitchwheel | KSongpos => Some 2%nat
  | KProgramChange | KAftertouch | KQuarterFrame | KSongSelect => Some 1%nat
  | _ => Some 0%nat
  end.

Lemma need_sweep : forallb (fun st => match spec_need st, option_map need_of_kind (kind_of_status st) with
    | Some a, Some b => match a, b with Some x, Some y => Nat.eqb x y | None, None => true | _, _ => false end
    | None, None => true | _, _ => false end) (range 256) = true.
Proof. vm_compute. reflexivity. Qed.

Lemma need_agree st : spec_need st = option_map need_of_kind (kind_of_status st).
Proof.
  destruct (Z_lt_le_dec st 0) as [Hn|Hp]; [|destruct (Z_lt_le_dec st 256) as [Hlt|Hge]].
  - unfold spec_need, kind_of_status, is_rt_defined.
    repeat match goal with |- context [if ?b then _ else _] => destruct b eqn:?; try lia end; reflexivity.
  - pose proof need_sweep as S. rewrite forallb_forall in S. specialize (S st (in_range 256 st ltac:(lia))).
    destruct (spec_need st) as [[a|]|], (kind_of_status st) as [k|]; cbn [option_map] in *; try discriminate; try reflexivity.
    + destruct (need_of_kind k); [apply Nat.eqb_eq in S; congruence|discriminate].
    + destruct (need_of_kind k); [discriminate|reflexivity].
  - unfold spec_need, kind_of_status, is_rt_defined.
    repeat match goal with |- context [if ?b then _ else _] => destruct b eqn:?; try lia end; reflexivity.
Qed.

(* ---- a well-formed token decodes (lax or strict decoder) to a valid message that re-encodes to it ---- *)
Lemma forallb_byte7_of_Forall ds : Forall (fun x => 0 <= x <= 127) ds -> forallb byte7 ds = true.
Proof. induction 1; cbn; [reflexivity|]. unfold byte7 at 1. rewrite IHForall. lia. Qed.

Lemma strict_ok_lax bs m : dec_gen true bs = Ok m -> dec_gen false bs = Ok m.
Proof.
  unfold dec_gen. destruct bs as [|st data]; [discriminate|].
  destruct (kind_of_status st) as [k|]; [|discriminate].
  destruct k; cbn [bind];
  match goal with |- context [match ?r with Ok _ => _ | Raise _ => _ end] => destruct r; cbn [bind]; try discriminate | _ => idtac end;
  try (destruct (check_data _); cbn [bind]; try discriminate);
  unfold guard, fixed_len; try (destruct (Nat.eqb _ _); [auto|discriminate]); auto.
Qed.

Lemma dec_strict_total_on_wf t : wf_enc t -> exists m, dec_gen true t = Ok m.
Proof.
  intros H. pose proof (exact t) as Hex. unfold dec, good in Hex.
  destruct (dec_gen true t) as [m|e] eqn:E; [eauto|]. exfalso. subst e.
  (* show that decoding a well-formed token cannot fail *)
  destruct H as [st ds k Hst Hn Hl Hd | ds Hd].
  - unfold dec_gen in E. rewrite need_agree in Hn.
    destruct (kind_of_status st) as [kd|] eqn:Ek; [|discriminate]. cbn [option_map] in Hn. inversion Hn as [Hk]; clear Hn.
    assert (Hc : check_data ds = Ok tt) by (unfold check_data; now rewrite forallb_byte7_of_Forall).
    destruct kd; cbn [need_of_kind] in Hk; try discriminate; injection Hk as Hk2; rewrite <- Hk2 in Hl; clear Hk2;
      cbn [bind] in E; rewrite Hc in E; cbn [bind] in E;
      unfold generic2, generic1, generic0, guard, fixed_len in E; rewrite Hl in E; cbn [Nat.eqb] in E;
      repeat (destruct ds as [|? ds]; cbn [length] in Hl; try discriminate Hl);
      cbn [bind nth_or_index nth_error] in E; discriminate.
  - unfold dec_gen in E. change (kind_of_status 240) with (Some KSysex) in E. cbv iota in E.
    rewrite rev_app_distr in E. cbn [rev app] in E. change (247 =? 247) with true in E. cbv iota in E.
    rewrite rev_involutive in E. cbn [bind] in E.
    unfold check_data in E. rewrite forallb_byte7_of_Forall in E by assumption. discriminate.
Qed.

Theorem token_decodes strict t : tok_wf t -> exists m, dec_gen strict t = Ok m /\ valid m = true /\ enc m = t.
Proof.
  intros [Hwf | (b & -> & Hb)].
  - destruct (dec_strict_total_on_wf t Hwf) as [m Hm].
    pose proof (exact t) as Hex. unfold dec, good in Hex. rewrite Hm in Hex. destruct Hex as [Hv He].
    exists m. split; [|split; assumption]. destruct strict; [assumption|now apply strict_ok_lax].
  - apply rt_defined_range in Hb as Hr. unfold is_rt_defined in Hb.
    repeat (apply orb_prop in Hb as [Hb|Hb]); apply Z.eqb_eq in Hb; subst b; destruct strict; eexists; (split; [reflexivity|split; reflexivity]).
Qed.

(* ---- parser = tokenizer followed by decoding ---- *)
Lemma sequence_all strict ts : Forall tok_wf ts ->
  exists ms, sequence (map (dec_gen strict) ts) = Ok ms /\ Forall (fun m => valid m = true) ms /\ map enc ms = ts.
Proof.
  induction 1 as [|t r Ht Hr IH]; [exists []; repeat split; constructor|].
  destruct IH as (ms & Hs & Hv & He). destruct (token_decodes strict t Ht) as (m & Hm & Hvm & Hem).
  exists (m :: ms). cbn [map sequence]. rewrite Hm, Hs. repeat split; [constructor; assumption| cbn; congruence].
Qed.

Theorem C04_total strict bs : Forall byte bs ->
  exists ms, parse strict bs = Ok ms /\ Forall (fun m => valid m = true) ms /\ map enc ms = tokens bs.
Proof.
  intros Hb. apply sequence_all. unfold tokens. apply (tokens_wf bs Idle Hb I).
Qed.

(* ---- C06: resynchronisation at message level ---- *)
Lemma Forall_byte7 ds : forallb byte7 ds = true -> Forall (fun x => 0 <= x <= 127) ds.
Proof. induction ds as [|x r IH]; cbn; intros H; constructor; unfold byte7 in H at 1; [lia|apply IH; lia]. Qed.

Lemma spec_need_chan base c k n : In base [128;144;160;176;192;208;224] -> 0 <= c <= 15 -> chan_kind base = Some k ->
  need_of_kind k = Some n -> spec_need (base + c) = Some (Some n) /\ starts (base + c).
Proof.
  intros Hb Hc Hk Hn. assert (E : spec_need (base + c) = Some (Some n)) by (rewrite need_agree, (kind_chan base c k Hb Hc Hk); cbn; now rewrite Hn).
  split; [assumption|]. split; [|congruence].
  cbn in Hb. destruct Hb as [<-|[<-|[<-|[<-|[<-|[<-|[<-|[]]]]]]]]; lia.
Qed.

Lemma enc_tok_wf m : valid m = true -> tok_wf (enc m).
Proof.
  intros Hv. rewrite (layout m Hv).
  destruct m; cbn [valid std_enc] in *; unfold chan in *.
  1-4: left; match goal with |- wf_enc [?b + ?c; _; _] =>
         destruct (spec_need_chan b c _ 2%nat ltac:(cbn; tauto) ltac:(lia) eq_refl eq_refl) as [Hn Hs];
         apply (wf_fixed _ _ 2%nat Hs Hn); [reflexivity|] end; repeat constructor; unfold byte7 in *; lia.
  1-2: left; match goal with |- wf_enc [?b + ?c; _] =>
         destruct (spec_need_chan b c _ 1%nat ltac:(cbn; tauto) ltac:(lia) eq_refl eq_refl) as [Hn Hs];
         apply (wf_fixed _ _ 1%nat Hs Hn); [reflexivity|] end; repeat constructor; unfold byte7 in *; lia.
  - left. destruct (spec_need_chan 224 ch _ 2%nat ltac:(cbn; tauto) ltac:(lia) eq_refl eq_refl) as [Hn Hs].
    apply (wf_fixed _ _ 2%nat Hs Hn); [reflexivity|]. repeat constructor; Z.to_euclidean_division_equations; lia.
  - left. apply wf_sysex. now apply Forall_byte7.
  - left. apply (wf_fixed 241 _ 1%nat); [split; [lia|discriminate]|reflexivity|reflexivity|]. repeat constructor; lia.
  - left. apply (wf_fixed 242 _ 2%nat); [split; [lia|discriminate]|reflexivity|reflexivity|].
    repeat constructor; Z.to_euclidean_division_equations; lia.
  - left. apply (wf_fixed 243 _ 1%nat); [split; [lia|discriminate]|reflexivity|reflexivity|]. repeat constructor; unfold byte7 in *; lia.
  - left. apply (wf_fixed 246 [] 0%nat); [split; [lia|discriminate]|reflexivity|reflexivity|constructor].
  - right. exists 248. split; reflexivity.
  - right. exists 250. split; reflexivity.
  - right. exists 251. split; reflexivity.
  - right. exists 252. split; reflexivity.
  - right. exists 254. split; reflexivity.
  - right. exists 255. split; reflexivity.
Qed.

Lemma rt_token s b : is_rt_defined b = true -> snd (feed_byte s b) = [[b]] /\ (s = Idle -> fst (feed_byte s b) = Idle).
Proof.
  intros Hb. pose proof (rt_defined_range b Hb) as Hr. unfold feed_byte, feed_status.
  destruct (b <=? 127) eqn:E; [lia|]. destruct (b =? 247) eqn:E1; [lia|].
  destruct ((248 <=? b) && (b <=? 255)) eqn:E2; [|lia]. cbn [fst snd].
  assert (spec_need b <> None) as Hn.
  { unfold is_rt_defined in Hb. repeat (apply orb_prop in Hb as [Hb|Hb]); apply Z.eqb_eq in Hb; subst b; discriminate. }
  destruct (spec_need b); [|congruence]. split; [reflexivity|intros ->; reflexivity].
Qed.

Lemma tokens_app_tok P t : tok_wf t -> tokens (P ++ t) = tokens P ++ [t].
Proof.
  intros [Hwf | (b & -> & Hb)]; [now apply resync|].
  unfold tokens. rewrite feed_app. destruct (feed Idle P) as [s o]. cbn [feed].
  destruct (rt_token s b Hb) as [Ho _]. destruct (feed_byte s b) as [s1 o1]. cbn [snd] in *. subst o1. reflexivity.
Qed.

Lemma sequence_app {A} (a b : list (res A)) la lb : sequence a = Ok la -> sequence b = Ok lb -> sequence (a ++ b) = Ok (la ++ lb).
Proof.
  revert la. induction a as [|x a IH]; intros la Ha Hb; cbn in *; [inversion Ha; assumption|].
  destruct x as [v|e]; [|discriminate]. destruct (sequence a) as [l'|e] eqn:Es; [|discriminate].
  inversion Ha; subst. now rewrite (IH l' eq_refl Hb).
Qed.

Theorem C06_resync strict P m : Forall byte P -> valid m = true -> 
  exists ms, parse strict P = Ok ms /\ parse strict (P ++ enc m) = Ok (ms ++ [m]).
Proof.
  intros HP Hv. destruct (C04_total strict P HP) as (ms & Hms & _ & _). exists ms. split; [assumption|].
  unfold parse in *. rewrite (tokens_app_tok P (enc m) (enc_tok_wf m Hv)), map_app.
  apply sequence_app; [assumption|]. cbn [map sequence]. now rewrite (roundtrip strict m Hv).
Qed.

Theorem C06_concat strict ms : Forall (fun m => valid m = true) ms -> parse strict (concat (map enc ms)) = Ok ms.
Proof.
  induction ms as [|m r IH] using rev_ind; intros H; [reflexivity|].
  apply Forall_app in H as [Hr Hm]. inversion Hm as [|? ? Hv _]; subst.
  rewrite map_app, concat_app. cbn [map concat]. rewrite app_nil_r.
  assert (HP : Forall byte (concat (map enc r))).
  { clear IH. induction Hr as [|x l Hx Hl IHl]; cbn; [constructor|]. apply Forall_app; split; [|assumption].
    destruct (enc_tok_wf x Hx) as [Hw | (b & -> & Hb)].
    - destruct Hw as [st ds k [Hst _] _ _ Hd | ds Hd].
      + constructor; [unfold byte; lia|]. eapply Forall_impl; [|exact Hd]. unfold byte; cbn; lia.
      + constructor; [unfold byte; lia|]. apply Forall_app; split; [eapply Forall_impl; [|exact Hd]; unfold byte; cbn; lia|repeat constructor; unfold byte; lia].
    - apply rt_defined_range in Hb. repeat constructor; unfold byte; lia. }
  destruct (C06_resync strict _ m HP Hv) as (ms' & H1 & H2). rewrite (IH Hr) in H1. inversion H1; subst. exact H2.
Qed.

(* ================= C04 at message level: real-time accounting and subsequence ================= *)
Definition is_rt_msg (m : msg) : bool :=
  match m with Clock | Start | Continue | Stop | ActiveSensing | Reset => true | _ => false end.

Lemma is_rt_tok_enc m : valid m = true -> is_rt_tok (enc m) = is_rt_msg m.
Proof.
  intros Hv. rewrite (layout m Hv). pose proof (valid_split m Hv) as Hs.
  destruct m; cbn [std_enc is_rt_tok is_rt_msg]; try reflexivity.
  destruct data; reflexivity.
Qed.

Lemma filter_map_enc (p : list Z -> bool) (q : msg -> bool) ms :
  Forall (fun m => p (enc m) = q m) ms -> filter p (map enc ms) = map enc (filter q ms).
Proof.
  induction 1 as [|m r Hm Hr IH]; [reflexivity|]. cbn [map filter]. rewrite Hm, IH. destruct (q m); reflexivity.
Qed.

Theorem C04_realtime_msgs bs ms : Forall byte bs -> parse true bs = Ok ms ->
  map enc (filter is_rt_msg ms) = map (fun b => [b]) (filter is_rt_defined bs).
Proof.
  intros Hb Hp. destruct (C04_total true bs Hb) as (ms' & Hp' & Hv & He). rewrite Hp in Hp'. injection Hp' as <-.
  rewrite <- (realtime_exact bs Idle Hb I). fold (tokens bs). rewrite <- He.
  symmetry. apply filter_map_enc. eapply Forall_impl; [|exact Hv]. intros m Hm. now apply is_rt_tok_enc.
Qed.

Theorem C04_subseq_msgs bs ms : Forall byte bs -> parse true bs = Ok ms ->
  Subseq (concat (map enc (filter (fun m => negb (is_rt_msg m)) ms))) (flat_map keep bs).
Proof.
  intros Hb Hp. destruct (C04_total true bs Hb) as (ms' & Hp' & Hv & He). rewrite Hp in Hp'. injection Hp' as <-.
  pose proof (tokens_subseq bs Hb) as H. unfold nonrt in H. rewrite <- He in H.
  rewrite (filter_map_enc (fun t => negb (is_rt_tok t)) (fun m => negb (is_rt_msg m))) in H; [exact H|].
  eapply Forall_impl; [|exact Hv]. intros m Hm. cbn beta. now rewrite is_rt_tok_enc.
Qed.

(* ================= C05: chunking and consumption independence ================= *)
Lemma feed_msgs s bs : st_wf s -> Forall byte bs ->
  exists ms, sequence (map dec (snd (feed s bs))) = Ok ms /\ Forall (fun m => valid m = true) ms
             /\ map enc ms = snd (feed s bs) /\ st_wf (fst (feed s bs)).
Proof.
  intros Hs Hb. destruct (tokens_wf bs s Hb Hs) as [Ht Hs']. destruct (sequence_all true _ Ht) as (ms & H1 & H2 & H3).
  exists ms. repeat split; assumption.
Qed.

Lemma sequence_app_inv {A} (a b : list (res A)) l : sequence (a ++ b) = Ok l ->
  exists la lb, sequence a = Ok la /\ sequence b = Ok lb /\ l = la ++ lb.
Proof.
  revert l. induction a as [|x a IH]; intros l H; cbn [app sequence] in *.
  - exists [], l. auto.
  - destruct x as [v|e]; [|discriminate]. destruct (sequence (a ++ b)) as [l'|e] eqn:E; [|discriminate].
    injection H as <-. destruct (IH l' eq_refl) as (la & lb & Ha & Hb & ->). exists (v :: la), lb.
    cbn [sequence]. rewrite Ha. auto.
Qed.

Definition pop_bytes (o : pop) : list Z := match o with PFeed bs => bs | PFeedByte b => [b] | _ => [] end.
Definition fed (ops : list pop) : list Z := flat_map pop_bytes ops.
Definition obs_msgs (o : pobs) : list msg := match o with OGet (Some m) => [m] | OMsgs ms => ms | _ => [] end.
Definition retrieved (obs : list pobs) : list msg := flat_map obs_msgs obs.

Lemma p_feed_ok s bs : st_wf (p_tok s) -> Forall byte bs ->
  exists ms, sequence (map dec (snd (feed (p_tok s) bs))) = Ok ms /\
    p_feed s bs = ({| p_tok := fst (feed (p_tok s) bs); p_q := p_q s ++ ms |}, ONone) /\ st_wf (fst (feed (p_tok s) bs)).
Proof.
  intros Hs Hb. destruct (feed_msgs _ bs Hs Hb) as (ms & H1 & _ & _ & H4). exists ms. split; [assumption|]. split; [|assumption].
  unfold p_feed. destruct (feed (p_tok s) bs) as [t' toks]. cbn [fst snd] in *. now rewrite H1.
Qed.

(* every history of feeding and retrieving: first in first out, nothing lost, nothing duplicated *)
Theorem run_conservation : forall ops s, st_wf (p_tok s) -> Forall byte (fed ops) ->
  exists ms, sequence (map dec (snd (feed (p_tok s) (fed ops)))) = Ok ms /\
    p_tok (fst (p_run s ops)) = fst (feed (p_tok s) (fed ops)) /\
    p_q s ++ ms = retrieved (snd (p_run s ops)) ++ p_q (fst (p_run s ops)).
Proof.
  induction ops as [|o r IH]; intros s Hs Hb.
  - exists []. cbn. rewrite app_nil_r. auto.
  - unfold fed in Hb. cbn [flat_map] in Hb. apply Forall_app in Hb as [Hb1 Hbr].
    assert (Hfeed : forall bs, pop_bytes o = bs -> p_step s o = p_feed s bs -> Forall byte bs ->
              exists ms, sequence (map dec (snd (feed (p_tok s) (fed (o :: r))))) = Ok ms /\
                p_tok (fst (p_run s (o :: r))) = fst (feed (p_tok s) (fed (o :: r))) /\
                p_q s ++ ms = retrieved (snd (p_run s (o :: r))) ++ p_q (fst (p_run s (o :: r)))).
    { intros bs Hpb Hstep Hbs. destruct (p_feed_ok s bs Hs Hbs) as (ms1 & Hm1 & Hf & Hs1).
      cbn [p_run]. rewrite Hstep, Hf.
      specialize (IH {| p_tok := fst (feed (p_tok s) bs); p_q := p_q s ++ ms1 |} Hs1 Hbr).
      cbn [p_tok p_q] in IH. destruct IH as (ms2 & Hm2 & Ht & Hq).
      destruct (p_run _ r) as [s2 obs2]. cbn [fst snd] in *.
      unfold fed. cbn [flat_map]. rewrite Hpb. fold (fed r). rewrite feed_app.
      destruct (feed (p_tok s) bs) as [t1 o1]. cbn [fst snd] in *.
      destruct (feed t1 (fed r)) as [t2 o2]. cbn [fst snd] in *.
      exists (ms1 ++ ms2). rewrite map_app. split; [now apply sequence_app|]. split; [assumption|].
      cbn [retrieved flat_map obs_msgs app]. fold (retrieved obs2). rewrite app_assoc. exact Hq. }
    destruct o as [bs|b| | | |k].
    + apply (Hfeed bs); auto.
    + apply (Hfeed [b]); auto.
    + (* get *)
      cbn [p_run p_step]. unfold fed. cbn [flat_map pop_bytes app]. fold (fed r).
      destruct (p_q s) as [|m q] eqn:Eq.
      * specialize (IH s Hs Hbr). destruct IH as (ms & H1 & H2 & H3). destruct (p_run s r) as [s2 obs2]. cbn [fst snd] in *.
        exists ms. rewrite Eq in H3. auto.
      * specialize (IH {| p_tok := p_tok s; p_q := q |} Hs Hbr). cbn [p_tok p_q] in IH. destruct IH as (ms & H1 & H2 & H3).
        destruct (p_run _ r) as [s2 obs2]. cbn [fst snd] in *. exists ms. split; [assumption|]. split; [assumption|].
        cbn [retrieved flat_map obs_msgs app]. fold (retrieved obs2). cbn [app]. now rewrite H3.
    + (* pending *)
      cbn [p_run p_step]. unfold fed. cbn [flat_map pop_bytes app]. fold (fed r).
      specialize (IH s Hs Hbr). destruct IH as (ms & H1 & H2 & H3). destruct (p_run s r) as [s2 obs2]. cbn [fst snd] in *.
      exists ms. auto.
    + (* iterate all *)
      cbn [p_run p_step]. unfold fed. cbn [flat_map pop_bytes app]. fold (fed r).
      specialize (IH {| p_tok := p_tok s; p_q := [] |} Hs Hbr). cbn [p_tok p_q] in IH. destruct IH as (ms & H1 & H2 & H3).
      destruct (p_run _ r) as [s2 obs2]. cbn [fst snd] in *. exists ms. split; [assumption|]. split; [assumption|].
      cbn [retrieved flat_map obs_msgs]. fold (retrieved obs2). cbn [app] in H3. rewrite <- app_assoc, <- H3. reflexivity.
    + (* partial iteration *)
      cbn [p_run p_step]. unfold fed. cbn [flat_map pop_bytes app]. fold (fed r).
      specialize (IH {| p_tok := p_tok s; p_q := skipn k (p_q s) |} Hs Hbr). cbn [p_tok p_q] in IH. destruct IH as (ms & H1 & H2 & H3).
      destruct (p_run _ r) as [s2 obs2]. cbn [fst snd] in *. exists ms. split; [assumption|]. split; [assumption|].
      cbn [retrieved flat_map obs_msgs]. fold (retrieved obs2). rewrite <- app_assoc, <- H3, app_assoc, firstn_skipn. reflexivity.
Qed.

Theorem C05_history_fifo ops : Forall byte (fed ops) ->
  exists ms, parse_all (fed ops) = Ok ms /\ ms = retrieved (snd (p_run p_init ops)) ++ p_q (fst (p_run p_init ops)).
Proof.
  intros Hb. destruct (run_conservation ops p_init I Hb) as (ms & H1 & _ & H3). exists ms. split; [exact H1|exact H3].
Qed.

(* chunking: feeding the chunks one by one ends in the same tokenizer state and queue as feeding everything at once *)
Theorem C05_chunks_state chunks : Forall byte (concat chunks) ->
  fst (p_run p_init (map PFeed chunks)) = fst (p_run p_init [PFeed (concat chunks)]).
Proof.
  intros Hb.
  assert (Hfed : fed (map PFeed chunks) = concat chunks).
  { unfold fed. induction chunks as [|c r IH]; [reflexivity|]. cbn [map flat_map pop_bytes concat]. rewrite IH; [reflexivity|].
    cbn [concat] in Hb. now apply Forall_app in Hb as [_ Hb]. }
  assert (Hfed1 : fed [PFeed (concat chunks)] = concat chunks) by (unfold fed; cbn; now rewrite app_nil_r).
  destruct (run_conservation (map PFeed chunks) p_init I ltac:(now rewrite Hfed)) as (ms & H1 & H2 & H3).
  destruct (run_conservation [PFeed (concat chunks)] p_init I ltac:(now rewrite Hfed1)) as (ms' & H1' & H2' & H3').
  rewrite Hfed in *. rewrite Hfed1 in *. rewrite H1 in H1'. injection H1' as <-.
  assert (R1 : retrieved (snd (p_run p_init (map PFeed chunks))) = []).
  { clear. generalize p_init. induction chunks as [|c r IH]; intros s; [reflexivity|]. cbn [map p_run p_step].
    unfold p_feed. destruct (feed (p_tok s) c) as [t' toks]. destruct (sequence (map dec toks));
    match goal with |- context [p_run ?s' (map PFeed r)] => specialize (IH s'); destruct (p_run s' (map PFeed r)) end; cbn [snd] in *; exact IH. }
  assert (R2 : retrieved (snd (p_run p_init [PFeed (concat chunks)])) = []).
  { cbn [p_run p_step]. unfold p_feed. destruct (feed (p_tok p_init) (concat chunks)) as [t' toks]. destruct (sequence (map dec toks)); reflexivity. }
  rewrite R1 in H3. rewrite R2 in H3'. cbn [app p_init p_q] in H3, H3'.
  destruct (fst (p_run p_init (map PFeed chunks))) as [t1 q1]. destruct (fst (p_run p_init [PFeed (concat chunks)])) as [t2 q2].
  cbn [p_tok p_q] in *. congruence.
Qed.

(* pending() is the number that can still be retrieved, get_message() is None exactly when none is pending *)
Theorem C05_pending_get s : snd (p_step s PPending) = ONum (zlen (p_q s)) /\
  (snd (p_step s PGet) = OGet None <-> p_q s = []).
Proof.
  split; [reflexivity|]. cbn [p_step]. destruct (p_q s); cbn [snd]; split; intros H; try reflexivity; discriminate.
Qed.

(* ================= C06: real-time bytes strictly inside a sysex message ================= *)
(* [inter d rts mixed]: mixed is the payload d with the bytes rts (each >= 0xF8, defined or not)
   inserted at arbitrary positions, any number of them *)
Inductive inter : list Z -> list Z -> list Z -> Prop :=
| inter_nil : inter [] [] []
| inter_data x d r m : 0 <= x <= 127 -> inter d r m -> inter (x :: d) r (x :: m)
| inter_rt b d r m : 248 <= b <= 255 -> inter d r m -> inter d (b :: r) (b :: m).

Definition rt_msg_of (b : Z) : msg :=
  if b =? 248 then Clock else if b =? 250 then Start else if b =? 251 then Continue
  else if b =? 252 then Stop else if b =? 254 then ActiveSensing else Reset.

Lemma feed_inter d rts mixed : inter d rts mixed -> forall d0,
  feed (Coll 240 d0 None) mixed = (Coll 240 (d0 ++ d) None, map (fun b => [b]) (filter is_rt_defined rts)).
Proof.
  induction 1 as [|x d r m Hx Hi IH|b d r m Hb Hi IH]; intros d0.
  - cbn. now rewrite app_nil_r.
  - cbn [feed]. unfold feed_byte. destruct (x <=? 127) eqn:E; [|lia]. cbn [feed_data]. rewrite IH.
    now rewrite <- app_assoc.
  - cbn [feed]. unfold feed_byte. destruct (b <=? 127) eqn:E; [lia|]. unfold feed_status.
    destruct (b =? 247) eqn:E1; [lia|]. destruct ((248 <=? b) && (b <=? 255)) eqn:E2; [|lia].
    change (240 =? 240) with true. cbv iota. rewrite IH. cbn [filter].
    assert (Hs : spec_need b = if is_rt_defined b then Some (Some 0%nat) else None).
    { unfold spec_need. destruct (is_rt_defined b) eqn:R;
      repeat match goal with |- context [if ?c then _ else _] => destruct c eqn:?; try lia end; reflexivity. }
    rewrite Hs. destruct (is_rt_defined b); reflexivity.
Qed.

Lemma rt_msgs_decode rts : Forall (fun b => 248 <= b <= 255) rts ->
  sequence (map dec (map (fun b => [b]) (filter is_rt_defined rts))) = Ok (map rt_msg_of (filter is_rt_defined rts)).
Proof.
  induction 1 as [|b r Hb Hr IH]; [reflexivity|]. cbn [filter]. destruct (is_rt_defined b) eqn:R; [|exact IH].
  cbn [map sequence]. rewrite IH.
  unfold is_rt_defined in R. repeat (apply orb_prop in R as [R|R]); apply Z.eqb_eq in R; subst b; reflexivity.
Qed.

Lemma inter_rts d rts mixed : inter d rts mixed -> Forall (fun b => 248 <= b <= 255) rts /\ Forall (fun x => 0 <= x <= 127) d.
Proof. induction 1 as [| x d r m Hx Hi [IH1 IH2] | b d r m Hb Hi [IH1 IH2]]; split; auto. Qed.

Theorem C06_rt_inside_sysex d rts mixed : inter d rts mixed ->
  parse_all (240 :: mixed ++ [247]) = Ok (map rt_msg_of (filter is_rt_defined rts) ++ [Sysex d]).
Proof.
  intros Hi. destruct (inter_rts _ _ _ Hi) as [Hr Hd].
  unfold parse_all, parse, tokens. cbn [feed]. unfold feed_byte at 1. change (240 <=? 127) with false. cbv iota.
  unfold feed_status at 1. change (240 =? 247) with false. change ((248 <=? 240) && (240 <=? 255)) with false.
  change (spec_need 240) with (Some (@None nat)). cbv iota.
  rewrite feed_app, (feed_inter _ _ _ Hi []). cbn [app feed]. unfold feed_byte. change (247 <=? 127) with false. cbv iota.
  unfold feed_status. change (247 =? 247) with true. cbv iota. change (240 =? 240) with true. cbv iota.
  cbn [app snd]. rewrite map_app. apply sequence_app; [now apply rt_msgs_decode|].
  cbn [map sequence]. change (240 :: d ++ [247]) with (enc (Sysex d)).
  rewrite (roundtrip true (Sysex d)); [reflexivity|]. cbn [valid]. now apply forallb_byte7_of_Forall.
Qed.

(* ================= ParserQueue: a history without direct put() is a Parser history ================= *)
Definition q2p (o : qop) : option pop :=
  match o with QPutBytes bs => Some (PFeed bs) | QPoll => Some PGet | QIterPoll => Some PIterAll | QPut _ => None end.

Lemma q_simulates : forall ops pops t q, map q2p ops = map Some pops ->
  snd (q_run {| q_tok := t; q_q := q |} ops) = snd (p_run {| p_tok := t; p_q := q |} pops) /\
  q_tok (fst (q_run {| q_tok := t; q_q := q |} ops)) = p_tok (fst (p_run {| p_tok := t; p_q := q |} pops)) /\
  q_q (fst (q_run {| q_tok := t; q_q := q |} ops)) = p_q (fst (p_run {| p_tok := t; p_q := q |} pops)).
Proof.
  induction ops as [|o r IH]; intros pops t q H; destruct pops as [|po pr]; try discriminate; [cbn; auto|].
  cbn [map] in H. injection H as Ho Hr.
  destruct o; cbn [q2p] in Ho; try discriminate; injection Ho as <-; cbn [q_run p_run q_step p_step q_tok q_q p_tok p_q].
  - unfold p_feed. cbn [p_tok p_q]. destruct (feed t bs) as [t' toks]. destruct (sequence (map dec toks)) as [ms|e];
    match goal with |- context [q_run {| q_tok := ?a; q_q := ?b |} r] => specialize (IH pr a b Hr);
      destruct (q_run {| q_tok := a; q_q := b |} r), (p_run {| p_tok := a; p_q := b |} pr) end;
    cbn [fst snd] in *; destruct IH as (-> & -> & ->); auto.
  - destruct q as [|m q'];
    match goal with |- context [q_run {| q_tok := ?a; q_q := ?b |} r] => specialize (IH pr a b Hr);
      destruct (q_run {| q_tok := a; q_q := b |} r), (p_run {| p_tok := a; p_q := b |} pr) end;
    cbn [fst snd] in *; destruct IH as (-> & -> & ->); auto.
  - match goal with |- context [q_run {| q_tok := ?a; q_q := ?b |} r] => specialize (IH pr a b Hr);
      destruct (q_run {| q_tok := a; q_q := b |} r), (p_run {| p_tok := a; p_q := b |} pr) end;
    cbn [fst snd] in *; destruct IH as (-> & -> & ->); auto.
Qed.

Definition qop_bytes (o : qop) : list Z := match o with QPutBytes bs => bs | _ => [] end.
Theorem C05_pqueue_fifo ops pops : map q2p ops = map Some pops -> Forall byte (fed pops) ->
  exists ms, parse_all (fed pops) = Ok ms /\
    ms = retrieved (snd (q_run {| q_tok := Idle; q_q := [] |} ops)) ++ q_q (fst (q_run {| q_tok := Idle; q_q := [] |} ops)).
Proof.
  intros Hm Hb. destruct (q_simulates ops pops Idle [] Hm) as (H1 & _ & H3). rewrite H1, H3.
  exact (C05_history_fifo pops Hb).
Qed.
(* ---- histories in which an iterator is kept alive across other calls ---- *)
Definition iop_bytes (o : iop) : list Z := match o with IOp o' => pop_bytes o' | _ => [] end.
Definition ifed (ops : list iop) : list Z := flat_map iop_bytes ops.

(* one next() on some iterator, followed by a run for which conservation is known *)
Lemma i_next_case (r : list iop) (s : istate) (k : nat) :
  (forall s', st_wf (p_tok (i_p s')) -> Forall byte (ifed r) ->
     exists ms, sequence (map dec (snd (feed (p_tok (i_p s')) (ifed r)))) = Ok ms /\
       p_q (i_p s') ++ ms = retrieved (snd (i_run s' r)) ++ p_q (i_p (fst (i_run s' r)))) ->
  st_wf (p_tok (i_p s)) -> Forall byte (ifed r) ->
  exists ms, sequence (map dec (snd (feed (p_tok (i_p s)) (ifed r)))) = Ok ms /\
    p_q (i_p s) ++ ms = retrieved (snd (let '(s1, ob) := i_next s k in let '(s2, obs) := i_run s1 r in (s2, ob :: obs))) ++
                        p_q (i_p (fst (let '(s1, ob) := i_next s k in let '(s2, obs) := i_run s1 r in (s2, ob :: obs)))).
Proof.
  intros IH Hs Hbr. unfold i_next.
  destruct (nth_error (i_it s) k) as [[|]|] eqn:Ei.
  - destruct (p_q (i_p s)) as [|m q] eqn:Eq.
    + specialize (IH {| i_p := i_p s; i_it := set_flag (i_it s) k false |} Hs Hbr). cbn [i_p] in IH. destruct IH as (ms & Hm & Hq).
      destruct (i_run _ r) as [s2 obs2]. cbn [fst snd] in *. exists ms. rewrite Eq in Hq. auto.
    + specialize (IH {| i_p := {| p_tok := p_tok (i_p s); p_q := q |}; i_it := i_it s |} Hs Hbr). cbn [i_p p_tok p_q] in IH. destruct IH as (ms & Hm & Hq).
      destruct (i_run _ r) as [s2 obs2]. cbn [fst snd] in *. exists ms. split; [exact Hm|]. cbn [retrieved flat_map obs_msgs app]. fold (retrieved obs2). cbn [app]. now rewrite Hq.
  - specialize (IH s Hs Hbr). destruct IH as (ms & Hm & Hq). destruct (i_run s r) as [s2 obs2]. cbn [fst snd] in *. exists ms. auto.
  - specialize (IH s Hs Hbr). destruct IH as (ms & Hm & Hq). destruct (i_run s r) as [s2 obs2]. cbn [fst snd] in *. exists ms. auto.
Qed.

Theorem i_conservation : forall ops s, st_wf (p_tok (i_p s)) -> Forall byte (ifed ops) ->
  exists ms, sequence (map dec (snd (feed (p_tok (i_p s)) (ifed ops)))) = Ok ms /\
    p_q (i_p s) ++ ms = retrieved (snd (i_run s ops)) ++ p_q (i_p (fst (i_run s ops))).
Proof.
  induction ops as [|o r IH]; intros s Hs Hb.
  - exists []. cbn. now rewrite app_nil_r.
  - unfold ifed in Hb. cbn [flat_map] in Hb. apply Forall_app in Hb as [Hb1 Hbr]. fold (ifed r) in Hbr.
    destruct o as [o'| | |k].
    + (* an ordinary operation *)
      assert (Hb1' : Forall byte (fed [o'])) by (unfold fed; cbn [flat_map]; rewrite app_nil_r; exact Hb1).
      destruct (run_conservation [o'] (i_p s) Hs Hb1') as (ms1 & Hm1 & Ht1 & Hq1).
      cbn [p_run] in Ht1, Hq1. destruct (p_step (i_p s) o') as [p1 ob] eqn:Ep. cbn [fst snd] in Ht1, Hq1.
      unfold fed in Hm1, Ht1. cbn [flat_map] in Hm1, Ht1. rewrite app_nil_r in Hm1, Ht1.
      cbn [retrieved flat_map] in Hq1. rewrite app_nil_r in Hq1.
      assert (Hs1 : st_wf (p_tok p1)).
      { rewrite Ht1. destruct (feed_msgs (p_tok (i_p s)) (pop_bytes o') Hs Hb1) as (_ & _ & _ & _ & Hw). exact Hw. }
      specialize (IH {| i_p := p1; i_it := i_it s |} Hs1 Hbr). cbn [i_p] in IH. destruct IH as (ms2 & Hm2 & Hq2).
      cbn [i_run i_step]. rewrite Ep. destruct (i_run {| i_p := p1; i_it := i_it s |} r) as [s2 obs2]. cbn [fst snd] in *.
      unfold ifed. cbn [flat_map iop_bytes]. fold (ifed r). rewrite feed_app.
      destruct (feed (p_tok (i_p s)) (pop_bytes o')) as [t1 o1]. cbn [fst snd] in *. subst t1.
      destruct (feed (p_tok p1) (ifed r)) as [t2 o2]. cbn [fst snd] in *.
      exists (ms1 ++ ms2). rewrite map_app. split; [now apply sequence_app|].
      cbn [retrieved flat_map]. fold (retrieved obs2). rewrite app_assoc, Hq1, <- app_assoc, Hq2. now rewrite app_assoc.
    + (* a new iterator *)
      specialize (IH {| i_p := i_p s; i_it := i_it s ++ [true] |} Hs Hbr). cbn [i_p] in IH. destruct IH as (ms & Hm & Hq).
      cbn [i_run i_step]. destruct (i_run _ r) as [s2 obs2]. cbn [fst snd] in *. exists ms. unfold ifed. cbn [flat_map iop_bytes app]. fold (ifed r). auto.
    + (* next(it) on the newest iterator *)
      cbn [i_run i_step]. unfold ifed. cbn [flat_map iop_bytes app]. fold (ifed r). apply i_next_case; assumption.
    + (* next(it) on the k-th iterator *)
      cbn [i_run i_step]. unfold ifed. cbn [flat_map iop_bytes app]. fold (ifed r). apply i_next_case; assumption.
Qed.

(* with ANY number of iterators kept alive across feeds, get_message calls and other iterations, advanced in any order, in ANY history: what was
   retrieved plus what is still queued is exactly parse_all of everything fed - live iterators neither lose, duplicate nor reorder anything *)
Theorem live_iterator_fifo ops : Forall byte (ifed ops) ->
  exists ms, parse_all (ifed ops) = Ok ms /\ ms = retrieved (snd (i_run i_init ops)) ++ p_q (i_p (fst (i_run i_init ops))).
Proof.
  intros Hb. destruct (i_conservation ops i_init I Hb) as (ms & H1 & H2). exists ms. split; [exact H1|exact H2].
Qed.
