(* MetaProofs.v — the meta message codec preserves every accepted value (C09). *)
From Coq Require Import ZArith List Bool Lia ZifyBool.
Require Import Mido.Model.Base Mido.Model.Varint Mido.Model.Meta Mido.Proofs.VarintProofs.
Import ListNotations.
Open Scope Z_scope.

Definition bytes (l : list Z) : Prop := Forall (fun b => 0 <= b <= 255) l.

(* assumed behaviour of a text codec: what it encodes it decodes back, to bytes; it fails only with ValueError
   (UnicodeEncodeError / UnicodeDecodeError are subclasses of ValueError) *)
Definition codec_ok (cs : codec) : Prop :=
  (forall t bs, c_enc cs t = Ok bs -> c_dec cs bs = Ok t /\ bytes bs) /\
  (forall t e, c_enc cs t = Raise e -> e = ValueError).

Lemma forallb_byte8_bytes l : forallb byte8 l = true -> bytes l.
Proof. induction l as [|x r IH]; cbn; intros H; constructor; unfold byte8 in H at 1; [lia|apply IH; lia]. Qed.
Lemma forallb_byte7_bytes l : forallb byte7 l = true -> bytes l.
Proof. induction l as [|x r IH]; cbn; intros H; constructor; unfold byte7 in H at 1; [lia|apply IH; lia]. Qed.

Lemma latin1_ok : codec_ok latin1.
Proof.
  split; cbn.
  - intros t bs H. destruct (forallb byte8 t) eqn:E; [|discriminate]. injection H as <-. split; [reflexivity|now apply forallb_byte8_bytes].
  - intros t e H. destruct (forallb byte8 t); [discriminate|]. now injection H as <-.
Qed.
Lemma ascii_ok : codec_ok ascii.
Proof.
  split; cbn.
  - intros t bs H. destruct (forallb byte7 t) eqn:E; [|discriminate]. injection H as <-. rewrite E. split; [reflexivity|now apply forallb_byte7_bytes].
  - intros t e H. destruct (forallb byte7 t); [discriminate|]. now injection H as <-.
Qed.

(* ---- bit facts ---- *)
Lemma land_shiftl_low hi lo k : 0 <= k -> 0 <= lo < 2 ^ k -> Z.land (Z.shiftl hi k) lo = 0.
Proof.
  intros Hk Hlo. apply Z.bits_inj'; intros n Hn. rewrite Z.land_spec, Z.bits_0.
  destruct (Z.ltb_spec n k) as [Hlt|Hge].
  - rewrite Z.shiftl_spec_low by lia. reflexivity.
  - rewrite <- (Z.mod_small lo (2 ^ k)) by lia. rewrite (Z.mod_pow2_bits_high lo k n) by lia. apply andb_false_r.
Qed.
Lemma lor_shiftl_add hi lo k : 0 <= k -> 0 <= lo < 2 ^ k -> Z.lor (Z.shiftl hi k) lo = hi * 2 ^ k + lo.
Proof.
  intros Hk Hlo. rewrite <- Z.lxor_lor by now apply land_shiftl_low.
  rewrite <- Z.add_nocarry_lxor by now apply land_shiftl_low. now rewrite Z.shiftl_mul_pow2.
Qed.
Lemma land_255 n : Z.land n 255 = n mod 256.
Proof. change 255 with (Z.ones 8). now rewrite Z.land_ones by lia. Qed.

Lemma pow2_log2 d : is_pow2 d = true -> 2 ^ Z.log2 d = d.
Proof.
  unfold is_pow2. intros H. apply andb_prop in H as [Hpos Hz]. apply Z.ltb_lt in Hpos. apply Z.eqb_eq in Hz.
  pose proof (Z.log2_spec d Hpos) as [Hlo Hhi]. pose proof (Z.log2_nonneg d) as Hk.
  destruct (Z.eq_dec (2 ^ Z.log2 d) d) as [E|Hne]; [exact E|exfalso].
  assert (Hd1 : 2 ^ Z.log2 d <= d - 1 < 2 ^ Z.succ (Z.log2 d)) by lia.
  assert (Hl : Z.log2 (d - 1) = Z.log2 d) by (apply Z.log2_unique; lia).
  pose proof (Z.bit_log2 d Hpos) as B1. pose proof (Z.bit_log2 (d - 1) ltac:(pose proof (Z.pow_pos_nonneg 2 (Z.log2 d) ltac:(lia) Hk); lia)) as B2.
  rewrite Hl in B2. assert (B : Z.testbit (Z.land d (d - 1)) (Z.log2 d) = true) by (rewrite Z.land_spec, B1, B2; reflexivity).
  rewrite Hz, Z.bits_0 in B. discriminate.
Qed.

Lemma smpte_sweep : forallb (fun fr => forallb (fun h =>
    (Z.shiftr (Z.lor (Z.shiftl fr 5) h) 5 =? fr) && (Z.land (Z.lor (Z.shiftl fr 5) h) 31 =? h) &&
    (0 <=? Z.lor (Z.shiftl fr 5) h) && (Z.lor (Z.shiftl fr 5) h <=? 255)) (range 32)) (range 4) = true.
Proof. vm_compute. reflexivity. Qed.
Lemma keysig_sweep : forallb (fun i => let sf := i - 7 in let d0 := sf mod 256 in
    ((if d0 <? 128 then d0 else d0 - 256) =? sf) && (0 <=? d0) && (d0 <=? 255)) (range 15) = true.
Proof. vm_compute. reflexivity. Qed.
Lemma in_range n x : 0 <= x < Z.of_nat n -> In x (range n).
Proof. intros H. unfold range. apply in_map_iff. exists (Z.to_nat x). split; [lia|]. apply in_seq. lia. Qed.

(* the values for which decoding the payload gives the message back: everything the constructor accepts, except SMPTE hours
   above 31 (they spill into the frame-rate bits) and UnknownMetaMessage objects carrying a known type byte or non-bytes *)
Definition meta_rt := meta_rt_b.

Ltac bsplit := repeat match goal with H : _ && _ = true |- _ => apply andb_prop in H as [? ?] end.

Theorem payload_roundtrip cs x p : codec_ok cs -> meta_rt x = true -> meta_payload cs x = Ok p ->
  meta_decode cs (type_byte x) p = Ok x /\ bytes p.
Proof.
  intros [Hcs _] Hrt Hp. unfold meta_rt, meta_rt_b in Hrt. apply andb_prop in Hrt as [Hok Hx].
  destruct x; cbn [meta_payload type_byte meta_ok] in *; unfold in_rng in *.
  - (* sequence_number *)
    injection Hp as <-. bsplit. unfold meta_decode. change (0 =? 0) with true. cbv iota. cbn [idx nth_error bind].
    rewrite land_255, Z.shiftr_div_pow2 by lia. change (2 ^ 8) with 256.
    rewrite lor_shiftl_add by (try lia; change (2 ^ 8) with 256; apply Z.mod_pos_bound; lia). change (2 ^ 8) with 256.
    assert (E : n / 256 * 256 + n mod 256 = n) by (pose proof (Z.div_mod n 256 ltac:(lia)); lia). rewrite E.
    unfold chk, in_rng. replace ((0 <=? n) && (n <=? 65535)) with true by lia.
    split; [reflexivity|]. repeat constructor; Z.to_euclidean_division_equations; lia.
  - (* text family *)
    destruct (Hcs _ _ Hp) as [Hd Hb]. unfold meta_decode. unfold is_text_type in Hok.
    assert (tb =? 0 = false) as -> by lia. unfold is_text_type. rewrite Hok. now rewrite Hd.
  - injection Hp as <-. bsplit. unfold meta_decode. cbn. unfold chk, in_rng. replace ((0 <=? c) && (c <=? 255)) with true by lia.
    split; [reflexivity|repeat constructor; lia].
  - injection Hp as <-. bsplit. unfold meta_decode. cbn. unfold chk, in_rng. replace ((0 <=? p0) && (p0 <=? 255)) with true by lia.
    split; [reflexivity|repeat constructor; lia].
  - injection Hp as <-. split; [reflexivity|constructor].
  - (* set_tempo *)
    injection Hp as <-. bsplit. unfold meta_decode. cbn [Z.eqb is_text_type andb orb Z.leb Z.compare Pos.compare Pos.compare_cont idx nth_error bind].
    change (81 =? 0) with false. change (is_text_type 81) with false. change (81 =? 32) with false. change (81 =? 33) with false.
    change (81 =? 47) with false. change (81 =? 81) with true. cbv iota. cbn [idx nth_error bind].
    rewrite !land_255, !Z.shiftr_div_pow2 by lia. change (2 ^ 16) with 65536. change (2 ^ 8) with 256.
    set (a := t / 65536). set (b := (t / 256) mod 256). set (c := t mod 256).
    assert (Hb : 0 <= b < 256) by (apply Z.mod_pos_bound; lia). assert (Hc : 0 <= c < 256) by (apply Z.mod_pos_bound; lia).
    assert (Ha : 0 <= a < 256) by (unfold a; Z.to_euclidean_division_equations; lia).
    assert (E1 : Z.lor (Z.shiftl a 16) (Z.shiftl b 8) = Z.shiftl (a * 256 + b) 8).
    { rewrite (Z.shiftl_mul_pow2 b 8), (Z.shiftl_mul_pow2 (a * 256 + b) 8) by lia. change (2 ^ 8) with 256.
      rewrite lor_shiftl_add by (try lia; change (2 ^ 16) with 65536; lia). change (2 ^ 16) with 65536. lia. }
    rewrite E1, lor_shiftl_add by (try lia; change (2 ^ 8) with 256; lia). change (2 ^ 8) with 256.
    assert (E : (a * 256 + b) * 256 + c = t) by (unfold a, b, c; Z.to_euclidean_division_equations; lia). rewrite E.
    unfold chk, in_rng. replace ((0 <=? t) && (t <=? 16777215)) with true by lia.
    split; [reflexivity|]. repeat constructor; lia.
  - (* smpte_offset *)
    bsplit. pose proof smpte_sweep as S. rewrite forallb_forall in S. specialize (S fr (in_range 4 fr ltac:(lia))).
    rewrite forallb_forall in S. specialize (S h (in_range 32 h ltac:(lia))). cbv beta in S.
    remember (Z.lor (Z.shiftl fr 5) h) as d0 eqn:Ed0. bsplit.
    repeat match goal with H : (_ =? _) = true |- _ => apply Z.eqb_eq in H end.
    injection Hp as <-.
    unfold meta_decode. change (84 =? 0) with false. change (is_text_type 84) with false. change (84 =? 32) with false. change (84 =? 33) with false.
    change (84 =? 47) with false. change (84 =? 81) with false. change (84 =? 84) with true. cbv iota. cbn [idx nth_error bind].
    match goal with H : Z.shiftr d0 5 = fr |- _ => rewrite H end.
    match goal with H : Z.land d0 31 = h |- _ => rewrite H end.
    unfold chk, in_rng. replace ((0 <=? fr) && (fr <=? 3)) with true by lia. replace ((0 <=? h) && (h <=? 255)) with true by lia.
    replace ((0 <=? m) && (m <=? 59)) with true by lia. replace ((0 <=? s) && (s <=? 59)) with true by lia.
    replace ((0 <=? f) && (f <=? 255)) with true by lia. replace ((0 <=? sf) && (sf <=? 99)) with true by lia.
    split; [reflexivity|]. repeat constructor; lia.
  - (* time_signature *)
    injection Hp as <-. bsplit. pose proof (pow2_log2 d ltac:(assumption)) as Hpw.
    assert (Hlog : 0 <= Z.log2 d <= 255).
    { split; [apply Z.log2_nonneg|]. rewrite <- (Z.log2_pow2 255) by lia. apply Z.log2_le_mono. lia. }
    unfold meta_decode. change (88 =? 0) with false. change (is_text_type 88) with false. change (88 =? 32) with false. change (88 =? 33) with false.
    change (88 =? 47) with false. change (88 =? 81) with false. change (88 =? 84) with false. change (88 =? 88) with true. cbv iota.
    cbn [idx nth_error bind]. rewrite Hpw. unfold chk, in_rng.
    replace ((0 <=? n) && (n <=? 255)) with true by lia.
    replace ((1 <=? d) && (d <=? 2 ^ 255)) with true by lia.
    match goal with H : is_pow2 d = true |- _ => rewrite H end. cbn [andb].
    replace ((0 <=? c) && (c <=? 255)) with true by lia. replace ((0 <=? b) && (b <=? 255)) with true by lia.
    split; [reflexivity|]. repeat constructor; lia.
  - (* key_signature *)
    injection Hp as <-. bsplit. pose proof keysig_sweep as S. rewrite forallb_forall in S. specialize (S (sf + 7) (in_range 15 (sf + 7) ltac:(lia))).
    cbv beta zeta in S. replace (sf + 7 - 7) with sf in S by lia. bsplit.
    unfold meta_decode. change (89 =? 0) with false. change (is_text_type 89) with false. change (89 =? 32) with false. change (89 =? 33) with false.
    change (89 =? 47) with false. change (89 =? 81) with false. change (89 =? 84) with false. change (89 =? 88) with false. change (89 =? 89) with true.
    cbv iota. cbn [idx nth_error bind].
    match goal with H : (_ =? sf) = true |- _ => apply Z.eqb_eq in H; rewrite H end.
    unfold in_rng. replace ((-7 <=? sf) && (sf <=? 7)) with true by lia. replace ((0 <=? mode) && (mode <=? 1)) with true by lia.
    split; [reflexivity|]. repeat constructor; lia.
  - (* sequencer_specific *)
    injection Hp as <-. unfold meta_decode. change (127 =? 0) with false. change (is_text_type 127) with false. change (127 =? 32) with false.
    change (127 =? 33) with false. change (127 =? 47) with false. change (127 =? 81) with false. change (127 =? 84) with false.
    change (127 =? 88) with false. change (127 =? 89) with false. change (127 =? 127) with true. cbv iota. rewrite Hok.
    split; [reflexivity|now apply forallb_byte8_bytes].
  - (* unknown meta *)
    injection Hp as <-. bsplit. unfold known_type in *.
    match goal with H : negb _ = true |- _ => apply negb_true_iff in H; rename H into Hk end.
    repeat (apply orb_false_elim in Hk as [Hk ?]).
    unfold meta_decode. repeat match goal with H : (_ =? _) = false |- _ => rewrite H; clear H end.
    match goal with H : is_text_type tb = false |- _ => rewrite H end.
    split; [reflexivity|now apply forallb_byte8_bytes].
Qed.

(* the one documented value range that does not survive: hours 32..255 *)
Lemma smpte_hours_refuted : meta_ok (MSmpte 0 32 0 0 0 0) = true /\
  exists p, meta_payload latin1 (MSmpte 0 32 0 0 0 0) = Ok p /\ meta_decode latin1 84 p = Ok (MSmpte 1 0 0 0 0 0).
Proof. split; [reflexivity|]. eexists. split; reflexivity. Qed.

(* ---- MetaMessage.from_bytes(MetaMessage.bytes()) ---- *)
Lemma scan_hi hi : forall acc rest, Forall (fun b => 128 <= b <= 255) hi -> scan_length acc (hi ++ rest) = scan_length (acc ++ hi) rest.
Proof.
  induction hi as [|b r IH]; intros acc rest H; [now rewrite app_nil_r|].
  apply Forall_cons_iff in H as [Hb Hr]. cbn [app scan_length]. destruct (128 <=? b) eqn:E; [|lia].
  rewrite IH by assumption. now rewrite <- app_assoc.
Qed.

Theorem from_bytes_roundtrip cs x bs : codec_ok cs -> meta_rt x = true -> meta_bytes cs x = Ok bs -> meta_from_bytes cs bs = Ok x.
Proof.
  intros Hcs Hrt Hb. unfold meta_bytes in Hb. destruct (meta_payload cs x) as [p|] eqn:Hp; cbn [bind] in Hb; [|discriminate].
  injection Hb as <-. destruct (payload_roundtrip cs x p Hcs Hrt Hp) as [Hd _].
  unfold meta_from_bytes. change (255 =? 255) with true. cbn [negb].
  destruct (enc_varint_shape (zlen p) ltac:(unfold zlen; lia)) as (hi & last & E & Hhi & Hlast).
  rewrite E, <- app_assoc, scan_hi by assumption. cbn [app scan_length]. destruct (128 <=? last) eqn:E2; [lia|].
  rewrite <- E, decode_enc_varint by (unfold zlen; lia). rewrite Z.eqb_refl. cbn [bind]. exact Hd.
Qed.
