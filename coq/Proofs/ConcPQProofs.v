(* ConcPQProofs.v — ParserQueue fed by several threads, any schedule: the queue is first-in first-out and loses nothing, and the messages of
   each feeding thread enter it in the order that thread fed them; without the lock around feed-and-put they can overtake each other. *)
From Coq Require Import ZArith List Bool Arith Lia.
Require Import Mido.Model.Base Mido.Model.Codec Mido.Model.ConcPQ Mido.Proofs.ConcProofs.
Import ListNotations.

(* what a thread has still to put: the rest of the drain in progress and the chunks of the operations it has not begun *)
Definition qpending (th : qthread) : list msg :=
  match qat th with
  | QStart => qfeeds (qprog th)
  | QFeed chunk => chunk ++ qfeeds (tl (qprog th))
  | QDrain rest => rest ++ qfeeds (tl (qprog th))
  | QUnlock => qfeeds (tl (qprog th))
  end.
Definition qinside (p : qpc) : bool := match p with QStart => false | _ => true end.

Section PQ.
Variable progs : nat -> list qop.

Definition QInv (cf : qcfg) : Prop :=
  let s := fst cf in let ts := snd cf in
  map snd (qlog s) = qpolled s ++ qqueue s /\
  (forall t, qfeeds (progs t) = mine t (qlog s) ++ qpending (ts t)) /\
  (forall t, qinside (qat (ts t)) = true -> exists c r, qprog (ts t) = QPut c :: r) /\
  (forall t c, qat (ts t) = QFeed c -> exists r, qprog (ts t) = QPut c :: r).

Lemma qupd_same ts t th : qupd ts t th t = th.
Proof. unfold qupd. now rewrite Nat.eqb_refl. Qed.
Lemma qupd_other ts t th u : u <> t -> qupd ts t th u = ts u.
Proof. intros H. unfold qupd. destruct (Nat.eqb_spec u t); congruence. Qed.

Lemma qstep_inv cf t : QInv cf -> QInv (qstep true cf t).
Proof.
  destruct cf as [s ts]. unfold QInv at 1. cbn [fst snd]. intros (HF & HS & HP & HC). unfold qstep.
  destruct (qat (ts t)) as [ | chunk | rest | ] eqn:Ep.
  - (* QStart *)
    destruct (qprog (ts t)) as [|o r] eqn:Eq; [exact (conj HF (conj HS (conj HP HC)))|]. destruct o as [chunk|].
    + destruct (qlock s) as [o|] eqn:El; [exact (conj HF (conj HS (conj HP HC)))|].
      unfold QInv; cbn [fst snd]. cbn [qlock qqueue qlog qpolled]. split; [exact HF|split; [|split]].
      * intros u. destruct (Nat.eq_dec u t) as [->|Hne]; [|rewrite qupd_other by exact Hne; apply HS].
        rewrite qupd_same, (HS t). unfold qpending. cbn [qset qat qprog]. rewrite Ep, Eq. cbn [qfeeds flat_map tl]. reflexivity.
      * intros u. destruct (Nat.eq_dec u t) as [->|Hne]; [rewrite qupd_same; cbn [qset qat qprog]; rewrite Eq; eauto|rewrite qupd_other by exact Hne; apply HP].
      * intros u c. destruct (Nat.eq_dec u t) as [->|Hne]; [rewrite qupd_same; cbn [qset qat qprog]; intros H; injection H as <-; rewrite Eq; eauto|rewrite qupd_other by exact Hne; apply HC].
    + destruct (qqueue s) as [|m q] eqn:Eqq.
      * unfold QInv; cbn [fst snd]. rewrite Eqq. split; [exact HF|split; [|split]].
        -- intros u. destruct (Nat.eq_dec u t) as [->|Hne]; [|rewrite qupd_other by exact Hne; apply HS].
           rewrite qupd_same, (HS t). unfold qpending. cbn [qat qprog]. rewrite Ep, Eq. reflexivity.
        -- intros u. destruct (Nat.eq_dec u t) as [->|Hne]; [rewrite qupd_same; cbn [qat]; discriminate|rewrite qupd_other by exact Hne; apply HP].
        -- intros u c. destruct (Nat.eq_dec u t) as [->|Hne]; [rewrite qupd_same; cbn [qat]; discriminate|rewrite qupd_other by exact Hne; apply HC].
      * unfold QInv; cbn [fst snd]. cbn [qlock qqueue qlog qpolled]. split; [rewrite HF, <- app_assoc; reflexivity|split; [|split]].
        -- intros u. destruct (Nat.eq_dec u t) as [->|Hne]; [|rewrite qupd_other by exact Hne; apply HS].
           rewrite qupd_same, (HS t). unfold qpending. cbn [qat qprog]. rewrite Ep, Eq. reflexivity.
        -- intros u. destruct (Nat.eq_dec u t) as [->|Hne]; [rewrite qupd_same; cbn [qat]; discriminate|rewrite qupd_other by exact Hne; apply HP].
        -- intros u c. destruct (Nat.eq_dec u t) as [->|Hne]; [rewrite qupd_same; cbn [qat]; discriminate|rewrite qupd_other by exact Hne; apply HC].
  - (* QFeed *)
    destruct (HC t chunk Ep) as [r Hr].
    unfold QInv; cbn [fst snd]. split; [exact HF|split; [|split]].
    + intros u. destruct (Nat.eq_dec u t) as [->|Hne]; [|rewrite qupd_other by exact Hne; apply HS].
      rewrite qupd_same, (HS t). unfold qpending. rewrite Ep. destruct chunk; cbn [qset qat qprog app]; reflexivity.
    + intros u. destruct (Nat.eq_dec u t) as [->|Hne]; [rewrite qupd_same; cbn [qset qprog]; intros _; eauto|rewrite qupd_other by exact Hne; apply HP].
    + intros u c. destruct (Nat.eq_dec u t) as [->|Hne]; [rewrite qupd_same; destruct chunk; cbn [qset qat]; discriminate|rewrite qupd_other by exact Hne; apply HC].
  - (* QDrain *)
    assert (Hin : qinside (qat (ts t)) = true) by (rewrite Ep; reflexivity). destruct (HP t Hin) as (c0 & r0 & Hr).
    destruct rest as [|m r].
    + unfold QInv; cbn [fst snd]. split; [exact HF|split; [|split]].
      * intros u. destruct (Nat.eq_dec u t) as [->|Hne]; [|rewrite qupd_other by exact Hne; apply HS].
        rewrite qupd_same, (HS t). unfold qpending. rewrite Ep. cbn [qset qat qprog app]. reflexivity.
      * intros u. destruct (Nat.eq_dec u t) as [->|Hne]; [rewrite qupd_same; cbn [qset qprog]; intros _; eauto|rewrite qupd_other by exact Hne; apply HP].
      * intros u c. destruct (Nat.eq_dec u t) as [->|Hne]; [rewrite qupd_same; cbn [qset qat]; discriminate|rewrite qupd_other by exact Hne; apply HC].
    + unfold QInv; cbn [fst snd]. cbn [qlock qqueue qlog qpolled]. split; [rewrite map_app, HF, <- app_assoc; reflexivity|split; [|split]].
      * intros u. rewrite mine_app. cbn [fst snd]. destruct (Nat.eq_dec u t) as [->|Hne].
        -- rewrite qupd_same, Nat.eqb_refl, (HS t). unfold qpending at 1. rewrite Ep. unfold qpending. destruct r; cbn [qset qat qprog app]; rewrite <- app_assoc; reflexivity.
        -- rewrite qupd_other by exact Hne. replace (Nat.eqb t u) with false by (symmetry; apply Nat.eqb_neq; congruence). rewrite app_nil_r. apply HS.
      * intros u. destruct (Nat.eq_dec u t) as [->|Hne]; [rewrite qupd_same; cbn [qset qprog]; intros _; eauto|rewrite qupd_other by exact Hne; apply HP].
      * intros u c. destruct (Nat.eq_dec u t) as [->|Hne]; [rewrite qupd_same; destruct r; cbn [qset qat]; discriminate|rewrite qupd_other by exact Hne; apply HC].
  - (* QUnlock *)
    assert (Hin : qinside (qat (ts t)) = true) by (rewrite Ep; reflexivity). destruct (HP t Hin) as (c0 & r0 & Hr).
    unfold QInv; cbn [fst snd]. cbn [qlock qqueue qlog qpolled]. split; [exact HF|split; [|split]].
    + intros u. destruct (Nat.eq_dec u t) as [->|Hne]; [|rewrite qupd_other by exact Hne; apply HS].
      rewrite qupd_same, (HS t). unfold qpending. rewrite Ep. cbn [qat qprog]. reflexivity.
    + intros u. destruct (Nat.eq_dec u t) as [->|Hne]; [rewrite qupd_same; cbn [qat]; discriminate|rewrite qupd_other by exact Hne; apply HP].
    + intros u c. destruct (Nat.eq_dec u t) as [->|Hne]; [rewrite qupd_same; cbn [qat]; discriminate|rewrite qupd_other by exact Hne; apply HC].
Qed.

Lemma qinit_inv : QInv (qinit progs).
Proof.
  unfold QInv, qinit. cbn [fst snd qlog qpolled qqueue map app qat qprog]. split; [reflexivity|split; [|split]].
  - intros t. reflexivity.
  - intros t H. discriminate.
  - intros t c H. discriminate.
Qed.
Lemma qrun_inv : forall sched cf, QInv cf -> QInv (qrun true sched cf).
Proof. induction sched as [|t r IH]; intros cf H; cbn [qrun fold_left]; [exact H|]. apply IH, qstep_inv, H. Qed.

(* the queue is first-in first-out and nothing is lost or invented: what was put in, in order = what was taken off, in order, then what it holds *)
Theorem pq_fifo sched : let s := fst (qrun true sched (qinit progs)) in map snd (qlog s) = qpolled s ++ qqueue s.
Proof. pose proof (qrun_inv sched _ qinit_inv) as H. destruct (qrun true sched (qinit progs)) as [s ts]. unfold QInv in H. cbn [fst snd] in *. apply H. Qed.
(* each feeding thread's messages enter the queue in the order it fed them: the part of the log that comes from thread t, followed by what t
   has still to put, is exactly what t's program feeds *)
Theorem pq_feeder_order sched t : let '(s, ts) := qrun true sched (qinit progs) in qfeeds (progs t) = mine t (qlog s) ++ qpending (ts t).
Proof. pose proof (qrun_inv sched _ qinit_inv) as H. destruct (qrun true sched (qinit progs)) as [s ts]. unfold QInv in H. cbn [fst snd] in H. destruct H as (_ & HS & _). apply HS. Qed.
End PQ.

(* with the lock held only around the parsing (or not at all) a later message of one thread can enter the queue before an earlier one: here
   thread 0 feeds [a; b] in one call and thread 1's message gets between the two *)
Definition pq_a := NoteOn 0%Z 1%Z 1%Z.
Definition pq_b := NoteOn 0%Z 2%Z 2%Z.
Definition pq_c := NoteOn 0%Z 3%Z 3%Z.
Open Scope nat_scope.
Theorem pq_unlocked_interleaves :
  map snd (qlog (fst (qrun false [0; 0; 1; 1; 0; 1; 0] (qinit (fun t => match t with 0 => [QPut [pq_a; pq_b]] | 1 => [QPut [pq_c]] | _ => [] end))))) = [pq_a; pq_c; pq_b].
Proof. reflexivity. Qed.
Example pq_example :
  let '(s, ts) := qrun true [0; 0; 1; 0; 2; 1; 0; 0; 1; 1; 1; 1; 2; 2] (qinit (fun t => match t with 0 => [QPut [pq_a; pq_b]] | 1 => [QPut [pq_c]] | 2 => [QPoll; QPoll; QPoll] | _ => [] end)) in
  (map snd (qlog s), qgot (ts 2)) = ([pq_a; pq_b; pq_c], [Some pq_a; Some pq_b; Some pq_c]).
Proof. vm_compute. reflexivity. Qed.
