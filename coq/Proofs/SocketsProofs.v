(* SocketsProofs.v — socket ports (C18): exactly the complete messages before a disconnect, close releases the connection, addresses. *)
From Coq Require Import ZArith List Bool Lia.
Require Import Mido.Model.Base Mido.Model.Codec Mido.Model.Tokenizer Mido.Model.Parser Mido.Model.Strings Mido.Model.Sockets.
Require Import Mido.Proofs.CodecProofs Mido.Proofs.TokProofs Mido.Proofs.ParseProofs Mido.Proofs.StringsProofs.
Import ListNotations.
Open Scope Z_scope.

Lemma Forall_firstn {A} (P : A -> Prop) : forall n l, Forall P l -> Forall P (firstn n l).
Proof. induction n as [|n IH]; intros l H; [constructor|]. destruct l; [constructor|]. inversion H; subst. cbn [firstn]. constructor; auto. Qed.

(* ================= the tokens of a stream of whole encodings cut at any offset ================= *)
Lemma feed_tok_idle t : tok_wf t -> feed Idle t = (Idle, [t]).
Proof.
  intros [H|(b & -> & Hb)]; [apply resync_token, H|]. cbn [feed]. destruct (rt_token Idle b Hb) as [Ho Hs]. specialize (Hs eq_refl).
  destruct (feed_byte Idle b) as [s o]. cbn [fst snd] in *. subst. reflexivity.
Qed.

(* a proper prefix of one encoding yields nothing *)
Lemma strict_prefix_silent t k : tok_wf t -> (k < length t)%nat -> snd (feed Idle (firstn k t)) = [].
Proof.
  intros [H|(b & -> & Hb)] Hk.
  - destruct H as [st ds k' Hst Hn Hl Hf | ds Hf].
    + destruct k as [|j]; [reflexivity|]. cbn [firstn feed]. cbn [length] in Hk.
      unfold feed_byte. destruct Hst as [Hr Hd]. destruct (st <=? 127) eqn:E; [lia|].
      unfold feed_status. destruct (st =? 247) eqn:E1; [lia|]. destruct ((248 <=? st) && (st <=? 255)) eqn:E2; [lia|]. rewrite Hn.
      destruct k' as [|k'']; [lia|].
      rewrite (feed_data_bytes st [] (S k'') (firstn j ds)); [reflexivity|now apply Forall_firstn|].
      cbn [length]. rewrite firstn_length. lia.
    + destruct k as [|j]; [reflexivity|]. cbn [firstn]. cbn [length] in Hk. rewrite app_length in Hk. cbn [length] in Hk.
      rewrite firstn_app. replace (j - length ds)%nat with 0%nat by lia. cbn [firstn]. rewrite app_nil_r.
      cbn [feed]. change (feed_byte Idle 240) with (Coll 240 [] None, @nil (list Z)). cbv iota beta.
      rewrite feed_sysex_data by now apply Forall_firstn. reflexivity.
  - cbn [length] in Hk. assert (k = 0%nat) by lia. subst. reflexivity.
Qed.

Lemma cut_tokens : forall ms cut, Forall (fun m => valid m = true) ms ->
  snd (feed Idle (firstn cut (concat (map enc ms)))) = map enc (complete_prefix ms cut).
Proof.
  induction ms as [|m r IH]; intros cut Hv; cbn [map concat complete_prefix].
  - now rewrite firstn_nil.
  - inversion Hv as [|? ? Hm Hr]; subst. pose proof (enc_tok_wf m Hm) as Ht. rewrite firstn_app.
    destruct (Nat.leb (length (enc m)) cut) eqn:E.
    + apply Nat.leb_le in E. rewrite firstn_all2 by exact E. rewrite feed_app, (feed_tok_idle _ Ht).
      specialize (IH (cut - length (enc m))%nat Hr). destruct (feed Idle (firstn (cut - length (enc m)) (concat (map enc r)))) as [s o].
      cbn [snd] in *. now rewrite IH.
    + apply Nat.leb_gt in E. replace (cut - length (enc m))%nat with 0%nat by lia. cbn [firstn]. rewrite app_nil_r.
      now apply strict_prefix_silent.
Qed.

Definition msgs_of (toks : list (list Z)) : list msg := match sequence (map dec toks) with Ok ms => ms | Raise _ => [] end.
Lemma msgs_of_enc l : Forall (fun m => valid m = true) l -> sequence (map dec (map enc l)) = Ok l.
Proof.
  induction 1 as [|m r Hm Hr IH]; [reflexivity|]. cbn [map sequence]. unfold dec at 1. rewrite (roundtrip true m Hm). now rewrite IH.
Qed.
Lemma complete_prefix_valid : forall ms cut, Forall (fun m => valid m = true) ms -> Forall (fun m => valid m = true) (complete_prefix ms cut).
Proof.
  induction ms as [|m r IH]; intros cut Hv; cbn [complete_prefix]; [constructor|]. inversion Hv; subst.
  destruct (Nat.leb (length (enc m)) cut); [constructor; auto|constructor].
Qed.
Lemma complete_prefix_length : forall ms cut, (length (complete_prefix ms cut) <= length ms)%nat.
Proof. induction ms as [|m r IH]; intros cut; cbn [complete_prefix length]; [lia|]. destruct (Nat.leb _ _); cbn [length]; [specialize (IH (cut - length (enc m))%nat)|]; lia. Qed.
Lemma concat_enc_bytes ms : Forall (fun m => valid m = true) ms -> Forall byte (concat (map enc ms)).
Proof. induction 1 as [|m r Hm Hr IH]; cbn [map concat]; [constructor|]. apply Forall_app. split; [exact (enc_bytes m Hm)|exact IH]. Qed.

(* parse_all of the cut stream: exactly the messages that lie completely before the cut *)
Theorem parse_cut ms cut : Forall (fun m => valid m = true) ms -> parse_all (firstn cut (concat (map enc ms))) = Ok (complete_prefix ms cut).
Proof.
  intros Hv. unfold parse_all, parse, tokens. rewrite (cut_tokens ms cut Hv). apply msgs_of_enc, complete_prefix_valid, Hv.
Qed.

(* ================= the socket port ================= *)
Fixpoint bytes_before (evs : list sev) : list Z :=
  match evs with SByte b :: r => b :: bytes_before r | SGap :: r => bytes_before r | _ => [] end.
Fixpoint ends (evs : list sev) : bool :=
  match evs with SByte _ :: r => ends r | SGap :: r => ends r | SEof :: _ => true | SDied :: _ => true | [] => false end.
Fixpoint gaps (evs : list sev) : nat := match evs with SByte _ :: r => gaps r | SGap :: r => S (gaps r) | _ => O end.
Definition future (t : tstate) (evs : list sev) : list msg := msgs_of (snd (feed t (bytes_before evs))).

Lemma msgs_of_app a b la lb : sequence (map dec a) = Ok la -> sequence (map dec b) = Ok lb -> msgs_of (a ++ b) = la ++ lb.
Proof. intros Ha Hb. unfold msgs_of. rewrite map_app, (sequence_app _ _ la lb Ha Hb). reflexivity. Qed.

Lemma recv_call_spec : forall evs t q, st_wf t -> Forall byte (bytes_before evs) -> ends evs = true ->
  exists t' ms rest c, recv_call t q evs = (t', q ++ ms, rest, c) /\ st_wf t' /\
    ((c = RGap /\ ends rest = true /\ gaps evs = S (gaps rest) /\ future t evs = ms ++ future t' rest /\ Forall byte (bytes_before rest))
     \/ ((c = REof \/ c = RDied) /\ future t evs = ms)).
Proof.
  induction evs as [|e r IH]; intros t q Ht Hb He; [discriminate|]. destruct e as [b| | |].
  - cbn [bytes_before ends] in *. inversion Hb as [|? ? Hb1 Hbr]; subst.
    destruct (feed_msgs t [b] Ht ltac:(constructor; [exact Hb1|constructor])) as (ms1 & Hs1 & _ & _ & Ht1).
    cbn [feed] in Hs1, Ht1. cbn [recv_call]. destruct (feed_byte t b) as [t1 toks] eqn:Ef. cbn [fst snd] in *. rewrite app_nil_r in Hs1.
    rewrite Hs1. destruct (IH t1 (q ++ ms1) Ht1 Hbr He) as (t' & ms & rest & c & Hr & Ht' & Hc).
    exists t', (ms1 ++ ms), rest, c. rewrite Hr, <- app_assoc. split; [reflexivity|]. split; [exact Ht'|].
    assert (Hfut : future t (SByte b :: r) = ms1 ++ future t1 r).
    { unfold future. cbn [bytes_before feed]. rewrite Ef. destruct (feed_msgs t1 (bytes_before r) Ht1 Hbr) as (ms2 & Hs2 & _).
      destruct (feed t1 (bytes_before r)) as [s2 o2]. cbn [snd] in *. rewrite (msgs_of_app _ _ _ _ Hs1 Hs2). unfold msgs_of. now rewrite Hs2. }
    destruct Hc as [(-> & H1 & H2 & H3 & H4)|(Hc & H3)].
    + left. repeat split; try assumption. rewrite Hfut, H3. now rewrite app_assoc.
    + right. split; [exact Hc|]. now rewrite Hfut, H3.
  - cbn [bytes_before ends recv_call] in *. exists t, [], r, RGap. rewrite app_nil_r. split; [reflexivity|]. split; [exact Ht|]. left. repeat split; auto.
  - cbn [recv_call]. exists t, [], r, REof. rewrite app_nil_r. split; [reflexivity|]. split; [exact Ht|]. right. split; [auto|reflexivity].
  - cbn [recv_call]. exists t, [], r, RDied. rewrite app_nil_r. split; [reflexivity|]. split; [exact Ht|]. right. split; [auto|reflexivity].
Qed.

Definition open_ok (p : sport) : Prop := s_closed p = false /\ st_wf (s_tok p) /\ Forall byte (bytes_before (s_in p)) /\ ends (s_in p) = true.
Definition closed_ok (p : sport) : Prop := s_closed p = true /\ peer_sees_disconnect p = true.
(* what the port still owes its consumer *)
Definition remaining (p : sport) : list msg := if s_closed p then s_queue p else s_queue p ++ future (s_tok p) (s_in p).

Lemma loop_spec : forall fuel p, open_ok p -> s_queue p = [] -> (gaps (s_in p) < fuel)%nat ->
  match remaining p with
  | [] => exists p', s_receive_loop current fuel true p = (p', Raise OSError) /\ closed_ok p' /\ s_queue p' = []
  | m :: rest => exists p', s_receive_loop current fuel true p = (p', Ok (Some m)) /\ remaining p' = rest /\
                            (closed_ok p' \/ (open_ok p' /\ (gaps (s_in p') <= gaps (s_in p))%nat))
  end.
Proof.
  induction fuel as [|f IH]; intros p Hp Hq Hg; [lia|].
  destruct p as [c t q evs so ro wo sl]. destruct Hp as (Hc & Ht & Hb & He). cbn [s_closed s_tok s_in s_queue] in *. subst c q.
  unfold remaining. cbn [s_closed s_queue s_tok s_in app].
  destruct (recv_call_spec evs t [] Ht Hb He) as (t' & ms & rest & c & Hr & Ht' & Hcase). cbn [app] in Hr.
  cbn [s_receive_loop]. unfold s_dev_receive. cbn [s_closed s_tok s_in s_queue s_sock_open s_rfile_open s_wfile_open s_sleeps]. rewrite Hr.
  destruct Hcase as [(-> & He' & Hgaps & Hfut & Hb')|(Hc & Hfut)].
  - rewrite Hfut. destruct ms as [|m ms'].
    + cbn [app s_pop s_queue negb s_closed].
      set (p1 := s_sleep _).
      assert (Hp1 : open_ok p1) by (repeat split; assumption).
      specialize (IH p1 Hp1 eq_refl ltac:(cbn [p1 s_sleep s_in]; lia)).
      unfold remaining in IH. cbn [p1 s_sleep s_closed s_queue s_tok s_in app] in IH.
      destruct (future t' rest) as [|m rest'].
      * exact IH.
      * destruct IH as (p' & H1 & H2 & H3). exists p'. split; [exact H1|]. split; [exact H2|].
        destruct H3 as [H3|[H3 H4]]; [left; exact H3|right]. split; [exact H3|]. cbn [p1 s_sleep s_in] in H4. lia.
    + cbn [app s_pop s_queue]. eexists. split; [reflexivity|]. unfold remaining. cbn [s_closed s_queue s_tok s_in]. split; [reflexivity|].
      right. split; [repeat split; assumption|]. cbn [s_in]. lia.
  - rewrite Hfut.
    assert (Hcl : forall p1, s_closed p1 = false -> closed_ok (s_close current p1) /\ s_queue (s_close current p1) = s_queue p1 /\ s_closed (s_close current p1) = true).
    { intros p1 H1. unfold s_close. rewrite H1. cbn. repeat split. }
    destruct Hc as [-> | ->]; cbn [v_died_is_disconnect current];
    match goal with |- context [s_close current ?x] => destruct (Hcl x eq_refl) as (Hok & Hqq & Hcc); set (pc := s_close current x) in * end;
    cbn [s_queue] in Hqq; (destruct ms as [|m ms'];
      [ unfold s_pop; rewrite Hqq; cbn [negb]; rewrite Hcc; exists pc; repeat split; try exact Hqq; apply Hok
      | unfold s_pop; rewrite Hqq; eexists; split; [reflexivity|]; destruct Hok as [Ho1 Ho2]; unfold remaining; cbn [s_closed s_queue]; rewrite Ho1;
        split; [reflexivity|]; left; split; [exact Ho1|exact Ho2] ]).
Qed.

Lemma iterate_spec : forall n fuel p, (closed_ok p \/ (open_ok p /\ (gaps (s_in p) < fuel)%nat)) -> (length (remaining p) < n)%nat ->
  exists p', s_iterate current n fuel p = (p', Ok (remaining p)) /\ closed_ok p' /\ s_queue p' = [].
Proof.
  induction n as [|k IH]; intros fuel p Hp Hn; [lia|]. cbn [s_iterate].
  destruct Hp as [[Hc Hs]|[Hp Hg]].
  - unfold remaining in *. rewrite Hc in *. cbn [andb]. destruct (s_queue p) as [|m q] eqn:Eq.
    + exists p. split; [reflexivity|]. split; [split; assumption|assumption].
    + unfold s_receive, s_pop. rewrite Eq.
      match goal with |- context [s_iterate current k fuel ?x] => set (p1 := x) end.
      destruct (IH fuel p1 (or_introl (conj Hc Hs)) ltac:(unfold remaining; cbn [p1 s_closed s_queue]; rewrite Hc; cbn [length] in Hn; lia)) as (p' & H1 & H2 & H3).
      rewrite H1. exists p'. unfold remaining. cbn [p1 s_closed s_queue]. rewrite Hc. split; [reflexivity|split; assumption].
  - pose proof Hp as (Hc & Ht & Hb & He). rewrite Hc. cbn [andb]. unfold s_receive.
    destruct (s_queue p) as [|m q] eqn:Eq.
    + unfold s_pop. rewrite Eq, Hc. pose proof (loop_spec fuel p Hp Eq Hg) as HL.
      destruct (remaining p) as [|m rest] eqn:Er.
      * destruct HL as (p' & H1 & H2 & H3). rewrite H1. destruct H2 as [H2 H4]. rewrite H2. exists p'. split; [reflexivity|]. split; [split; assumption|assumption].
      * destruct HL as (p' & H1 & H2 & H3). rewrite H1.
        destruct (IH fuel p' ltac:(destruct H3 as [H3|[H3 H4]]; [left; exact H3|right; split; [exact H3|lia]]) ltac:(rewrite H2; cbn [length] in Hn; lia)) as (p'' & G1 & G2 & G3).
        rewrite G1, H2. exists p''. split; [reflexivity|]. split; assumption.
    + unfold s_pop. rewrite Eq.
      match goal with |- context [s_iterate current k fuel ?x] => set (p1 := x) end.
      assert (Hp1 : open_ok p1) by (repeat split; assumption).
      assert (Hr1 : remaining p = m :: remaining p1) by (unfold remaining; cbn [p1 s_closed s_queue s_tok s_in]; rewrite Hc, Eq; reflexivity).
      rewrite Hr1 in *.
      destruct (IH fuel p1 (or_intror (conj Hp1 Hg)) ltac:(cbn [length] in Hn; lia)) as (p' & H1 & H2 & H3).
      rewrite H1. exists p'. split; [reflexivity|]. split; assumption.
Qed.

Lemma events_of_view : forall segs last, (last = SEof \/ last = SDied) ->
  bytes_before (events_of segs last) = concat segs /\ ends (events_of segs last) = true /\ (gaps (events_of segs last) <= length segs)%nat.
Proof.
  intros segs last Hl. assert (Hbb : forall s evs, bytes_before (map SByte s ++ evs) = s ++ bytes_before evs) by (induction s as [|b s IHs]; intros; cbn; [reflexivity|now rewrite IHs]).
  assert (Hee : forall s evs, ends (map SByte s ++ evs) = ends evs) by (induction s as [|b s IHs]; intros; cbn; [reflexivity|now rewrite IHs]).
  assert (Hgg : forall s evs, gaps (map SByte s ++ evs) = gaps evs) by (induction s as [|b s IHs]; intros; cbn; [reflexivity|now rewrite IHs]).
  assert (H0 : bytes_before [last] = [] /\ ends [last] = true /\ gaps [last] = 0%nat) by (destruct Hl as [-> | ->]; repeat split).
  destruct H0 as (A0 & B0 & C0).
  induction segs as [|s r IH]; cbn [events_of concat length]; [rewrite A0, B0, C0; repeat split; lia|].
  rewrite Hbb, Hee, Hgg. destruct IH as (A & B & C). destruct r as [|s2 r'].
  - rewrite A0, B0, C0. cbn [concat]. repeat split; lia.
  - cbn [bytes_before ends gaps]. rewrite A, B. repeat split. lia.
Qed.

(* THE property: however the bytes before the cut are segmented and whether the peer closes or dies, iteration yields exactly the
   messages whose encodings arrived completely, ends normally, and the port is closed with its connection released *)
Theorem cut_stream ms cut segs last n fuel : Forall (fun m => valid m = true) ms ->
  concat segs = firstn cut (concat (map enc ms)) -> (last = SEof \/ last = SDied) -> (length ms < n)%nat -> (length segs < fuel)%nat ->
  exists p', s_iterate current n fuel (new_sport (events_of segs last)) = (p', Ok (complete_prefix ms cut)) /\
             s_closed p' = true /\ peer_sees_disconnect p' = true /\ s_queue p' = [].
Proof.
  intros Hv Hseg Hl Hn Hf. destruct (events_of_view segs last Hl) as (A & B & C).
  set (p := new_sport (events_of segs last)).
  assert (Hbytes : Forall byte (bytes_before (events_of segs last))) by (rewrite A, Hseg; apply Forall_firstn, concat_enc_bytes, Hv).
  assert (Hp : open_ok p) by (repeat split; cbn [p new_sport s_closed s_tok s_in]; auto; exact I).
  assert (Hrem : remaining p = complete_prefix ms cut).
  { unfold remaining, future. cbn [p new_sport s_closed s_queue s_tok s_in app]. rewrite A, Hseg, (cut_tokens ms cut Hv).
    unfold msgs_of. now rewrite (msgs_of_enc _ (complete_prefix_valid ms cut Hv)). }
  assert (Hg : (gaps (s_in p) < fuel)%nat) by (unfold p; cbn [new_sport s_in]; lia).
  assert (Hlen : (length (remaining p) < n)%nat) by (rewrite Hrem; pose proof (complete_prefix_length ms cut); lia).
  destruct (iterate_spec n fuel p (or_intror (conj Hp Hg)) Hlen) as (p' & H1 & [H2 H3] & H4).
  exists p'. rewrite <- Hrem. repeat split; assumption.
Qed.

(* ---- closing is seen by the peer; the behaviour before the repairs, refuted ---- *)
Theorem close_releases p : peer_sees_disconnect (s_close current p) = true \/ s_closed p = true.
Proof. unfold s_close. destruct (s_closed p); [right; reflexivity|left; reflexivity]. Qed.
Theorem legacy_close_refuted : peer_sees_disconnect (s_close legacy (new_sport [])) = false.
Proof. reflexivity. Qed.
Theorem legacy_died_refuted : snd (s_iterate legacy 3 3 (new_sport [SByte 144; SByte 1; SByte 2; SDied])) = Raise OSError.
Proof. vm_compute. reflexivity. Qed.

(* ================= addresses ================= *)
Definition nosep (sep : Z) (w : text) : Prop := forallb (fun c => negb (c =? sep)) w = true.
Lemma split_on_no sep w : forall acc, nosep sep w -> split_on sep w acc = [List.rev acc ++ w].
Proof.
  induction w as [|c w IH]; intros acc H; cbn [split_on]; [now rewrite app_nil_r|].
  unfold nosep in H. cbn [forallb] in H. apply andb_true_iff in H as [H1 H2]. destruct (c =? sep); [discriminate|].
  rewrite IH by exact H2. cbn [List.rev]. now rewrite <- app_assoc.
Qed.
Lemma split_on_one sep w rest : forall acc, nosep sep w -> split_on sep (w ++ sep :: rest) acc = (List.rev acc ++ w) :: split_on sep rest [].
Proof.
  induction w as [|c w IH]; intros acc H; cbn [split_on app].
  - rewrite Z.eqb_refl. now rewrite app_nil_r.
  - unfold nosep in H. cbn [forallb] in H. apply andb_true_iff in H as [H1 H2]. destruct (c =? sep); [discriminate|].
    rewrite IH by exact H2. cbn [List.rev]. now rewrite <- app_assoc.
Qed.
Definition numchar (c : Z) : bool := is_digit c || (c =? 45).
Lemma uint_digits_num u : forallb numchar (uint_digits u) = true.
Proof. induction u; cbn [uint_digits forallb]; try reflexivity; rewrite IHu; reflexivity. Qed.
Lemma show_Z_num z : forallb numchar (show_Z z) = true.
Proof. unfold show_Z. destruct (Z.to_int z); [apply uint_digits_num|cbn [forallb]; now rewrite uint_digits_num]. Qed.
Lemma forallb_impl {A} (f g : A -> bool) l : (forall x, f x = true -> g x = true) -> forallb f l = true -> forallb g l = true.
Proof. intros H. induction l as [|x l IH]; cbn; [reflexivity|]. intros E. apply andb_true_iff in E as [E1 E2]. now rewrite (H x E1), IH. Qed.
Lemma lstrip_id t : forallb (fun c => negb (is_cspace c)) t = true -> lstrip t = t.
Proof. destruct t as [|c r]; [reflexivity|]. cbn [forallb lstrip]. intros H. apply andb_true_iff in H as [H _]. destruct (is_cspace c); [discriminate|reflexivity]. Qed.
Lemma forallb_rev {A} (f : A -> bool) l : forallb f l = true -> forallb f (List.rev l) = true.
Proof. rewrite !forallb_forall. intros H x Hx. apply H. now apply in_rev. Qed.
Lemma strip_id t : forallb (fun c => negb (is_cspace c)) t = true -> strip t = t.
Proof. intros H. unfold strip. rewrite (lstrip_id t H), (lstrip_id _ (forallb_rev _ _ H)). apply rev_involutive. Qed.
Lemma numchar_facts c : numchar c = true -> negb (is_cspace c) = true /\ negb (c =? 58) = true.
Proof. unfold numchar, is_digit, is_cspace. intros H. split; lia. Qed.

Theorem parse_format host port : nosep 58 host -> 0 < port < 65536 -> parse_address (format_address true host port) = Ok (host, port).
Proof.
  intros Hh Hp. unfold parse_address, format_address. cbn [app].
  rewrite (split_on_one 58 host (show_Z port) [] Hh). cbn [List.rev app].
  rewrite (split_on_no 58 (show_Z port) []) by (apply (forallb_impl numchar); [intros x Hx; apply numchar_facts, Hx|apply show_Z_num]).
  cbn [List.rev app]. rewrite strip_id by (apply (forallb_impl numchar); [intros x Hx; apply numchar_facts, Hx|apply show_Z_num]).
  rewrite py_int_show. replace ((0 <? port) && (port <? 65536)) with true by lia. reflexivity.
Qed.
Theorem legacy_format_refuted : parse_address (format_address false [108; 111; 99; 97; 108; 104; 111; 115; 116] 8080) = Raise ValueError.
Proof. vm_compute. reflexivity. Qed.

Lemma split_on_pieces sep : forall s acc, nosep sep acc -> Forall (nosep sep) (split_on sep s acc).
Proof.
  induction s as [|c s IH]; intros acc Ha; cbn [split_on].
  - constructor; [|constructor]. unfold nosep in *. now apply forallb_rev.
  - destruct (c =? sep) eqn:E.
    + constructor; [unfold nosep in *; now apply forallb_rev|]. apply IH. reflexivity.
    + apply IH. unfold nosep in *. cbn [forallb]. now rewrite E, Ha.
Qed.
(* whatever parse_address accepts, format_address turns back into something that parses to the same pair *)
Theorem format_parse a host port : parse_address a = Ok (host, port) -> nosep 58 host /\ 0 < port < 65536 /\ parse_address (format_address true host port) = Ok (host, port).
Proof.
  intros H. unfold parse_address in H. pose proof (split_on_pieces 58 a [] eq_refl) as Hp.
  destruct (split_on 58 a []) as [|h [|pt [|x r]]]; try discriminate.
  destruct (py_int (strip pt)) as [p|]; [|discriminate]. destruct ((0 <? p) && (p <? 65536)) eqn:E; [|discriminate].
  injection H as <- <-. inversion Hp as [|? ? Hh _]; subst. assert (Hr : 0 < p < 65536) by lia. auto using parse_format.
Qed.

(* ================= the server port ================= *)
Theorem server_nonblocking fuel s : exists s' r, sv_receive current (S fuel) false s = (s', r) /\ sv_sleeps s' = sv_sleeps s.
Proof.
  unfold sv_receive. destruct (sv_queue s) as [|m q] eqn:Eq; [|eexists; eexists; split; reflexivity].
  cbn [sv_receive_loop]. destruct (sv_dev_receive current (S fuel) s) as [s1 r] eqn:Ed.
  assert (Hs : sv_sleeps s1 = sv_sleeps s).
  { unfold sv_dev_receive in Ed. destruct (sv_waiting s); destruct (sv_sweep current (S fuel) _) as [cl' x]; injection Ed as <- _; reflexivity. }
  destruct r as [got|e]; [|eexists; eexists; split; [reflexivity|exact Hs]].
  destruct (sv_queue s1 ++ got); cbn [negb]; eexists; eexists; (split; [reflexivity|exact Hs]).
Qed.
Theorem server_blocking_prompt fuel s got s1 : sv_queue s = [] -> sv_dev_receive current (S fuel) s = (s1, Ok got) -> got <> [] ->
  exists s' m, sv_receive current (S fuel) true s = (s', Ok (Some m)) /\ sv_sleeps s' = sv_sleeps s.
Proof.
  intros Hq Hd Hg. unfold sv_receive. rewrite Hq. cbn [sv_receive_loop]. rewrite Hd.
  assert (Hs : sv_sleeps s1 = sv_sleeps s /\ sv_queue s1 = []).
  { unfold sv_dev_receive in Hd. destruct (sv_waiting s); destruct (sv_sweep current (S fuel) _) as [cl' x]; injection Hd as <- _; cbn; auto. }
  destruct Hs as [Hs Hq1]. rewrite Hq1. cbn [app]. destruct got as [|g gs]; [congruence|]. eexists; eexists. split; [reflexivity|exact Hs].
Qed.
