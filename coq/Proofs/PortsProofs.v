(* PortsProofs.v — port lifecycle (C11): idempotent close, drain then stop, blocking calls terminate. *)
From Coq Require Import ZArith List Bool Lia.
Require Import Mido.Model.Base Mido.Model.Ports.
Import ListNotations.
Open Scope Z_scope.

(* the device is released exactly when the port is closed, and never twice *)
Definition Inv (p : port) : Prop := (p_closed p = false /\ p_closes p = 0%nat) \/ (p_closed p = true /\ p_closes p = 1%nat).

Lemma set_faults_core p f : p_closed (set_faults p f) = p_closed p /\ p_closes (set_faults p f) = p_closes p /\ p_autoreset (set_faults p f) = p_autoreset p /\
  p_echo (set_faults p f) = p_echo p /\ p_sleeps (set_faults p f) = p_sleeps p /\ p_calls (set_faults p f) = p_calls p.
Proof. repeat split; reflexivity. Qed.
Lemma dev_send_core p m : p_closed (fst (dev_send p m)) = p_closed p /\ p_closes (fst (dev_send p m)) = p_closes p /\ p_autoreset (fst (dev_send p m)) = p_autoreset p /\
  p_echo (fst (dev_send p m)) = p_echo p /\ p_sleeps (fst (dev_send p m)) = p_sleeps p /\ p_calls (fst (dev_send p m)) = p_calls p.
Proof.
  unfold dev_send. destruct (p_faults p) as [|[|] f]; cbn [fst]; try (repeat split; reflexivity);
  match goal with |- context [if ?c then _ else _] => destruct c end; repeat split; reflexivity.
Qed.
Lemma send_all_core l : forall p, p_closed (fst (send_all l p)) = p_closed p /\ p_closes (fst (send_all l p)) = p_closes p /\
  p_sleeps (fst (send_all l p)) = p_sleeps p /\ p_calls (fst (send_all l p)) = p_calls p.
Proof.
  induction l as [|m r IH]; intros p; [repeat split; reflexivity|]. cbn [send_all].
  destruct (dev_send_core p m) as (C & D & _ & _ & E & F). destruct (dev_send p m) as [p1 ok]. cbn [fst] in *.
  destruct ok; [|cbn [fst]; repeat split; assumption]. destruct (IH p1) as (A1 & A2 & A3 & A4). repeat split; congruence.
Qed.
Lemma close_inv p : Inv p -> Inv (close p) /\ p_closed (close p) = true.
Proof.
  intros H. unfold close. destruct (p_closed p) eqn:E.
  - split; [exact H|exact E].
  - destruct H as [[_ Hc]|[Hc _]]; [|congruence]. split; [|reflexivity]. right. cbn [set_core p_closed p_closes]. split; [reflexivity|].
    destruct (p_autoreset p); [destruct (send_all_core reset_ids p) as (_ & B & _); rewrite B|]; now rewrite Hc.
Qed.
Lemma dev_receive_inv p : Inv p -> Inv (fst (dev_receive p)).
Proof.
  intros H. unfold dev_receive. destruct (p_script p) as [|a rest]; [exact H|].
  destruct a; cbn [fst]; try exact H; apply close_inv; exact H.
Qed.
Lemma pop_inv p p' m : pop p = Some (p', m) -> Inv p -> Inv p'.
Proof. unfold pop. destruct (p_queue p); [discriminate|]. intros E; injection E as <- _. intros H; exact H. Qed.
Lemma receive_loop_inv : forall fuel b p, Inv p -> Inv (fst (receive_loop fuel b p)).
Proof.
  induction fuel as [|f IH]; intros b p H; cbn [receive_loop]; [exact H|].
  pose proof (dev_receive_inv p H) as H1. destruct (dev_receive p) as [p1 r]. cbn [fst] in H1. destruct r; [exact H1|].
  destruct (pop p1) as [[p2 m]|] eqn:Ep; [exact (pop_inv _ _ _ Ep H1)|].
  destruct (negb b); [exact H1|]. destruct (p_closed p1); [exact H1|]. apply IH. exact H1.
Qed.
Lemma receive_inv fuel b p : Inv p -> Inv (fst (receive fuel b p)).
Proof.
  intros H. unfold receive. destruct (pop p) as [[p1 m]|] eqn:Ep; [exact (pop_inv _ _ _ Ep H)|].
  destruct (p_closed p); [exact H|]. now apply receive_loop_inv.
Qed.
Lemma iter_pending_inv : forall n fuel p, Inv p -> Inv (fst (iter_pending n fuel p)).
Proof.
  induction n as [|k IH]; intros fuel p H; cbn [iter_pending]; [exact H|]. unfold poll.
  pose proof (receive_inv fuel false p H) as H1. destruct (receive fuel false p) as [p1 [[m|]|e]]; cbn [fst] in *; try exact H1.
  specialize (IH fuel p1 H1). destruct (iter_pending k fuel p1). exact IH.
Qed.
Lemma take_pending_inv : forall n fuel p, Inv p -> Inv (fst (take_pending n fuel p)).
Proof.
  induction n as [|k IH]; intros fuel p H; cbn [take_pending]; [exact H|]. unfold poll.
  pose proof (receive_inv fuel false p H) as H1. destruct (receive fuel false p) as [p1 [[m|]|e]]; cbn [fst] in *; try exact H1.
  specialize (IH fuel p1 H1). destruct (take_pending k fuel p1). exact IH.
Qed.
Lemma iterate_inv : forall n fuel p, Inv p -> Inv (fst (iterate n fuel p)).
Proof.
  induction n as [|k IH]; intros fuel p H; cbn [iterate]; [exact H|].
  destruct (p_closed p && match p_queue p with [] => true | _ => false end); [exact H|].
  pose proof (receive_inv fuel true p H) as H1. destruct (receive fuel true p) as [p1 [[m|]|e]]; cbn [fst] in *; try exact H1.
  - specialize (IH fuel p1 H1). destruct (iterate k fuel p1). exact IH.
  - destruct e; try exact H1. destruct (p_closed p1); exact H1.
Qed.
Lemma send_inv p m : Inv p -> Inv (fst (send p m)).
Proof.
  intros H. unfold send. destruct (p_closed p) eqn:E; [exact H|]. destruct (dev_send_core p m) as (A & B & _).
  destruct (dev_send p m) as [p1 ok]. cbn [fst] in *. unfold Inv. now rewrite A, B.
Qed.
Lemma reset_inv p : Inv p -> Inv (fst (reset p)).
Proof.
  intros H. unfold reset. destruct (p_closed p) eqn:E; [exact H|]. destruct (send_all_core reset_ids p) as (A & B & _).
  destruct (send_all reset_ids p) as [p1 ok]. cbn [fst] in *. unfold Inv. now rewrite A, B.
Qed.

Lemma step_inv fuel p o : Inv p -> Inv (fst (port_step fuel p o)).
Proof.
  intros H. destruct o; cbn [port_step].
  - pose proof (send_inv p m H) as H1. destruct (send p m). exact H1.
  - pose proof (receive_inv fuel block p H) as H1. destruct (receive fuel block p). exact H1.
  - unfold poll. pose proof (receive_inv fuel false p H) as H1. destruct (receive fuel false p). exact H1.
  - pose proof (iter_pending_inv 2000 fuel p H) as H1. destruct (iter_pending 2000 fuel p). exact H1.
  - destruct (p_echo p).
    + pose proof (take_pending_inv limit fuel p H) as H1. destruct (take_pending limit fuel p). exact H1.
    + pose proof (iterate_inv limit fuel p H) as H1. destruct (iterate limit fuel p). exact H1.
  - apply close_inv, H.
  - pose proof (send_inv p m H) as H1. destruct (send p m) as [p1 r]. cbn [fst] in *. apply close_inv, H1.
  - apply close_inv, H.
  - pose proof (reset_inv p H) as H1. destruct (reset p). exact H1.
Qed.

(* close() any number of times, in any history, on any device script: the device is released at most once, and exactly once iff closed *)
Theorem close_once fuel : forall ops p, Inv p -> Inv (fst (port_run fuel p ops)).
Proof.
  induction ops as [|o r IH]; intros p H; [exact H|]. cbn [port_run].
  pose proof (step_inv fuel p o H) as H1. destruct (port_step fuel p o) as [p1 x]. cbn [fst] in H1.
  specialize (IH p1 H1). destruct (port_run fuel p1 r). exact IH.
Qed.
Lemma new_port_inv a e s f : Inv (new_port a e s f).
Proof. left. split; reflexivity. Qed.

Theorem close_once_new fuel autoreset echo script faults ops :
  let p := fst (port_run fuel (new_port autoreset echo script faults) ops) in
  (p_closed p = false /\ p_closes p = 0%nat) \/ (p_closed p = true /\ p_closes p = 1%nat).
Proof. exact (close_once fuel ops _ (new_port_inv autoreset echo script faults)). Qed.

(* with autoreset the reset messages reach the device once, contiguous, immediately before the release *)
Lemma send_all_ok : forall l q, p_echo q = false -> p_faults q = [] ->
  p_sent (fst (send_all l q)) = p_sent q ++ l /\ p_closes (fst (send_all l q)) = p_closes q /\ snd (send_all l q) = true.
Proof.
  induction l as [|m r IH]; intros q Hq Hf; cbn [send_all]; [cbn [fst snd]; now rewrite app_nil_r|].
  unfold dev_send. rewrite Hf. cbn [tl]. cbn [set_faults p_echo]. rewrite Hq.
  match goal with |- context [send_all r ?x] => destruct (IH x) as (A & B & C); [exact Hq|reflexivity|] end.
  rewrite A, B, C. cbn [set_core set_faults p_sent p_closes]. rewrite <- app_assoc. repeat split.
Qed.
Theorem close_autoreset p : p_closed p = false -> p_autoreset p = true -> p_echo p = false -> p_faults p = [] ->
  p_sent (close p) = p_sent p ++ reset_ids /\ p_closes (close p) = S (p_closes p) /\ p_closed (close p) = true.
Proof.
  intros Hc Ha He Hf. unfold close. generalize reset_ids. intros rs. rewrite Hc, Ha.
  destruct (send_all_ok rs p He Hf) as (A & B & _). cbv zeta. cbn [set_core p_sent p_closes p_closed]. rewrite A, B. repeat split.
Qed.
(* whatever the device does to the reset messages (fault sequences), close still releases it, once, and what went out is a prefix of the reset messages *)
Lemma send_all_prefix : forall l q, p_echo q = false -> exists k, p_sent (fst (send_all l q)) = p_sent q ++ firstn k l.
Proof.
  induction l as [|m r IH]; intros q Hq; cbn [send_all]; [exists 0%nat; cbn; now rewrite app_nil_r|].
  destruct (dev_send_core q m) as (_ & _ & _ & E & _).
  assert (Hs : snd (dev_send q m) = true -> p_sent (fst (dev_send q m)) = p_sent q ++ [m]).
  { unfold dev_send. destruct (p_faults q) as [|[|] f]; cbn [fst snd]; try discriminate; intros _; cbn [set_faults p_echo]; rewrite Hq; reflexivity. }
  assert (Hn : snd (dev_send q m) = false -> p_sent (fst (dev_send q m)) = p_sent q).
  { unfold dev_send. destruct (p_faults q) as [|[|] f]; cbn [fst snd]; try discriminate; intros _; reflexivity. }
  destruct (dev_send q m) as [p1 ok]. cbn [fst snd] in *. destruct ok.
  - destruct (IH p1 ltac:(congruence)) as [k Hk]. exists (S k). rewrite Hk, Hs by reflexivity. cbn [firstn]. now rewrite <- app_assoc.
  - exists 0%nat. cbn [fst firstn]. rewrite Hn by reflexivity. now rewrite app_nil_r.
Qed.
Theorem close_releases_despite_faults p : p_closed p = false -> p_echo p = false ->
  p_closes (close p) = S (p_closes p) /\ p_closed (close p) = true /\ exists k, p_sent (close p) = p_sent p ++ firstn k reset_ids.
Proof.
  intros Hc He. unfold close. generalize reset_ids. intros rs. rewrite Hc. cbv zeta. cbn [set_core p_sent p_closes p_closed].
  destruct (p_autoreset p).
  - destruct (send_all_core rs p) as (_ & B & _). rewrite B. split; [reflexivity|]. split; [reflexivity|]. apply send_all_prefix, He.
  - split; [reflexivity|]. split; [reflexivity|]. exists 0%nat. cbn. now rewrite app_nil_r.
Qed.
Theorem close_idempotent p : p_closed p = true -> close p = p.
Proof. intros H. unfold close. now rewrite H. Qed.

(* after close, send raises ValueError and changes nothing *)
Theorem send_closed p m : p_closed p = true -> send p m = (p, Raise ValueError).
Proof. intros H. unfold send. now rewrite H. Qed.

(* a closed port first hands out what it had taken in, in order, then stops *)
Theorem closed_receive_drains fuel b p m q : p_closed p = true -> p_queue p = m :: q ->
  exists p', receive fuel b p = (p', Ok (Some m)) /\ p_queue p' = q /\ p_closed p' = true.
Proof. intros Hc Hq. unfold receive, pop. rewrite Hq. eexists. split; [reflexivity|]. split; [reflexivity|exact Hc]. Qed.
Theorem closed_empty_stops fuel p : p_closed p = true -> p_queue p = [] ->
  receive fuel false p = (p, Ok None) /\ receive fuel true p = (p, Raise ValueError) /\ (forall n, iterate n fuel p = (p, Ok [])) /\
  (forall n, iter_pending (S n) fuel p = (p, Ok [])).
Proof.
  intros Hc Hq. assert (Hp : pop p = None) by (unfold pop; now rewrite Hq).
  repeat split.
  - unfold receive. now rewrite Hp, Hc.
  - unfold receive. now rewrite Hp, Hc.
  - intros n. destruct n; cbn [iterate]; [reflexivity|]. now rewrite Hc, Hq.
  - intros n. cbn [iter_pending]. unfold poll, receive. now rewrite Hp, Hc.
Qed.
Theorem closed_iteration_drains fuel : forall q p n, p_closed p = true -> p_queue p = q -> (length q < n)%nat ->
  exists p', iterate n fuel p = (p', Ok q) /\ p_queue p' = [] /\ p_closed p' = true.
Proof.
  induction q as [|m q IH]; intros p n Hc Hq Hn.
  - exists p. destruct (closed_empty_stops fuel p Hc Hq) as (_ & _ & H & _). now rewrite H.
  - destruct n as [|k]; [cbn in Hn; lia|]. cbn [iterate]. rewrite Hc, Hq. cbn [andb].
    destruct (closed_receive_drains fuel true p m q Hc Hq) as (p1 & Hr & Hq1 & Hc1). rewrite Hr.
    destruct (IH p1 k Hc1 Hq1 ltac:(cbn [length] in Hn; lia)) as (p2 & Hi & A & B). rewrite Hi. exists p2. auto.
Qed.

(* iteration never ends with an exception because the port closed - before, between or inside receive calls: the only other outcome is
   that a blocking receive never returns (nothing arrives and the device never closes) *)
Lemma receive_loop_raises : forall fuel b p p' e, receive_loop fuel b p = (p', Raise e) -> e = Diverges \/ (e = OSError /\ p_closed p' = true).
Proof.
  induction fuel as [|f IH]; intros b p p' e H; cbn [receive_loop] in H; [injection H as _ <-; auto|].
  destruct (dev_receive p) as [p1 r]. destruct r; [discriminate|]. destruct (pop p1) as [[p2 m]|]; [discriminate|].
  destruct (negb b); [discriminate|]. destruct (p_closed p1) eqn:E; [injection H as <- <-; auto|]. eapply IH; eauto.
Qed.
Theorem iteration_ends_cleanly : forall n fuel p p' e, iterate n fuel p = (p', Raise e) -> e = Diverges.
Proof.
  induction n as [|k IH]; intros fuel p p' e H; cbn [iterate] in H; [discriminate|].
  destruct (p_closed p && match p_queue p with [] => true | _ => false end) eqn:Ec; [discriminate|].
  unfold receive in H. destruct (pop p) as [[p1 m]|] eqn:Ep.
  - destruct (iterate k fuel p1) as [p2 r] eqn:Ei. destruct r; [discriminate|]. injection H as <- <-. eapply IH; eauto.
  - assert (Hq : p_queue p = []) by (unfold pop in Ep; destruct (p_queue p); [reflexivity|discriminate]).
    rewrite Hq, andb_true_r in Ec. rewrite Ec in H.
    destruct (receive_loop fuel true p) as [p1 [[m|]|e1]] eqn:Er.
    + destruct (iterate k fuel p1) as [p2 r] eqn:Ei. destruct r; [discriminate|]. injection H as <- <-. eapply IH; eauto.
    + discriminate.
    + destruct (receive_loop_raises _ _ _ _ _ Er) as [->|[-> Hc]]; [injection H as _ <-; reflexivity|]. rewrite Hc in H. discriminate.
Qed.

(* a blocking receive returns as soon as a message is deliverable: if the device delivers at its k-th _receive call, receive returns that
   message having slept exactly k-1 times; a non-blocking receive never sleeps and calls _receive at most once *)
Lemma idle_step p rest : p_closed p = false -> p_queue p = [] -> p_script p = ANothing :: rest ->
  forall f, receive_loop (S f) true p = receive_loop f true (do_sleep (fst (dev_receive p))) /\
    p_script (do_sleep (fst (dev_receive p))) = rest /\ p_queue (do_sleep (fst (dev_receive p))) = [] /\ p_closed (do_sleep (fst (dev_receive p))) = false /\
    p_sleeps (do_sleep (fst (dev_receive p))) = S (p_sleeps p) /\ p_calls (do_sleep (fst (dev_receive p))) = S (p_calls p).
Proof.
  intros Hc Hq Hs f. cbn [receive_loop]. unfold dev_receive. rewrite Hs. cbn [fst].
  unfold pop. cbn [set_core p_queue p_closed]. rewrite Hq, Hc. cbn [negb]. repeat split; reflexivity.
Qed.
Theorem blocking_receive_prompt : forall k p m rest fuel, p_closed p = false -> p_queue p = [] ->
  p_script p = repeat ANothing k ++ AMsg m :: rest -> (k < fuel)%nat ->
  exists p', receive fuel true p = (p', Ok (Some m)) /\ p_sleeps p' = (p_sleeps p + k)%nat /\ p_calls p' = (p_calls p + S k)%nat.
Proof.
  induction k as [|k IH]; intros p m rest fuel Hc Hq Hs Hf.
  - unfold receive, pop. rewrite Hq, Hc. destruct fuel as [|f]; [lia|]. cbn [receive_loop]. unfold dev_receive. rewrite Hs. cbn [repeat app].
    eexists. split; [reflexivity|]. cbn [set_core p_sleeps p_calls]. split; lia.
  - unfold receive, pop. rewrite Hq, Hc. destruct fuel as [|f]; [lia|]. cbn [repeat app] in Hs.
    destruct (idle_step p _ Hc Hq Hs f) as (E & S1 & Q1 & C1 & SL & CA). rewrite E.
    set (p1 := do_sleep (fst (dev_receive p))) in *.
    destruct (IH p1 m rest f C1 Q1 S1 ltac:(lia)) as (p' & Hr & A & B). unfold receive, pop in Hr. rewrite Q1, C1 in Hr.
    exists p'. split; [exact Hr|]. rewrite A, B, SL, CA. split; lia.
Qed.
Theorem nonblocking_never_waits fuel p : exists p' r, receive (S fuel) false p = (p', r) /\ p_sleeps p' = p_sleeps p /\ (p_calls p' <= S (p_calls p))%nat /\ r <> Raise Diverges.
Proof.
  unfold receive. destruct (pop p) as [[p1 m]|] eqn:Ep.
  - unfold pop in Ep. destruct (p_queue p); [discriminate|]. injection Ep as <- _. eexists; eexists. split; [reflexivity|]. cbn. repeat split; try lia; discriminate.
  - destruct (p_closed p); [eexists; eexists; split; [reflexivity|repeat split; try lia; discriminate]|].
    cbn [receive_loop]. assert (Hd : p_sleeps (fst (dev_receive p)) = p_sleeps p /\ p_calls (fst (dev_receive p)) = S (p_calls p)).
    { assert (Hcl : forall q, p_sleeps (close q) = p_sleeps q /\ p_calls (close q) = p_calls q).
      { intros q. unfold close. destruct (p_closed q); [split; reflexivity|]. cbv zeta. cbn [set_core p_sleeps p_calls].
        destruct (p_autoreset q); [|split; reflexivity]. destruct (send_all_core reset_ids q) as (_ & _ & A & B). now rewrite A, B. }
      unfold dev_receive. destruct (p_script p) as [|a rest]; [split; reflexivity|]. destruct a; cbn [fst]; try (split; reflexivity);
      match goal with |- context [close ?q] => destruct (Hcl q) as [A B]; rewrite A, B end; split; reflexivity. }
    destruct (dev_receive p) as [p1 r]. cbn [fst] in Hd. destruct Hd as [A B]. destruct r.
    + eexists; eexists. split; [reflexivity|]. repeat split; try lia; discriminate.
    + destruct (pop p1) as [[p2 m]|] eqn:Ep1.
      * unfold pop in Ep1. destruct (p_queue p1); [discriminate|]. injection Ep1 as <- _. eexists; eexists. split; [reflexivity|]. cbn [set_core p_sleeps p_calls]. repeat split; try lia; discriminate.
      * cbn [negb]. eexists; eexists. split; [reflexivity|]. repeat split; try lia; discriminate.
Qed.

(* MultiPort: a non-blocking receive never sleeps; a blocking receive returns without sleeping as soon as a message is queued on it or on a sub-port *)
Theorem multi_nonblocking fuel mp : exists mp' r, multi_receive (S fuel) false mp = (mp', r) /\ m_sleeps mp' = m_sleeps mp /\ r <> Raise Diverges.
Proof.
  unfold multi_receive. destruct (m_queue mp) as [|m q] eqn:Eq; [|eexists; eexists; split; [reflexivity|split; [reflexivity|discriminate]]].
  cbn [multi_receive_loop]. destruct (sweep (S fuel) (m_subs mp)) as [subs' got]. rewrite Eq. cbn [app].
  destruct got; cbn [negb]; eexists; eexists; (split; [reflexivity|split; [reflexivity|discriminate]]).
Qed.
Theorem multi_blocking_prompt fuel mp : m_queue mp <> [] \/ snd (sweep (S fuel) (m_subs mp)) <> [] ->
  exists mp' m, multi_receive (S fuel) true mp = (mp', Ok (Some m)) /\ m_sleeps mp' = m_sleeps mp.
Proof.
  intros H. unfold multi_receive. destruct (m_queue mp) as [|m q] eqn:Eq; [|eexists; eexists; split; reflexivity].
  destruct H as [H|H]; [congruence|]. cbn [multi_receive_loop]. destruct (sweep (S fuel) (m_subs mp)) as [subs' got]. cbn [snd] in H. rewrite Eq. cbn [app].
  destruct got as [|g gs]; [congruence|]. eexists; eexists; split; reflexivity.
Qed.
