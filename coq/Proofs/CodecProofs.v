(* CodecProofs.v — proofs about Model/Codec.v: layout, round trip, exactness of the decoder. *)
From Coq Require Import ZArith List Bool Lia ZifyBool.
Require Import Mido.Model.Base Mido.Model.Codec.
Import ListNotations.
Open Scope Z_scope.

(* finite sweeps, lifted *)
Lemma in_range n x : 0 <= x < Z.of_nat n -> In x (range n).
Proof. intros H. unfold range. apply in_map_iff. exists (Z.to_nat x). split; [lia|]. apply in_seq. lia. Qed.

Lemma status_sweep : forallb (fun base => forallb (fun c =>
   (Z.lor base c =? base + c) && (Z.land (base + c) 15 =? c) && (Z.shiftr (base + c) 4 =? Z.shiftr base 4)) (range 16)) [128;144;160;176;192;208;224] = true.
Proof. vm_compute. reflexivity. Qed.

Lemma status_facts base c : In base [128;144;160;176;192;208;224] -> 0 <= c <= 15 ->
  Z.lor base c = base + c /\ Z.land (base + c) 15 = c /\ Z.shiftr (base + c) 4 = Z.shiftr base 4.
Proof.
  intros Hb Hc. pose proof status_sweep as H. rewrite forallb_forall in H. specialize (H base Hb).
  rewrite forallb_forall in H. specialize (H c (in_range 16 c ltac:(lia))).
  apply andb_prop in H as [H H3]. apply andb_prop in H as [H1 H2].
  apply Z.eqb_eq in H1, H2, H3. auto.
Qed.

Lemma pitch_sweep : forallb (fun a => forallb (fun b => Z.lor a (Z.shiftl b 7 + (-8192)) =? a + 128 * b - 8192) (range 128)) (range 128) = true.
Proof. vm_compute. reflexivity. Qed.
Lemma songpos_sweep : forallb (fun a => forallb (fun b => Z.lor a (Z.shiftl b 7) =? a + 128 * b) (range 128)) (range 128) = true.
Proof. vm_compute. reflexivity. Qed.
Lemma qf_sweep : forallb (fun ft => forallb (fun fv =>
   (Z.lor (Z.shiftl ft 4) fv =? 16 * ft + fv) && (Z.shiftr (16 * ft + fv) 4 =? ft) && (Z.land (16 * ft + fv) 15 =? fv)) (range 16)) (range 8) = true.
Proof. vm_compute. reflexivity. Qed.

Lemma land127 q : Z.land q 127 = q mod 128.
Proof. change 127 with (Z.ones 7). now rewrite Z.land_ones by lia. Qed.
Lemma shiftr7 q : Z.shiftr q 7 = q / 128.
Proof. now rewrite Z.shiftr_div_pow2 by lia. Qed.

Theorem layout m : valid m = true -> enc m = std_enc m.
Proof.
  destruct m; cbn [valid enc std_enc]; intros H; try reflexivity;
    repeat match goal with H : _ && _ = true |- _ => apply andb_prop in H as [? ?] end;
    unfold chan, byte7 in *;
    repeat match goal with H : _ && _ = true |- _ => apply andb_prop in H as [? ?] end.
  1-7: match goal with |- context [Z.lor ?b ?c] => destruct (status_facts b c) as [-> _]; [cbn; tauto|lia|] end.
  1-6: reflexivity.
  - rewrite land127, shiftr7. do 3 f_equal; f_equal; lia.
  - pose proof qf_sweep as S. rewrite forallb_forall in S. specialize (S ft (in_range 8 ft ltac:(lia))).
    rewrite forallb_forall in S. specialize (S fv (in_range 16 fv ltac:(lia))).
    apply andb_prop in S as [S _]. apply andb_prop in S as [S _]. apply Z.eqb_eq in S. now rewrite S.
  - now rewrite land127, shiftr7.
Qed.

Lemma kind_sweep : forallb (fun '(base, k) => forallb (fun c => match kind_of_status (base + c) with Some k' => true | None => false end) (range 16))
   [(128,KNoteOff);(144,KNoteOn);(160,KPolytouch);(176,KControlChange);(192,KProgramChange);(208,KAftertouch);(224,KPitchwheel)] = true.
Proof. vm_compute. reflexivity. Qed.

Definition chan_kind (base : Z) : option kind :=
  if base =? 128 then Some KNoteOff else if base =? 144 then Some KNoteOn else if base =? 160 then Some KPolytouch
  else if base =? 176 then Some KControlChange else if base =? 192 then Some KProgramChange else if base =? 208 then Some KAftertouch
  else if base =? 224 then Some KPitchwheel else None.

Lemma kind_chan_sweep : forallb (fun base => forallb (fun c =>
    match kind_of_status (base + c), chan_kind base with Some a, Some b => true | _, _ => false end) (range 16)) [128;144;160;176;192;208;224] = true.
Proof. vm_compute. reflexivity. Qed.

Lemma kind_chan base c k : In base [128;144;160;176;192;208;224] -> 0 <= c <= 15 -> chan_kind base = Some k -> kind_of_status (base + c) = Some k.
Proof.
  intros Hb Hc Hk. unfold kind_of_status.
  cbn in Hb. destruct Hb as [<-|[<-|[<-|[<-|[<-|[<-|[<-|[]]]]]]]]; cbn in Hk; inversion Hk; subst k;
  repeat match goal with |- context [if ?b then _ else _] => destruct b eqn:?; try lia; try reflexivity end.
Qed.

Lemma forallb_byte7 d : forallb byte7 d = true -> check_data d = Ok tt.
Proof. intros H. unfold check_data. now rewrite H. Qed.

Lemma guard_ok strict d n {A} (k : res A) : length d = n -> guard strict d n k = k.
Proof. intros <-. unfold guard, fixed_len. destruct strict; [now rewrite Nat.eqb_refl|reflexivity]. Qed.

Theorem roundtrip strict m : valid m = true -> dec_gen strict (enc m) = Ok m.
Proof.
  intros Hv. rewrite (layout m Hv).
  destruct m; cbn [valid std_enc] in *;
    repeat match goal with H : _ && _ = true |- _ => apply andb_prop in H as [? ?] end;
    unfold chan in *;
    repeat match goal with H : _ && _ = true |- _ => apply andb_prop in H as [? ?] end.
  1-7: unfold dec_gen; erewrite kind_chan by (try (cbn; tauto); try lia; reflexivity).
  1-7: match goal with |- context [Z.land (?b + ?c) 15] => destruct (status_facts b c) as [_ [-> _]]; [cbn; tauto|lia|] end.
  1-6: cbn [bind]; unfold check_data; cbn [forallb];
       repeat match goal with H : byte7 _ = true |- _ => rewrite H end; cbn; reflexivity.
  - (* pitchwheel *)
    cbn [bind]. unfold check_data. cbn [forallb].
    assert (Hq : 0 <= pitch + 8192 < 16384) by lia.
    pose proof (Z.mod_pos_bound (pitch + 8192) 128 ltac:(lia)) as Hm.
    assert (Hd : 0 <= (pitch + 8192) / 128 < 128) by (split; [apply Z.div_pos; lia | apply Z.div_lt_upper_bound; lia]).
    unfold byte7. replace ((0 <=? (pitch + 8192) mod 128) && ((pitch + 8192) mod 128 <=? 127)) with true by (symmetry; apply andb_true_intro; split; lia).
    replace ((0 <=? (pitch + 8192) / 128) && ((pitch + 8192) / 128 <=? 127)) with true by (symmetry; apply andb_true_intro; split; lia).
    cbn [bind andb]. rewrite guard_ok by reflexivity. cbn [bind nth_or_index nth_error]. do 2 f_equal.
    pose proof pitch_sweep as S. rewrite forallb_forall in S. specialize (S _ (in_range 128 _ Hm)).
    rewrite forallb_forall in S. specialize (S _ (in_range 128 _ Hd)). apply Z.eqb_eq in S. rewrite S.
    pose proof (Z.div_mod (pitch + 8192) 128 ltac:(lia)). lia.
  - (* sysex *)
    unfold dec_gen. cbn [kind_of_status]. change (kind_of_status 240) with (Some KSysex). cbv iota.
    rewrite rev_app_distr. cbn [rev app]. change (247 =? 247) with true. cbv iota. rewrite rev_involutive.
    cbn [bind]. rewrite forallb_byte7 by assumption. reflexivity.
  - (* quarter frame *)
    unfold dec_gen. change (kind_of_status 241) with (Some KQuarterFrame). cbv iota. cbn [bind].
    pose proof qf_sweep as S. rewrite forallb_forall in S. specialize (S ft (in_range 8 ft ltac:(lia))).
    rewrite forallb_forall in S. specialize (S fv (in_range 16 fv ltac:(lia))).
    apply andb_prop in S as [S S3]. apply andb_prop in S as [S1 S2]. apply Z.eqb_eq in S2, S3.
    unfold check_data. cbn [forallb]. unfold byte7.
    replace ((0 <=? 16 * ft + fv) && (16 * ft + fv <=? 127)) with true by (symmetry; apply andb_true_intro; split; lia).
    cbn [bind andb]. rewrite guard_ok by reflexivity. cbn [bind nth_or_index nth_error]. now rewrite S2, S3.
  - (* songpos *)
    unfold dec_gen. change (kind_of_status 242) with (Some KSongpos). cbv iota. cbn [bind].
    pose proof (Z.mod_pos_bound pos 128 ltac:(lia)) as Hm.
    assert (Hd : 0 <= pos / 128 < 128) by (split; [apply Z.div_pos; lia | apply Z.div_lt_upper_bound; lia]).
    unfold check_data. cbn [forallb]. unfold byte7.
    replace ((0 <=? pos mod 128) && (pos mod 128 <=? 127)) with true by (symmetry; apply andb_true_intro; split; lia).
    replace ((0 <=? pos / 128) && (pos / 128 <=? 127)) with true by (symmetry; apply andb_true_intro; split; lia).
    cbn [bind andb]. rewrite guard_ok by reflexivity. cbn [bind nth_or_index nth_error]. do 2 f_equal.
    pose proof songpos_sweep as S. rewrite forallb_forall in S. specialize (S _ (in_range 128 _ Hm)).
    rewrite forallb_forall in S. specialize (S _ (in_range 128 _ Hd)). apply Z.eqb_eq in S. rewrite S.
    pose proof (Z.div_mod pos 128 ltac:(lia)). lia.
  - (* song_select *)
    unfold dec_gen. change (kind_of_status 243) with (Some KSongSelect). cbv iota. cbn [bind].
    unfold check_data. cbn [forallb]. rewrite Hv. cbn. reflexivity.
  - reflexivity. - reflexivity. - reflexivity. - reflexivity. - reflexivity. - reflexivity. - reflexivity.
Qed.

(* ================= C02: exactness of the strict decoder ================= *)
Ltac lia_div := Z.to_euclidean_division_equations; lia.
Lemma kind_range st k : kind_of_status st = Some k ->
  match k with
  | KNoteOff => 128 <= st < 144 | KNoteOn => 144 <= st < 160 | KPolytouch => 160 <= st < 176
  | KControlChange => 176 <= st < 192 | KProgramChange => 192 <= st < 208 | KAftertouch => 208 <= st < 224
  | KPitchwheel => 224 <= st < 240 | KSysex => st = 240 | KQuarterFrame => st = 241 | KSongpos => st = 242
  | KSongSelect => st = 243 | KTuneRequest => st = 246 | KClock => st = 248 | KStart => st = 250
  | KContinue => st = 251 | KStop => st = 252 | KActiveSensing => st = 254 | KReset => st = 255
  end.
Proof.
  unfold kind_of_status. intros H.
  repeat match type of H with context [if ?b then _ else _] => destruct b eqn:? end;
    inversion H; subst; lia.
Qed.

Lemma chan_split base st : In base [128;144;160;176;192;208;224] -> base <= st < base + 16 ->
  0 <= Z.land st 15 <= 15 /\ Z.lor base (Z.land st 15) = st.
Proof.
  intros Hb Hr. set (c := st - base). assert (Hc : 0 <= c <= 15) by lia.
  replace st with (base + c) by lia.
  destruct (status_facts base c Hb Hc) as (H1 & H2 & _). rewrite H2. split; [lia|]. rewrite H1. reflexivity.
Qed.

Lemma len2 (d : list Z) : Nat.eqb (length d) 2 = true -> exists a b, d = [a; b].
Proof. destruct d as [|a [|b [|? ?]]]; cbn; try discriminate. eauto. Qed.
Lemma len1 (d : list Z) : Nat.eqb (length d) 1 = true -> exists a, d = [a].
Proof. destruct d as [|a [|? ?]]; cbn; try discriminate. eauto. Qed.
Lemma len0 (d : list Z) : Nat.eqb (length d) 0 = true -> d = [].
Proof. destruct d; cbn; [reflexivity|discriminate]. Qed.

Definition good (bs : list Z) (r : res msg) : Prop :=
  match r with Ok m => valid m = true /\ enc m = bs | Raise e => e = ValueError end.

Lemma qf_dec_sweep : forallb (fun a => (Z.lor (Z.shiftl (Z.shiftr a 4) 4) (Z.land a 15) =? a)
    && (0 <=? Z.shiftr a 4) && (Z.shiftr a 4 <=? 7) && (0 <=? Z.land a 15) && (Z.land a 15 <=? 15)) (range 128) = true.
Proof. vm_compute. reflexivity. Qed.

Ltac chan_case base :=
  match goal with
  | Hr : _ <= ?st < _ |- _ =>
      destruct (chan_split base st ltac:(cbn; tauto) ltac:(lia)) as [Hc Hlor]
  end.

Theorem exact bs : good bs (dec bs).
Proof.
  unfold dec, dec_gen. destruct bs as [|st data]; [reflexivity|].
  destruct (kind_of_status st) as [k|] eqn:Ek; [|reflexivity].
  pose proof (kind_range st k Ek) as Hr.
  destruct k; cbn [bind];
    (* non-sysex: data_r = data *)
    try (unfold check_data; destruct (forallb byte7 data) eqn:Hd; [|reflexivity]; cbn [bind]).
  (* two data bytes, channel *)
  1-4: unfold generic2, fixed_len; destruct (Nat.eqb (length data) 2) eqn:El; [|reflexivity];
       destruct (len2 data El) as (a & b & ->); cbn [bind nth_or_index nth_error];
       cbn [forallb] in Hd; apply andb_prop in Hd as [Ha Hd]; apply andb_prop in Hd as [Hb _].
  1: chan_case 128. 2: chan_case 144. 3: chan_case 160. 4: chan_case 176.
  1-4: split; [cbn [valid]; unfold chan; rewrite Ha, Hb; replace (0 <=? Z.land st 15) with true by (symmetry; apply Z.leb_le; lia);
               replace (Z.land st 15 <=? 15) with true by (symmetry; apply Z.leb_le; lia); reflexivity
              | cbn [enc]; now rewrite Hlor].
  (* one data byte, channel *)
  1-2: unfold generic1, fixed_len; destruct (Nat.eqb (length data) 1) eqn:El; [|reflexivity];
       destruct (len1 data El) as (a & ->); cbn [bind nth_or_index nth_error];
       cbn [forallb] in Hd; apply andb_prop in Hd as [Ha _].
  1: chan_case 192. 2: chan_case 208.
  1-2: split; [cbn [valid]; unfold chan; rewrite Ha; replace (0 <=? Z.land st 15) with true by (symmetry; apply Z.leb_le; lia);
               replace (Z.land st 15 <=? 15) with true by (symmetry; apply Z.leb_le; lia); reflexivity
              | cbn [enc]; now rewrite Hlor].
  (* no data *)
  6-12: subst st; unfold generic0, fixed_len; destruct (Nat.eqb (length data) 0) eqn:El; [|reflexivity];
        rewrite (len0 data El); split; reflexivity.
  - (* pitchwheel *)
    unfold guard, fixed_len. destruct (Nat.eqb (length data) 2) eqn:El; [|reflexivity].
    destruct (len2 data El) as (a & b & ->). cbn [bind nth_or_index nth_error].
    cbn [forallb] in Hd. apply andb_prop in Hd as [Ha Hd]. apply andb_prop in Hd as [Hb _].
    chan_case 224. unfold byte7 in Ha, Hb.
    pose proof pitch_sweep as S. rewrite forallb_forall in S. specialize (S a (in_range 128 a ltac:(lia))).
    rewrite forallb_forall in S. specialize (S b (in_range 128 b ltac:(lia))). apply Z.eqb_eq in S. rewrite S.
    split.
    + cbn [valid]. unfold chan. apply andb_true_intro; split; [apply andb_true_intro; split|]; [apply andb_true_intro; split| |]; lia.
    + cbn [enc]. rewrite Hlor, land127, shiftr7.
      assert (E1 : (a + 128 * b - 8192 - -8192) mod 128 = a) by lia_div.
      assert (E2 : (a + 128 * b - 8192 - -8192) / 128 = b) by lia_div.
      now rewrite E1, E2.
  - (* sysex *)
    subst st. destruct (rev data) as [|e r] eqn:Er; [reflexivity|].
    destruct (e =? 247) eqn:Ee; [|reflexivity]. cbn [bind]. apply Z.eqb_eq in Ee. subst e.
    unfold check_data. destruct (forallb byte7 (rev r)) eqn:Hd; [|reflexivity]. cbn [bind].
    split; [exact Hd|]. cbn [enc app]. f_equal.
    rewrite <- (rev_involutive data), Er. reflexivity.
  - (* quarter frame *)
    subst st. unfold guard, fixed_len. destruct (Nat.eqb (length data) 1) eqn:El; [|reflexivity].
    destruct (len1 data El) as (a & ->). cbn [bind nth_or_index nth_error].
    cbn [forallb] in Hd. apply andb_prop in Hd as [Ha _]. unfold byte7 in Ha.
    pose proof qf_dec_sweep as S. rewrite forallb_forall in S. specialize (S a (in_range 128 a ltac:(lia))).
    repeat (apply andb_prop in S as [S ?]). apply Z.eqb_eq in S.
    split; [cbn [valid]; repeat (apply andb_true_intro; split); assumption | cbn [enc]; now rewrite S].
  - (* songpos *)
    subst st. unfold guard, fixed_len. destruct (Nat.eqb (length data) 2) eqn:El; [|reflexivity].
    destruct (len2 data El) as (a & b & ->). cbn [bind nth_or_index nth_error].
    cbn [forallb] in Hd. apply andb_prop in Hd as [Ha Hd]. apply andb_prop in Hd as [Hb _]. unfold byte7 in Ha, Hb.
    pose proof songpos_sweep as S. rewrite forallb_forall in S. specialize (S a (in_range 128 a ltac:(lia))).
    rewrite forallb_forall in S. specialize (S b (in_range 128 b ltac:(lia))). apply Z.eqb_eq in S. rewrite S.
    split.
    + cbn [valid]. apply andb_true_intro; split; lia.
    + cbn [enc]. rewrite land127, shiftr7.
      assert (E1 : (a + 128 * b) mod 128 = a) by lia_div.
      assert (E2 : (a + 128 * b) / 128 = b) by lia_div.
      now rewrite E1, E2.
  - (* song select *)
    subst st. unfold generic1, fixed_len. destruct (Nat.eqb (length data) 1) eqn:El; [|reflexivity].
    destruct (len1 data El) as (a & ->). cbn [bind nth_or_index nth_error].
    cbn [forallb] in Hd. apply andb_prop in Hd as [Ha _]. split; [exact Ha|reflexivity].
Qed.

(* the decoder of the tree before the C02 repair is refuted on both clauses *)
Lemma exact_unfixed_refuted_raise : dec_unfixed [224; 1] = Raise IndexError.
Proof. reflexivity. Qed.
Lemma exact_unfixed_refuted_accept : exists m, dec_unfixed [224; 1; 2; 3] = Ok m /\ enc m <> [224; 1; 2; 3].
Proof. eexists; split; [reflexivity|]. vm_compute. discriminate. Qed.

(* ================= C01: well-formedness, length, time, hex ================= *)
Lemma valid_split m : valid m = true ->
  match m with
  | NoteOff c a b | NoteOn c a b | Polytouch c a b | ControlChange c a b => 0 <= c <= 15 /\ 0 <= a <= 127 /\ 0 <= b <= 127
  | ProgramChange c a | Aftertouch c a => 0 <= c <= 15 /\ 0 <= a <= 127
  | Pitchwheel c p => 0 <= c <= 15 /\ -8192 <= p <= 8191
  | Sysex d => Forall (fun x => 0 <= x <= 127) d
  | QuarterFrame ft fv => 0 <= ft <= 7 /\ 0 <= fv <= 15
  | Songpos p => 0 <= p <= 16383
  | SongSelect s => 0 <= s <= 127
  | _ => True
  end.
Proof.
  destruct m; cbn [valid]; unfold chan, byte7; intros H; try exact I; try lia.
  induction data as [|x r IH]; [constructor|]. cbn [forallb] in H. constructor; [lia|apply IH; lia].
Qed.

Definition data7 (d : list Z) : Prop := Forall (fun x => 0 <= x <= 127) d.

Theorem wellformed m : valid m = true ->
  exists st data, enc m = st :: data /\ st = status_of m /\ 128 <= st <= 255 /\
    (kind_of m <> KSysex -> data7 data) /\
    (forall p, m = Sysex p -> data = p ++ [247] /\ data7 p).
Proof.
  intros Hv. rewrite (layout m Hv). pose proof (valid_split m Hv) as Hs.
  destruct m; cbn [std_enc status_of kind_of status_base channel_of];
    eexists; eexists; (split; [reflexivity|]); (split; [try reflexivity; lia|]); (split; [lia|]);
    (split; [intros Hk; try congruence; unfold data7; repeat constructor; try lia;
             try (Z.to_euclidean_division_equations; lia)
            | intros p Hp; try discriminate Hp ]).
  injection Hp as <-. split; [reflexivity|exact Hs].
Qed.

Theorem length_agrees m : Z.of_nat (length (enc m)) = msg_len m.
Proof.
  destruct m; try reflexivity. cbn [enc msg_len]. unfold zlen. rewrite !app_length. cbn [length]. lia.
Qed.

Theorem roundtrip_time (T : Type) m (t : T) : valid m = true -> from_bytes (enc m) t = Ok (m, t).
Proof. intros Hv. unfold from_bytes, dec. now rewrite (roundtrip true m Hv). Qed.

Lemma kind_eq_dec_sysex m : (exists p, m = Sysex p) \/ kind_of m <> KSysex.
Proof. destruct m; try (right; discriminate). left; eauto. Qed.

Lemma enc_bytes m : valid m = true -> Forall (fun b => 0 <= b <= 255) (enc m).
Proof.
  intros Hv. destruct (wellformed m Hv) as (st & data & He & _ & Hst & Hd & Hsx). rewrite He.
  constructor; [lia|]. destruct (kind_eq_dec_sysex m) as [[p ->]|Hk].
  - destruct (Hsx p eq_refl) as [-> Hp]. apply Forall_app; split.
    + eapply Forall_impl; [|exact Hp]. cbn; lia.
    + repeat constructor; lia.
  - eapply Forall_impl; [|exact (Hd Hk)]. cbn; lia.
Qed.

(* ---- hex / from_hex ---- *)
Lemma hexdigit_sweep : forallb (fun n => match hexval (hexdigit n) with Some v => (v =? n) | None => false end
     && negb (is_ws (hexdigit n)) && negb (is_ascii_ws (hexdigit n))) (range 16) = true.
Proof. vm_compute. reflexivity. Qed.
Lemma hexdigit_facts n : 0 <= n < 16 -> hexval (hexdigit n) = Some n /\ is_ws (hexdigit n) = false /\ is_ascii_ws (hexdigit n) = false.
Proof.
  intros Hn. pose proof hexdigit_sweep as S. rewrite forallb_forall in S. specialize (S n (in_range 16 n ltac:(lia))).
  apply andb_prop in S as [S S3]. apply andb_prop in S as [S1 S2].
  destruct (hexval (hexdigit n)) as [v|]; [|discriminate]. apply Z.eqb_eq in S1. subst v.
  repeat split; [now destruct (is_ws _)|now destruct (is_ascii_ws _)].
Qed.

Lemma repl_single c t : repl [c] 0 t = map (fun x => if x =? c then 32 else x) t.
Proof.
  induction t as [|x r IH]; [reflexivity|]. cbn [repl prefixb map length Nat.sub].
  rewrite (Z.eqb_sym c x), andb_true_r. destruct (x =? c) eqn:E; rewrite IH; reflexivity.
Qed.

(* the text a hex dump with a one-character (or empty) separator normalises to *)
Definition norm (f : Z -> Z) (sep : list Z) (bs : list Z) : list Z := map f (join sep (map hex_byte bs)).

Lemma join_cons sep w r : r <> [] -> join sep (w :: r) = w ++ sep ++ join sep r.
Proof. destruct r; [congruence|reflexivity]. Qed.

Lemma fromhex_norm f sep bs :
  Forall (fun b => 0 <= b <= 255) bs ->
  (forall n, 0 <= n < 16 -> f (hexdigit n) = hexdigit n) ->
  Forall (fun c => is_ascii_ws (f c) = true) sep ->
  fromhex (norm f sep bs) = Ok bs.
Proof.
  intros Hb Hf Hsep. unfold norm. induction Hb as [|b r Hb1 Hr IH]; [reflexivity|].
  cbn [map]. assert (Hhi : 0 <= b / 16 < 16) by (Z.to_euclidean_division_equations; lia).
  assert (Hlo : 0 <= b mod 16 < 16) by (Z.to_euclidean_division_equations; lia).
  destruct (hexdigit_facts _ Hhi) as (V1 & _ & A1). destruct (hexdigit_facts _ Hlo) as (V2 & _ & A2).
  assert (Hskip : forall rest, fromhex (map f sep ++ rest) = fromhex rest).
  { intros rest. clear -Hsep. induction Hsep as [|c s Hc Hs IHs]; [reflexivity|]. cbn [map app fromhex]. now rewrite Hc. }
  destruct r as [|b2 r'].
  - cbn [join map hex_byte fromhex]. rewrite !Hf by assumption. rewrite A1, V1, V2. cbn [fromhex].
    do 2 f_equal. Z.to_euclidean_division_equations; lia.
  - rewrite join_cons by discriminate. rewrite !map_app. cbn [hex_byte map app fromhex].
    rewrite !Hf by assumption. rewrite A1, V1, V2. rewrite Hskip. cbn [map] in IH. rewrite IH.
    do 2 f_equal. Z.to_euclidean_division_equations; lia.
Qed.

Definition sep_ok (sep : list Z) : Prop := sep = [] \/ exists c, sep = [c] /\ hexval c = None.

Theorem hex_roundtrip (T : Type) m sep (t : T) : valid m = true -> sep_ok sep ->
  from_hex (hex m sep) (Some sep) t = Ok (m, t).
Proof.
  intros Hv Hs. unfold from_hex, hex. pose proof (enc_bytes m Hv) as Hb.
  destruct Hs as [-> | (c & -> & Hc)].
  - change (map (fun c => if is_ws c then 32 else c) (join [] (map hex_byte (enc m))))
      with (norm (fun c => if is_ws c then 32 else c) [] (enc m)).
    rewrite fromhex_norm; [now apply roundtrip_time|assumption| |constructor].
    intros n Hn. destruct (hexdigit_facts n Hn) as (_ & -> & _). reflexivity.
  - rewrite repl_single, map_map.
    change (map ?f (join [c] (map hex_byte (enc m)))) with (norm f [c] (enc m)).
    rewrite fromhex_norm; [now apply roundtrip_time|assumption| |].
    + intros n Hn. destruct (hexdigit_facts n Hn) as (Hh & -> & _).
      destruct (hexdigit n =? c) eqn:E; [|reflexivity]. apply Z.eqb_eq in E. congruence.
    + constructor; [|constructor]. destruct (is_ws c); [now destruct (32 =? c)|]. now rewrite Z.eqb_refl.
Qed.

(* default arguments: hex(sep=' ') read by from_hex(sep=None); any whitespace separator works *)
Theorem hex_roundtrip_default (T : Type) m c (t : T) : valid m = true -> is_ws c = true ->
  from_hex (hex m [c]) None t = Ok (m, t).
Proof.
  intros Hv Hc. unfold from_hex, hex. pose proof (enc_bytes m Hv) as Hb.
  change (map ?f (join [c] (map hex_byte (enc m)))) with (norm f [c] (enc m)).
  rewrite fromhex_norm; [now apply roundtrip_time|assumption| |].
  - intros n Hn. destruct (hexdigit_facts n Hn) as (_ & -> & _). reflexivity.
  - constructor; [|constructor]. now rewrite Hc.
Qed.

(* ---- separators of any length: no hexadecimal digit in them, and no whitespace character other than the space
   (from_hex turns every whitespace character of the TEXT into a space before it looks for the separator, so a separator holding a tab is
   never found again - which the real from_hex shows too) ---- *)
Definition sep_ok_multi (sep : list Z) : Prop :=
  sep <> [] /\ Forall (fun c => hexval c = None /\ (is_ws c = true -> c = 32)) sep.

Lemma repl_skip sep : forall u k rest, length u = k -> repl sep k (u ++ rest) = repeat 32 k ++ repl sep 0 rest.
Proof.
  induction u as [|x u IH]; intros k rest Hk; cbn in Hk; subst k; [reflexivity|].
  cbn [app repl length repeat]. f_equal. now apply IH.
Qed.
Lemma prefixb_self sep rest : prefixb sep (sep ++ rest) = true.
Proof. induction sep as [|c s IH]; [reflexivity|]. cbn. now rewrite Z.eqb_refl, IH. Qed.
Lemma prefixb_self_cons c s rest : prefixb (c :: s) (c :: s ++ rest) = true.
Proof. exact (prefixb_self (c :: s) rest). Qed.
Lemma prefixb_hexdigit c s h r : hexval c = None -> (exists v, hexval h = Some v) -> prefixb (c :: s) (h :: r) = false.
Proof.
  intros Hc [v Hh]. cbn. destruct (c =? h) eqn:E; [|reflexivity]. apply Z.eqb_eq in E. congruence.
Qed.
Lemma repl_sep c s rest : repl (c :: s) 0 ((c :: s) ++ rest) = repeat 32 (length (c :: s)) ++ repl (c :: s) 0 rest.
Proof.
  cbn [app]. cbn [repl]. change (c :: s ++ rest) with ((c :: s) ++ rest). rewrite prefixb_self.
  cbn [length Nat.sub repeat app]. f_equal. rewrite Nat.sub_0_r. now apply repl_skip.
Qed.

Lemma repl_hexdump c s bs :
  hexval c = None -> Forall (fun b => 0 <= b <= 255) bs ->
  repl (c :: s) 0 (join (c :: s) (map hex_byte bs)) = join (repeat 32 (length (c :: s))) (map hex_byte bs).
Proof.
  intros Hc Hb. induction Hb as [|b r Hb1 Hr IH]; [reflexivity|].
  assert (Hhi : 0 <= b / 16 < 16) by (Z.to_euclidean_division_equations; lia).
  assert (Hlo : 0 <= b mod 16 < 16) by (Z.to_euclidean_division_equations; lia).
  destruct (hexdigit_facts _ Hhi) as (V1 & _ & _). destruct (hexdigit_facts _ Hlo) as (V2 & _ & _).
  cbn [map]. destruct r as [|b2 r'].
  - cbn [join map]. unfold hex_byte. cbn [repl]. rewrite (prefixb_hexdigit c s _ _ Hc (ex_intro _ _ V1)).
    cbn [repl]. rewrite (prefixb_hexdigit c s _ _ Hc (ex_intro _ _ V2)). reflexivity.
  - rewrite !join_cons by discriminate. unfold hex_byte at 1 3. cbn [app]. cbn [repl].
    rewrite (prefixb_hexdigit c s _ _ Hc (ex_intro _ _ V1)). cbn [repl].
    rewrite (prefixb_hexdigit c s _ _ Hc (ex_intro _ _ V2)).
    rewrite prefixb_self_cons. cbn [length Nat.sub repeat app]. rewrite Nat.sub_0_r, (repl_skip (c :: s) s (length s) _ eq_refl).
    rewrite IH. reflexivity.
Qed.

Lemma map_fix_join (f : Z -> Z) sep bs :
  Forall (fun b => 0 <= b <= 255) bs -> (forall n, 0 <= n < 16 -> f (hexdigit n) = hexdigit n) -> Forall (fun c => f c = c) sep ->
  map f (join sep (map hex_byte bs)) = join sep (map hex_byte bs).
Proof.
  intros Hb Hf Hs. assert (Hsep : map f sep = sep) by (induction Hs as [|c s Hc _ IH]; [reflexivity|cbn; now rewrite Hc, IH]).
  induction Hb as [|b r Hb1 Hr IH]; [reflexivity|].
  assert (Hhi : 0 <= b / 16 < 16) by (Z.to_euclidean_division_equations; lia).
  assert (Hlo : 0 <= b mod 16 < 16) by (Z.to_euclidean_division_equations; lia).
  cbn [map]. destruct r as [|b2 r'].
  - cbn [join map]. unfold hex_byte. cbn [map]. now rewrite !Hf.
  - rewrite join_cons by discriminate. rewrite !map_app, Hsep. rewrite IH. unfold hex_byte at 1 2. cbn [map]. now rewrite !Hf.
Qed.

Theorem hex_roundtrip_multi (T : Type) m sep (t : T) : valid m = true -> sep_ok_multi sep ->
  from_hex (hex m sep) (Some sep) t = Ok (m, t).
Proof.
  intros Hv [Hne Hs]. unfold from_hex, hex. pose proof (enc_bytes m Hv) as Hb.
  destruct sep as [|c s]; [congruence|].
  rewrite map_fix_join; [|assumption| |].
  - rewrite repl_hexdump; [|now inversion Hs as [|? ? [Hc _] _]|assumption].
    assert (E : forall sp bs, join sp (map hex_byte bs) = norm (fun x => x) sp bs) by (intros; unfold norm; now rewrite map_id).
    rewrite E, fromhex_norm; [now apply roundtrip_time|assumption|reflexivity|].
    apply Forall_forall. intros x Hx. apply repeat_spec in Hx. subst x. reflexivity.
  - intros n Hn. destruct (hexdigit_facts n Hn) as (_ & -> & _). reflexivity.
  - eapply Forall_impl; [|exact Hs]. cbn. intros x [_ Hx]. destruct (is_ws x) eqn:E; [now rewrite (Hx eq_refl)|reflexivity].
Qed.

Example sep_ok_multi_examples : sep_ok_multi [45; 45] /\ sep_ok_multi [44; 32] /\ sep_ok_multi [45; 120; 45] /\ sep_ok_multi [32; 58; 32].
Proof. repeat split; try discriminate; repeat constructor; try reflexivity; cbn; intros; try discriminate; try reflexivity. Qed.
