(* ConcProofs.v — a lock-protected port under every schedule (C10). *)
From Coq Require Import ZArith List Bool Arith Lia.
Require Import Mido.Model.Base Mido.Model.Codec Mido.Model.Tokenizer Mido.Model.Parser Mido.Model.Sockets Mido.Model.Conc.
Require Import Mido.Proofs.CodecProofs Mido.Proofs.TokProofs Mido.Proofs.ParseProofs Mido.Proofs.SocketsProofs.
Import ListNotations.

Definition holds_in (p : pc) : bool := match p with RBool1 | RPop1 | RRel1 _ | LRead | LBool | LPop | LRel _ _ => true | _ => false end.
Definition holds_out (p : pc) : bool := match p with SApp _ | SWrite _ _ | SRel => true | _ => false end.
Definition recv_pc (p : pc) : bool := match p with RBool1 | RPop1 | RRel1 _ | LAcq | LRead | LBool | LPop | LRel _ _ | LSleep => true | _ => false end.
Definition is_recv_op (o : op) : bool := match o with Send _ => false | _ => true end.
Definition sends (p : list op) : list msg := flat_map (fun o => match o with Send m => [m] | _ => [] end) p.
(* the sends of a thread that are not yet in [stream] *)
Definition pending_sends (k : pkind) (th : thread) : list msg :=
  match at_ th, k with
  | SWrite _ _, _ => sends (tl (prog th))
  | SRel, _ => sends (tl (prog th))
  | _, _ => sends (prog th)
  end.
Definition mine (t : tid) (st : list (tid * msg)) : list msg := map snd (filter (fun x => Nat.eqb (fst x) t) st).

Section Locked.
Variable c : conf.
Hypothesis Hlock : c_locking c = true.

Definition tinv (s : shared) (t : tid) (th : thread) : Prop :=
  (holds_in (at_ th) = true -> owner c s LIn = Some t) /\
  (holds_out (at_ th) = true -> owner c s LOut = Some t) /\
  ((at_ th = RPop1 \/ at_ th = LPop) -> q s <> []) /\
  (forall e, at_ th <> Raised e) /\
  (forall m rest, at_ th = SWrite m rest -> wrest s = rest /\ rest <> []) /\
  (forall m, In (Send m) (prog th) -> valid m = true) /\
  (forall m, at_ th = SApp m -> (exists r, prog th = Send m :: r) /\ c_kind c = KEcho) /\
  (forall m rest, at_ th = SWrite m rest -> (exists r, prog th = Send m :: r) /\ c_kind c = KDevice) /\
  (at_ th = SRel -> exists m r, prog th = Send m :: r) /\
  (at_ th = LRead -> c_kind c = KDevice) /\
  (recv_pc (at_ th) = true -> exists o r, prog th = o :: r /\ is_recv_op o = true).

Definition gwit (s : shared) (ts : tid -> thread) : Prop := wrest s <> [] -> exists t m, at_ (ts t) = SWrite m (wrest s).
Definition gdata (s : shared) : Prop :=
  produced s = map snd (recvd s) ++ q s /\
  (c_kind c = KEcho -> produced s = map snd (stream s)) /\
  (c_kind c = KDevice -> allread s ++ devbuf s ++ wrest s = concat (map enc (map snd (stream s)))) /\
  (c_kind c = KDevice -> exists toks, feed Idle (allread s) = (tok s, toks) /\ sequence (map dec toks) = Ok (produced s)) /\
  Forall (fun m => valid m = true) (map snd (stream s)) /\
  st_wf (tok s).

Definition Inv (cf : cfg) : Prop := let '(s, ts) := cf in (forall t, tinv s t (ts t)) /\ gwit s ts /\ gdata s.
End Locked.

Section Locked2.
Variable c : conf.
Hypothesis Hlock : c_locking c = true.
Variable progs0 : tid -> list op.

Definition lockid_eqb (a b : lockid) : bool := match a, b with LIn, LIn => true | LOut, LOut => true | _, _ => false end.
Definition same_under (l l' : lockid) : bool := lockid_eqb (which c l) (which c l').

Lemma owner_same l l' s : same_under l l' = true -> owner c s l = owner c s l'.
Proof. unfold same_under, owner. destruct (which c l), (which c l'); cbn; congruence. Qed.
Lemma owner_acq s l t l' : owner c (acquire c s l t) l' = if same_under l l' then Some t else owner c s l'.
Proof. unfold acquire, set_owner, owner, same_under. rewrite Hlock. destruct (which c l), (which c l'); reflexivity. Qed.
Lemma owner_rel s l l' : owner c (release c s l) l' = if same_under l l' then None else owner c s l'.
Proof. unfold release, set_owner, owner, same_under. rewrite Hlock. destruct (which c l), (which c l'); reflexivity. Qed.
Lemma acq_fields s l t : q (acquire c s l t) = q s /\ wrest (acquire c s l t) = wrest s /\ devbuf (acquire c s l t) = devbuf s /\ tok (acquire c s l t) = tok s /\
  produced (acquire c s l t) = produced s /\ recvd (acquire c s l t) = recvd s /\ allread (acquire c s l t) = allread s /\ stream (acquire c s l t) = stream s.
Proof. unfold acquire, set_owner. rewrite Hlock. destruct (which c l); repeat split. Qed.
Lemma rel_fields s l : q (release c s l) = q s /\ wrest (release c s l) = wrest s /\ devbuf (release c s l) = devbuf s /\ tok (release c s l) = tok s /\
  produced (release c s l) = produced s /\ recvd (release c s l) = recvd s /\ allread (release c s l) = allread s /\ stream (release c s l) = stream s.
Proof. unfold release, set_owner. rewrite Hlock. destruct (which c l); repeat split. Qed.
Lemma can_acq s l t : can_acquire c s l t = true -> owner c s l = None \/ owner c s l = Some t.
Proof. unfold can_acquire. rewrite Hlock. destruct (owner c s l) as [o|]; [|auto]. intros H. apply Nat.eqb_eq in H. subst. auto. Qed.
Lemma same_refl l : same_under l l = true.
Proof. unfold same_under. destruct (which c l); reflexivity. Qed.

Lemma upd_same ts t th : upd ts t th t = th.
Proof. unfold upd. now rewrite Nat.eqb_refl. Qed.
Lemma upd_other ts t th u : u <> t -> upd ts t th u = ts u.
Proof. intros H. unfold upd. destruct (Nat.eqb_spec u t); congruence. Qed.

(* a step of another thread that leaves alone what this thread's locks protect *)
Lemma tinv_other s s' u th : tinv c s u th ->
  (owner c s LIn = Some u -> owner c s' LIn = Some u /\ (q s <> [] -> q s' <> [])) ->
  (owner c s LOut = Some u -> owner c s' LOut = Some u /\ wrest s' = wrest s) -> tinv c s' u th.
Proof.
  intros (H1 & H2 & H3 & H4 & H5 & H6 & H7 & H8 & H9 & H10 & H11) Fin Fout.
  split; [|split; [|split; [|split; [|split; [|split; [|split; [|split; [|split; [|split]]]]]]]]]; auto.
  - intros Hh. apply Fin; auto.
  - intros Hh. apply Fout; auto.
  - intros Hp. assert (Hh : holds_in (at_ th) = true) by (destruct Hp as [-> | ->]; reflexivity).
    destruct (Fin (H1 Hh)) as [_ Hq]. apply Hq, H3, Hp.
  - intros m rest H. destruct (H5 m rest H) as [Hw Hn]. assert (Hh : holds_out (at_ th) = true) by (rewrite H; reflexivity).
    destruct (Fout (H2 Hh)) as [_ Hw']. split; [congruence|exact Hn].
Qed.
End Locked2.

Section Step.
Variable c : conf.
Hypothesis Hlock : c_locking c = true.

Lemma gdata_eq s s' : q s' = q s -> produced s' = produced s -> recvd s' = recvd s -> allread s' = allread s -> devbuf s' = devbuf s ->
  wrest s' = wrest s -> stream s' = stream s -> tok s' = tok s -> gdata c s -> gdata c s'.
Proof. unfold gdata. intros -> -> -> -> -> -> -> ->. auto. Qed.
Lemma gdata_acq s l t : gdata c s -> gdata c (acquire c s l t).
Proof. destruct (acq_fields c Hlock s l t) as (A & B & C & D & E & F & G & H). apply gdata_eq; assumption. Qed.
Lemma gdata_rel s l : gdata c s -> gdata c (release c s l).
Proof. destruct (rel_fields c Hlock s l) as (A & B & C & D & E & F & G & H). apply gdata_eq; assumption. Qed.
Lemma gwit_keep s s' ts t th' : wrest s' = wrest s -> (forall m r, at_ (ts t) <> SWrite m r) -> gwit s ts -> gwit s' (upd ts t th').
Proof.
  intros Hw Hn Hg Hne. rewrite Hw in *. destruct (Hg Hne) as (t0 & m0 & H0). exists t0, m0.
  destruct (Nat.eq_dec t0 t) as [->|Hd]; [exfalso; eapply Hn; eauto|]. now rewrite upd_other.
Qed.

(* the frame conditions of tinv_other for the usual kinds of step of another thread t *)
Lemma frame_acq s l t u : u <> t -> can_acquire c s l t = true ->
  (owner c s LIn = Some u -> owner c (acquire c s l t) LIn = Some u /\ (q s <> [] -> q (acquire c s l t) <> [])) /\
  (owner c s LOut = Some u -> owner c (acquire c s l t) LOut = Some u /\ wrest (acquire c s l t) = wrest s).
Proof.
  intros Hne Hc. destruct (acq_fields c Hlock s l t) as (A & B & _). rewrite A, B.
  split; intros Ho; rewrite owner_acq by exact Hlock.
  - destruct (same_under c l LIn) eqn:E; [|auto]. rewrite <- (owner_same c l LIn s E) in Ho. destruct (can_acq c Hlock s l t Hc); congruence.
  - destruct (same_under c l LOut) eqn:E; [|auto]. rewrite <- (owner_same c l LOut s E) in Ho. destruct (can_acq c Hlock s l t Hc); congruence.
Qed.
Lemma frame_rel s l t u : u <> t -> owner c s l = Some t ->
  (owner c s LIn = Some u -> owner c (release c s l) LIn = Some u /\ (q s <> [] -> q (release c s l) <> [])) /\
  (owner c s LOut = Some u -> owner c (release c s l) LOut = Some u /\ wrest (release c s l) = wrest s).
Proof.
  intros Hne Hc. destruct (rel_fields c Hlock s l) as (A & B & _). rewrite A, B.
  split; intros Ho; rewrite owner_rel by exact Hlock.
  - destruct (same_under c l LIn) eqn:E; [|auto]. rewrite <- (owner_same c l LIn s E) in Ho. congruence.
  - destruct (same_under c l LOut) eqn:E; [|auto]. rewrite <- (owner_same c l LOut s E) in Ho. congruence.
Qed.
End Step.

Section StepInv.
Variable c : conf.
Hypothesis Hlock : c_locking c = true.

Lemma owner_fields s s' l : lk_in s' = lk_in s -> lk_out s' = lk_out s -> owner c s' l = owner c s l.
Proof. unfold owner. destruct (which c l); congruence. Qed.
Lemma frame_hold_in s s' t u : u <> t -> owner c s LIn = Some t -> lk_in s' = lk_in s -> lk_out s' = lk_out s -> wrest s' = wrest s ->
  (owner c s LIn = Some u -> owner c s' LIn = Some u /\ (q s <> [] -> q s' <> [])) /\
  (owner c s LOut = Some u -> owner c s' LOut = Some u /\ wrest s' = wrest s).
Proof. intros Hne Ho A B W. split; intros H; [congruence|]. rewrite (owner_fields s s' LOut A B). auto. Qed.
Lemma frame_hold_out s s' t u : u <> t -> owner c s LOut = Some t -> lk_in s' = lk_in s -> lk_out s' = lk_out s -> (q s <> [] -> q s' <> []) ->
  (owner c s LIn = Some u -> owner c s' LIn = Some u /\ (q s <> [] -> q s' <> [])) /\
  (owner c s LOut = Some u -> owner c s' LOut = Some u /\ wrest s' = wrest s).
Proof. intros Hne Ho A B Q. split; intros H; [|congruence]. rewrite (owner_fields s s' LIn A B). auto. Qed.
Lemma frame_same s s' u : lk_in s' = lk_in s -> lk_out s' = lk_out s -> q s' = q s -> wrest s' = wrest s ->
  (owner c s LIn = Some u -> owner c s' LIn = Some u /\ (q s <> [] -> q s' <> [])) /\
  (owner c s LOut = Some u -> owner c s' LOut = Some u /\ wrest s' = wrest s).
Proof. intros A B Q W. split; intros H; rewrite (owner_fields s s' _ A B); rewrite ?Q; auto. Qed.

Ltac mine := (split; [|split; [|split; [|split; [|split; [|split; [|split; [|split; [|split; [|split]]]]]]]]]);
  cbn [set_pc finish_send finish_recv at_ prog holds_in holds_out]; try solve [discriminate | intros; discriminate | intros [?|?]; discriminate | auto];
  try match goal with Ep : prog _ = _ |- _ => solve [intros ? H0; rewrite Ep in H0; auto] end.

Ltac fin := first [ solve [intros _; unfold owner, with_q; cbn [lk_in lk_out]; assumption]
                  | solve [intros _; rewrite owner_acq by assumption; now rewrite same_refl]
                  | solve [intros _; eauto]
                  | solve [intros _; congruence]
                  | solve [intros _; match goal with Ep : prog _ = _ |- _ => rewrite Ep end; eexists; eexists; split; reflexivity]
                  | idtac ].

Lemma others s s' ts t th' : (forall u, tinv c s u (ts u)) -> tinv c s' t th' ->
  (forall u, u <> t ->
    (owner c s LIn = Some u -> owner c s' LIn = Some u /\ (q s <> [] -> q s' <> [])) /\
    (owner c s LOut = Some u -> owner c s' LOut = Some u /\ wrest s' = wrest s)) ->
  forall u, tinv c s' u (upd ts t th' u).
Proof.
  intros Hall Hme Hfr u. destruct (Nat.eq_dec u t) as [->|Hne]; [now rewrite upd_same|].
  rewrite upd_other by exact Hne. destruct (Hfr u Hne) as [F1 F2]. eapply tinv_other; eauto.
Qed.

Lemma valid_tl (p : list op) : (forall m, In (Send m) p -> valid m = true) -> forall m, In (Send m) (tl p) -> valid m = true.
Proof. intros H m Hi. apply H. destruct p; [exact Hi|right; exact Hi]. Qed.

Lemma step_inv cf t : Inv c cf -> Inv c (cstep c cf t).
Proof.
  destruct cf as [s ts]. intros (Hall & Hw & Hd). unfold cstep.
  destruct (step_thread c s t (ts t)) as [[s' th']|] eqn:E; [|exact (conj Hall (conj Hw Hd))].
  pose proof (Hall t) as (M1 & M2 & M3 & M4 & M5 & M6 & M7 & M8 & M9 & M10 & M11). unfold step_thread in E.
  destruct (at_ (ts t)) eqn:Epc.
  - (* AtStart *)
    destruct (prog (ts t)) as [|o r] eqn:Ep; [discriminate|].
    assert (Hnw : forall m0 r0, at_ (ts t) <> SWrite m0 r0) by (intros; congruence).
    destruct o as [m|b|acc].
    + destruct (can_acquire c s LOut t) eqn:Ec; [|discriminate].
      destruct (c_kind c) eqn:Ek; injection E as <- <-.
      * (* echo *)
        split; [|split].
        -- eapply others with (s := s); [exact Hall| |intros u Hne; exact (frame_acq c Hlock s LOut t u Hne Ec)].
           mine. ++ intros _. rewrite owner_acq by exact Hlock. now rewrite same_refl.
                 ++ intros m0 H0. injection H0 as <-. rewrite Ep. eauto.
        -- destruct (acq_fields c Hlock s LOut t) as (_ & B & _). eapply gwit_keep; eauto.
        -- now apply gdata_acq.
      * (* device *)
        destruct (acq_fields c Hlock s LOut t) as (A1 & A2 & A3 & A4 & A5 & A6 & A7 & A8).
        assert (Hv : valid m = true) by (apply M6; left; reflexivity).
        assert (Hne0 : enc m <> []) by (destruct (enc_tok_wf m Hv) as [Hwf|(b0 & Hb0 & _)]; [destruct Hwf; discriminate|rewrite Hb0; discriminate]).
        split; [|split].
        -- eapply others with (s := s); [exact Hall| |].
           ++ mine. ** intros _. unfold owner. cbn [lk_in lk_out]. fold (owner c (acquire c s LOut t) LOut). rewrite owner_acq by exact Hlock. now rewrite same_refl.
                    ** intros m0 rest0 H0. injection H0 as <- <-. cbn [wrest]. split; [reflexivity|exact Hne0].
                    ** intros m0 rest0 H0. injection H0 as <- _. rewrite Ep. eauto.
           ++ intros u Hne. destruct (frame_acq c Hlock s LOut t u Hne Ec) as [F1 F2]. split.
              ** intros Ho. destruct (F1 Ho) as [G1 G2]. split; [exact G1|cbn [q]; exact G2].
              ** intros Ho. destruct (can_acq c Hlock s LOut t Ec); congruence.
        -- intros _. exists t, m. cbn [wrest]. now rewrite upd_same.
        -- destruct Hd as (D1 & D2 & D3 & D4 & D5 & D6). unfold gdata. cbn [produced recvd q stream allread devbuf wrest tok]. rewrite A1, A3, A4, A5, A6, A7, A8.
           repeat split; auto; try congruence.
           ++ intros _. assert (Hw0 : wrest s = []).
              { destruct (wrest s) eqn:Ew; [reflexivity|]. destruct (Hw ltac:(congruence)) as (t0 & m0 & H0).
                assert (Hh : holds_out (at_ (ts t0)) = true) by (rewrite H0; reflexivity).
                destruct (Hall t0) as (_ & B2 & _). specialize (B2 Hh). destruct (Nat.eq_dec t0 t) as [->|Hd0]; [congruence|].
                destruct (can_acq c Hlock s LOut t Ec); congruence. }
              specialize (D3 Ek). rewrite Hw0, app_nil_r in D3. rewrite map_app, map_app, concat_app. cbn [map concat snd]. rewrite app_nil_r, <- D3. now rewrite <- app_assoc.
           ++ rewrite map_app. apply Forall_app. split; [exact D5|repeat constructor; exact Hv].
    + destruct (can_acquire c s LIn t) eqn:Ec; [|discriminate]. injection E as <- <-.
      split; [|split].
      * eapply others with (s := s); [exact Hall| |intros u Hne; exact (frame_acq c Hlock s LIn t u Hne Ec)].
        mine. -- intros _. rewrite owner_acq by exact Hlock. now rewrite same_refl.
              -- intros _. rewrite Ep. eexists; eexists; split; reflexivity.
      * destruct (acq_fields c Hlock s LIn t) as (_ & B & _). eapply gwit_keep; eauto.
      * now apply gdata_acq.
    + destruct (can_acquire c s LIn t) eqn:Ec; [|discriminate]. injection E as <- <-.
      split; [|split].
      * eapply others with (s := s); [exact Hall| |intros u Hne; exact (frame_acq c Hlock s LIn t u Hne Ec)].
        mine. -- intros _. rewrite owner_acq by exact Hlock. now rewrite same_refl.
              -- intros _. rewrite Ep. eexists; eexists; split; reflexivity.
      * destruct (acq_fields c Hlock s LIn t) as (_ & B & _). eapply gwit_keep; eauto.
      * now apply gdata_acq.
  - (* SApp *)
    injection E as <- <-. assert (Ho : owner c s LOut = Some t) by (apply M2; reflexivity).
    destruct (M7 m eq_refl) as [[r Hr] Hk].
    split; [|split].
    + eapply others with (s := s); [exact Hall| |].
      * mine; fin.
      * intros u Hne. apply (frame_hold_out s _ t u Hne Ho); try reflexivity. cbn [q]. intros _. destruct (q s); discriminate.
    + eapply gwit_keep; eauto. intros; congruence.
    + destruct Hd as (D1 & D2 & D3 & D4 & D5 & D6). unfold gdata. cbn [produced recvd q stream allread devbuf wrest tok].
      split; [rewrite D1; now rewrite app_assoc|]. split; [intros _; rewrite map_app, (D2 Hk); reflexivity|].
      split; [intros Hk'; congruence|]. split; [intros Hk'; congruence|]. split; [|exact D6].
      rewrite map_app. apply Forall_app. split; [exact D5|]. repeat constructor. apply M6. rewrite Hr. left. reflexivity.
  - (* SWrite *)
    assert (Ho : owner c s LOut = Some t) by (apply M2; reflexivity).
    destruct (M5 m rest eq_refl) as [Hwr Hrn]. destruct (M8 m rest eq_refl) as [[r Hr] Hk].
    destruct rest as [|b rest']; [congruence|]. injection E as <- <-.
    split; [|split].
    + eapply others with (s := s); [exact Hall| |].
      * destruct rest' as [|b2 r2]; mine; fin.
        -- intros m0 rest0 H0. injection H0 as <- <-. cbn [wrest]. split; [reflexivity|discriminate].
        -- intros m0 rest0 H0. injection H0 as <- _. split; [eauto|exact Hk].
      * intros u Hne. apply (frame_hold_out s _ t u Hne Ho); try reflexivity. cbn [q]. auto.
    + intros Hne. cbn [wrest] in *. exists t, m. rewrite upd_same. destruct rest' as [|b2 r2]; [congruence|reflexivity].
    + destruct Hd as (D1 & D2 & D3 & D4 & D5 & D6). unfold gdata. cbn [produced recvd q stream allread devbuf wrest tok].
      split; [exact D1|]. split; [exact D2|]. split; [|split; [exact D4|split; [exact D5|exact D6]]].
      intros Hk'. rewrite <- (D3 Hk'), Hwr. rewrite <- !app_assoc. reflexivity.
  - (* SRel *)
    injection E as <- <-. assert (Ho : owner c s LOut = Some t) by (apply M2; reflexivity).
    split; [|split].
    + eapply others with (s := s); [exact Hall| |intros u Hne; exact (frame_rel c Hlock s LOut t u Hne Ho)].
      mine; fin. apply valid_tl, M6.
    + destruct (rel_fields c Hlock s LOut) as (_ & B & _). eapply gwit_keep; eauto. intros; congruence.
    + now apply gdata_rel.
  - (* RBool1 *)
    injection E as <- <-. assert (Hi : owner c s LIn = Some t) by (apply M1; reflexivity).
    split; [|split; [|exact Hd]].
    + eapply others with (s := s); [exact Hall| |intros u Hne; apply frame_same; reflexivity].
      destruct (q s) eqn:Eq; mine; fin.
    + eapply gwit_keep; eauto. intros; congruence.
  - (* RPop1 *)
    assert (Hi : owner c s LIn = Some t) by (apply M1; reflexivity).
    destruct (q s) as [|m r] eqn:Eq; [exfalso; apply M3; auto|]. injection E as <- <-.
    split; [|split].
    + eapply others with (s := s); [exact Hall| |intros u Hne; apply (frame_hold_in s _ t u Hne Hi); reflexivity].
      mine; fin.
    + eapply gwit_keep; eauto. intros; congruence.
    + destruct Hd as (D1 & D2 & D3 & D4 & D5 & D6). unfold gdata, with_q. cbn [produced recvd q stream allread devbuf wrest tok].
      split; [rewrite D1, Eq, map_app; cbn [map snd]; now rewrite <- app_assoc|]. auto.
  - (* RRel1 *)
    injection E as <- <-. assert (Hi : owner c s LIn = Some t) by (apply M1; reflexivity).
    destruct (M11 eq_refl) as (o & rr & Hp & Ho).
    split; [|split].
    + eapply others with (s := s); [exact Hall| |intros u Hne; exact (frame_rel c Hlock s LIn t u Hne Hi)].
      destruct r as [m|].
      * unfold finish_recv. rewrite Hp. destruct o as [m0|b|acc]; [discriminate| |]; mine; fin.
        -- intros m1 H1. apply M6. rewrite Hp. right. exact H1.
        -- intros m1 H1. apply M6. rewrite Hp. destruct H1 as [H1|H1]; [discriminate|right; exact H1].
      * mine; fin.
    + destruct (rel_fields c Hlock s LIn) as (_ & B & _). eapply gwit_keep; eauto. intros; congruence.
    + now apply gdata_rel.
  - (* LAcq *)
    destruct (can_acquire c s LIn t) eqn:Ec; [|discriminate]. injection E as <- <-.
    split; [|split].
    + eapply others with (s := s); [exact Hall| |intros u Hne; exact (frame_acq c Hlock s LIn t u Hne Ec)].
      destruct (c_kind c) eqn:Ek; mine; fin.
    + destruct (acq_fields c Hlock s LIn t) as (_ & B & _). eapply gwit_keep; eauto. intros; congruence.
    + now apply gdata_acq.
  - (* LRead *)
    assert (Hi : owner c s LIn = Some t) by (apply M1; reflexivity). pose proof (M10 eq_refl) as Hk.
    destruct Hd as (D1 & D2 & D3 & D4 & D5 & D6).
    assert (Hbytes : Forall byte (devbuf s)).
    { pose proof (concat_enc_bytes _ D5) as Hb. rewrite <- (D3 Hk) in Hb. apply Forall_app in Hb as [_ Hb]. apply Forall_app in Hb as [Hb _]. exact Hb. }
    destruct (feed_msgs (tok s) (devbuf s) D6 Hbytes) as (ms & Hs & _ & _ & Hwf).
    destruct (feed (tok s) (devbuf s)) as [tok' toks] eqn:Ef. cbn [fst snd] in *. rewrite Hs in E. injection E as <- <-.
    split; [|split].
    + eapply others with (s := s); [exact Hall| |intros u Hne; apply (frame_hold_in s _ t u Hne Hi); reflexivity].
      mine; fin.
    + eapply gwit_keep; eauto. intros; congruence.
    + unfold gdata. cbn [produced recvd q stream allread devbuf wrest tok].
      split; [rewrite D1; now rewrite app_assoc|]. split; [intros Hk'; congruence|].
      split; [intros _; rewrite <- (D3 Hk); cbn [app]; now rewrite <- app_assoc|]. split; [|split; [exact D5|exact Hwf]].
      intros _. destruct (D4 Hk) as (toks0 & Hf0 & Hs0). exists (toks0 ++ toks). rewrite feed_app, Hf0, Ef. split; [reflexivity|].
      rewrite map_app. now apply sequence_app.
  - (* LBool *)
    injection E as <- <-. assert (Hi : owner c s LIn = Some t) by (apply M1; reflexivity).
    split; [|split; [|exact Hd]].
    + eapply others with (s := s); [exact Hall| |intros u Hne; apply frame_same; reflexivity].
      destruct (q s) eqn:Eq; mine; fin.
    + eapply gwit_keep; eauto. intros; congruence.
  - (* LPop *)
    assert (Hi : owner c s LIn = Some t) by (apply M1; reflexivity).
    destruct (q s) as [|m r] eqn:Eq; [exfalso; apply M3; auto|]. injection E as <- <-.
    split; [|split].
    + eapply others with (s := s); [exact Hall| |intros u Hne; apply (frame_hold_in s _ t u Hne Hi); reflexivity].
      mine; fin.
    + eapply gwit_keep; eauto. intros; congruence.
    + destruct Hd as (D1 & D2 & D3 & D4 & D5 & D6). unfold gdata, with_q. cbn [produced recvd q stream allread devbuf wrest tok].
      split; [rewrite D1, Eq, map_app; cbn [map snd]; now rewrite <- app_assoc|]. auto.
  - (* LRel *)
    injection E as <- <-. assert (Hi : owner c s LIn = Some t) by (apply M1; reflexivity).
    destruct (M11 eq_refl) as (o & rr & Hp & Ho).
    split; [|split].
    + eapply others with (s := s); [exact Hall| |intros u Hne; exact (frame_rel c Hlock s LIn t u Hne Hi)].
      destruct slp.
      * mine; fin.
      * unfold finish_recv. rewrite Hp. destruct o as [m0|b|acc]; [discriminate| |]; [|destruct r as [m|]]; mine; fin.
        -- intros m1 H1. apply M6. rewrite Hp. right. exact H1.
        -- intros m1 H1. apply M6. rewrite Hp. destruct H1 as [H1|H1]; [discriminate|right; exact H1].
        -- intros m1 H1. apply M6. rewrite Hp. right. exact H1.
    + destruct (rel_fields c Hlock s LIn) as (_ & B & _). eapply gwit_keep; eauto. intros; congruence.
    + now apply gdata_rel.
  - (* LSleep *)
    injection E as <- <-.
    split; [|split].
    + eapply others with (s := s); [exact Hall| |intros u Hne; apply frame_same; reflexivity].
      mine; fin.
    + eapply gwit_keep; eauto. intros; congruence.
    + revert Hd. apply gdata_eq; reflexivity.
  - discriminate.
Qed.
End StepInv.

(* ================= every schedule ================= *)
Section Runs.
Variable c : conf.
Hypothesis Hlock : c_locking c = true.
Variable progs : tid -> list op.
Hypothesis Hvalid : forall t m, In (Send m) (progs t) -> valid m = true.

Lemma init_inv : Inv c (cinit progs).
Proof.
  unfold cinit. split; [|split].
  - intros t. unfold tinv. cbn [at_ prog holds_in holds_out recv_pc].
    repeat split; try discriminate; try (intros; discriminate); try (intros [?|?]; discriminate); auto. intros m. apply Hvalid.
  - intros H. cbn in H. congruence.
  - unfold gdata, init_shared. cbn. repeat split; auto. intros _. exists []. split; reflexivity.
Qed.
Lemma run_inv : forall sched cf, Inv c cf -> Inv c (crun c sched cf).
Proof. induction sched as [|t r IH]; intros cf H; cbn [crun fold_left]; [exact H|]. apply IH, step_inv; assumption. Qed.

(* no send, receive, poll or iter_pending call ever raises *)
Theorem no_thread_raises sched t e : at_ (snd (crun c sched (cinit progs)) t) <> Raised e.
Proof.
  pose proof (run_inv sched _ init_inv) as H. destruct (crun c sched (cinit progs)) as [s ts]. destruct H as (Hall & _).
  destruct (Hall t) as (_ & _ & _ & H4 & _). apply H4.
Qed.

(* EchoPort: what was taken out plus what is queued is exactly what was put in, in that order *)
Theorem echo_fifo sched : c_kind c = KEcho ->
  let s := fst (crun c sched (cinit progs)) in map snd (stream s) = map snd (recvd s) ++ q s.
Proof.
  intros Hk. pose proof (run_inv sched _ init_inv) as H. destruct (crun c sched (cinit progs)) as [s ts]. destruct H as (_ & _ & D1 & D2 & _).
  cbn [fst]. rewrite <- (D2 Hk). exact D1.
Qed.
End Runs.

Section Order.
Variable c : conf.
Hypothesis Hlock : c_locking c = true.
Variable progs : tid -> list op.

Definition Sinv (cf : cfg) : Prop := let '(s, ts) := cf in forall t, sends (progs t) = mine t (stream s) ++ pending_sends (c_kind c) (ts t).

Lemma mine_app t st x : mine t (st ++ [x]) = mine t st ++ (if Nat.eqb (fst x) t then [snd x] else []).
Proof. unfold mine. rewrite filter_app, map_app. destruct x as [a b]. cbn [filter fst snd]. destruct (Nat.eqb a t); cbn [map snd]; reflexivity. Qed.

Lemma step_sends cf t : Inv c cf -> Sinv cf -> Sinv (cstep c cf t).
Proof.
  destruct cf as [s ts]. intros (Hall & _ & _) HS. unfold cstep.
  destruct (step_thread c s t (ts t)) as [[s' th']|] eqn:E; [|exact HS].
  pose proof (Hall t) as (M1 & M2 & M3 & M4 & M5 & M6 & M7 & M8 & M9 & M10 & M11). pose proof (HS t) as St.
  unfold step_thread in E.
  change (forall u, sends (progs u) = mine u (stream s') ++ pending_sends (c_kind c) (upd ts t th' u)).
  assert (Hsame : forall th2, stream s' = stream s -> pending_sends (c_kind c) th2 = pending_sends (c_kind c) (ts t) -> forall u, sends (progs u) = mine u (stream s') ++ pending_sends (c_kind c) (upd ts t th2 u)).
  { intros th2 Hst Hp u. rewrite Hst. destruct (Nat.eq_dec u t) as [->|Hne]; [rewrite upd_same, Hp; exact St|rewrite upd_other by exact Hne; apply HS]. }
  assert (Happ : forall th2 m, stream s' = stream s ++ [(t, m)] -> pending_sends (c_kind c) (ts t) = m :: pending_sends (c_kind c) th2 ->
                 forall u, sends (progs u) = mine u (stream s') ++ pending_sends (c_kind c) (upd ts t th2 u)).
  { intros th2 m Hst Hp u. rewrite Hst, mine_app. cbn [fst snd]. destruct (Nat.eq_dec u t) as [->|Hne].
    - rewrite upd_same, Nat.eqb_refl, St, Hp, <- app_assoc. reflexivity.
    - rewrite upd_other by exact Hne. replace (Nat.eqb t u) with false by (symmetry; apply Nat.eqb_neq; congruence). rewrite app_nil_r. apply HS. }
  destruct (at_ (ts t)) eqn:Epc.
  - destruct (prog (ts t)) as [|o r] eqn:Ep; [discriminate|]. destruct o as [m|b|acc].
    + destruct (can_acquire c s LOut t); [|discriminate]. destruct (c_kind c) eqn:Ek; injection E as <- <-.
      * apply Hsame; [apply (acq_fields c Hlock)|]. unfold pending_sends. cbn [set_pc at_ prog]. now rewrite Epc.
      * apply (Happ _ m); [cbn [stream]; f_equal; apply (acq_fields c Hlock)|]. unfold pending_sends. cbn [set_pc at_ prog]. rewrite Epc, Ep. reflexivity.
    + destruct (can_acquire c s LIn t); [|discriminate]. injection E as <- <-.
      apply Hsame; [apply (acq_fields c Hlock)|]. unfold pending_sends. cbn [set_pc at_ prog]. now rewrite Epc.
    + destruct (can_acquire c s LIn t); [|discriminate]. injection E as <- <-.
      apply Hsame; [apply (acq_fields c Hlock)|]. unfold pending_sends. cbn [set_pc at_ prog]. now rewrite Epc.
  - injection E as <- <-. destruct (M7 m eq_refl) as [[r Hr] _].
    apply (Happ _ m); [reflexivity|]. unfold pending_sends. cbn [set_pc at_ prog]. rewrite Epc, Hr. reflexivity.
  - destruct (M5 m rest eq_refl) as [_ Hn]. destruct rest as [|b rest']; [congruence|]. injection E as <- <-.
    apply Hsame; [reflexivity|]. unfold pending_sends. rewrite Epc. destruct rest'; reflexivity.
  - injection E as <- <-. apply Hsame; [apply (rel_fields c Hlock)|]. unfold pending_sends, finish_send. cbn [at_ prog]. now rewrite Epc.
  - injection E as <- <-. apply Hsame; [reflexivity|]. unfold pending_sends. rewrite Epc. destruct (q s); reflexivity.
  - destruct (q s) as [|m r]; injection E as <- <-; (apply Hsame; [reflexivity|]); unfold pending_sends; rewrite Epc; reflexivity.
  - injection E as <- <-. apply Hsame; [apply (rel_fields c Hlock)|]. destruct r as [m|].
    + destruct (M11 eq_refl) as (o & rr & Hp & Ho). unfold pending_sends at 2. rewrite Epc. unfold finish_recv, pending_sends. rewrite Hp.
      destruct o as [m0|b|acc]; [discriminate|reflexivity|reflexivity].
    + unfold pending_sends. rewrite Epc. reflexivity.
  - destruct (can_acquire c s LIn t); [|discriminate]. injection E as <- <-.
    apply Hsame; [apply (acq_fields c Hlock)|]. unfold pending_sends. rewrite Epc. destruct (c_kind c); reflexivity.
  - destruct (feed (tok s) (devbuf s)) as [tok' toks]. destruct (sequence (map dec toks)); injection E as <- <-;
    (apply Hsame; [reflexivity|]); unfold pending_sends; rewrite Epc; reflexivity.
  - injection E as <- <-. apply Hsame; [reflexivity|]. unfold pending_sends. rewrite Epc. destruct (q s); reflexivity.
  - destruct (q s) as [|m r]; injection E as <- <-; (apply Hsame; [reflexivity|]); unfold pending_sends; rewrite Epc; reflexivity.
  - injection E as <- <-. apply Hsame; [apply (rel_fields c Hlock)|]. destruct slp.
    + unfold pending_sends. rewrite Epc. reflexivity.
    + destruct (M11 eq_refl) as (o & rr & Hp & Ho). unfold pending_sends at 2. rewrite Epc. unfold finish_recv, pending_sends. rewrite Hp.
      destruct o as [m0|b|acc]; [discriminate|reflexivity|destruct r; reflexivity].
  - injection E as <- <-. apply Hsame; [reflexivity|]. unfold pending_sends. rewrite Epc. reflexivity.
  - discriminate.
Qed.
End Order.

Section Final.
Variable c : conf.
Hypothesis Hlock : c_locking c = true.
Variable progs : tid -> list op.
Hypothesis Hvalid : forall t m, In (Send m) (progs t) -> valid m = true.

Lemma run_sends : forall sched cf, Inv c cf -> Sinv c progs cf -> Sinv c progs (crun c sched cf).
Proof.
  induction sched as [|t r IH]; intros cf H HS; cbn [crun fold_left]; [exact HS|]. apply IH; [apply step_inv; assumption|apply step_sends; assumption].
Qed.
Lemma init_sends : Sinv c progs (cinit progs).
Proof. intros t. reflexivity. Qed.

(* each sender's messages enter the port in the order it sends them: the part of [stream] that comes from thread t is exactly the
   messages of the sends t has begun, in program order *)
Theorem sender_order sched t : let '(s, ts) := crun c sched (cinit progs) in
  sends (progs t) = mine t (stream s) ++ pending_sends (c_kind c) (ts t).
Proof.
  pose proof (run_sends sched _ (init_inv c progs Hvalid) init_sends) as H. destruct (crun c sched (cinit progs)) as [s ts]. apply H.
Qed.

Lemma complete_prefix_is_prefix : forall ms k, exists rest, ms = complete_prefix ms k ++ rest.
Proof.
  induction ms as [|m r IH]; intros k; cbn [complete_prefix]; [exists []; reflexivity|].
  destruct (Nat.leb (length (enc m)) k); [|exists (m :: r); reflexivity]. destruct (IH (k - length (enc m))%nat) as [rest Hr]. exists rest. cbn [app]. now rewrite <- Hr.
Qed.
Lemma complete_prefix_all : forall ms k, (length (concat (map enc ms)) <= k)%nat -> complete_prefix ms k = ms.
Proof.
  induction ms as [|m r IH]; intros k Hk; cbn [complete_prefix]; [reflexivity|]. cbn [map concat] in Hk. rewrite app_length in Hk.
  replace (Nat.leb (length (enc m)) k) with true by (symmetry; apply Nat.leb_le; lia). now rewrite IH by lia.
Qed.

(* device port / IOPort over a cable: whatever has been taken in is, intact and in order, a prefix of the messages in the order their
   senders obtained the port - no message is split, merged with another, duplicated or reordered, under any schedule *)
Theorem device_intact sched : c_kind c = KDevice ->
  let s := fst (crun c sched (cinit progs)) in
  map snd (recvd s) ++ q s = complete_prefix (map snd (stream s)) (length (allread s)) /\ exists rest, map snd (stream s) = (map snd (recvd s) ++ q s) ++ rest.
Proof.
  intros Hk. pose proof (run_inv c Hlock sched _ (init_inv c progs Hvalid)) as H.
  destruct (crun c sched (cinit progs)) as [s ts]. destruct H as (_ & _ & D1 & _ & D3 & D4 & D5 & _). cbn [fst].
  assert (E : map snd (recvd s) ++ q s = complete_prefix (map snd (stream s)) (length (allread s))).
  { destruct (D4 Hk) as (toks & Hf & Hs). rewrite <- D1.
    assert (Ha : allread s = firstn (length (allread s)) (concat (map enc (map snd (stream s))))).
    { rewrite <- (D3 Hk), firstn_app, firstn_all, Nat.sub_diag. cbn [firstn]. now rewrite app_nil_r. }
    pose proof (cut_tokens (map snd (stream s)) (length (allread s)) D5) as Hc. rewrite <- Ha, Hf in Hc. cbn [snd] in Hc. subst toks.
    rewrite (msgs_of_enc _ (complete_prefix_valid _ _ D5)) in Hs. congruence. }
  split; [exact E|]. rewrite E. apply complete_prefix_is_prefix.
Qed.
(* once the senders are done and the device has been read empty, what was received plus what is queued is everything that was sent *)
Theorem device_all_delivered sched : c_kind c = KDevice ->
  let '(s, ts) := crun c sched (cinit progs) in
  (forall t m r, at_ (ts t) <> SWrite m r) -> devbuf s = [] -> map snd (stream s) = map snd (recvd s) ++ q s.
Proof.
  intros Hk. pose proof (device_intact sched Hk) as HI. pose proof (run_inv c Hlock sched _ (init_inv c progs Hvalid)) as H.
  destruct (crun c sched (cinit progs)) as [s ts]. cbn [fst] in HI. destruct H as (_ & Hw & _ & _ & D3 & _). intros Hnw Hdb.
  assert (Hw0 : wrest s = []) by (destruct (wrest s) eqn:Ew; [reflexivity|]; destruct (Hw ltac:(congruence)) as (t0 & m0 & H0); exfalso; eapply Hnw; eauto).
  destruct HI as [E _]. rewrite E. symmetry. apply complete_prefix_all. rewrite <- (D3 Hk), Hdb, Hw0. cbn [app]. rewrite app_nil_r. lia.
Qed.
End Final.

(* ---- without the lock (DummyLock on a port that shares its deque): refuted by a schedule ---- *)
Definition unlocked : conf := {| c_locking := false; c_kind := KEcho; c_same_lock := true |}.
Definition race_progs (t : tid) : list op := match t with 0%nat => [Send (NoteOn 0 1 2)] | 1%nat => [Recv false] | 2%nat => [Recv false] | _ => [] end.
Example unlocked_refuted : at_ (snd (crun unlocked [0; 0; 0; 1; 1; 2; 2; 1; 2]%nat (cinit race_progs)) 2%nat) = Raised IndexError.
Proof. vm_compute. reflexivity. Qed.

(* ================= what the callers got = what was popped, thread by thread, in order ================= *)
Definition result_msgs (r : result) : list msg := match r with RGot (Some m) => [m] | RList l => l | _ => [] end.
Definition acc_of (th : thread) : list msg := match prog th with IterPending acc :: _ => acc | _ => [] end.
Definition inflight (p : pc) : list msg := match p with RRel1 (Some m) => [m] | LRel (Some m) _ => [m] | _ => [] end.
(* everything the calls of this thread have handed (or are about to hand) to their caller, in order *)
Definition got (th : thread) : list msg := flat_map result_msgs (results th) ++ acc_of th ++ inflight (at_ th).
Definition clean (p : list op) : Prop := forall acc, In (IterPending acc) p -> acc = [].

Lemma acc_of_clean th : clean (prog th) -> acc_of th = [].
Proof. unfold acc_of, clean. destruct (prog th) as [|[m|b|acc] r]; try reflexivity. intros H. apply H. left. reflexivity. Qed.
Lemma clean_tl p : clean p -> clean (tl p).
Proof. intros H acc Hi. apply H. destruct p; [exact Hi|right; exact Hi]. Qed.

Section Received.
Variable c : conf.
Hypothesis Hlock : c_locking c = true.

Definition Rinv (cf : cfg) : Prop := let '(s, ts) := cf in forall t, got (ts t) = mine t (recvd s) /\ clean (tl (prog (ts t))) /\ (forall m, at_ (ts t) <> LRel (Some m) true).

Lemma flat_map_app' {A B} (f : A -> list B) l1 l2 : flat_map f (l1 ++ l2) = flat_map f l1 ++ flat_map f l2.
Proof. induction l1 as [|x l1 IH]; cbn; [reflexivity|]. now rewrite IH, app_assoc. Qed.

Lemma step_recv cf t : Inv c cf -> Rinv cf -> Rinv (cstep c cf t).
Proof.
  destruct cf as [s ts]. intros (Hall & _ & _) HR. unfold cstep.
  destruct (step_thread c s t (ts t)) as [[s' th']|] eqn:E; [|exact HR].
  pose proof (Hall t) as (M1 & M2 & M3 & M4 & M5 & M6 & M7 & M8 & M9 & M10 & M11). pose proof (HR t) as (Rt0 & Ct & Cs). pose proof Rt0 as Rt. unfold got in Rt.
  unfold step_thread in E.
  change (forall u, got (upd ts t th' u) = mine u (recvd s') /\ clean (tl (prog (upd ts t th' u))) /\ (forall m, at_ (upd ts t th' u) <> LRel (Some m) true)).
  (* a step that pops nothing and only moves the program counter within the same operation *)
  assert (Hsame : forall th2, recvd s' = recvd s -> got th2 = got (ts t) -> prog th2 = prog (ts t) -> (forall m, at_ th2 <> LRel (Some m) true) ->
                  forall u, got (upd ts t th2 u) = mine u (recvd s') /\ clean (tl (prog (upd ts t th2 u))) /\ (forall m, at_ (upd ts t th2 u) <> LRel (Some m) true)).
  { intros th2 Hr Hg Hp Ha u. rewrite Hr. destruct (Nat.eq_dec u t) as [->|Hne]; [rewrite upd_same, Hg, Hp; split; [exact Rt0|split; [exact Ct|exact Ha]]|rewrite upd_other by exact Hne; apply HR]. }
  assert (Hgot_pc : forall p, inflight p = [] -> inflight (at_ (ts t)) = [] -> got (set_pc (ts t) p) = got (ts t)).
  { intros p Hp Hq. unfold got, acc_of. cbn [set_pc results prog at_]. now rewrite Hp, Hq. }
  destruct (at_ (ts t)) eqn:Epc.
  - destruct (prog (ts t)) as [|o r] eqn:Ep; [discriminate|]. destruct o as [m|b|acc].
    + destruct (can_acquire c s LOut t); [|intros; discriminate]. destruct (c_kind c) eqn:Ek; injection E as <- <-.
      * apply Hsame; [apply (acq_fields c Hlock)|apply Hgot_pc; [reflexivity|reflexivity]|first [reflexivity|exact Ep]|intros; discriminate].
      * apply Hsame; [cbn [recvd]; apply (acq_fields c Hlock)|apply Hgot_pc; [reflexivity|reflexivity]|first [reflexivity|exact Ep]|intros; discriminate].
    + destruct (can_acquire c s LIn t); [|intros; discriminate]. injection E as <- <-.
      apply Hsame; [apply (acq_fields c Hlock)|apply Hgot_pc; [reflexivity|reflexivity]|first [reflexivity|exact Ep]|intros; discriminate].
    + destruct (can_acquire c s LIn t); [|intros; discriminate]. injection E as <- <-.
      apply Hsame; [apply (acq_fields c Hlock)|apply Hgot_pc; [reflexivity|reflexivity]|first [reflexivity|exact Ep]|intros; discriminate].
  - injection E as <- <-. apply Hsame; [reflexivity|apply Hgot_pc; [reflexivity|reflexivity]|first [reflexivity|exact Ep]|intros; discriminate].
  - destruct rest as [|b rest']; injection E as <- <-.
    + apply Hsame; [reflexivity|apply Hgot_pc; reflexivity|reflexivity|intros; discriminate].
    + apply Hsame; [reflexivity|apply Hgot_pc; [destruct rest'; reflexivity|reflexivity]|reflexivity|destruct rest'; intros; discriminate].
  - (* SRel: the send operation ends *)
    injection E as <- <-. destruct (M9 eq_refl) as (m & r & Hp). intros u. destruct (rel_fields c Hlock s LOut) as (_ & _ & _ & _ & _ & Fr & _). rewrite Fr.
    destruct (Nat.eq_dec u t) as [->|Hne]; [rewrite upd_same|rewrite upd_other by exact Hne; apply HR].
    rewrite Hp in Ct. cbn [tl] in Ct.
    assert (Ha' : acc_of (finish_send (ts t)) = []) by (apply acc_of_clean; unfold finish_send; cbn [prog]; rewrite Hp; exact Ct).
    split; [|split].
    + unfold got. rewrite Ha'. unfold finish_send. cbn [results at_ inflight]. rewrite flat_map_app'. cbn [flat_map result_msgs app].
      unfold acc_of in Rt. rewrite Hp in Rt. cbn [inflight] in Rt. rewrite <- Rt. now rewrite !app_nil_r.
    + unfold finish_send. cbn [prog]. rewrite Hp. cbn [tl]. apply clean_tl, Ct.
    + intros; discriminate.
  - injection E as <- <-. apply Hsame; [reflexivity|apply Hgot_pc; [destruct (q s); reflexivity|reflexivity]|reflexivity|destruct (q s); intros; discriminate].
  - (* RPop1 *)
    destruct (q s) as [|m r] eqn:Eq; injection E as <- <-.
    + apply Hsame; [reflexivity|apply Hgot_pc; [reflexivity|reflexivity]|first [reflexivity|exact Ep]|intros; discriminate].
    + intros u. unfold with_q. cbn [recvd]. rewrite mine_app. cbn [fst snd].
      destruct (Nat.eq_dec u t) as [->|Hne]; [rewrite upd_same, Nat.eqb_refl|rewrite upd_other by exact Hne; replace (Nat.eqb t u) with false by (symmetry; apply Nat.eqb_neq; congruence); rewrite app_nil_r; apply HR].
      split; [|split; [exact Ct|intros; discriminate]]. unfold got. cbn [set_pc results prog at_ inflight]. unfold acc_of in *. cbn [set_pc prog]. cbn [inflight] in Rt. rewrite app_nil_r in Rt.
      rewrite <- Rt. now rewrite <- app_assoc.
  - (* RRel1 *)
    injection E as <- <-. destruct (M11 eq_refl) as (o & rr & Hp & Ho). intros u. destruct (rel_fields c Hlock s LIn) as (_ & _ & _ & _ & _ & Fr & _). rewrite Fr.
    destruct (Nat.eq_dec u t) as [->|Hne]; [rewrite upd_same|rewrite upd_other by exact Hne; apply HR].
    rewrite Hp in Ct. cbn [tl] in Ct. destruct r as [m|].
    + unfold finish_recv. rewrite Hp. destruct o as [m0|b|acc]; [discriminate| |].
      * split; [|split; [cbn [prog]; apply clean_tl, Ct|intros; discriminate]].
        unfold got. cbn [results at_ inflight]. rewrite (acc_of_clean {| prog := rr; at_ := AtStart; results := results (ts t) ++ [RGot (Some m)] |} Ct).
        rewrite flat_map_app'. cbn [flat_map result_msgs app]. unfold acc_of in Rt. rewrite Hp in Rt. cbn [inflight app] in Rt. rewrite <- Rt. now rewrite !app_nil_r.
      * split; [|split; [cbn [prog tl]; exact Ct|intros; discriminate]].
        unfold got, acc_of. cbn [results at_ inflight prog]. unfold acc_of in Rt. rewrite Hp in Rt. cbn [inflight] in Rt. rewrite <- Rt. rewrite ?app_nil_r, <- ?app_assoc. reflexivity.
    + split; [|split; [cbn [set_pc prog]; rewrite Hp; exact Ct|intros; discriminate]].
      unfold got, acc_of. cbn [set_pc results at_ inflight prog]. unfold acc_of in Rt. cbn [inflight] in Rt. exact Rt.
  - destruct (can_acquire c s LIn t); [|discriminate]. injection E as <- <-.
    apply Hsame; [apply (acq_fields c Hlock)|apply Hgot_pc; [destruct (c_kind c); reflexivity|reflexivity]|reflexivity|destruct (c_kind c); intros; discriminate].
  - destruct (feed (tok s) (devbuf s)) as [tok' toks]. destruct (sequence (map dec toks)); injection E as <- <-;
    (apply Hsame; [reflexivity|apply Hgot_pc; reflexivity|reflexivity|intros; discriminate]).
  - injection E as <- <-. apply Hsame; [reflexivity|apply Hgot_pc; [destruct (q s); reflexivity|reflexivity]|reflexivity|destruct (q s); intros; discriminate].
  - destruct (q s) as [|m r] eqn:Eq; injection E as <- <-.
    + apply Hsame; [reflexivity|apply Hgot_pc; reflexivity|reflexivity|intros; discriminate].
    + intros u. unfold with_q. cbn [recvd]. rewrite mine_app. cbn [fst snd].
      destruct (Nat.eq_dec u t) as [->|Hne]; [rewrite upd_same, Nat.eqb_refl|rewrite upd_other by exact Hne; replace (Nat.eqb t u) with false by (symmetry; apply Nat.eqb_neq; congruence); rewrite app_nil_r; apply HR].
      split; [|split; [exact Ct|intros; discriminate]]. unfold got. cbn [set_pc results prog at_ inflight]. unfold acc_of in *. cbn [set_pc prog]. cbn [inflight] in Rt. rewrite app_nil_r in Rt.
      rewrite <- Rt. now rewrite <- app_assoc.
  - injection E as <- <-. destruct (M11 eq_refl) as (o & rr & Hp & Ho). intros u. destruct (rel_fields c Hlock s LIn) as (_ & _ & _ & _ & _ & Fr & _). rewrite Fr.
    destruct (Nat.eq_dec u t) as [->|Hne]; [rewrite upd_same|rewrite upd_other by exact Hne; apply HR].
    rewrite Hp in Ct. cbn [tl] in Ct. destruct slp.
    + destruct r as [m|]; [exfalso; eapply Cs; reflexivity|].
      split; [|split; [cbn [set_pc prog]; rewrite Hp; exact Ct|intros; discriminate]].
      unfold got, acc_of. cbn [set_pc results at_ inflight prog]. unfold acc_of in Rt. cbn [inflight] in Rt. exact Rt.
    + unfold finish_recv. rewrite Hp. destruct o as [m0|b|acc]; [discriminate| |].
      * split; [|split; [cbn [prog]; apply clean_tl, Ct|intros; discriminate]].
        unfold got. cbn [results at_ inflight]. rewrite (acc_of_clean {| prog := rr; at_ := AtStart; results := results (ts t) ++ [RGot r] |} Ct).
        rewrite flat_map_app'. cbn [flat_map app]. unfold acc_of in Rt. rewrite Hp in Rt. cbn [app] in Rt. rewrite <- Rt. destruct r; cbn [result_msgs inflight]; now rewrite !app_nil_r.
      * destruct r as [m|].
        -- split; [|split; [cbn [prog tl]; exact Ct|intros; discriminate]].
           unfold got, acc_of. cbn [results at_ inflight prog]. unfold acc_of in Rt. rewrite Hp in Rt. cbn [inflight] in Rt. rewrite <- Rt. rewrite ?app_nil_r, <- ?app_assoc. reflexivity.
        -- split; [|split; [cbn [prog]; apply clean_tl, Ct|intros; discriminate]].
           unfold got. cbn [results at_ inflight]. rewrite (acc_of_clean {| prog := rr; at_ := AtStart; results := results (ts t) ++ [RList acc] |} Ct).
           rewrite flat_map_app'. cbn [flat_map result_msgs app]. unfold acc_of in Rt. rewrite Hp in Rt. cbn [inflight] in Rt. rewrite <- Rt. now rewrite !app_nil_r.
  - injection E as <- <-. apply Hsame; [reflexivity|apply Hgot_pc; reflexivity|reflexivity|intros; discriminate].
  - discriminate.
Qed.
End Received.

Section ReceivedFinal.
Variable c : conf.
Hypothesis Hlock : c_locking c = true.
Variable progs : tid -> list op.
Hypothesis Hvalid : forall t m, In (Send m) (progs t) -> valid m = true.
Hypothesis Hclean : forall t, clean (progs t).

Lemma init_recv : Rinv (cinit progs).
Proof.
  intros t. cbn [cinit]. split; [|split].
  - unfold got. cbn [results at_ inflight flat_map app]. rewrite (acc_of_clean {| prog := progs t; at_ := AtStart; results := [] |} (Hclean t)). reflexivity.
  - cbn [prog]. apply clean_tl, Hclean.
  - intros; discriminate.
Qed.
Lemma run_recv : forall sched cf, Inv c cf -> Rinv cf -> Rinv (crun c sched cf).
Proof.
  induction sched as [|t r IH]; intros cf H HR; cbn [crun fold_left]; [exact HR|]. apply IH; [apply step_inv; assumption|apply step_recv; assumption].
Qed.
(* every message popped from the port reaches exactly one caller: what thread t's receive / poll / iter_pending calls returned (or are
   returning), in order, is exactly what thread t popped, in order *)
Theorem callers_get_what_was_popped sched t : let '(s, ts) := crun c sched (cinit progs) in got (ts t) = mine t (recvd s).
Proof.
  pose proof (run_recv sched _ (init_inv c progs Hvalid) init_recv) as H. destruct (crun c sched (cinit progs)) as [s ts]. apply H.
Qed.
End ReceivedFinal.
