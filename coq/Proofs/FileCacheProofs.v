(* FileCacheProofs.v — a MidiFile always reflects its current contents (C16). *)
From Coq Require Import ZArith List Bool.
Require Import Mido.Model.Base Mido.Model.Tracks Mido.Model.FileCache.
Import ListNotations.
Open Scope Z_scope.

Definition same_contents (a b : fstate) : Prop := c_type a = c_type b /\ c_tpb a = c_tpb b /\ c_tracks a = c_tracks b.

Lemma observe_nomemo s : observe false s = (s, if c_type s =? 2 then Raise TypeError else Ok (merge_tracks (c_tracks s))).
Proof. unfold observe. destruct (c_type s =? 2); reflexivity. Qed.

(* without the memo an observation depends on the contents only *)
Lemma observe_contents a b : same_contents a b -> snd (observe false a) = snd (observe false b).
Proof. intros (H1 & _ & H3). rewrite !observe_nomemo. cbn [snd]. now rewrite H1, H3. Qed.

Lemma edit_contents memo a b e : same_contents a b -> same_contents (apply_edit memo a e) (apply_edit memo b e).
Proof. intros (H1 & H2 & H3). unfold same_contents, apply_edit. cbn. now rewrite H1, H2, H3. Qed.

(* after ANY history of edits and earlier observations, the next observation is that of a freshly built file with the same contents *)
Theorem reflects_contents : forall ops s,
  let s' := fst (run_file false s ops) in
  snd (observe false s') = snd (observe false (fresh (c_type s') (c_tpb s') (c_tracks s'))).
Proof. intros ops s s'. apply observe_contents. repeat split. Qed.

(* earlier observations change nothing: dropping them from the history gives the same final contents *)
Fixpoint edits_only (ops : list fop) : list fop := match ops with [] => [] | FObserve :: r => edits_only r | o :: r => o :: edits_only r end.
Theorem observations_are_pure : forall ops s, same_contents (fst (run_file false s ops)) (fst (run_file false s (edits_only ops))).
Proof.
  induction ops as [|o r IH]; intros s; [repeat split|]. destruct o as [e|]; cbn [run_file edits_only].
  - apply IH.
  - rewrite observe_nomemo. destruct (run_file false s r) as [s2 os] eqn:E. cbn [fst]. specialize (IH s). now rewrite E in IH.
Qed.

(* with the memo (the tree before the repair) an earlier observation makes a later one stale *)
Definition e0 : ev := {| time := 5; eot := false; trk := 0; idx := 0 |}.
Theorem memo_refuted : exists ops,
  snd (run_file true (fresh 1 480 []) ops) <> snd (run_file false (fresh 1 480 []) ops).
Proof.
  exists [FEdit (EAppendTrack [e0]); FObserve; FEdit (EInsertMsg 0 1 e0); FObserve]. vm_compute. discriminate.
Qed.
