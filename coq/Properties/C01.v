(* C01 — Message byte codec round-trips every valid message.  Statements only; each closed by [exact]. *)
From Coq Require Import ZArith List Bool.
Require Import Mido.Model.Base Mido.Model.Codec Mido.Proofs.CodecProofs.
Import ListNotations.
Open Scope Z_scope.

(* decoding the encoding gives back type, every attribute and the time passed through (any time type) *)
Theorem C01_roundtrip : forall (T : Type) (m : msg) (t : T), valid m = true -> from_bytes (enc m) t = Ok (m, t).
Proof. exact roundtrip_time. Qed.
Print Assumptions C01_roundtrip.

(* the encoding is one well-formed MIDI 1.0 message *)
Theorem C01_wellformed : forall m, valid m = true ->
  exists st data, enc m = st :: data /\ st = status_of m /\ 128 <= st <= 255 /\
    (kind_of m <> KSysex -> Forall (fun x => 0 <= x <= 127) data) /\
    (forall p, m = Sysex p -> data = p ++ [247] /\ Forall (fun x => 0 <= x <= 127) p).
Proof. exact wellformed. Qed.
Print Assumptions C01_wellformed.

(* exact bit layout of the standard, stated with + * / mod only *)
Theorem C01_layout : forall m, valid m = true -> enc m = std_enc m.
Proof. exact layout. Qed.
Print Assumptions C01_layout.

Theorem C01_length : forall m, Z.of_nat (length (enc m)) = msg_len m.
Proof. exact length_agrees. Qed.
Print Assumptions C01_length.

(* hex() read back by from_hex(): empty or one-character non-hex-digit separator given to both;
   and any whitespace separator with from_hex's default sep=None *)
Theorem C01_hex : forall (T : Type) m sep (t : T), valid m = true -> sep_ok sep ->
  from_hex (hex m sep) (Some sep) t = Ok (m, t).
Proof. exact hex_roundtrip. Qed.
Print Assumptions C01_hex.

Theorem C01_hex_default : forall (T : Type) m c (t : T), valid m = true -> is_ws c = true ->
  from_hex (hex m [c]) None t = Ok (m, t).
Proof. exact hex_roundtrip_default. Qed.
Print Assumptions C01_hex_default.

(* separators of any length that hold no hexadecimal digit and no whitespace character other than the space ("--", ", ", " : ", "-x-") *)
Theorem C01_hex_multi : forall (T : Type) m sep (t : T), valid m = true -> sep_ok_multi sep ->
  from_hex (hex m sep) (Some sep) t = Ok (m, t).
Proof. exact hex_roundtrip_multi. Qed.
Print Assumptions C01_hex_multi.

(* non-vacuity: a non-trivial message meets the hypothesis *)
Example C01_nonvacuous : valid (Pitchwheel 9 (-8191)) = true /\ enc (Pitchwheel 9 (-8191)) = [233; 1; 0].
Proof. split; reflexivity. Qed.
