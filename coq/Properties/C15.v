(* C15 — copy, freeze and thaw have value semantics. *)
From Coq Require Import ZArith List Bool.
Require Import Mido.Model.Base Mido.Model.Frozen Mido.Proofs.FrozenProofs.
Import ListNotations.
Open Scope Z_scope.

Theorem C15_copy : forall h l o, nth_error h l = Some o ->
  exists h', do_copy h l [] = (h', Ok (Some (length h))) /\ nth_error h' (length h) = Some o /\ nth_error h' l = Some o /\ length h <> l.
Proof. exact copy_plain. Qed.
Print Assumptions C15_copy.
Theorem C15_freeze_none : forall h, do_freeze h None = (h, Ok None). Proof. exact freeze_none. Qed.
Print Assumptions C15_freeze_none.
Theorem C15_thaw_none : forall h, do_thaw h None = (h, Ok None). Proof. exact thaw_none. Qed.
Print Assumptions C15_thaw_none.
Theorem C15_freeze_frozen : forall h l o, nth_error h l = Some o -> o_frozen o = true -> do_freeze h (Some l) = (h, Ok (Some l)).
Proof. exact freeze_frozen. Qed.
Print Assumptions C15_freeze_frozen.
Theorem C15_thaw_freeze : forall h l o, nth_error h l = Some o -> o_frozen o = false ->
  exists h1 l1 h2 l2 o2, do_freeze h (Some l) = (h1, Ok (Some l1)) /\ do_thaw h1 (Some l1) = (h2, Ok (Some l2)) /\
    nth_error h2 l2 = Some o2 /\ obj_eq o2 o /\ o_cls o2 = o_cls o /\ o_frozen o2 = false.
Proof. exact thaw_freeze. Qed.
Print Assumptions C15_thaw_freeze.
Theorem C15_frozen_immutable : forall h l o a v, nth_error h l = Some o -> o_frozen o = true ->
  do_set h l a v = (h, Raise ValueError) /\ do_del h l a = (h, Raise AttributeError).
Proof. exact frozen_immutable. Qed.
Print Assumptions C15_frozen_immutable.
(* any sequence of assignments on other objects leaves an object unchanged *)
Theorem C15_independence : forall ops h l', Forall (fun op => fst (fst op) <> l') ops ->
  nth_error (fold_left (fun hh op => fst (do_set hh (fst (fst op)) (snd (fst op)) (snd op))) ops h) l' = nth_error h l'.
Proof. exact sets_frame. Qed.
Print Assumptions C15_independence.
Theorem C15_hash : forall a b, obj_eq a b -> hash_key a = hash_key b.
Proof. exact hash_equal. Qed.
Print Assumptions C15_hash.
