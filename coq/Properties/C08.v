(* C08 — file bytes conform to the Standard MIDI File format in both directions. *)
From Coq Require Import ZArith List Bool.
Require Import Mido.Model.Base Mido.Model.Codec Mido.Model.Varint Mido.Model.Meta Mido.Model.Smf Mido.Model.SmfSpec.
Require Import Mido.Proofs.VarintProofs Mido.Proofs.MetaProofs Mido.Proofs.SmfProofs Mido.Proofs.SmfSpecProofs.
Import ListNotations.
Open Scope Z_scope.

(* WRITE: under the independent reference decoder the bytes of save() are exactly the in-memory header and events
   (with end_of_track folded to one closing FF 2F 00 per track); layouts restated with + * / mod only *)
Theorem C08_write_ref : forall cs f bs, file_ok cs f -> header_std f -> save cs f = Ok bs ->
  exists rf, raw_of_file cs (normalise f) = Ok rf /\ ref_decode bs = Some rf.
Proof. exact save_ref_decode. Qed.
Print Assumptions C08_write_ref.

(* WRITE: the bytes are the reference encoder's canonical rendering: no padding in any variable-length quantity, a status
   byte omitted exactly when the previous event of the track is a channel message with the same status (never after a
   meta, sysex or system common event), sysex as F0 <length> data F7, exact chunk lengths, a 6-byte header chunk *)
Theorem C08_write_canonical : forall cs f bs, file_ok cs f -> header_std f -> save cs f = Ok bs ->
  exists rf, raw_of_file cs (normalise f) = Ok rf /\ bs = enc_file [] [] rf /\
    Forall (fun tr => zlen (enc_raws [] None tr) < 4294967296) (snd rf) /\ fst rf = (f_type f, zlen (f_tracks f), f_tpb f) /\
    0 <= zlen (f_tracks f) <= 32767.
Proof. exact save_is_canonical. Qed.
Print Assumptions C08_write_canonical.
Theorem C08_minimal_vlq : forall n, 0 <= n -> enc_varint n = [n] /\ n < 128 \/ exists d r, enc_varint n = d :: r /\ d <> 128 /\ 128 <= n.
Proof. exact enc_varint_minimal. Qed.
Print Assumptions C08_minimal_vlq.

(* the reference pair is coherent: the reference decoder reads back every legal rendering of a well-formed raw file *)
Theorem C08_ref_coherent : forall extra css fmt division trs,
  0 <= fmt < 65536 -> 0 <= division < 65536 -> zlen trs < 65536 -> zlen extra < 4294967290 ->
  Forall (Forall raw_wf) trs -> (forall cs tr, In tr trs -> zlen (enc_raws cs None tr) < 4294967296) ->
  ref_decode (enc_file extra css ((fmt, zlen trs, division), trs)) = Some ((fmt, zlen trs, division), trs).
Proof. exact ref_decode_enc. Qed.
Print Assumptions C08_ref_coherent.

(* READ: every standard-conformant encoding of the events of f — any number of 0x80 padding bytes on any delta or length,
   running status used or not at each place where it is legal, a header chunk longer than 6 bytes — loads to exactly f *)
Theorem C08_read_all : forall cs f rf extra css, codec_ok cs -> file_ok cs f -> Forall times_ok (f_tracks f) -> header_std f ->
  zlen (f_tracks f) <= 32767 -> zlen extra < 4294967290 -> raw_of_file cs f = Ok rf ->
  Forall (fun p => zlen (enc_raws (fst p) None (snd p)) < 4294967296) (combine (map (fun i => nth i css []) (seq 0 (length (snd rf)))) (snd rf)) ->
  load cs false (enc_file extra css rf) = Ok f.
Proof. exact load_enc. Qed.
Print Assumptions C08_read_all.
Theorem C08_padded_vlq : forall k n rest, 0 <= n -> read_varint (repeat 128 k ++ enc_varint n ++ rest) = Some (n, rest).
Proof. exact read_varint_padded. Qed.
Print Assumptions C08_padded_vlq.

(* clip=True changes nothing on bytes that load with clip=False (it only turns the data-byte error into a clamp) *)
Theorem C08_clip : forall cs bs f, load cs false bs = Ok f -> load cs true bs = Ok f.
Proof. exact load_clip. Qed.
Print Assumptions C08_clip.

Example C08_nonvacuous :
  let f := {| f_type := 1; f_tpb := 96; f_tracks := [[(TInt 0, EMsg (NoteOn 2 60 64)); (TInt 200, EMsg (NoteOn 2 62 0)); (TInt 0, EMeta MEot)]] |} in
  exists rf, raw_of_file latin1 f = Ok rf /\
    load latin1 false (enc_file [9; 9] [[{| pad_dt := 2; pad_len := 1; use_rs := false |}; {| pad_dt := 0; pad_len := 0; use_rs := true |}]] rf) = Ok f /\
    ref_decode (enc_file [9; 9] [] rf) = Some rf.
Proof. eexists. split; [reflexivity|]. split; vm_compute; reflexivity. Qed.
