(* C02 — from_bytes accepts exactly the well-formed single-message encodings. *)
From Coq Require Import ZArith List Bool.
Require Import Mido.Model.Base Mido.Model.Codec Mido.Proofs.CodecProofs.
Import ListNotations.
Open Scope Z_scope.

(* over ALL integer lists (any length, any integers): a returned message is valid and its bytes()
   reproduce the input exactly; otherwise the only exception is ValueError *)
Theorem C02_exact : forall bs, match dec bs with Ok m => valid m = true /\ enc m = bs | Raise e => e = ValueError end.
Proof. exact exact. Qed.
Print Assumptions C02_exact.

(* the decoder before the repair (dedicated decoders without a length check) violates both clauses *)
Theorem C02_unfixed_refuted_raise : dec_unfixed [224; 1] = Raise IndexError.
Proof. exact exact_unfixed_refuted_raise. Qed.
Theorem C02_unfixed_refuted_accept : exists m, dec_unfixed [224; 1; 2; 3] = Ok m /\ enc m <> [224; 1; 2; 3].
Proof. exact exact_unfixed_refuted_accept. Qed.

(* the type clause, over ALL sequences of arbitrary items (integers, booleans, floats, strings, None, any other object): a message is
   returned only when every item is an integer (bool counts) and the integers are exactly the encoding of that message; a sequence with
   an item that is not an integer raises TypeError; nothing but ValueError and TypeError is ever raised *)
Require Import Mido.Model.Checks Mido.Proofs.ChecksProofs.
Theorem C02_types : forall items,
  match dec_items items with
  | Ok m => exists zs, atoms_ints items = Some zs /\ valid m = true /\ enc m = zs
  | Raise e => e = ValueError \/ (e = TypeError /\ atoms_ints items = None)
  end.
Proof. exact dec_items_spec. Qed.
Print Assumptions C02_types.
Theorem C02_non_integer : forall items, items <> [] -> atoms_ints items = None -> dec_items items = Raise TypeError.
Proof. exact dec_items_non_integer. Qed.
Print Assumptions C02_non_integer.
