(* C04 — the parser is total and sound on arbitrary byte streams (any length). *)
From Coq Require Import ZArith List Bool.
Require Import Mido.Model.Base Mido.Model.Codec Mido.Model.Tokenizer Mido.Model.Parser.
Require Import Mido.Proofs.TokProofs Mido.Proofs.ParseProofs.
Import ListNotations.
Open Scope Z_scope.

(* never raises; every message valid; and the messages are exactly the decoded tokens *)
Theorem C04_total : forall bs, Forall (fun b => 0 <= b <= 255) bs ->
  exists ms, parse_all bs = Ok ms /\ Forall (fun m => valid m = true) ms /\ map enc ms = tokens bs.
Proof. exact (C04_total true). Qed.
Print Assumptions C04_total.

(* each defined real-time status byte yields exactly one real-time message, in input order *)
Theorem C04_realtime : forall bs ms, Forall (fun b => 0 <= b <= 255) bs -> parse_all bs = Ok ms ->
  map enc (filter is_rt_msg ms) = map (fun b => [b]) (filter is_rt_defined bs).
Proof. exact C04_realtime_msgs. Qed.
Print Assumptions C04_realtime.

(* the bytes of all other messages form, in order, a subsequence of the (non-real-time) input *)
Theorem C04_subseq : forall bs ms, Forall (fun b => 0 <= b <= 255) bs -> parse_all bs = Ok ms ->
  Subseq (concat (map enc (filter (fun m => negb (is_rt_msg m)) ms))) (flat_map keep bs).
Proof. exact C04_subseq_msgs. Qed.
Print Assumptions C04_subseq.

Example C04_nonvacuous : parse_all [1; 144; 60; 64; 248; 64; 247; 240; 1; 254; 2; 247; 130; 5] =
  Ok [NoteOn 0 60 64; Clock; ActiveSensing; Sysex [1; 2]].
Proof. reflexivity. Qed.
