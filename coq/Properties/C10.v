(* C10 — ports deliver each message exactly once and in order under concurrent use. *)
From Coq Require Import ZArith List Bool Arith.
Require Import Mido.Model.Base Mido.Model.Codec Mido.Model.Tokenizer Mido.Model.Parser Mido.Model.Sockets Mido.Model.Conc.
Require Import Mido.Proofs.ConcProofs.
Import ListNotations.

(* For EVERY number of threads, EVERY program per thread (sends of valid messages, blocking and non-blocking receives, iter_pending),
   EVERY schedule (a list of thread ids of any length; one entry = one access to the lock, the deque, the device or sleep) and every
   lock-protected port kind (EchoPort; device port with one lock; IOPort = device port whose two directions have different locks): *)

(* no send or receive call raises *)
Theorem C10_no_raise : forall c, c_locking c = true -> forall progs, (forall t m, In (Send m) (progs t) -> valid m = true) ->
  forall sched t e, at_ (snd (crun c sched (cinit progs)) t) <> Raised e.
Proof. exact no_thread_raises. Qed.
Print Assumptions C10_no_raise.

(* EchoPort: received ++ still queued = the messages in the order they were appended - each exactly once, nothing invented *)
Theorem C10_echo_exactly_once : forall c, c_locking c = true -> forall progs, (forall t m, In (Send m) (progs t) -> valid m = true) ->
  forall sched, c_kind c = KEcho -> let s := fst (crun c sched (cinit progs)) in map snd (stream s) = map snd (recvd s) ++ q s.
Proof. exact echo_fifo. Qed.
Print Assumptions C10_echo_exactly_once.

(* device port and IOPort: the bytes of different messages never mix - whatever has been taken in is, intact and in order, a prefix
   of the messages in the order their senders obtained the port (the complete ones among the bytes read so far) *)
Theorem C10_device_intact : forall c, c_locking c = true -> forall progs, (forall t m, In (Send m) (progs t) -> valid m = true) ->
  forall sched, c_kind c = KDevice -> let s := fst (crun c sched (cinit progs)) in
  map snd (recvd s) ++ q s = complete_prefix (map snd (stream s)) (length (allread s)) /\ exists rest, map snd (stream s) = (map snd (recvd s) ++ q s) ++ rest.
Proof. exact device_intact. Qed.
Print Assumptions C10_device_intact.
(* ... and once no sender is writing and the device has been read empty, that is everything that was sent *)
Theorem C10_device_all_delivered : forall c, c_locking c = true -> forall progs, (forall t m, In (Send m) (progs t) -> valid m = true) ->
  forall sched, c_kind c = KDevice -> let '(s, ts) := crun c sched (cinit progs) in
  (forall t m r, at_ (ts t) <> SWrite m r) -> devbuf s = [] -> map snd (stream s) = map snd (recvd s) ++ q s.
Proof. exact device_all_delivered. Qed.
Print Assumptions C10_device_all_delivered.

(* messages from one sender are taken in in the order it sent them: thread t's part of the stream is its begun sends in program order *)
Theorem C10_sender_order : forall c, c_locking c = true -> forall progs, (forall t m, In (Send m) (progs t) -> valid m = true) ->
  forall sched t, let '(s, ts) := crun c sched (cinit progs) in sends (progs t) = mine t (stream s) ++ pending_sends (c_kind c) (ts t).
Proof. exact sender_order. Qed.
Print Assumptions C10_sender_order.

(* every popped message reaches exactly one caller: what thread t's receive / poll / iter_pending calls have returned (or are returning), in
   order, is exactly what thread t popped from the port, in order ([recvd] records every pop once, with the popping thread) *)
Theorem C10_callers : forall c, c_locking c = true -> forall progs, (forall t m, In (Send m) (progs t) -> valid m = true) -> (forall t, clean (progs t)) ->
  forall sched t, let '(s, ts) := crun c sched (cinit progs) in got (ts t) = mine t (recvd s).
Proof. exact callers_get_what_was_popped. Qed.
Print Assumptions C10_callers.

(* MultiPort fan-in (senders on the sub-ports, receivers on the MultiPort), ANY number of sub-ports and threads, ANY programs, ANY schedule:
   no call raises; every message sent on a sub-port is in exactly one place - still queued on that sub-port, or (in the order taken from
   there) among what the MultiPort took over, which is in order what its callers popped, what it has queued and what the sweep in progress carries *)
Require Import Mido.Model.ConcMulti Mido.Proofs.ConcMultiProofs.
Theorem C10_multi_no_raise : forall n progs sched t e, mat (snd (mrun sched (minit n progs)) t) <> MRaised e.
Proof. exact multi_no_raise. Qed.
Print Assumptions C10_multi_no_raise.
Theorem C10_multi_exactly_once : forall n progs sched, let s := fst (mrun sched (minit n progs)) in
  (forall i, msent s i = mine i (allpopped s) ++ mq s (S i)) /\ map snd (allpopped s) = (map snd (mrecvd s) ++ mq s 0) ++ cur_acc s.
Proof. exact multi_exactly_once. Qed.
Print Assumptions C10_multi_exactly_once.

(* MultiPort fan-out (senders on the MultiPort, receivers on the sub-ports), ANY number of sub-ports and threads, ANY programs, ANY schedule:
   no call raises; each sub-port is given every message exactly once - what it was given is what was popped from it, in order, plus what it
   still holds; all sub-ports are given the messages in ONE order (that in which the senders got the MultiPort's lock), a sub-port being at most
   the message of the send in progress behind and not behind at all when no send is in progress; each sender's messages are in that order as
   it sent them *)
Require Import Mido.Model.ConcFan Mido.Proofs.ConcFanProofs.
Theorem C10_fan_no_raise : forall n progs sched t e, fat (snd (frun sched (finit n progs)) t) <> FRaised e.
Proof. exact fan_no_raise. Qed.
Print Assumptions C10_fan_no_raise.
Theorem C10_fan_exactly_once : forall n progs sched, let s := fst (frun sched (finit n progs)) in forall i, fsent s i = map snd (fpopped s i) ++ fq s (S i).
Proof. exact fan_exactly_once. Qed.
Print Assumptions C10_fan_exactly_once.
Theorem C10_fan_all_subports_same_order : forall n progs sched, let s := fst (frun sched (finit n progs)) in
  forall i, (i < n)%nat -> exists rest, fsent s i ++ rest = map snd (forder s) /\ (length rest <= 1)%nat /\ (flk s 0%nat = None -> rest = []).
Proof. exact fan_all_subports_same_order. Qed.
Print Assumptions C10_fan_all_subports_same_order.
Theorem C10_fan_sender_order : forall n progs sched t, let '(s, ts) := frun sched (finit n progs) in fsends (progs t) = mine t (forder s) ++ fpending (ts t).
Proof. exact fan_sender_order. Qed.
Print Assumptions C10_fan_sender_order.

(* any mix of uses of a MultiPort over EchoPorts at once - sending on it and on its sub-ports, receiving and iterating on it and on its
   sub-ports - under every schedule (Model/ConcMix.v; ConcMulti.v and ConcFan.v are its two pure cases) *)
Require Import Mido.Model.ConcMix Mido.Proofs.ConcMixProofs Mido.Model.ConcHelpers Mido.Proofs.ConcHelpersProofs.
Theorem C10_mix_no_raise : forall n progs sched t e, xat (snd (xrun sched (xinit n progs)) t) <> XRaised e.
Proof. exact mix_no_raise. Qed.
Print Assumptions C10_mix_no_raise.
Theorem C10_mix_exactly_once : forall n progs sched,
  let s := fst (xrun sched (xinit n progs)) in forall l, map snd (xapp s l) = popped l (xpops s) ++ xq s l.
Proof. exact mix_exactly_once. Qed.
Print Assumptions C10_mix_exactly_once.
Theorem C10_mix_sweep_conserves : forall n progs sched,
  let '(s, ts) := xrun sched (xinit n progs) in swept (xpops s) = map snd (xapp s 0) ++ inflight s ts.
Proof. exact mix_sweep_conserves. Qed.
Print Assumptions C10_mix_sweep_conserves.
Theorem C10_mix_mutual_exclusion : forall n progs sched t u l,
  let '(s, ts) := xrun sched (xinit n progs) in holds (xat (ts t)) l = true -> holds (xat (ts u)) l = true -> t = u.
Proof. exact mix_mutual_exclusion. Qed.
Print Assumptions C10_mix_mutual_exclusion.
(* what a thread has put into the deque of sub-port i so far, followed by what it has yet to put there, is what its program sends to that
   sub-port - directly or through the MultiPort - in program order; with C10_mix_exactly_once (every deque is first-in first-out) each
   sender's messages leave every deque in the order sent *)
Theorem C10_mix_sender_order : forall n progs sched t i,
  let '(s, ts) := xrun sched (xinit n progs) in
  xsends n i (progs t) = mine_of t (xapp s (S i)) ++ xpending n i (ts t).
Proof. exact mix_sender_order_n. Qed.
Print Assumptions C10_mix_sender_order.
Theorem C10_mix_end_to_end : forall n progs sched,
  let '(s, ts) := xrun sched (xinit n progs) in
  swept (xpops s) = popped 0 (xpops s) ++ xq s 0 ++ inflight s ts /\
  forall i, exists rest, map snd (xapp s (S i)) = popped (S i) (xpops s) ++ rest.
Proof. exact mix_end_to_end. Qed.
Print Assumptions C10_mix_end_to_end.
(* the helper functions multi_send / multi_receive(block=False) on a caller's own list of ports (Model/ConcHelpers.v), called by threads
   that also use the MultiPort and its sub-ports in every other way: under every schedule nothing is raised, what a thread's calls put
   into each sub-port's deque is in order what the calls say (hsends: once per occurrence of the port in the list), every deque hands out
   a prefix of what was put into it, and a call on a list of distinct sub-ports puts the message into each exactly once *)
Theorem C10_helpers_no_raise : forall n hprogs sched t e, xat (snd (xrun sched (hinit n hprogs)) t) <> XRaised e.
Proof. exact helpers_no_raise. Qed.
Print Assumptions C10_helpers_no_raise.
Theorem C10_helpers_sender_order : forall n hprogs sched t i,
  let '(s, ts) := xrun sched (hinit n hprogs) in
  hsends n i (hprogs t) = mine_of t (xapp s (S i)) ++ xpending n i (ts t).
Proof. exact helpers_sender_order. Qed.
Print Assumptions C10_helpers_sender_order.
Theorem C10_helpers_end_to_end : forall n hprogs sched,
  let '(s, ts) := xrun sched (hinit n hprogs) in
  swept (xpops s) = popped 0 (xpops s) ++ xq s 0 ++ inflight s ts /\
  forall i, exists rest, map snd (xapp s (S i)) = popped (S i) (xpops s) ++ rest.
Proof. exact helpers_end_to_end. Qed.
Print Assumptions C10_helpers_end_to_end.
Theorem C10_multi_send_each_once : forall n i js m, NoDup js ->
  hsend1 n i (HMSend (map S js) m) = if existsb (Nat.eqb i) js then [m] else [].
Proof. exact hsend1_msend_nodup. Qed.
Print Assumptions C10_multi_send_each_once.
Example C10_helpers_nontrivial :
  let hprogs := fun t => match t with
                         | 0%nat => [HMSend [1; 2]%nat (NoteOn 0 1 2); HPlain (XSend 0%nat (NoteOn 0 3 4))]
                         | _ => [HMRecv [2; 1]%nat; HMRecv [2; 1]%nat]
                         end in
  let '(s, ts) := xrun (flat_map (fun _ => [0; 0; 0; 1; 1; 1; 1; 0]%nat) (seq 0 30)) (hinit 2 hprogs) in
  collapse (hprogs 0%nat) (xresults (ts 0%nat)) = [RSent; RSent] /\
  collapse (hprogs 1%nat) (xresults (ts 1%nat)) = [RList [NoteOn 0 1 2]; RList [NoteOn 0 1 2; NoteOn 0 3 4; NoteOn 0 3 4]].
Proof. vm_compute. split; reflexivity. Qed.
(* the hypotheses are met by real runs: three threads, two sub-ports, every kind of use at once *)
Example C10_mix_nontrivial :
  let progs := fun t => match t with
                        | 0%nat => [XSend 0%nat (NoteOn 0 1 2); XRecv 1%nat false]
                        | 1%nat => [XSend 2%nat (NoteOn 0 3 4); XRecv 0%nat false; XIterP 0%nat []]
                        | _ => [XIterP 2%nat []; XSend 1%nat (NoteOn 0 5 6)]
                        end in
  let '(s, ts) := xrun (flat_map (fun _ => [0; 0; 0; 1; 1; 1; 2; 2; 1]%nat) (seq 0 20)) (xinit 2 progs) in
  length (xpops s) = 5%nat /\ swept (xpops s) = [NoteOn 0 5 6] /\ xresults (ts 1%nat) = [RSent; RGot None; RList [NoteOn 0 5 6]] /\
  xresults (ts 2%nat) = [RList [NoteOn 0 3 4; NoteOn 0 1 2]; RSent].
Proof. vm_compute. repeat split; reflexivity. Qed.

(* the queue the backends feed from their callback threads (ParserQueue, model ConcPQ.v), ANY number of feeding and polling threads, ANY
   programs (chunks of whole messages), ANY schedule: the queue is first-in first-out and loses or invents nothing, and each feeding thread's
   messages enter it in the order that thread fed them; with the lock not held across feed-and-put another thread's message gets in between *)
Require Import Mido.Model.ConcPQ Mido.Proofs.ConcPQProofs.
Theorem C10_pq_fifo : forall progs sched, let s := fst (qrun true sched (qinit progs)) in map snd (qlog s) = qpolled s ++ qqueue s.
Proof. exact pq_fifo. Qed.
Print Assumptions C10_pq_fifo.
Theorem C10_pq_feeder_order : forall progs sched t, let '(s, ts) := qrun true sched (qinit progs) in qfeeds (progs t) = mine t (qlog s) ++ qpending (ts t).
Proof. exact pq_feeder_order. Qed.
Print Assumptions C10_pq_feeder_order.
Theorem C10_pq_unlocked_interleaves :
  map snd (qlog (fst (qrun false [0; 0; 1; 1; 0; 1; 0]%nat (qinit (fun t => match t with 0%nat => [QPut [pq_a; pq_b]] | 1%nat => [QPut [pq_c]] | _ => [] end))))) = [pq_a; pq_c; pq_b].
Proof. exact pq_unlocked_interleaves. Qed.
Print Assumptions C10_pq_unlocked_interleaves.

(* "What is received is a copy": objects with identity on a heap, a caller that creates, edits and sends, a port with ANY number of queues
   (one: EchoPort / IOPort / device; several: MultiPort fan-out, one per sub-port), receivers that pop and edit - for EVERY history:
   each received object holds the value the sent object had when it was sent (or what its receiver wrote since), each caller object what
   the caller last wrote, no received object is a caller object, and no two received objects are the same object *)
Require Import Mido.Model.SendCopy Mido.Proofs.SendCopyProofs.
Theorem C10_received_is_copy : forall n ops, let s := sc_run true n ops in
  (map (fun e => sc_hp s (fst e)) (sc_got s) = map snd (sc_got s)) /\
  (map (fun e => sc_hp s (fst e)) (sc_mine s) = map snd (sc_mine s)) /\
  (forall e m, In e (sc_got s) -> In m (sc_mine s) -> fst e <> fst m) /\ NoDup (map fst (sc_got s)).
Proof. exact received_is_copy. Qed.
Print Assumptions C10_received_is_copy.
Theorem C10_queued_is_copy : forall n ops, let s := sc_run true n ops in
  Forall (fun q => map (fun e => sc_hp s (fst e)) q = map snd q) (sc_queues s).
Proof. exact queued_is_copy. Qed.
Print Assumptions C10_queued_is_copy.
(* a port that kept the caller's object: an edit after the send changes what the receiver gets *)
Theorem C10_alias_refuted : exists n ops, let s := sc_run false n ops in map (fun e => sc_hp s (fst e)) (sc_got s) <> map snd (sc_got s).
Proof. exact alias_refuted. Qed.
Print Assumptions C10_alias_refuted.

(* without the lock (a DummyLock on a port whose deque is shared - IOPort.receive before its repair) the property fails: a schedule *)
Theorem C10_unlocked_refuted : at_ (snd (crun unlocked [0; 0; 0; 1; 1; 2; 2; 1; 2]%nat (cinit race_progs)) 2%nat) = Raised IndexError.
Proof. exact unlocked_refuted. Qed.
Print Assumptions C10_unlocked_refuted.

Example C10_nonvacuous :
  let cf := {| c_locking := true; c_kind := KDevice; c_same_lock := false |} in
  let progs := fun t => match t with 0%nat => [Send (NoteOn 0 1 2)] | 1%nat => [Send (NoteOn 0 3 4)] | 2%nat => [Recv true; Recv false] | _ => [] end in
  results (snd (crun cf [0; 0; 2; 2; 0; 1; 2; 2; 0; 0; 2; 2; 2; 2; 1; 1; 1; 1; 2; 2; 2; 2; 2; 2; 2; 2; 2; 2; 2; 2; 2; 2; 2; 2]%nat (cinit progs)) 2%nat)
  = [RGot (Some (NoteOn 0 1 2)); RGot (Some (NoteOn 0 3 4))].
Proof. vm_compute. reflexivity. Qed.
