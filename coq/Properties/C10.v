(* C10 — ports under concurrent use.  (theorems are added as they are proved) *)
From Coq Require Import ZArith List Bool.
Require Import Mido.Model.Base Mido.Model.Codec Mido.Model.Conc.
Import ListNotations.
Example C10_nonvacuous :
  let cf := {| c_locking := true; c_kind := KEcho; c_same_lock := true |} in
  let progs := fun t => match t with 0%nat => [Send (NoteOn 0 1 2)] | 1%nat => [Recv false] | _ => [] end in
  results (snd (crun cf [0; 0; 0; 1; 1; 1; 1]%nat (cinit progs)) 1%nat) = [RGot (Some (NoteOn 0 1 2))].
Proof. vm_compute. reflexivity. Qed.
Print Assumptions C10_nonvacuous.
