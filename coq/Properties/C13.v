(* C13 — playback timing follows the tempo map (exact arithmetic). *)
From Coq Require Import ZArith QArith List Bool.
Require Import Mido.Model.Base Mido.Model.Tempo Mido.Proofs.TempoProofs.
Import ListNotations.

(* the cumulative time of message k is the tempo-map integral of its absolute tick: sum over j <= k of delta_j x (tempo set by the
   last set_tempo strictly before j, 500000 if none), as numerators over 10^6 x ticks_per_beat; any number and position of tempo changes *)
Theorem C13_integral : forall ms, Forall (fun m => (0 <= p_dt m)%Z) ms -> forall k, (k < length ms)%nat ->
  sumz (firstn (S k) (iter_num DEFAULT_TEMPO ms)) = integral_num ms k.
Proof. exact cumulative_is_integral. Qed.
Print Assumptions C13_integral.
Theorem C13_tempo_applies_after : forall ms k t, (S k < length ms)%nat -> p_tempo (nth k ms dflt) = Some t -> tempo_before ms (S k) = t.
Proof. exact tempo_applies_after. Qed.
Print Assumptions C13_tempo_applies_after.
Theorem C13_length : forall ms, ms <> [] -> length_num ms = sumz (firstn (S (length ms - 1)) (iter_num DEFAULT_TEMPO ms)).
Proof. exact length_is_last. Qed.
Print Assumptions C13_length.

(* play: never before the scheduled time, for every pattern of oversleeps (>= 0) and consumer holds (>= 0); times are integers
   in any fixed unit *)
Theorem C13_play_not_early : forall mm start ms clock input_time k eps holds, nonneg eps -> nonneg holds ->
  Forall2 (fun yc s => (start + s <= snd yc)%Z) (play mm start clock input_time k ms eps holds)
          (map snd (filter (fun p => negb (q_meta (fst p) && negb mm)) (combine ms (sched input_time ms)))).
Proof. exact play_not_early. Qed.
Print Assumptions C13_play_not_early.
(* play: with exact sleeps a message goes out at max(its scheduled time, the time the consumer came back): no accumulated drift *)
Theorem C13_play_no_drift : forall mm start m r clock input_time k holds, q_meta m && negb mm = false ->
  play mm start clock input_time k (m :: r) [] holds =
    (k, Z.max (start + (input_time + q_delta m)) clock) ::
    play mm start (Z.max (start + (input_time + q_delta m)) clock + hd 0%Z holds) (input_time + q_delta m)%Z (S k) r [] (tl holds).
Proof. exact play_no_drift. Qed.
Print Assumptions C13_play_no_drift.
(* play yields the messages of iteration in order, meta messages only on request *)
Theorem C13_play_filter : forall mm start ms clock input_time k eps holds,
  map fst (play mm start clock input_time k ms eps holds) =
  map snd (filter (fun p => negb (q_meta (fst p) && negb mm)) (combine ms (seq k (length ms)))).
Proof. exact play_filter. Qed.
Print Assumptions C13_play_filter.

(* tick2second and second2tick are mutually inverse on integer ticks, exactly, for any positive tempo and resolution *)
Theorem C13_inverse : forall n tpb tempo, (0 < tempo)%Z -> (0 < tpb)%Z -> second2tick_q (tick2second_q n tpb tempo) tpb tempo = n.
Proof. exact second2tick_tick2second. Qed.
Print Assumptions C13_inverse.

Example C13_nonvacuous : iter_num DEFAULT_TEMPO [{| p_dt := 480%Z; p_tempo := Some 250000%Z; p_meta := true |}; {| p_dt := 480%Z; p_tempo := None; p_meta := false |}]
  = [240000000; 120000000]%Z.
Proof. reflexivity. Qed.
