(* C18 — socket ports deliver exactly the complete messages before a disconnect.  (theorems are added as they are proved) *)
From Coq Require Import ZArith List Bool.
Require Import Mido.Model.Base Mido.Model.Codec Mido.Model.Sockets.
Import ListNotations.
Open Scope Z_scope.
Example C18_nonvacuous : format_address true [104] 80 = [104; 58; 56; 48] /\ parse_address [104; 58; 56; 48] = Ok ([104], 80).
Proof. vm_compute. split; reflexivity. Qed.
Print Assumptions C18_nonvacuous.
