(* C18 — socket ports deliver exactly the complete messages before a disconnect. *)
From Coq Require Import ZArith List Bool Lia.
Require Import Mido.Model.Base Mido.Model.Codec Mido.Model.Tokenizer Mido.Model.Parser Mido.Model.Strings Mido.Model.Sockets.
Require Import Mido.Proofs.SocketsProofs.
Import ListNotations.
Open Scope Z_scope.

(* for EVERY list of valid messages, EVERY cut offset in their byte stream, EVERY segmentation of the bytes before the cut (any number of
   segments of any sizes, empty ones included) and whether the peer then closes (end of stream) or dies (connection reset): iterating the
   receiving socket port yields exactly the messages whose encodings lie completely before the cut, in order, ends without an exception,
   and leaves the port closed with its connection released and nothing queued.  (n and fuel only say that the iteration is allowed to run
   long enough: more steps than messages, more polling rounds than segments.) *)
Theorem C18_cut : forall ms cut segs last n fuel, Forall (fun m => valid m = true) ms ->
  concat segs = firstn cut (concat (map enc ms)) -> (last = SEof \/ last = SDied) -> (length ms < n)%nat -> (length segs < fuel)%nat ->
  exists p', s_iterate current n fuel (new_sport (events_of segs last)) = (p', Ok (complete_prefix ms cut)) /\
             s_closed p' = true /\ peer_sees_disconnect p' = true /\ s_queue p' = [].
Proof. exact cut_stream. Qed.
Print Assumptions C18_cut.
(* the same fact at the level of the stream parser *)
Theorem C18_parse_cut : forall ms cut, Forall (fun m => valid m = true) ms -> parse_all (firstn cut (concat (map enc ms))) = Ok (complete_prefix ms cut).
Proof. exact parse_cut. Qed.
Print Assumptions C18_parse_cut.
(* closing a socket port releases the connection: the peer sees a disconnect *)
Theorem C18_close : forall p, peer_sees_disconnect (s_close current p) = true \/ s_closed p = true.
Proof. exact close_releases. Qed.
Print Assumptions C18_close.
(* formatting and parsing are mutually inverse *)
Theorem C18_parse_format : forall host port, nosep 58 host -> 0 < port < 65536 -> parse_address (format_address true host port) = Ok (host, port).
Proof. exact parse_format. Qed.
Print Assumptions C18_parse_format.
Theorem C18_format_parse : forall a host port, parse_address a = Ok (host, port) ->
  nosep 58 host /\ 0 < port < 65536 /\ parse_address (format_address true host port) = Ok (host, port).
Proof. exact format_parse. Qed.
Print Assumptions C18_format_parse.
(* a server port never waits in a non-blocking call, and a blocking call returns without waiting once any client has a message *)
Theorem C18_server_nonblocking : forall fuel s, exists s' r, sv_receive current (S fuel) false s = (s', r) /\ sv_sleeps s' = sv_sleeps s.
Proof. exact server_nonblocking. Qed.
Print Assumptions C18_server_nonblocking.
Theorem C18_server_prompt : forall fuel s got s1, sv_queue s = [] -> sv_dev_receive current (S fuel) s = (s1, Ok got) -> got <> [] ->
  exists s' m, sv_receive current (S fuel) true s = (s', Ok (Some m)) /\ sv_sleeps s' = sv_sleeps s.
Proof. exact server_blocking_prompt. Qed.
Print Assumptions C18_server_prompt.
(* the tree before the three repairs, refuted: no disconnect seen after close, OSError out of the iteration when the peer dies, no colon *)
Theorem C18_legacy_close_refuted : peer_sees_disconnect (s_close legacy (new_sport [])) = false.
Proof. exact legacy_close_refuted. Qed.
Print Assumptions C18_legacy_close_refuted.
Theorem C18_legacy_died_refuted : snd (s_iterate legacy 3 3 (new_sport [SByte 144; SByte 1; SByte 2; SDied])) = Raise OSError.
Proof. exact legacy_died_refuted. Qed.
Print Assumptions C18_legacy_died_refuted.
Theorem C18_legacy_format_refuted : parse_address (format_address false [108; 111; 99; 97; 108; 104; 111; 115; 116] 8080) = Raise ValueError.
Proof. exact legacy_format_refuted. Qed.
Print Assumptions C18_legacy_format_refuted.
(* the hypotheses are satisfiable: two messages, cut inside the second, three segments, the peer dies *)
Example C18_nonvacuous :
  let ms := [NoteOn 0 1 2; NoteOn 0 3 4] in
  concat [[144]; [1; 2; 144]; [3]] = firstn 5 (concat (map enc ms)) /\ complete_prefix ms 5 = [NoteOn 0 1 2] /\
  snd (s_iterate current 3 4 (new_sport (events_of [[144]; [1; 2; 144]; [3]] SDied))) = Ok [NoteOn 0 1 2].
Proof. vm_compute. repeat split. Qed.
