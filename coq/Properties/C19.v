(* C19 — SYX files round-trip sysex messages. *)
From Coq Require Import ZArith List Bool.
Require Import Mido.Model.Base Mido.Model.Codec Mido.Model.Parser Mido.Model.Syx Mido.Proofs.SyxProofs.
Import ListNotations.
Open Scope Z_scope.

(* any list of valid messages, both formats, any payload length incl. empty, no sysex => empty list *)
Theorem C19_roundtrip : forall plaintext ms, Forall (fun m => valid m = true) ms ->
  read_syx (write_syx plaintext ms) = Ok (filter is_sysex ms).
Proof. exact syx_roundtrip. Qed.
Print Assumptions C19_roundtrip.

(* plain text: any whitespace (Python's \s) before, between and after the two-digit hex bytes, upper or lower case *)
Theorem C19_whitespace : forall items ws0,
  Forall (fun c => is_ws c = true) ws0 ->
  Forall (fun it => 0 <= fst (fst it) <= 255 /\ Forall (fun c => is_ws c = true) (snd it)) items ->
  fromhex (map (fun c => if is_ws c then 32 else c) (render ws0 items)) = Ok (map (fun it => fst (fst it)) items).
Proof. exact fromhex_render. Qed.
Print Assumptions C19_whitespace.

(* reading any byte content: only sysex messages come back, all valid; the only failure is ValueError (text that is not two-digit hex) *)
Theorem C19_read_outcome : forall data, Forall (fun b => 0 <= b <= 255) data ->
  match read_syx data with
  | Ok ms => Forall (fun m => is_sysex m = true /\ valid m = true) ms
  | Raise e => e = ValueError
  end.
Proof. exact read_syx_outcome. Qed.
Print Assumptions C19_read_outcome.

Example C19_nonvacuous : read_syx (write_syx true [NoteOn 1 2 3; Sysex [1; 127]; Clock; Sysex []]) = Ok [Sysex [1; 127]; Sysex []]
  /\ read_syx [70; 48; 32; 122] = Raise ValueError.
Proof. split; reflexivity. Qed.
