(* C11 — port lifecycle: close is idempotent and releases the device once, a closed port drains and then stops, blocking calls return. *)
From Coq Require Import ZArith List Bool Lia.
Require Import Mido.Model.Base Mido.Model.Ports Mido.Proofs.PortsProofs.
Import ListNotations.
Open Scope Z_scope.

(* for EVERY device script (messages, nothing, pushes, the device closing itself inside _receive), EVERY sequence of _send faults (OSError
   from the device at any of its _send calls) and EVERY sequence of send / receive / poll / iter_pending / iteration / close / with-block /
   __del__ / reset, of any length: the device is released exactly when the port is
   closed, and never more than once *)
Theorem C11_close_once : forall fuel autoreset echo script faults ops,
  let p := fst (port_run fuel (new_port autoreset echo script faults) ops) in
  (p_closed p = false /\ p_closes p = 0%nat) \/ (p_closed p = true /\ p_closes p = 1%nat).
Proof. exact close_once_new. Qed.
Print Assumptions C11_close_once.
Theorem C11_close_idempotent : forall p, p_closed p = true -> close p = p.
Proof. exact close_idempotent. Qed.
Print Assumptions C11_close_idempotent.
(* with autoreset the reset messages reach the device once, contiguous, immediately before the release *)
Theorem C11_autoreset : forall p, p_closed p = false -> p_autoreset p = true -> p_echo p = false -> p_faults p = [] ->
  p_sent (close p) = p_sent p ++ reset_ids /\ p_closes (close p) = S (p_closes p) /\ p_closed (close p) = true.
Proof. exact close_autoreset. Qed.
Print Assumptions C11_autoreset.
(* and if the device fails during the reset: it is still released, once, and what went out is a prefix of the reset messages *)
Theorem C11_release_despite_faults : forall p, p_closed p = false -> p_echo p = false ->
  p_closes (close p) = S (p_closes p) /\ p_closed (close p) = true /\ exists k, p_sent (close p) = p_sent p ++ firstn k reset_ids.
Proof. exact close_releases_despite_faults. Qed.
Print Assumptions C11_release_despite_faults.
(* after close, send raises ValueError and leaves the port as it was *)
Theorem C11_send_closed : forall p m, p_closed p = true -> send p m = (p, Raise ValueError).
Proof. exact send_closed. Qed.
Print Assumptions C11_send_closed.
(* a closed port hands out what it had taken in, in order (receive, poll and iteration alike), then stops: poll None, iteration ends,
   blocking receive ValueError *)
Theorem C11_drain_receive : forall fuel b p m q, p_closed p = true -> p_queue p = m :: q ->
  exists p', receive fuel b p = (p', Ok (Some m)) /\ p_queue p' = q /\ p_closed p' = true.
Proof. exact closed_receive_drains. Qed.
Print Assumptions C11_drain_receive.
Theorem C11_drain_iteration : forall fuel q p n, p_closed p = true -> p_queue p = q -> (length q < n)%nat ->
  exists p', iterate n fuel p = (p', Ok q) /\ p_queue p' = [] /\ p_closed p' = true.
Proof. exact closed_iteration_drains. Qed.
Print Assumptions C11_drain_iteration.
Theorem C11_then_stops : forall fuel p, p_closed p = true -> p_queue p = [] ->
  receive fuel false p = (p, Ok None) /\ receive fuel true p = (p, Raise ValueError) /\ (forall n, iterate n fuel p = (p, Ok [])) /\
  (forall n, iter_pending (S n) fuel p = (p, Ok [])).
Proof. exact closed_empty_stops. Qed.
Print Assumptions C11_then_stops.
(* iteration never ends with an exception, wherever the port is closed (before, between or inside receive calls): the only outcome
   other than a normal end is a blocking receive that never returns because nothing arrives and nothing closes *)
Theorem C11_iteration_ends_cleanly : forall n fuel p p' e, iterate n fuel p = (p', Raise e) -> e = Diverges.
Proof. exact iteration_ends_cleanly. Qed.
Print Assumptions C11_iteration_ends_cleanly.
(* blocking receive returns the message the device delivers at its (k+1)-th _receive call after exactly k sleeps; a non-blocking
   call never sleeps, calls _receive at most once, and always returns *)
Theorem C11_blocking_prompt : forall k p m rest fuel, p_closed p = false -> p_queue p = [] ->
  p_script p = repeat ANothing k ++ AMsg m :: rest -> (k < fuel)%nat ->
  exists p', receive fuel true p = (p', Ok (Some m)) /\ p_sleeps p' = (p_sleeps p + k)%nat /\ p_calls p' = (p_calls p + S k)%nat.
Proof. exact blocking_receive_prompt. Qed.
Print Assumptions C11_blocking_prompt.
Theorem C11_nonblocking : forall fuel p, exists p' r, receive (S fuel) false p = (p', r) /\ p_sleeps p' = p_sleeps p /\
  (p_calls p' <= S (p_calls p))%nat /\ r <> Raise Diverges.
Proof. exact nonblocking_never_waits. Qed.
Print Assumptions C11_nonblocking.
(* MultiPort: non-blocking receive never sleeps and always returns; a blocking receive returns without sleeping as soon as a message
   is queued on it or deliverable on a sub-port *)
Theorem C11_multi_nonblocking : forall fuel mp, exists mp' r, multi_receive (S fuel) false mp = (mp', r) /\ m_sleeps mp' = m_sleeps mp /\ r <> Raise Diverges.
Proof. exact multi_nonblocking. Qed.
Print Assumptions C11_multi_nonblocking.
Theorem C11_multi_prompt : forall fuel mp, m_queue mp <> [] \/ snd (sweep (S fuel) (m_subs mp)) <> [] ->
  exists mp' m, multi_receive (S fuel) true mp = (mp', Ok (Some m)) /\ m_sleeps mp' = m_sleeps mp.
Proof. exact multi_blocking_prompt. Qed.
Print Assumptions C11_multi_prompt.
Example C11_nonvacuous : snd (port_run 5 (new_port false false [APush [1; 2]; AClose] []) [PIterate 1000; PPoll; PClose])
  = [OList_ [1; 2]; OMsg_ None; ONone_].
Proof. vm_compute. reflexivity. Qed.
Example C11_nonvacuous_block : (fst (port_run 5 (new_port true false [ANothing; ANothing; AMsg 7] []) [PReceive true; PClose; PClose; PSend 1])) =
  {| p_closed := true; p_queue := []; p_script := []; p_closes := 1; p_sent := reset_ids; p_autoreset := true; p_echo := false; p_sleeps := 2; p_calls := 3; p_faults := [] |}
  /\ snd (port_run 5 (new_port true false [ANothing; ANothing; AMsg 7] []) [PReceive true; PClose; PClose; PSend 1]) = [OMsg_ (Some 7); ONone_; ONone_; OErr_ ValueError].
Proof. vm_compute. split; reflexivity. Qed.
