(* C11 — port lifecycle.  (theorems are added as they are proved) *)
From Coq Require Import ZArith List Bool.
Require Import Mido.Model.Base Mido.Model.Ports.
Import ListNotations.
Open Scope Z_scope.
Example C11_nonvacuous : snd (port_run 5 (new_port false false [APush [1; 2]; AClose]) [PIterate 1000; PPoll; PClose])
  = [OList_ [1; 2]; OMsg_ None; ONone_].
Proof. vm_compute. reflexivity. Qed.
Print Assumptions C11_nonvacuous.
