(* C11 — port lifecycle: close is idempotent and releases the device once, a closed port drains and then stops, blocking calls return. *)
From Coq Require Import ZArith List Bool Lia.
Require Import Mido.Model.Base Mido.Model.Ports Mido.Proofs.PortsProofs.
Import ListNotations.
Open Scope Z_scope.

(* for EVERY device script (messages, nothing, pushes, the device closing itself inside _receive), EVERY sequence of _send faults (OSError
   from the device at any of its _send calls) and EVERY sequence of send / receive / poll / iter_pending / iteration / close / with-block /
   __del__ / reset, of any length: the device is released exactly when the port is
   closed, and never more than once *)
Theorem C11_close_once : forall fuel autoreset echo script faults ops,
  let p := fst (port_run fuel (new_port autoreset echo script faults) ops) in
  (p_closed p = false /\ p_closes p = 0%nat) \/ (p_closed p = true /\ p_closes p = 1%nat).
Proof. exact close_once_new. Qed.
Print Assumptions C11_close_once.
Theorem C11_close_idempotent : forall p, p_closed p = true -> close p = p.
Proof. exact close_idempotent. Qed.
Print Assumptions C11_close_idempotent.
(* with autoreset the reset messages reach the device once, contiguous, immediately before the release *)
Theorem C11_autoreset : forall p, p_closed p = false -> p_autoreset p = true -> p_echo p = false -> p_faults p = [] ->
  p_sent (close p) = p_sent p ++ reset_ids /\ p_closes (close p) = S (p_closes p) /\ p_closed (close p) = true.
Proof. exact close_autoreset. Qed.
Print Assumptions C11_autoreset.
(* and if the device fails during the reset: it is still released, once, and what went out is a prefix of the reset messages *)
Theorem C11_release_despite_faults : forall p, p_closed p = false -> p_echo p = false ->
  p_closes (close p) = S (p_closes p) /\ p_closed (close p) = true /\ exists k, p_sent (close p) = p_sent p ++ firstn k reset_ids.
Proof. exact close_releases_despite_faults. Qed.
Print Assumptions C11_release_despite_faults.
(* after close, send raises ValueError and leaves the port as it was *)
Theorem C11_send_closed : forall p m, p_closed p = true -> send p m = (p, Raise ValueError).
Proof. exact send_closed. Qed.
Print Assumptions C11_send_closed.
(* a closed port hands out what it had taken in, in order (receive, poll and iteration alike), then stops: poll None, iteration ends,
   blocking receive ValueError *)
Theorem C11_drain_receive : forall fuel b p m q, p_closed p = true -> p_queue p = m :: q ->
  exists p', receive fuel b p = (p', Ok (Some m)) /\ p_queue p' = q /\ p_closed p' = true.
Proof. exact closed_receive_drains. Qed.
Print Assumptions C11_drain_receive.
Theorem C11_drain_iteration : forall fuel q p n, p_closed p = true -> p_queue p = q -> (length q < n)%nat ->
  exists p', iterate n fuel p = (p', Ok q) /\ p_queue p' = [] /\ p_closed p' = true.
Proof. exact closed_iteration_drains. Qed.
Print Assumptions C11_drain_iteration.
Theorem C11_then_stops : forall fuel p, p_closed p = true -> p_queue p = [] ->
  receive fuel false p = (p, Ok None) /\ receive fuel true p = (p, Raise ValueError) /\ (forall n, iterate n fuel p = (p, Ok [])) /\
  (forall n, iter_pending (S n) fuel p = (p, Ok [])).
Proof. exact closed_empty_stops. Qed.
Print Assumptions C11_then_stops.
(* iteration never ends with an exception, wherever the port is closed (before, between or inside receive calls): the only outcome
   other than a normal end is a blocking receive that never returns because nothing arrives and nothing closes *)
Theorem C11_iteration_ends_cleanly : forall n fuel p p' e, iterate n fuel p = (p', Raise e) -> e = Diverges.
Proof. exact iteration_ends_cleanly. Qed.
Print Assumptions C11_iteration_ends_cleanly.
(* blocking receive returns the message the device delivers at its (k+1)-th _receive call after exactly k sleeps; a non-blocking
   call never sleeps, calls _receive at most once, and always returns *)
Theorem C11_blocking_prompt : forall k p m rest fuel, p_closed p = false -> p_queue p = [] ->
  p_script p = repeat ANothing k ++ AMsg m :: rest -> (k < fuel)%nat ->
  exists p', receive fuel true p = (p', Ok (Some m)) /\ p_sleeps p' = (p_sleeps p + k)%nat /\ p_calls p' = (p_calls p + S k)%nat.
Proof. exact blocking_receive_prompt. Qed.
Print Assumptions C11_blocking_prompt.
Theorem C11_nonblocking : forall fuel p, exists p' r, receive (S fuel) false p = (p', r) /\ p_sleeps p' = p_sleeps p /\
  (p_calls p' <= S (p_calls p))%nat /\ r <> Raise Diverges.
Proof. exact nonblocking_never_waits. Qed.
Print Assumptions C11_nonblocking.
(* MultiPort: non-blocking receive never sleeps and always returns; a blocking receive returns without sleeping as soon as a message
   is queued on it or deliverable on a sub-port *)
Theorem C11_multi_nonblocking : forall fuel mp, exists mp' r, multi_receive (S fuel) false mp = (mp', r) /\ m_sleeps mp' = m_sleeps mp /\ r <> Raise Diverges.
Proof. exact multi_nonblocking. Qed.
Print Assumptions C11_multi_nonblocking.
Theorem C11_multi_prompt : forall fuel mp, m_queue mp <> [] \/ snd (sweep (S fuel) (m_subs mp)) <> [] ->
  exists mp' m, multi_receive (S fuel) true mp = (mp', Ok (Some m)) /\ m_sleeps mp' = m_sleeps mp.
Proof. exact multi_blocking_prompt. Qed.
Print Assumptions C11_multi_prompt.
(* the IOPort wrapper over an input and an output port (model IOPortM.v: every call forwarded, close closes both, the wrapped ports may
   also be closed directly), for EVERY pair of devices and EVERY history: each device is released exactly when its port is closed and never
   twice, a closed wrapper has released both; after close send raises ValueError and changes nothing; receive, poll and iteration hand
   out what the input port had taken in and then stop; iteration never ends with an exception *)
Require Import Mido.Model.IOPortM Mido.Proofs.IOPortProofs.
Theorem C11_ioport_close_once : forall fuel ar_i echo_i script_i faults_i ar_o echo_o script_o faults_o ops,
  let io := fst (io_run fuel (new_ioport (new_port ar_i echo_i script_i faults_i) (new_port ar_o echo_o script_o faults_o)) ops) in
  Inv (io_in io) /\ Inv (io_out io) /\ (io_closed io = true -> p_closes (io_in io) = 1%nat /\ p_closes (io_out io) = 1%nat).
Proof. exact io_close_once. Qed.
Print Assumptions C11_ioport_close_once.
Theorem C11_ioport_close_idempotent : forall io, io_closed io = true -> io_close io = io.
Proof. exact io_close_idempotent. Qed.
Print Assumptions C11_ioport_close_idempotent.
Theorem C11_ioport_send_closed : forall io m, io_closed io = true -> io_send io m = (io, Raise ValueError).
Proof. exact io_send_closed. Qed.
Print Assumptions C11_ioport_send_closed.
Theorem C11_ioport_drain_receive : forall fuel b io m q, IOInv io -> io_closed io = true -> p_queue (io_in io) = m :: q ->
  exists io', io_receive fuel b io = (io', Ok (Some m)) /\ p_queue (io_in io') = q /\ io_closed io' = true.
Proof. exact io_drain_receive. Qed.
Print Assumptions C11_ioport_drain_receive.
Theorem C11_ioport_drain_iteration : forall fuel io q n, IOInv io -> io_closed io = true -> p_echo (io_in io) = false -> p_queue (io_in io) = q -> (length q < n)%nat ->
  exists io', io_iterate n fuel io = (io', Ok q) /\ p_queue (io_in io') = [] /\ io_closed io' = true.
Proof. exact io_drain_iteration. Qed.
Print Assumptions C11_ioport_drain_iteration.
Theorem C11_ioport_then_stops : forall fuel io, IOInv io -> io_closed io = true -> p_queue (io_in io) = [] ->
  snd (io_receive fuel false io) = Ok None /\ snd (io_receive fuel true io) = Raise ValueError /\
  (p_echo (io_in io) = false -> forall n, snd (io_iterate n fuel io) = Ok []).
Proof. exact io_then_stops. Qed.
Print Assumptions C11_ioport_then_stops.
Theorem C11_ioport_iteration_ends_cleanly : forall n fuel io io' e, p_echo (io_in io) = false -> io_iterate n fuel io = (io', Raise e) -> e = Diverges.
Proof. exact io_iteration_ends_cleanly. Qed.
Print Assumptions C11_ioport_iteration_ends_cleanly.
(* the invariant the drain theorems assume holds in every reachable state *)
Theorem C11_ioport_reachable : forall fuel ops io, IOInv io -> IOInv (fst (io_run fuel io ops)).
Proof. exact io_run_inv. Qed.
Print Assumptions C11_ioport_reachable.

(* close() called from ANY number of threads under ANY schedule (model ConcClose.v: lock, closed flag, the device's _close, one access per
   step): the device is released at most once, and exactly once (with the port closed) as soon as one of the calls has returned; without
   the lock around the test and the release, two threads release it twice *)
Require Import Mido.Model.ConcClose Mido.Proofs.ConcCloseProofs.
Theorem C11_close_threads_at_most_once : forall sched, (k_releases (fst (krun true sched kinit)) <= 1)%nat.
Proof. exact close_threads_at_most_once. Qed.
Print Assumptions C11_close_threads_at_most_once.
Theorem C11_close_threads_exactly_once : forall sched t, snd (krun true sched kinit) t = KDone ->
  k_closed (fst (krun true sched kinit)) = true /\ k_releases (fst (krun true sched kinit)) = 1%nat.
Proof. exact close_threads_exactly_once. Qed.
Print Assumptions C11_close_threads_exactly_once.
Theorem C11_close_unlocked_refuted : k_releases (fst (krun false [0; 0; 1; 1; 0; 1]%nat kinit)) = 2%nat.
Proof. exact close_unlocked_refuted. Qed.
Print Assumptions C11_close_unlocked_refuted.

Example C11_nonvacuous : snd (port_run 5 (new_port false false [APush [1; 2]; AClose] []) [PIterate 1000; PPoll; PClose])
  = [OList_ [1; 2]; OMsg_ None; ONone_].
Proof. vm_compute. reflexivity. Qed.
Example C11_nonvacuous_block : (fst (port_run 5 (new_port true false [ANothing; ANothing; AMsg 7] []) [PReceive true; PClose; PClose; PSend 1])) =
  {| p_closed := true; p_queue := []; p_script := []; p_closes := 1; p_sent := reset_ids; p_autoreset := true; p_echo := false; p_sleeps := 2; p_calls := 3; p_faults := [] |}
  /\ snd (port_run 5 (new_port true false [ANothing; ANothing; AMsg 7] []) [PReceive true; PClose; PClose; PSend 1]) = [OMsg_ (Some 7); ONone_; ONone_; OErr_ ValueError].
Proof. vm_compute. split; reflexivity. Qed.
