(* C12 — merge_tracks keeps every event at its absolute time. *)
From Coq Require Import ZArith List Bool Sorting.Permutation Sorting.Sorted.
Require Import Mido.Model.Base Mido.Model.Tracks Mido.Proofs.TracksProofs.
Import ListNotations.
Open Scope Z_scope.

(* the non-end_of_track messages of the result, at their absolute ticks, are exactly the non-end_of_track messages of all
   inputs at their absolute ticks, in the order a stable sort by time puts them (any number of tracks, any deltas) *)
Theorem C12_abs_times : forall tracks,
  filter noneot (to_abs 0 (merge_tracks tracks)) = filter noneot (ssort (concat (map (to_abs 0) tracks))).
Proof. exact merge_abs. Qed.
Print Assumptions C12_abs_times.

(* what "stable sort by time" is: a permutation, ordered by (absolute time, track, in-track index); that order is
   antisymmetric on (time, track, index), so the result is unique *)
Theorem C12_sort_perm : forall l, Permutation l (ssort l).
Proof. exact ssort_perm. Qed.
Print Assumptions C12_sort_perm.
Theorem C12_sort_order : forall l, pos_sorted l -> StronglySorted lex_le (ssort l).
Proof. exact ssort_lex. Qed.
Print Assumptions C12_sort_order.
Theorem C12_order_unique : forall a b, lex_le a b -> lex_le b a -> time a = time b /\ trk a = trk b /\ idx a = idx b.
Proof. exact lex_antisym. Qed.
Print Assumptions C12_order_unique.
Theorem C12_input_position_sorted : forall ts, pos_sorted (concat (map (to_abs 0) (label_tracks 0 ts))).
Proof. exact labelled_pos_sorted. Qed.
Print Assumptions C12_input_position_sorted.

(* exactly one end_of_track, at the end *)
Theorem C12_one_eot : forall tracks, exists body t, merge_tracks tracks = body ++ [new_eot t] /\ Forall (fun e => eot e = false) body.
Proof. intros tracks. exact (fix_eot_one _ 0). Qed.
Print Assumptions C12_one_eot.

(* the total duration is that of the longest input track (trailing end_of_track deltas included), 0 for no tracks *)
Theorem C12_duration : forall tracks, Forall nonneg_track tracks -> pos_sorted (concat (map (to_abs 0) tracks)) ->
  total (merge_tracks tracks) = fold_right (fun tr m => Z.max (total tr) m) 0 tracks.
Proof. exact merge_duration. Qed.
Print Assumptions C12_duration.

Example C12_nonvacuous :
  map (fun e => (time e, eot e, trk e, idx e)) (merge_tracks (label_tracks 0 [[(5, false); (0, true); (3, false)]; [(5, false); (10, true)]]))
  = [(5, false, 0%nat, 0%nat); (0, false, 1%nat, 0%nat); (3, false, 0%nat, 2%nat); (7, true, 0%nat, 0%nat)].
Proof. reflexivity. Qed.
