(* C20 — backend selection and port-opening arguments resolve deterministically. *)
From Coq Require Import ZArith List Bool.
Require Import Mido.Model.Base Mido.Model.Backend Mido.Proofs.BackendProofs.
Import ListNotations.
Open Scope Z_scope.

(* for EVERY configuration (arguments, environment, module capabilities; strings arbitrary) and after ANY earlier operations: the
   port name is the explicit one, else the environment's (when use_environ), else None; the API is the caller's api=, else
   Backend(api=), else the suffix of the backend name (argument, else MIDO_BACKEND, else the default) *)
Theorem C20_open_input : forall c ops name kw,
  snd (b_step c (fst (b_run c (b_init c) ops)) (OpenInput name kw)) = CInput (spec_port name c (e_in c)) (spec_api c kw).
Proof. exact open_input_resolves. Qed.
Print Assumptions C20_open_input.
Theorem C20_open_output : forall c ops name kw,
  snd (b_step c (fst (b_run c (b_init c) ops)) (OpenOutput name kw)) = COutput (spec_port name c (e_out c)) (spec_api c kw).
Proof. exact open_output_resolves. Qed.
Print Assumptions C20_open_output.
Theorem C20_open_ioport : forall c ops name kw,
  snd (b_step c (fst (b_run c (b_init c) ops)) (OpenIOPort name kw)) =
    if m_native_ioport c then CIOPort (spec_ioname name c) (spec_api c kw)
    else if str_truthy (spec_ioname name c) then CWrap (spec_ioname name c) (spec_ioname name c) (spec_api c kw)
    else CWrap (spec_port None c (e_in c)) (spec_port None c (e_out c)) (spec_api c kw).
Proof. exact open_ioport_resolves. Qed.
Print Assumptions C20_open_ioport.
Theorem C20_devices : forall c ops kw o, o = GetInputNames kw \/ o = GetOutputNames kw \/ o = GetIOPortNames kw ->
  snd (b_step c (fst (b_run c (b_init c) ops)) o) = if m_get_devices c then CDevices (spec_api c kw) else CNoDevices.
Proof. exact devices_resolve. Qed.
Print Assumptions C20_devices.
(* the module is imported only when first needed (or at once with load=True), and exactly once *)
Theorem C20_lazy : forall c, s_imports (b_init c) = if c_load c then [spec_module c] else [].
Proof. exact import_lazy. Qed.
Print Assumptions C20_lazy.
Theorem C20_import_once : forall c ops s, s_imports s = [s_mod s] \/ s_imports s = [] ->
  s_imports (fst (b_run c s ops)) = match ops with [] => s_imports s | _ => [s_mod s] end.
Proof. exact import_once. Qed.
Print Assumptions C20_import_once.
Theorem C20_ioport_names : forall devs n, In n (ioport_names devs) <-> In n (input_names devs) /\ In n (output_names devs).
Proof. exact ioport_names_spec. Qed.
Print Assumptions C20_ioport_names.
