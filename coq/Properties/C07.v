(* C07 — MIDI file save then load preserves every track. *)
From Coq Require Import ZArith List Bool.
Require Import Mido.Model.Base Mido.Model.Codec Mido.Model.Meta Mido.Model.Smf Mido.Proofs.MetaProofs Mido.Proofs.SmfProofs.
Import ListNotations.
Open Scope Z_scope.

(* any file (any type, ticks_per_beat, track count and event mix, any delta sizes and payload lengths within the reader's
   limit) whose events are valid: if save succeeds, loading the bytes gives the same type, ticks_per_beat and track count, and
   every track equal to the original with its end_of_track messages folded into exactly one at the end *)
Theorem C07_roundtrip : forall cs f bs, codec_ok cs -> file_ok cs f -> save cs f = Ok bs -> load cs false bs = Ok (normalise f).
Proof. exact save_load. Qed.
Print Assumptions C07_roundtrip.

(* every saved track ends in exactly one end_of_track; the other events are kept, in order *)
Theorem C07_one_eot : forall tr a, exists body t,
  fix_eot_acc a tr = body ++ [(t, EMeta MEot)] /\ Forall (fun te => is_eot (snd te) = false) body /\
  map snd body = filter (fun e => negb (is_eot e)) (map snd tr).
Proof. exact fix_eot_shape. Qed.
Print Assumptions C07_one_eot.
Theorem C07_norm_idem : forall tr, fix_eot (fix_eot tr) = fix_eot tr.
Proof. exact fix_eot_idem. Qed.
Print Assumptions C07_norm_idem.

(* contents that cannot be stored: a negative or non-integer time or a real-time message anywhere (after the end_of_track
   folding) makes save raise; a type-0 file without exactly one track raises ValueError; save never raises anything but
   ValueError, or struct.error for header fields outside 16 bits / a chunk of 4 GiB *)
Theorem C07_rejects : forall cs f, codec_ok cs -> existsb (fun tr => existsb unstorable (fix_eot tr)) (f_tracks f) = true ->
  is_raise (save cs f) = true.
Proof. exact save_rejects. Qed.
Print Assumptions C07_rejects.
Theorem C07_type0 : forall cs f, f_type f = 0 -> length (f_tracks f) <> 1%nat -> save cs f = Raise ValueError.
Proof. exact save_type0. Qed.
Print Assumptions C07_type0.
Theorem C07_raises : forall cs f e, codec_ok cs -> save cs f = Raise e -> e = ValueError \/ e = StructError.
Proof. exact save_raises. Qed.
Print Assumptions C07_raises.

(* the assumption on the text codec is met by the two concrete codecs of the model *)
Theorem C07_latin1_ok : codec_ok latin1. Proof. exact latin1_ok. Qed.
Print Assumptions C07_latin1_ok.

Example C07_nonvacuous :
  let f := {| f_type := 1; f_tpb := 480; f_tracks := [[(TInt 0, EMsg (NoteOn 0 60 64)); (TInt 200, EMsg (NoteOn 0 62 64));
                (TInt 5, EMeta MEot); (TInt 16384, EMeta (MText 3 [65; 233])); (TInt 0, EMsg (Sysex [1; 2]))]] |} in
  exists bs, save latin1 f = Ok bs /\ load latin1 false bs = Ok (normalise f) /\ length bs = 48%nat.
Proof. eexists. split; [vm_compute; reflexivity|]. split; vm_compute; reflexivity. Qed.

(* third clause - any byte string (bytes 0..255, any length) that loads is a fixed point of load-save-load: if saving what was loaded
   succeeds, loading the saved bytes gives the first result again, with each track's end_of_track messages folded into one at the end.
   Hypotheses: the text codec re-encodes what it decoded to the same bytes (proved for latin-1 and ASCII below), and the loaded sysex
   events leave room for the closing F7 under the reader's limit - exactly what the known finding sysex-at-limit is about. *)
Require Import Mido.Proofs.SmfLoadProofs.
Theorem C07_fixed_point : forall cs bs f bs2, codec_ok cs -> codec_bij cs -> Forall byte bs ->
  load cs false bs = Ok f -> sysex_room f -> save cs f = Ok bs2 -> load cs false bs2 = Ok (normalise f).
Proof. exact load_save_load. Qed.
Print Assumptions C07_fixed_point.
Theorem C07_fixed_point_stable : forall cs bs f bs2 bs3, codec_ok cs -> codec_bij cs -> Forall byte bs ->
  load cs false bs = Ok f -> sysex_room f -> save cs f = Ok bs2 -> file_ok cs (normalise f) -> save cs (normalise f) = Ok bs3 ->
  load cs false bs3 = Ok (normalise f).
Proof. exact load_save_load_stable. Qed.
Print Assumptions C07_fixed_point_stable.
(* everything the reader returns lies in the domain on which the writer and the meta payload codec round-trip *)
Theorem C07_loaded_domain : forall cs bs f, codec_bij cs -> Forall byte bs -> load cs false bs = Ok f -> Forall (track_loaded cs) (f_tracks f).
Proof. exact load_loaded. Qed.
Print Assumptions C07_loaded_domain.
Theorem C07_latin1_bij : codec_bij latin1.
Proof. exact latin1_bij. Qed.
Print Assumptions C07_latin1_bij.
