(* C03 — no invalid message state is reachable through the checked API. *)
From Coq Require Import ZArith List Bool.
Require Import Mido.Model.Base Mido.Model.Codec Mido.Model.Checks Mido.Proofs.ChecksProofs.
Import ListNotations.
Open Scope Z_scope.

(* constructor / from_dict / from_str with ANY keyword values (ints, bools, floats, strings, None, sequences, bytes, other
   objects): the result is a valid message of the requested type with a real-number time, or ValueError/TypeError *)
Theorem C03_ctor : forall k kw o, ctor k kw = Ok o -> obj_valid o = true /\ kind_of (fst o) = k.
Proof. exact ctor_valid. Qed.
Print Assumptions C03_ctor.
Theorem C03_ctor_rejects : forall k kw e, ctor k kw = Raise e -> e = ValueError \/ e = TypeError.
Proof. exact ctor_raises. Qed.
Print Assumptions C03_ctor_rejects.

(* one operation (assignment, deletion, copy with overrides, data += ...) on a valid object: it stays valid and of the same
   type; a rejected operation leaves it unchanged and raises ValueError, TypeError or AttributeError; a copy is valid, same type,
   and leaves the original unchanged *)
Theorem C03_step : forall o op, obj_valid o = true ->
  let '(o', r) := apply_op o op in
  obj_valid o' = true /\ kind_of (fst o') = kind_of (fst o) /\
  match r with
  | Raise e => o' = o /\ (e = ValueError \/ e = TypeError \/ e = AttributeError)
  | Ok None => True
  | Ok (Some c) => o' = o /\ obj_valid c = true /\ kind_of (fst c) = kind_of (fst o)
  end.
Proof. exact apply_op_inv. Qed.
Print Assumptions C03_step.

(* arbitrary sequences of accepted and rejected operations on one object *)
Theorem C03_history : forall ops o, obj_valid o = true ->
  obj_valid (fold_left (fun s op => fst (apply_op s op)) ops o) = true /\
  kind_of (fst (fold_left (fun s op => fst (apply_op s op)) ops o)) = kind_of (fst o).
Proof. exact history_inv. Qed.
Print Assumptions C03_history.

(* the checks accept exactly the documented domain of every integer attribute *)
Theorem C03_domain : forall a v, int_range a <> None -> (in_domain a v = true <-> exists z, check_int a v = Ok z).
Proof. exact check_accepts_domain. Qed.
Print Assumptions C03_domain.

(* the tree before the repair: copy(data=5) was accepted as five zero bytes; the repaired copy rejects it *)
Theorem C03_copy_unfixed_refuted : exists c, copy_gen false (Sysex [], PA (AInt 0)) [(AData, PA (AInt 5))] = Ok c /\ fst c = Sysex [0;0;0;0;0].
Proof. exact copy_unfixed_refuted. Qed.
Print Assumptions C03_copy_unfixed_refuted.
Theorem C03_copy_fixed_rejects : copy (Sysex [], PA (AInt 0)) [(AData, PA (AInt 5))] = Raise TypeError.
Proof. exact copy_fixed_rejects. Qed.
Print Assumptions C03_copy_fixed_rejects.

Example C03_nonvacuous : obj_valid (Pitchwheel 3 (-8192), PA (AFloat 7)) = true /\
  fst (apply_op (Pitchwheel 3 (-8192), PA (AFloat 7)) (OSet APitch (PA (AInt 8192)))) = (Pitchwheel 3 (-8192), PA (AFloat 7)).
Proof. split; reflexivity. Qed.
