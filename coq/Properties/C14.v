(* C14 — text, dict and repr representations round-trip.  (theorems are added as they are proved) *)
From Coq Require Import ZArith List Bool.
Require Import Mido.Model.Base Mido.Model.Codec Mido.Model.Checks Mido.Model.Strings.
Import ListNotations.
Open Scope Z_scope.
Example C14_nonvacuous : parse_string (msg2str (Pitchwheel 3 (-8192)) (TvInt 10)) = Ok (Pitchwheel 3 (-8192), TvInt 10).
Proof. vm_compute. reflexivity. Qed.
Print Assumptions C14_nonvacuous.
