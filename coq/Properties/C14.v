(* C14 — text, dict and repr representations round-trip. *)
From Coq Require Import ZArith List Bool.
Require Import Mido.Model.Base Mido.Model.Codec Mido.Model.Checks Mido.Model.Strings Mido.Proofs.StringsProofs.
Import ListNotations.
Open Scope Z_scope.

(* from_str(str(m)) == m for every valid message (sysex of any length, negative pitch, ...) and every time: any integer
   (very large, negative) or a float carried as the token repr() prints (premise time_ok: the token is not an int literal,
   is float syntax, has no whitespace, '=', ',' or '#': what CPython's repr gives for every finite float) *)
Theorem C14_str : forall m t, valid m = true -> time_ok t -> parse_string (msg2str m t) = Ok (m, t).
Proof. exact str_roundtrip. Qed.
Print Assumptions C14_str.
(* int(str(z)) == z for every integer (from the standard library's decimal conversions) *)
Theorem C14_int_text : forall z, py_int (show_Z z) = Some z.
Proof. exact py_int_show. Qed.
Print Assumptions C14_int_text.

(* from_dict(m.dict()) and eval(repr(m)): both are the constructor called with the message's own attribute values and time *)
Theorem C14_dict_repr : forall m tv, valid m = true -> is_real tv = true ->
  ctor (kind_of m) (kwargs_of_msg m ++ [(ATime, tv)]) = Ok (m, tv).
Proof. exact ctor_of_valid_time. Qed.
Print Assumptions C14_dict_repr.

(* parse_string on ANY (ASCII) text: a valid message, or ValueError - never another exception, never an invalid message *)
Theorem C14_parse_total : forall s, match parse_string s with Ok (m, t) => valid m = true | Raise e => e = ValueError end.
Proof. exact parse_total. Qed.
Print Assumptions C14_parse_total.

(* parse_string_stream: blank lines and comment-only lines are skipped (the line counter still advances); every other line gives
   exactly one result, the message or the error with ITS line number, and the stream carries on after an error *)
Theorem C14_stream_blank : forall n l r, blank l = true -> parse_stream n (l :: r) = parse_stream (n + 1) r.
Proof. exact stream_blank. Qed.
Print Assumptions C14_stream_blank.
Theorem C14_stream_line : forall n l r, blank l = false ->
  parse_stream n (l :: r) = (match parse_string (strip_comment l) with Ok (m, t) => SMsg m t | Raise _ => SErr n end) :: parse_stream (n + 1) r.
Proof. exact stream_line. Qed.
Print Assumptions C14_stream_line.

Example C14_nonvacuous : parse_string (msg2str (Pitchwheel 3 (-8192)) (TvInt 10)) = Ok (Pitchwheel 3 (-8192), TvInt 10)
  /\ time_ok (TvFloat [48; 46; 53]) /\ parse_string [102; 111; 111] = Raise ValueError.
Proof. split; [vm_compute; reflexivity|]. split; [|reflexivity]. repeat split; try reflexivity; discriminate. Qed.
