(* C06 — the parser resynchronises: a complete message is always recognised. *)
From Coq Require Import ZArith List Bool Lia.
Require Import Mido.Model.Base Mido.Model.Codec Mido.Model.Tokenizer Mido.Model.Parser.
Require Import Mido.Proofs.TokProofs Mido.Proofs.ParseProofs.
Import ListNotations.
Open Scope Z_scope.

(* any byte prefix P (garbage, stray bytes, a message cut short, an open sysex), any valid message M *)
Theorem C06_resync : forall P m, Forall (fun b => 0 <= b <= 255) P -> valid m = true ->
  exists ms, parse_all P = Ok ms /\ parse_all (P ++ enc m) = Ok (ms ++ [m]).
Proof. exact (C06_resync true). Qed.
Print Assumptions C06_resync.

Theorem C06_concat : forall ms, Forall (fun m => valid m = true) ms -> parse_all (concat (map enc ms)) = Ok ms.
Proof. exact (C06_concat true). Qed.
Print Assumptions C06_concat.

(* any number of bytes >= 0xF8 (defined or undefined) at any positions strictly between F0 and F7:
   the defined ones are delivered, in order, ahead of the sysex, whose payload is unchanged *)
Theorem C06_rt_sysex : forall d rts mixed, inter d rts mixed ->
  parse_all (240 :: mixed ++ [247]) = Ok (map rt_msg_of (filter is_rt_defined rts) ++ [Sysex d]).
Proof. exact C06_rt_inside_sysex. Qed.
Print Assumptions C06_rt_sysex.

Example C06_nonvacuous : inter [1; 2] [248; 249; 254] [248; 1; 249; 254; 2].
Proof. repeat constructor; lia. Qed.
