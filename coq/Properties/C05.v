(* C05 — parsing does not depend on how the stream is chunked or consumed. *)
From Coq Require Import ZArith List Bool.
Require Import Mido.Model.Base Mido.Model.Codec Mido.Model.Tokenizer Mido.Model.Parser.
Require Import Mido.Proofs.TokProofs Mido.Proofs.ParseProofs.
Import ListNotations.
Open Scope Z_scope.

(* feeding chunk by chunk (any split, including inside messages) leaves the parser in the same state,
   tokenizer and queue, as feeding everything at once *)
Theorem C05_chunks : forall chunks, Forall (fun b => 0 <= b <= 255) (concat chunks) ->
  fst (p_run p_init (map PFeed chunks)) = fst (p_run p_init [PFeed (concat chunks)]).
Proof. exact C05_chunks_state. Qed.
Print Assumptions C05_chunks.

(* any interleaving of feed / feed_byte / get_message / pending / iteration / partial iteration:
   what was retrieved followed by what is still queued is exactly parse_all of everything fed (FIFO,
   nothing lost or duplicated) *)
Theorem C05_history : forall ops, Forall (fun b => 0 <= b <= 255) (fed ops) ->
  exists ms, parse_all (fed ops) = Ok ms /\ ms = retrieved (snd (p_run p_init ops)) ++ p_q (fst (p_run p_init ops)).
Proof. exact C05_history_fifo. Qed.
Print Assumptions C05_history.

Theorem C05_pending_get : forall s, snd (p_step s PPending) = ONum (zlen (p_q s)) /\
  (snd (p_step s PGet) = OGet None <-> p_q s = []).
Proof. exact C05_pending_get. Qed.
Print Assumptions C05_pending_get.

(* ParserQueue histories of put_bytes / poll / iterpoll *)
Theorem C05_pqueue : forall ops pops, map q2p ops = map Some pops -> Forall (fun b => 0 <= b <= 255) (fed pops) ->
  exists ms, parse_all (fed pops) = Ok ms /\
    ms = retrieved (snd (q_run {| q_tok := Idle; q_q := [] |} ops)) ++ q_q (fst (q_run {| q_tok := Idle; q_q := [] |} ops)).
Proof. exact C05_pqueue_fifo. Qed.
Print Assumptions C05_pqueue.

Example C05_nonvacuous :
  snd (p_run p_init [PFeed [144; 60]; PPending; PFeedByte 64; PFeed [248; 128; 1]; PPending; PGet; PFeedByte 2; PIterAll; PGet]) =
  [ONone; ONum 0; ONone; ONone; ONum 2; OGet (Some (NoteOn 0 60 64)); ONone; OMsgs [Clock; NoteOff 0 1 2]; OGet None].
Proof. reflexivity. Qed.

(* with ANY number of iterators kept alive across feeds, get_message calls and other iterations and advanced in any order (INew creates one,
   INextK k advances the k-th), in ANY history of any length: retrieved ++ queued = parse_all(everything fed) - nothing lost, duplicated or
   reordered *)
Theorem C05_live_iterator : forall ops, Forall byte (ifed ops) ->
  exists ms, parse_all (ifed ops) = Ok ms /\ ms = retrieved (snd (i_run i_init ops)) ++ p_q (i_p (fst (i_run i_init ops))).
Proof. exact live_iterator_fifo. Qed.
Print Assumptions C05_live_iterator.
