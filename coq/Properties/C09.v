(* C09 — the meta message codec accepts and preserves every documented value. *)
From Coq Require Import ZArith List Bool.
Require Import Mido.Model.Base Mido.Model.Varint Mido.Model.Meta Mido.Proofs.VarintProofs Mido.Proofs.MetaProofs.
Import ListNotations.
Open Scope Z_scope.

(* every accepted value (meta_rt: the documented domains, minus SMPTE hours above 31, see C09_smpte_hours_refuted) encodes to
   bytes and decodes back to itself, for any text codec that round-trips what it encodes; text of any length *)
Theorem C09_payload_roundtrip : forall cs x p, codec_ok cs -> meta_rt x = true -> meta_payload cs x = Ok p ->
  meta_decode cs (type_byte x) p = Ok x /\ Forall (fun b => 0 <= b <= 255) p.
Proof. exact payload_roundtrip. Qed.
Print Assumptions C09_payload_roundtrip.

(* MetaMessage.bytes() = FF type <length as a variable-length quantity> payload *)
Theorem C09_bytes_shape : forall cs x, meta_bytes cs x = p <- meta_payload cs x ;; Ok (255 :: type_byte x :: enc_varint (zlen p) ++ p).
Proof. reflexivity. Qed.
Print Assumptions C09_bytes_shape.

(* the length field is a correct (readable, minimal) variable-length quantity for every n >= 0 *)
Theorem C09_length_vlq : forall n rest, 0 <= n -> read_varint (enc_varint n ++ rest) = Some (n, rest).
Proof. exact read_enc_varint. Qed.
Print Assumptions C09_length_vlq.
Theorem C09_length_minimal : forall n, 0 <= n -> enc_varint n = [n] /\ n < 128 \/ exists d r, enc_varint n = d :: r /\ d <> 128 /\ 128 <= n.
Proof. exact enc_varint_minimal. Qed.
Print Assumptions C09_length_minimal.

(* MetaMessage.from_bytes(m.bytes()) == m, any payload length *)
Theorem C09_from_bytes : forall cs x bs, codec_ok cs -> meta_rt x = true -> meta_bytes cs x = Ok bs -> meta_from_bytes cs bs = Ok x.
Proof. exact from_bytes_roundtrip. Qed.
Print Assumptions C09_from_bytes.

(* a documented value that does NOT survive: smpte_offset hours 32..255 are accepted and spill into the frame-rate bits *)
Theorem C09_smpte_hours_refuted : meta_ok (MSmpte 0 32 0 0 0 0) = true /\
  exists p, meta_payload latin1 (MSmpte 0 32 0 0 0 0) = Ok p /\ meta_decode latin1 84 p = Ok (MSmpte 1 0 0 0 0 0).
Proof. exact smpte_hours_refuted. Qed.
Print Assumptions C09_smpte_hours_refuted.

Example C09_nonvacuous : meta_rt (MTimeSig 7 (2 ^ 255) 24 8) = true /\ meta_payload latin1 (MTimeSig 7 (2 ^ 255) 24 8) = Ok [7; 255; 24; 8].
Proof. split; reflexivity. Qed.
