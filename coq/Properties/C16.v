(* C16 — a MidiFile always reflects its current contents. *)
From Coq Require Import ZArith List Bool.
Require Import Mido.Model.Base Mido.Model.Tracks Mido.Model.FileCache Mido.Proofs.FileCacheProofs.
Import ListNotations.
Open Scope Z_scope.

(* after any sequence of edits (tracks list, add_track, track contents, message times, type, ticks_per_beat) interleaved with
   observations, an observation equals that of a freshly built file with the same contents *)
Theorem C16_fresh : forall ops s,
  let s' := fst (run_file false s ops) in
  snd (observe false s') = snd (observe false (fresh (c_type s') (c_tpb s') (c_tracks s'))).
Proof. exact reflects_contents. Qed.
Print Assumptions C16_fresh.
(* results never depend on whether the file was observed earlier *)
Theorem C16_observation_pure : forall ops s, same_contents (fst (run_file false s ops)) (fst (run_file false s (edits_only ops))).
Proof. exact observations_are_pure. Qed.
Print Assumptions C16_observation_pure.
(* the memoised merged_track of the tree before the repair violates it *)
Theorem C16_memo_refuted : exists ops, snd (run_file true (fresh 1 480 []) ops) <> snd (run_file false (fresh 1 480 []) ops).
Proof. exact memo_refuted. Qed.
Print Assumptions C16_memo_refuted.
