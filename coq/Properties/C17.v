(* C17 — text encoding follows the file charset and never leaks out of a call. *)
From Coq Require Import ZArith List Bool.
Require Import Mido.Model.Base Mido.Model.Meta Mido.Model.Smf Mido.Model.SmfSpec Mido.Model.Charset.
Require Import Mido.Proofs.MetaProofs Mido.Proofs.SmfProofs Mido.Proofs.SmfSpecProofs Mido.Proofs.CharsetProofs.
Import ListNotations.
Open Scope Z_scope.

(* for EVERY charset (any assignment of codecs to charset names) and every call — load or save, succeeding or raising at any
   point — the process-wide charset afterwards is what it was before; lifted to all histories of calls *)
Theorem C17_scope : forall codec_of st k, fst (do_call codec_of true st k) = st.
Proof. exact call_scope. Qed.
Print Assumptions C17_scope.
Theorem C17_history : forall codec_of ks st, fold_left (fun s k => fst (do_call codec_of true s k)) ks st = st.
Proof. exact history_scope. Qed.
Print Assumptions C17_history.
Theorem C17_default_after : forall codec_of ks t,
  text_bytes_elsewhere codec_of (fold_left (fun s k => fst (do_call codec_of true s k)) ks g_default) t = meta_bytes (codec_of 0) (MText 1 t).
Proof. exact default_after. Qed.
Print Assumptions C17_default_after.

(* inside the call the file's charset is in force, and text survives save then load with it *)
Theorem C17_save_uses : forall codec_of guarded c st f, snd (save_g codec_of guarded c st f) = save (codec_of c) f.
Proof. exact save_uses_file_charset. Qed.
Print Assumptions C17_save_uses.
Theorem C17_text_roundtrip : forall codec_of c st f bs, codec_ok (codec_of c) -> file_ok (codec_of c) f ->
  snd (save_g codec_of true c st f) = Ok bs -> snd (load_g codec_of true c false st bs) = Ok (normalise f).
Proof. exact text_roundtrip. Qed.
Print Assumptions C17_text_roundtrip.
(* the bytes in the file are the text encoded in that charset: the meta payload the reference decoder finds is c_enc of the text *)
Theorem C17_payload_is_encoded_text : forall cs tb t, std_meta_payload cs (MText tb t) = c_enc cs t.
Proof. reflexivity. Qed.
Print Assumptions C17_payload_is_encoded_text.

(* the context manager without try/finally (the tree before the repair) leaks the charset of a raising call *)
Theorem C17_unguarded_refuted : forall codec_of c st bs, is_raise (load (codec_of c) false bs) = true ->
  g_charset (fst (load_g codec_of false c false st bs)) = c.
Proof. exact unguarded_leaks. Qed.
Print Assumptions C17_unguarded_refuted.

Example C17_nonvacuous : is_raise (load latin1 false [77; 84]) = true. Proof. reflexivity. Qed.
