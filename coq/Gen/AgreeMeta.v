(* AgreeMeta.v — tables of /repo's mido.midifiles.meta and midifiles equal the model's. *)
From Coq Require Import ZArith List String Bool.
Require Import Mido.Model.Base Mido.Model.Meta Mido.Model.Smf Mido.Gen.Tables.
Import ListNotations.
Open Scope Z_scope.
(* the known type bytes *)
Lemma agree_meta_types : t_meta_type_bytes = filter known_type (map Z.of_nat (seq 0 256)).
Proof. vm_compute. reflexivity. Qed.
(* key signature table: (sharps/flats, mode) for every key, exactly the 30 pairs -7..7 x 0..1 *)
Lemma agree_keysig : t_keysig_pairs = flat_map (fun mode => map (fun i => (Z.of_nat i - 7, mode)) (seq 0 15)) [0; 1].
Proof. vm_compute. reflexivity. Qed.
Lemma agree_limits : (t_max_message_length, t_default_tempo, t_default_tpb) = (MAX_MESSAGE_LENGTH, 500000, 480).
Proof. reflexivity. Qed.
Lemma agree_realtime_types : t_realtime_types = ["active_sensing"; "clock"; "continue"; "reset"; "start"; "stop"]%string.
Proof. reflexivity. Qed.
