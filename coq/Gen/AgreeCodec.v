(* AgreeCodec.v — the tables dumped from /repo's mido.messages.specs equal the model's. *)
From Coq Require Import ZArith List String Bool.
Require Import Mido.Model.Base Mido.Model.Codec Mido.Model.Names Mido.Gen.Tables.
Import ListNotations.
Open Scope Z_scope.

Lemma agree_specs : t_specs = model_specs. Proof. vm_compute. reflexivity. Qed.
Lemma agree_by_status : t_by_status = map (fun i => model_by_status (t_by_status_from + Z.of_nat i)) (seq 0 (List.length t_by_status)).
Proof. vm_compute. reflexivity. Qed.
(* no key outside the dumped window: the dict has exactly as many keys as the window shows *)
Lemma agree_by_status_size : t_by_status_size = Z.of_nat (List.length (filter (fun i => negb (i =? -1)) t_by_status)).
Proof. vm_compute. reflexivity. Qed.
Lemma agree_by_type : List.length t_by_type_names = List.length all_kinds /\ forallb (fun k => existsb (String.eqb (kind_name k)) t_by_type_names) all_kinds = true.
Proof. split; vm_compute; reflexivity. Qed.
Lemma agree_limits : (t_pitch_min, t_pitch_max, t_songpos_min, t_songpos_max, t_sysex_start, t_sysex_end) = (-8192, 8191, 0, 16383, 240, 247).
Proof. reflexivity. Qed.
Lemma agree_defaults : t_default_values = default_values. Proof. vm_compute. reflexivity. Qed.
Lemma agree_sets : (t_channel_range, t_channel_count, t_common_range, t_realtime_range) = ((128, 239), 112, (240, 247), (248, 255)).
Proof. reflexivity. Qed.
