(* AgreeChecks.v — the model's attribute lists are the value_names of /repo's SPECS. *)
From Coq Require Import ZArith List String Bool.
Require Import Mido.Model.Base Mido.Model.Codec Mido.Model.Names Mido.Model.Checks Mido.Gen.Tables.
Import ListNotations.
Lemma agree_attrs : map (fun k => map attr_name (attrs_of k)) all_kinds = map (fun s => snd (fst s)) t_specs.
Proof. vm_compute. reflexivity. Qed.
Lemma agree_check_names : t_check_names = map attr_name [AChannel; AControl; AData; AFrameType; AFrameValue; ANote; APitch; APos; AProgram; ASong; ATime; AType; AValue; AVelocity].
Proof. vm_compute. reflexivity. Qed.
