"""Canonical integer encodings shared with coq/Model/Wire.v.  The tables here are the harness's own
(written from the MIDI 1.0 specification), never read from mido, so a changed mido table cannot
silently change what the harness expects."""
import random

KINDS = [
    ('note_off', ('channel', 'note', 'velocity'), 0x80, 3),
    ('note_on', ('channel', 'note', 'velocity'), 0x90, 3),
    ('polytouch', ('channel', 'note', 'value'), 0xa0, 3),
    ('control_change', ('channel', 'control', 'value'), 0xb0, 3),
    ('program_change', ('channel', 'program'), 0xc0, 2),
    ('aftertouch', ('channel', 'value'), 0xd0, 2),
    ('pitchwheel', ('channel', 'pitch'), 0xe0, 3),
    ('sysex', ('data',), 0xf0, None),
    ('quarter_frame', ('frame_type', 'frame_value'), 0xf1, 2),
    ('songpos', ('pos',), 0xf2, 3),
    ('song_select', ('song',), 0xf3, 2),
    ('tune_request', (), 0xf6, 1),
    ('clock', (), 0xf8, 1),
    ('start', (), 0xfa, 1),
    ('continue', (), 0xfb, 1),
    ('stop', (), 0xfc, 1),
    ('active_sensing', (), 0xfe, 1),
    ('reset', (), 0xff, 1),
]
KIND_ID = {k[0]: i for i, k in enumerate(KINDS)}
RANGES = {
    'channel': (0, 15), 'note': (0, 127), 'velocity': (0, 127), 'value': (0, 127), 'control': (0, 127),
    'program': (0, 127), 'pitch': (-8192, 8191), 'frame_type': (0, 7), 'frame_value': (0, 15),
    'pos': (0, 16383), 'song': (0, 127),
}


def to_int(v):
    """bool counts as an integer (numbers.Integral); True == 1."""
    if isinstance(v, bool):
        return int(v)
    return v


def msg_ints(m):
    """A mido Message -> [kind, attrs...] built from vars(), never with == against a non-message."""
    d = vars(m)
    name = d['type']
    k = KIND_ID[name]
    out = [k]
    for a in KINDS[k][1]:
        v = d[a]
        if a == 'data':
            v = list(v)
            out.append(len(v))
            out.extend(to_int(x) for x in v)
        else:
            out.append(to_int(v))
    extra = set(d) - set(KINDS[k][1]) - {'type', 'time'}
    if extra or not all(isinstance(x, int) for x in out):
        return [-77] + [hash(str(sorted(d.items()))) % 1000]
    return out


def kwargs_of(ints):
    """[kind, attrs...] -> (type name, kwargs, rest)."""
    k = ints[0]
    name, attrs, _, _ = KINDS[k]
    kw = {}
    i = 1
    for a in attrs:
        if a == 'data':
            n = ints[i]
            kw[a] = list(ints[i + 1:i + 1 + n])
            i += 1 + n
        else:
            kw[a] = ints[i]
            i += 1
    return name, kw, ints[i:]


def out_list(xs):
    xs = list(xs)
    return [len(xs)] + xs


def std_layout(ints):
    """Independent statement of the MIDI 1.0 layout, arithmetic only: [kind, attrs] -> bytes."""
    name, kw, _ = kwargs_of(ints)
    _, attrs, base, _ = KINDS[ints[0]]
    if name == 'pitchwheel':
        p = kw['pitch'] + 8192
        return [base + kw['channel'], p % 128, p // 128]
    if name == 'sysex':
        return [0xf0] + kw['data'] + [0xf7]
    if name == 'quarter_frame':
        return [0xf1, 16 * kw['frame_type'] + kw['frame_value']]
    if name == 'songpos':
        return [0xf2, kw['pos'] % 128, kw['pos'] // 128]
    st = base + kw.get('channel', 0)
    return [st] + [kw[a] for a in attrs if a != 'channel']


def std_status(ints):
    name, kw, _ = kwargs_of(ints)
    return KINDS[ints[0]][2] + kw.get('channel', 0)


# ---- the complete non-sysex message space, indexable -------------------------------------------
def _space():
    blocks = []  # (kind, count, decoder)
    for k, (name, attrs, base, ln) in enumerate(KINDS):
        if name == 'sysex':
            continue
        dims = [RANGES[a] for a in attrs]
        n = 1
        for lo, hi in dims:
            n *= hi - lo + 1
        blocks.append((k, n, dims))
    return blocks


SPACE = _space()
SPACE_SIZE = sum(n for _, n, _ in SPACE)   # 1 331 463


def nth_message(i):
    """i-th message of the complete non-sysex space as [kind, attrs...]."""
    for k, n, dims in SPACE:
        if i < n:
            vals = []
            for lo, hi in reversed(dims):
                w = hi - lo + 1
                vals.append(lo + i % w)
                i //= w
            return [k] + vals[::-1]
        i -= n
    raise IndexError(i)


def random_message(rng, sysex_max=40, boundary_bias=0.3):
    k = rng.randrange(len(KINDS))
    name, attrs, _, _ = KINDS[k]
    out = [k]
    for a in attrs:
        if a == 'data':
            n = rng.choice([0, 1, 2, 3, rng.randrange(sysex_max + 1)])
            out.append(n)
            out.extend(rng.choice([0, 127, rng.randrange(128)]) for _ in range(n))
        else:
            lo, hi = RANGES[a]
            if rng.random() < boundary_bias:
                out.append(rng.choice([lo, hi, lo + 1, hi - 1]))
            else:
                out.append(rng.randint(lo, hi))
    return out


def boundary_messages():
    """every type x channel {0,15} x every attribute at lo, lo+1, mid, hi-1, hi (others at each of lo/hi)."""
    res = []
    for k, (name, attrs, _, _) in enumerate(KINDS):
        if name == 'sysex':
            for n in (0, 1, 2, 127, 128, 1000):
                res.append([k, n] + [(i * 37 + 5) % 128 for i in range(n)])
            continue
        choices = []
        for a in attrs:
            lo, hi = RANGES[a]
            choices.append(sorted({lo, lo + 1, (lo + hi) // 2, hi - 1, hi}))

        def rec(j, acc):
            if j == len(choices):
                res.append([k] + acc)
                return
            for v in choices[j]:
                rec(j + 1, acc + [v])
        rec(0, [])
    return res


# ---- what callers do between two calls -----------------------------------------------------------------
def scribble(m):
    """The caller owns what it was handed: give every attribute of the (mutable) message another valid value, and another time."""
    try:
        d = vars(m)
        for a in KINDS[KIND_ID[d['type']]][1]:
            if a == 'data':
                m.data = tuple(d['data']) + (9,)
            else:
                lo, hi = RANGES[a]
                setattr(m, a, lo if d[a] != lo else hi)
        m.time = 4321
    except Exception:  # noqa: BLE001
        pass


def observe(m):
    """Asking a message about itself - every read-only attribute and method of the public interface - is not an edit: the message must
    compare, copy and encode afterwards as it did before."""
    for f in (lambda: m.is_realtime, lambda: m.is_meta, lambda: m.is_cc(), lambda: m.is_cc(7), lambda: len(m), lambda: str(m), lambda: repr(m),
              lambda: m.hex(), lambda: m.dict(), lambda: m.bytes(), lambda: m.bin(), lambda: m == m, lambda: m.copy()):
        try:
            f()
        except Exception:  # noqa: BLE001
            pass


_NOISE = [0]


def noise():
    """Calls that the library must refuse, of the kind any program makes now and then (a float among the bytes, a value out of range, a
    line that is not a message). They are caught by their caller; the calls that come after them must not notice. One of them per call,
    in rotation."""
    import mido
    _NOISE[0] += 1
    k = _NOISE[0] % 12
    try:
        if k == 0:
            mido.Message.from_bytes([0x90, 60, 64.0])
        elif k == 1:
            mido.Message.from_bytes([0xf0, 1, 2, '3', 0xf7])
        elif k == 2:
            mido.Message.from_bytes((0xb0, 7.5, 1))
        elif k == 3:
            mido.Message.from_bytes([0xe3, 0, None])
        elif k == 4:
            mido.Message('note_on', note=60, velocity=999)
        elif k == 5:
            mido.Message('pitchwheel', channel=2, pitch=1.5)
        elif k == 6:
            mido.Message('sysex', data=[1, 2, 300])
        elif k == 7:
            mido.Message.from_str('note_on channel=2 note=61 velocity=banana')
        elif k == 8:
            mido.Message.from_str('control_change channel=3 control=7 value=')
        elif k == 9:
            mido.Message.from_hex('90 3C zz')
        elif k == 10:
            mido.Message('note_off', channel=5, note=3).copy(note=1, velocity=128)
        else:
            mido.Message.from_bytes([0x91, 60, 64, 5])
    except Exception:  # noqa: BLE001
        pass
