"""Core of the verification harness: build, model access, obligations, evidence, findings.

Run only through bin/check (which sets PYTHONPATH=/repo, PYTHONHASHSEED=0 and uses /venv/bin/python -B),
so that `import mido` is /repo's current working tree.
"""
import fcntl
import hashlib
import json
import os
import random
import re
import subprocess
import sys
import time

VERIF = os.path.dirname(os.path.dirname(os.path.abspath(__file__)))
COQ = os.path.join(VERIF, 'coq')
BUILD = os.path.join(VERIF, 'build')
REPO = '/repo'
NPROC = min(16, os.cpu_count() or 4)

EXN_CODES = {
    'ValueError': 1, 'TypeError': 2, 'AttributeError': 3, 'LookupError': 4, 'IndexError': 5, 'KeyError': 6,
    'OSError': 7, 'EOFError': 8, 'ZeroDivisionError': 9, 'StructError': 10, 'KeySigError': 11,
    'OverflowError': 12, 'Diverges': 13,
}
EXN_NAMES = {v: k for k, v in EXN_CODES.items()}

ALLOWED_ASSUMPTIONS = set()  # the development is intended to be axiom free


class InfraError(Exception):
    """The machinery itself failed (exit 2); never reported as a VIOLATION."""


def exn_code(e):
    """Map a Python exception to the model's exn enum, by a fixed isinstance order."""
    import struct
    try:
        from mido.midifiles.meta import KeySignatureError
    except Exception:  # pragma: no cover
        KeySignatureError = ()
    if KeySignatureError and isinstance(e, KeySignatureError):
        return EXN_CODES['KeySigError']
    if isinstance(e, struct.error):
        return EXN_CODES['StructError']
    for name, cls in (('EOFError', EOFError), ('ZeroDivisionError', ZeroDivisionError),
                      ('OverflowError', OverflowError),
                      ('IndexError', IndexError), ('KeyError', KeyError), ('LookupError', LookupError),
                      ('ValueError', ValueError), ('TypeError', TypeError),
                      ('AttributeError', AttributeError), ('OSError', OSError)):
        if isinstance(e, cls):
            return EXN_CODES[name]
    return 99


def sh(cmd, cwd=None, timeout=3600, check=False, env=None):
    p = subprocess.run(cmd, cwd=cwd, shell=isinstance(cmd, str), stdout=subprocess.PIPE,
                       stderr=subprocess.STDOUT, timeout=timeout, env=env)
    out = p.stdout.decode('utf-8', 'replace')
    if check and p.returncode != 0:
        raise InfraError('command failed (%d): %s\n%s' % (p.returncode, cmd, out[-4000:]))
    return p.returncode, out


# --------------------------------------------------------------------------- build

class Lock:
    def __init__(self, path):
        self.path = path

    def __enter__(self):
        self.f = open(self.path, 'w')
        fcntl.flock(self.f, fcntl.LOCK_EX)
        return self

    def __exit__(self, *a):
        fcntl.flock(self.f, fcntl.LOCK_UN)
        self.f.close()


def write_if_changed(path, text):
    try:
        if open(path).read() == text:
            return False
    except OSError:
        pass
    tmp = path + '.tmp%d' % os.getpid()
    with open(tmp, 'w') as f:
        f.write(text)
    os.replace(tmp, path)
    return True


def build(verbose=False):
    """Regenerate Gen/Tables.v from /repo, build the Coq development (full .vo build, make -k),
    extract and compile modelrun.  Returns a dict describing what built and what did not."""
    os.makedirs(BUILD, exist_ok=True)
    t0 = time.time()
    info = {'missing_vo': [], 'make_rc': None, 'tables_error': None}
    with Lock(os.path.join(BUILD, '.lock')):
        # 1. tables from the working tree (a separate interpreter, so a broken import cannot kill us)
        rc, out = sh([sys.executable, '-B', os.path.join(VERIF, 'harness', 'gen_tables.py')], timeout=120)
        if rc == 0:
            write_if_changed(os.path.join(COQ, 'Gen', 'Tables.v'), out)
        else:
            info['tables_error'] = out[-2000:]
        # 2. coq
        if not os.path.exists(os.path.join(COQ, 'Makefile')) or \
                os.path.getmtime(os.path.join(COQ, 'Makefile')) < os.path.getmtime(os.path.join(COQ, '_CoqProject')):
            sh('coq_makefile -f _CoqProject -o Makefile', cwd=COQ, check=True)
        rc, out = sh('timeout 3000 make -k -j%d 2>&1' % NPROC, cwd=COQ, timeout=3100)
        info['make_rc'] = rc
        info['make_tail'] = out[-3000:] if rc != 0 else ''
        vfiles = [l.strip() for l in open(os.path.join(COQ, '_CoqProject')) if l.strip().endswith('.v')]
        for v in vfiles:
            vo = os.path.join(COQ, v[:-2] + '.vo')
            if not os.path.exists(vo) or os.path.getmtime(vo) < os.path.getmtime(os.path.join(COQ, v)):
                info['missing_vo'].append(v)
        # 3. extraction -> modelrun
        src = os.path.join(COQ, 'model.ml')
        exe = os.path.join(BUILD, 'modelrun')
        drv = os.path.join(VERIF, 'driver', 'modelrun.ml')
        if not os.path.exists(src):
            raise InfraError('extraction did not produce model.ml\n' + out[-3000:])
        stamp = os.path.join(BUILD, '.modelrun.stamp')
        h = hashlib.sha256(open(src, 'rb').read() + open(drv, 'rb').read()).hexdigest()
        if not os.path.exists(exe) or not os.path.exists(stamp) or open(stamp).read() != h:
            for f in ('model.ml', 'model.mli'):
                with open(os.path.join(COQ, f), 'rb') as a, open(os.path.join(BUILD, f), 'wb') as b:
                    b.write(a.read())
            with open(drv, 'rb') as a, open(os.path.join(BUILD, 'modelrun.ml'), 'wb') as b:
                b.write(a.read())
            sh('ocamlfind ocamlopt -package zarith -linkpkg -w -a model.mli model.ml modelrun.ml -o modelrun',
               cwd=BUILD, check=True, timeout=600)
            with open(stamp, 'w') as f:
                f.write(h)
    info['build_s'] = round(time.time() - t0, 2)
    return info


# --------------------------------------------------------------------------- model access

def model_run(cases, chunk=None):
    """cases: list of (comp, [ints]).  Returns list of [ints] from the extracted model."""
    if not cases:
        return []
    inp = '\n'.join('%d %s' % (c, ' '.join(map(str, xs))) for c, xs in cases) + '\n'
    p = subprocess.run([os.path.join(BUILD, 'modelrun')], input=inp.encode(), stdout=subprocess.PIPE,
                       stderr=subprocess.PIPE)
    if p.returncode != 0:
        raise InfraError('modelrun failed: ' + p.stderr.decode()[-2000:])
    lines = p.stdout.decode().split('\n')
    if lines and lines[-1] == '':
        lines.pop()
    if len(lines) != len(cases):
        raise InfraError('modelrun returned %d lines for %d cases' % (len(lines), len(cases)))
    return [[int(x) for x in l.split()] for l in lines]


def coq_list(xs):
    return '[' + '; '.join(('(%d)' % x) if x < 0 else str(x) for x in xs) + ']'


def kernel_call(module, fn, inputs, tag='f', shard=400):
    """Evaluate the Gallina function `fn : list Z -> list Z` of `module` on every input with vm_compute (kernel only,
    e.g. for PrimFloat models that are not extracted).  Sharded over coqc processes."""
    if not inputs:
        return []
    d = os.path.join(BUILD, 'kernel')
    os.makedirs(d, exist_ok=True)
    shards = [inputs[i:i + shard] for i in range(0, len(inputs), shard)]
    procs = []
    for k, sh in enumerate(shards):
        name = 'Call_%s_%d_%d' % (re.sub(r'\W', '_', tag), os.getpid(), k)
        path = os.path.join(d, name + '.v')
        body = ['From Coq Require Import ZArith List.', 'Require Import %s.' % module, 'Import ListNotations.', 'Open Scope Z_scope.',
                'Definition cases : list (list Z) := [', ';\n'.join(coq_list(xs) for xs in sh), '].',
                'Definition show (l : list Z) : list Z := (Z.of_nat (length l)) :: l.',
                'Eval vm_compute in flat_map (fun c => show (%s c)) cases.' % fn]
        with open(path, 'w') as f:
            f.write('\n'.join(body) + '\n')
        # output goes to a file: a pipe fills up and blocks coqc while we wait for it
        logf = open(os.path.join(d, name + '.out'), 'wb')
        procs.append((name, len(sh), subprocess.Popen('ulimit -s unlimited 2>/dev/null; exec timeout 900 coqc -Q %s Mido %s' % (COQ, path),
                                                      shell=True, cwd=d, stdout=logf, stderr=subprocess.STDOUT)))
        logf.close()
        if len(procs) % NPROC == 0:
            for _, _, p in procs[-NPROC:]:
                p.wait()
    res = []
    for name, n, p in procs:
        p.wait()
        with open(os.path.join(d, name + '.out'), 'rb') as lf:
            out = lf.read().decode('utf-8', 'replace')
        for ext in ('.v', '.vo', '.vok', '.vos', '.glob', '.out'):
            try:
                os.remove(os.path.join(d, name + ext))
            except OSError:
                pass
        try:
            os.remove(os.path.join(d, '.' + name + '.aux'))
        except OSError:
            pass
        if p.returncode != 0:
            raise InfraError('kernel evaluation failed: ' + out[-2000:])
        m = re.search(r'=\s*\[(.*?)\]\s*:\s*list Z', out, re.S)
        if not m:
            raise InfraError('cannot parse kernel output: ' + out[-1000:])
        flat = [int(x.replace('(', '').replace(')', '')) for x in m.group(1).replace('\n', ' ').split(';') if x.strip()]
        part, i = [], 0
        while i < len(flat):
            k = flat[i]
            part.append(flat[i + 1:i + 1 + k])
            i += 1 + k
        if len(part) != n:
            raise InfraError('kernel returned %d results for %d cases' % (len(part), n))
        res += part
    return res


def kernel_run(cases, tag='k'):
    """Evaluate run comp inp for each case with the kernel's vm_compute (coqc on a generated file).
    Returns list of [ints].  Used to cross-check the extracted model on a sample and on every disagreement."""
    if not cases:
        return []
    d = os.path.join(BUILD, 'kernel')
    os.makedirs(d, exist_ok=True)
    name = 'Cases_%s_%d' % (re.sub(r'\W', '_', tag), os.getpid())
    path = os.path.join(d, name + '.v')
    body = ['From Coq Require Import ZArith List.', 'Require Import Mido.Model.Run.', 'Import ListNotations.',
            'Open Scope Z_scope.', 'Definition cases : list (Z * list Z) := [']
    body.append(';\n'.join('(%d, %s)' % (c, coq_list(xs)) for c, xs in cases))
    body.append('].')
    body.append('Definition show (l : list Z) : list Z := (Z.of_nat (length l)) :: l.')
    body.append('Eval vm_compute in flat_map (fun c => show (run (fst c) (snd c))) cases.')
    with open(path, 'w') as f:
        f.write('\n'.join(body) + '\n')
    rc, out = sh('ulimit -s unlimited 2>/dev/null; timeout 600 coqc -Q %s Mido %s' % (COQ, path), cwd=d, timeout=700)
    for ext in ('.v', '.vo', '.vok', '.vos', '.glob'):
        try:
            os.remove(os.path.join(d, name + ext))
        except OSError:
            pass
    try:
        os.remove(os.path.join(d, '.' + name + '.aux'))
    except OSError:
        pass
    if rc != 0:
        raise InfraError('kernel evaluation failed: ' + out[-2000:])
    m = re.search(r'=\s*\[(.*?)\]\s*:\s*list Z', out, re.S)
    if not m:
        raise InfraError('cannot parse kernel output: ' + out[-1000:])
    flat = [int(x.replace('(', '').replace(')', '')) for x in m.group(1).replace('\n', ' ').split(';') if x.strip()]
    res, i = [], 0
    while i < len(flat):
        n = flat[i]
        res.append(flat[i + 1:i + 1 + n])
        i += 1 + n
    if len(res) != len(cases):
        raise InfraError('kernel returned %d results for %d cases' % (len(res), len(cases)))
    return res


# --------------------------------------------------------------------------- obligations

def coqchk(prop):
    """coqchk -o on the compiled Properties/<prop>.vo (thorough tier): exit status, axioms, unsafe features"""
    t0 = time.time()
    rc, out = sh('timeout 2400 coqchk -silent -o -Q . Mido Mido.Properties.%s' % prop, cwd=COQ, timeout=2500)
    summ = out[out.find('CONTEXT SUMMARY'):] if 'CONTEXT SUMMARY' in out else out[-1500:]
    fields = {}
    for key, label in (('axioms', 'Axioms'), ('type_in_type', 'relying on type-in-type'), ('unsafe_fixpoints', 'relying on unsafe (co)fixpoints'),
                       ('assumed_positivity', 'positivity is assumed')):
        m = re.search(r'\* [^\n]*%s: *(.*?)(?=\n\s*\n|\n\* |\Z)' % re.escape(label), summ, re.S)
        fields[key] = m.group(1).strip() if m else '?'
    ok = rc == 0 and all(v == '<none>' for v in fields.values())
    return {'ok': ok, 'exit': rc, 'seconds': round(time.time() - t0, 1), 'summary': summ.strip(), **fields}


def obligations(prop, build_info, extra_files=()):
    """Compile Properties/<prop>.v afresh, collect its theorems and their Print Assumptions output.
    Returns dict(obligations, discharged, theorems=[(name, closed?)], problems=[...])."""
    problems = []
    pv = 'Properties/%s.v' % prop
    deps_missing = [v for v in build_info['missing_vo']]
    src = open(os.path.join(COQ, pv)).read()
    names = re.findall(r'^(?:Theorem|Lemma|Example)\s+(\w+)', src, re.M)
    printed = re.findall(r'^Print Assumptions\s+(\w+)\.', src, re.M)
    # lint: the property file holds only statements closed by `exact`
    for bad in ('Admitted', 'admit', 'Axiom', 'Parameter', 'Conjecture', 'Unset Guard', 'bypass_check'):
        if re.search(r'\b%s\b' % bad, src):
            problems.append('%s contains %s' % (pv, bad))
    rc, out = sh('timeout 900 coqc -Q . Mido %s' % pv, cwd=COQ, timeout=1000)
    closed = {}
    if rc != 0:
        problems.append('%s does not compile: %s' % (pv, out.strip()[-1500:]))
    else:
        # outputs come in order of the Print Assumptions commands
        chunks = re.split(r'(?=Closed under the global context|Axioms:)', out)
        chunks = [c for c in chunks if c.startswith('Closed') or c.startswith('Axioms:')]
        for n, c in zip(printed, chunks):
            if c.startswith('Closed'):
                closed[n] = True
            else:
                ax = re.findall(r'^(\S+)\s*:', c, re.M)
                ax = [a for a in ax if a != 'Axioms']
                closed[n] = all(a in ALLOWED_ASSUMPTIONS for a in ax)
                if not closed[n]:
                    problems.append('%s depends on axioms %s' % (n, ax))
        if len(chunks) != len(printed):
            problems.append('Print Assumptions output count mismatch in %s' % pv)
    for v in deps_missing:
        problems.append('not built: %s' % v)
    theorems = [(n, bool(closed.get(n))) for n in printed]
    return {
        'obligations': len(printed) + len(extra_files),
        'discharged': sum(1 for _, c in theorems if c) + sum(1 for f in extra_files if f not in deps_missing),
        'theorems': theorems,
        'all_names': names,
        'problems': problems,
        'checker_cmd': 'cd /verif/coq && make -k -j16 (full .vo build) && coqc -Q . Mido %s' % pv,
    }


def lint_development():
    """grep the whole development for forbidden declarations and switches."""
    problems = []
    pat = re.compile(r'\b(Admitted|admit|Axiom|Axioms|Parameter|Parameters|Conjecture|Admit Obligations|bypass_check)\b|Unset Guard|Unset Positivity|Unset Universe|type-in-type|impredicative-set')
    for root, _, files in os.walk(COQ):
        for f in files:
            if f.endswith('.v'):
                txt = open(os.path.join(root, f)).read()
                txt = re.sub(r'\(\*.*?\*\)', '', txt, flags=re.S)
                for m in pat.finditer(txt):
                    problems.append('%s: %s' % (os.path.relpath(os.path.join(root, f), COQ), m.group(0)))
    proj = open(os.path.join(COQ, '_CoqProject')).read()
    if 'type-in-type' in proj or 'impredicative-set' in proj:
        problems.append('_CoqProject passes a forbidden flag')
    return problems


# --------------------------------------------------------------------------- findings

def load_findings():
    """known_findings.txt: 'finding: property=Cxx key=<key> :: text' and 'fixed: property=Cxx <commit> :: text'."""
    res = {}
    path = os.path.join(VERIF, 'known_findings.txt')
    if not os.path.exists(path):
        return res
    for line in open(path):
        line = line.strip()
        m = re.match(r'finding:\s+property=(\w+)\s+key=(\S+)\s+::\s*(.*)', line)
        if m:
            res.setdefault(m.group(1), {})[m.group(2)] = m.group(3)
    return res


# --------------------------------------------------------------------------- result / evidence

class Outcome:
    """Collects what one check run covered and found."""

    def __init__(self, prop, tier, seed):
        self.prop, self.tier, self.seed = prop, tier, seed
        self.t0 = time.time()
        self.evaluations = 0
        self.nontrivial = set()
        self.samples = []
        self.distribution = {}
        self.failures = []        # (key, description, replay-object): property fails on the implementation
        self.disagreements = []   # (component, case, impl_out, model_out): model != implementation
        self.broken = []          # obligation / build problems (strings)
        self.known_hits = {}      # key -> description, observed this run
        self.exhaustive = False
        self.rule = ''
        self.components = {}
        self.assumptions = []
        self.oblig = None
        self.extra = {}
        self.nontrivial_extra = 0  # distinct non-trivial cases counted (not stored) by exhaustive sweeps

    def count(self, kind, n=1):
        self.distribution[kind] = self.distribution.get(kind, 0) + n

    def sample(self, s, cap=8):
        if len(self.samples) < cap:
            self.samples.append(s)


TRUSTED_BASE = [
    'Coq 8.16.1 kernel (coqc; vm_compute used, native_compute not used)',
    'no axioms: Print Assumptions under every property theorem must say "Closed under the global context"',
    'hand-written Gallina model of the anchored mido modules (modelled, not verified code)',
    'correspondence harness: generators, canonicaliser, implementation runners, oracles (harness/)',
    'extraction (ExtrOcamlBasic only, Z kept as inductive, no Extract Constant) + driver/modelrun.ml + OCaml/zarith, '
    'cross-checked each run against kernel vm_compute on a sample and on every disagreement',
    'table translator harness/gen_tables.py, checked by reflexivity lemmas in coq/Gen/Agree.v',
]


def finish(out, level_note=''):
    """Apply the decision rule, write evidence, print the verdict lines, return the exit code."""
    findings = load_findings().get(out.prop, {})
    violations = []
    for key, desc, replay in out.failures:
        if key in findings:
            out.known_hits[key] = findings[key]
        else:
            violations.append((key, desc, replay))
    rc = 0
    lines = []
    for key, text in sorted(out.known_hits.items()):
        lines.append('KNOWN-FINDING: property=%s %s (%s)' % (out.prop, text, key))
    rdir = os.path.join(VERIF, 'replays', out.prop)
    if violations:
        os.makedirs(rdir, exist_ok=True)
        key, desc, replay = violations[0]
        body = {'property': out.prop, 'kind': 'failing-input', 'key': key, 'what_fails': desc, 'replay': replay,
                'seed': out.seed, 'tier': out.tier, 'other_failures': [(k, d) for k, d, _ in violations[1:20]]}
        h = hashlib.sha256(json.dumps(body, sort_keys=True, default=str).encode()).hexdigest()[:12]
        path = os.path.join(rdir, h + '.json')
        with open(path, 'w') as f:
            json.dump(body, f, indent=1, default=str)
        lines.append('VIOLATION property=%s replay=%s' % (out.prop, path))
        rc = 1
    elif out.disagreements or out.broken:
        os.makedirs(rdir, exist_ok=True)
        body = {'property': out.prop, 'kind': 'obligation-or-correspondence-broken',
                'no_longer_checks': out.broken[:20],
                'disagreements': [{'component': c, 'case': case, 'implementation': io, 'model': mo}
                                  for c, case, io, mo in out.disagreements[:20]],
                'note': 'the property predicate evaluated on the implementation found no failing input among the '
                        'disagreeing cases, the corpus and the generated cases',
                'seed': out.seed, 'tier': out.tier}
        h = hashlib.sha256(json.dumps(body, sort_keys=True, default=str).encode()).hexdigest()[:12]
        path = os.path.join(rdir, h + '.json')
        with open(path, 'w') as f:
            json.dump(body, f, indent=1, default=str)
        lines.append('VIOLATION property=%s replay=%s no-failing-input-found' % (out.prop, path))
        rc = 1
    ob = out.oblig or {'obligations': 0, 'discharged': 0, 'theorems': [], 'checker_cmd': ''}
    cov = {
        'obligations': ob['obligations'], 'discharged': ob['discharged'],
        'checker_cmd': ob['checker_cmd'], 'trusted_base': TRUSTED_BASE,
        'theorems': [{'name': n, 'closed_under_global_context': c} for n, c in ob['theorems']],
        'evaluations': out.evaluations, 'distinct_nontrivial': len(out.nontrivial) + out.nontrivial_extra,
        'rule': out.rule, 'samples': out.samples or ['(none)'], 'exhaustive': out.exhaustive,
        'input_distribution': out.distribution, 'components': out.components,
        'model_vs_implementation_disagreements': len(out.disagreements),
        'obligation_problems': out.broken[:10],
        'known_findings_observed': sorted(out.known_hits),
    }
    cov.update(out.extra)
    ev = {'property_id': out.prop, 'tier': out.tier, 'seed': out.seed, 'level': 'proof', 'coverage': cov,
          'assumptions': out.assumptions, 'wall_s': round(time.time() - out.t0, 2),
          'violations': len(violations) + (1 if (rc == 1 and not violations) else 0)}
    # evidence describes runs against /repo as it stands; the seed tools, which apply a change to /repo for the duration of one run, send it elsewhere
    evdir = os.environ.get('VERIF_EVIDENCE_DIR') or os.path.join(VERIF, 'evidence')
    os.makedirs(evdir, exist_ok=True)
    with open(os.path.join(evdir, out.prop + '.json'), 'w') as f:
        json.dump(ev, f, indent=1, default=str)
    for l in lines:
        print(l)
    print('%s %s tier=%s seed=%d: %d obligations (%d discharged), %d cases, %d disagreements, %d failing inputs, '
          '%d known findings, %.1fs' % ('PASS' if rc == 0 else 'FAIL', out.prop, out.tier, out.seed, ob['obligations'],
                                        ob['discharged'], out.evaluations, len(out.disagreements), len(violations),
                                        len(out.known_hits), time.time() - out.t0))
    return rc


# --------------------------------------------------------------------------- correspondence engine

def fresh_eval(impl_fn, cases):
    """the implementation's answers to the cases from a process of its own, started for the purpose (None when that cannot be arranged)"""
    mod, name = getattr(impl_fn, '__module__', None), getattr(impl_fn, '__qualname__', '<')
    if not mod or '<' in name:
        return None
    code = ('import sys, json, importlib; sys.path.insert(0, %r); f = getattr(importlib.import_module(%r), %r); '
            'print(json.dumps([f(c)[0] for c in json.load(sys.stdin)]))' % (os.path.join(VERIF, 'harness'), mod, name))
    try:
        r = subprocess.run([sys.executable, '-B', '-c', code], input=json.dumps(cases), capture_output=True, text=True, timeout=900,
                           cwd=os.path.join(VERIF, 'harness'))
        return json.loads(r.stdout) if r.returncode == 0 else None
    except Exception:  # noqa: BLE001
        return None


def eval_cases(comp, cases, impl_fn, max_keep=50, repeat=0, fresh=False):
    """Run impl_fn(case) -> (impl_out_ints, failure_or_None, tag) on every case, the extracted model on the
    same cases, and compare.  failure = (key, description).  Returns a mergeable record.
    repeat > 0: that many of the cases (spread over the list) are evaluated a second time at the end, in reverse order - what a case gives
    must not depend on what the process did before (memos keyed on too little, shared buffers, state left behind by a call that raised)."""
    rec = {'n': 0, 'dis': [], 'fail': [], 'dist': {}, 'hashes': set(), 'ndis': 0, 'nfail': 0}
    impl_outs = []
    for case in cases:
        io, fail, tag = impl_fn(case)
        impl_outs.append(io)
        rec['dist'][tag] = rec['dist'].get(tag, 0) + 1
        if fail is not None:
            rec['nfail'] += 1
            if len(rec['fail']) < max_keep:
                rec['fail'].append((fail[0], fail[1], {'component': comp, 'case': case}))
        if any(x != 0 for x in case[1:]):
            rec['hashes'].add(hash(tuple(case)))
    if repeat and cases:
        step = max(1, len(cases) // repeat)
        for i in reversed(range(0, len(cases), step)):
            io2, _, _ = impl_fn(cases[i])
            rec['dist']['evaluated-again'] = rec['dist'].get('evaluated-again', 0) + 1
            if io2 != impl_outs[i]:
                rec['nfail'] += 1
                if len(rec['fail']) < max_keep:
                    rec['fail'].append(('history-dependent', 'the case %r gave %r when it was evaluated first and %r when evaluated again after other calls in the same process'
                                        % (cases[i][:60], impl_outs[i][:40], io2[:40]), {'component': comp, 'case': cases[i]}))
        if fresh:
            # ... nor on which process is asked: the same cases, the other way round, in a process started for the purpose
            idx = list(reversed(range(0, len(cases), step)))
            outs = fresh_eval(impl_fn, [cases[i] for i in idx])
            if outs is not None:
                rec['dist']['evaluated-in-a-fresh-process'] = rec['dist'].get('evaluated-in-a-fresh-process', 0) + len(idx)
                for i, o in zip(idx, outs):
                    if o != impl_outs[i]:
                        rec['nfail'] += 1
                        if len(rec['fail']) < max_keep:
                            rec['fail'].append(('history-dependent', 'the case %r gave %r in this run and %r in a process started afresh (same code, another history of calls)'
                                                % (cases[i][:60], impl_outs[i][:40], o[:40]), {'component': comp, 'case': cases[i]}))
    model_outs = model_run([(comp, c) for c in cases])
    for case, io, mo in zip(cases, impl_outs, model_outs):
        if io != mo:
            rec['ndis'] += 1
            if len(rec['dis']) < max_keep:
                rec['dis'].append((comp, case, io, mo))
    rec['n'] = len(cases)
    if rec['dis'] and not rec['fail']:
        history_search(rec, impl_fn, [(case, io) for (_, case, io, _) in rec['dis'][:4]], max_keep)
    return rec


def history_search(rec, impl_fn, pairs, max_keep=50, comp=None):
    """Model and implementation disagree and no input has been found yet on which the statement fails. One place to look: the implementation
    may have answered differently because of what it was asked BEFORE. Each disagreeing case is put to a process of its own, started
    for the purpose, as its first and only question; where that process sides with the model, the case is an input on which the
    implementation's answer depends on the history of the process - which no statement over 'every input' survives."""
    for case, io in pairs:
        fresh = fresh_eval(impl_fn, [case])
        rec['dist']['disagreements-asked-of-a-fresh-process'] = rec['dist'].get('disagreements-asked-of-a-fresh-process', 0) + 1
        if fresh is not None and fresh[0] != io:
            rec['nfail'] += 1
            if len(rec['fail']) < max_keep:
                rec['fail'].append(('history-dependent', 'the input %r is answered %r as the first question to a fresh process and %r later in a process that had answered others before it'
                                    % (case[:60], fresh[0][:40], io[:40]), {'component': comp, 'case': case, 'fresh_process_answer': fresh[0], 'answer_in_this_run': io}))


def merge_into(out, rec, component):
    out.evaluations += rec['n']
    for k, v in rec['dist'].items():
        out.count(k, v)
    out.nontrivial |= rec['hashes']
    out.failures.extend(rec['fail'])
    out.disagreements.extend(rec['dis'])
    c = out.components.setdefault(component, {'cases': 0, 'disagreements': 0, 'oracle_failures': 0})
    c['cases'] += rec['n']
    c['disagreements'] += rec['ndis']
    c['oracle_failures'] += rec['nfail']


class _Safe:
    """worker wrapper: an exception in a worker comes back as a value (a dying worker must not hang the pool)"""

    def __init__(self, fn):
        self.fn = fn

    def __call__(self, j):
        try:
            return ('ok', self.fn(j))
        except BaseException as e:  # noqa: BLE001
            import traceback
            return ('err', '%s: %s\n%s' % (type(e).__name__, e, traceback.format_exc()[-1500:]))


def pmap(fn, jobs, nproc=None):
    import multiprocessing as mp
    nproc = nproc or NPROC
    safe = _Safe(fn)
    if len(jobs) <= 1 or nproc == 1:
        res = [safe(j) for j in jobs]
    else:
        ctx = mp.get_context('fork')
        with ctx.Pool(min(nproc, len(jobs))) as p:
            res = p.map_async(safe, jobs, chunksize=1).get(timeout=7000)
    for kind, v in res:
        if kind == 'err':
            raise InfraError('worker failed: ' + v)
    return [v for _, v in res]


def kernel_crosscheck(out, sample_cases, tag):
    """Re-evaluate a sample of cases (and every disagreement) by the kernel's vm_compute and compare with the
    extracted model.  A difference is an infrastructure error, never a violation."""
    cases = list(sample_cases) + [(c, case) for c, case, _, _ in out.disagreements[:50]]
    if not cases:
        return 0
    k = kernel_run(cases, tag)
    m = model_run(cases)
    bad = [(c, a, b) for c, a, b in zip(cases, k, m) if a != b]
    if bad:
        raise InfraError('extracted model differs from kernel evaluation on %r' % (bad[:3],))
    out.extra['kernel_crosschecked_cases'] = out.extra.get('kernel_crosschecked_cases', 0) + len(cases)
    return len(cases)
