"""Entry point: run.py <Cxx> [--tier quick|thorough] [--replay file]."""
import argparse
import importlib
import json
import os
import sys
import traceback

sys.path.insert(0, os.path.dirname(os.path.abspath(__file__)))
import core  # noqa: E402


def main():
    ap = argparse.ArgumentParser()
    ap.add_argument('prop')
    ap.add_argument('--tier', default=os.environ.get('VERIF_TIER') or 'quick', choices=['quick', 'thorough'])
    ap.add_argument('--replay')
    ap.add_argument('--no-build', action='store_true')
    a = ap.parse_args()
    seed = int(os.environ.get('VERIF_SEED') or 20260930)
    prop = a.prop.upper()
    try:
        mod = importlib.import_module('props.' + prop.lower())
        if a.replay:
            return mod.replay(json.load(open(a.replay)))
        out = core.Outcome(prop, a.tier, seed)
        info = core.build()
        out.extra['build'] = {'seconds': info['build_s'], 'make_rc': info['make_rc'], 'not_built': info['missing_vo']}
        if info['tables_error']:
            out.broken.append('table generation failed: ' + info['tables_error'][-500:])
        deps = getattr(mod, 'THEOREMS_DEPEND_ON', [])
        ob = core.obligations(prop, info, extra_files=deps)
        out.oblig = ob
        # only problems in files this property depends on count against it
        relevant = set(deps) | set(getattr(mod, 'COQ_FILES', [])) | {'Properties/%s.v' % prop}
        for p in ob['problems']:
            if p.startswith('not built: '):
                if p[len('not built: '):] in relevant or not getattr(mod, 'COQ_FILES', None):
                    out.broken.append(p)
            else:
                out.broken.append(p)
        for p in core.lint_development():
            out.broken.append('lint: ' + p)
        if a.tier == 'thorough' and not ob['problems']:
            # the independent checker re-checks the compiled property file and everything it depends on, and lists the axioms
            ck = core.coqchk(prop)
            out.extra['coqchk'] = ck
            if not ck['ok']:
                out.broken.append('coqchk: ' + ck['summary'][-600:])
        try:
            mod.run(out)
        except core.InfraError:
            raise
        except Exception:  # noqa: BLE001
            # The runs themselves fell over.  On the unchanged tree they do not, so what fell over is the code under test behaving in a way
            # the harness did not foresee: the property is not shown for this tree (decision rule (a)); the traceback goes into the replay.
            out.broken.append('the runs against this tree could not be completed: ' + traceback.format_exc()[-1800:])
        return core.finish(out)
    except core.InfraError as e:
        print('INFRASTRUCTURE ERROR (not a verdict): %s' % e)
        return 2
    except Exception:  # noqa: BLE001
        traceback.print_exc()
        print('INFRASTRUCTURE ERROR (not a verdict)')
        return 2


if __name__ == '__main__':
    sys.exit(main())
