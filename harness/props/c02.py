"""C02 — from_bytes accepts exactly the well-formed single-message encodings."""
import itertools
import random
import subprocess
import os

import canon
import core

COMP_DEC = 4
THEOREMS_DEPEND_ON = ['Gen/AgreeCodec.v']
STR = [str(i) for i in range(256)]


def valid_msg(m):
    d = vars(m)
    k = canon.KIND_ID.get(d.get('type'))
    if k is None:
        return False
    for a in canon.KINDS[k][1]:
        if a == 'data':
            if not all(isinstance(x, int) and 0 <= x <= 127 for x in d['data']):
                return False
        else:
            lo, hi = canon.RANGES[a]
            if not (isinstance(d[a], int) and lo <= d[a] <= hi):
                return False
    return set(d) == set(canon.KINDS[k][1]) | {'type', 'time'}


def oracle_ints(case, variants=True):
    """The property text on the implementation, for a list of ints."""
    import mido
    forms = [('list', list(case))]
    if variants and all(0 <= b <= 255 for b in case):
        forms += [('bytes', bytes(case)), ('bytearray', bytearray(case)), ('tuple', tuple(case))]
    if variants and case and all(isinstance(b, int) and not isinstance(b, bool) for b in case):
        # sequences of integers that keep their items in machine words of other widths (array.array, a memoryview of one): the items are
        # the same integers, so the answer is the same
        import array
        for code, lo, hi in (('B', 0, 255), ('b', -128, 127), ('H', 0, 65535), ('h', -32768, 32767), ('i', -2 ** 31, 2 ** 31 - 1), ('Q', 0, 2 ** 64 - 1)):
            if all(lo <= b <= hi for b in case):
                forms.append(('array(%r)' % code, array.array(code, case)))
                if code in 'Hi':
                    forms.append(('memoryview of array(%r)' % code, memoryview(array.array(code, case))))
    accepted = []
    for fname, data in forms:
        try:
            m = mido.Message.from_bytes(data)
            accepted.append(fname)
        except ValueError:
            continue
        except Exception as e:  # noqa: BLE001
            return ('raises:' + type(e).__name__, 'from_bytes(%s %r) raised %r, not ValueError' % (fname, list(case), e))
        try:
            back = m.bytes()
        except Exception as e:  # noqa: BLE001
            return ('accepts', 'from_bytes(%r) returned a message whose bytes() raises %r' % (list(case), e))
        if list(back) != list(case) or not valid_msg(m):
            return ('accepts', 'from_bytes(%s %r) returned %r whose bytes() are %r' % (fname, list(case), m, list(back)))
        # the message belongs to its caller now: edited (and the list it gave edited), the next from_bytes of the same input must not notice
        canon.scribble(m)
        try:
            back.append(0)
        except AttributeError:
            pass
    if accepted and len(accepted) != len(forms):
        return ('forms-differ', 'the integers %r are accepted as %s but refused as %s' % (list(case), ', '.join(accepted), ', '.join(f for f, _ in forms if f not in accepted)))
    if True:
        canon.noise()
        try:
            m = mido.Message.from_bytes(forms[0][1])
        except ValueError:
            return None
        except Exception as e:  # noqa: BLE001
            return ('raises:' + type(e).__name__, 'from_bytes(%r), asked again, raised %r' % (list(case), e))
        if list(m.bytes()) != list(case) or not valid_msg(m):
            return ('accepts', 'from_bytes(%r), asked again after its caller had edited the first answer, returned %r whose bytes() are %r' % (list(case), m, list(m.bytes())))
    return None


def impl_dec(case):
    import mido
    try:
        m = mido.Message.from_bytes(list(case))
        out = [0] + canon.msg_ints(m)
        tag = 'accepted'
    except Exception as e:  # noqa: BLE001
        out = [-1, core.exn_code(e)]
        tag = 'rejected'
    return out, oracle_ints(case), tag


def _sweep(job):
    """All byte strings of one length with first byte in [lo, hi): compared as text lines."""
    import mido
    length, lo, hi = job
    from_bytes = mido.Message.from_bytes
    lines, impl = [], []
    fails = []
    n = 0
    acc = 0
    rest_iter = lambda: itertools.product(range(256), repeat=length - 1)
    for first in range(lo, hi):
        for rest in rest_iter():
            case = (first,) + rest
            n += 1
            try:
                m = from_bytes(case)
                io = '0 ' + ' '.join(map(str, canon.msg_ints(m)))
                acc += 1
                if list(m.bytes()) != list(case) or not valid_msg(m):
                    if len(fails) < 5:
                        fails.append(('accepts', 'from_bytes(%r) returned %r' % (list(case), m), {'component': COMP_DEC, 'case': list(case)}))
            except ValueError:
                io = '-1 1'
            except Exception as e:  # noqa: BLE001
                io = '-1 %d' % core.exn_code(e)
                if len(fails) < 5:
                    fails.append(('raises:' + type(e).__name__, 'from_bytes(%r) raised %r' % (list(case), e), {'component': COMP_DEC, 'case': list(case)}))
            impl.append(io)
            lines.append('4 ' + ' '.join(STR[b] for b in case))
    p = subprocess.run([os.path.join(core.BUILD, 'modelrun')], input=('\n'.join(lines) + '\n').encode(), stdout=subprocess.PIPE)
    mo = p.stdout.decode().split('\n')
    dis = []
    ndis = 0
    for l, a, b in zip(lines, impl, mo):
        if a != b:
            ndis += 1
            if len(dis) < 5:
                dis.append((COMP_DEC, [int(x) for x in l.split()[1:]], [int(x) for x in a.split()], [int(x) for x in b.split()]))
    if len(mo) < len(lines):
        raise core.InfraError('modelrun output short')
    return {'n': n, 'dis': dis, 'ndis': ndis, 'fail': fails, 'nfail': len(fails), 'dist': {'accepted': acc, 'rejected': n - acc},
            'hashes': set(), 'distinct': n}


def _job(job):
    if job[0] == 'sweep':
        return _sweep(job[1])
    rec = core.eval_cases(COMP_DEC, job[1], impl_dec, repeat=200, fresh=True)
    rec['distinct'] = 0
    return rec


ALPHA = [0, 1, 15, 16, 63, 64, 127, 128, 0x8f, 0x90, 0xa5, 0xb0, 0xc0, 0xcf, 0xd0, 0xe0, 0xef, 0xf0, 0xf1, 0xf2, 0xf3, 0xf4,
         0xf5, 0xf6, 0xf7, 0xf8, 0xf9, 0xfa, 0xfd, 0xfe, 0xff, 256, -1, 300, -128, 2 ** 64]


def pyval_cases(rng):
    """Non-integer items (not numbers.Integral; bool is one): the property allows ValueError or TypeError and nothing else - in particular no
    message may be returned, not even when the item compares equal to a byte (248.0, Fraction(240), 247.0 as a sysex terminator)."""
    from fractions import Fraction
    items = [1.0, 0.0, 64.0, 144.0, 240.0, 247.0, 248.0, 246.0, 254.0, 243.0, Fraction(248), Fraction(240), Fraction(3, 1), 0.5, float('nan'), float('inf'), 'a', '1', b'\x90', None, True, False, [1], (1,), {},
             bytearray(b'\x01'), 2 ** 70, -1, 1j]
    # ... and items that ARE integers, of unusual classes (subclasses of int with their own arithmetic or repr): a message whose bytes() are the
    # same integers, or a ValueError
    import enum

    class AFlag(enum.IntFlag):
        A = 0x40
        B = 0x01

    class AnEnum(enum.IntEnum):
        A = 0x40
        S = 0x90
        P = 0xe0

    class MyInt(int):
        def __repr__(self):
            return 'MyInt(%d)' % int(self)
    items += [AFlag.A, AFlag.A | AFlag.B, AFlag(0), AnEnum.A, AnEnum.S, AnEnum.P, MyInt(5), MyInt(0x7f), MyInt(0xf7), MyInt(200)]
    statuses = [0x90, 0x80, 0xc0, 0xe0, 0xf0, 0xf1, 0xf2, 0xf3, 0xf6, 0xf8, 0xf4, 0x10]
    cases = []
    for it in items:
        cases.append([it])
        for st in statuses:
            cases.append([st, it]); cases.append([st, it, 1]); cases.append([st, 1, it]); cases.append([st, 1, 2, it])
        cases.append([it, 1, 2]); cases.append([it, 1]); cases.append([it, 1, 247]); cases.append([0xf0, 1, it])
        cases.append([0xf0, it, 0xf7])
    return cases


COMP_ITEMS = 6


def impl_items(case):
    """[n, atoms...] (the C03 atom encoding): Message.from_bytes on a list of arbitrary items"""
    import mido
    from numbers import Integral
    from props import c03
    atoms, i = [], 1
    for _ in range(case[0]):
        k = case[i]
        if k in (0, 1, 2):
            atoms.append((('int', 'bool', 'float')[k], case[i + 1])); i += 2
        elif k == 3:
            n = case[i + 1]; atoms.append(('str', ''.join(map(chr, case[i + 2:i + 2 + n])))); i += 2 + n
        elif k == 4:
            atoms.append(('none',)); i += 1
        else:
            atoms.append(('other',)); i += 1
    items = [c03.py_atom(a) for a in atoms]
    fail = None
    try:
        m = mido.Message.from_bytes(items)
        out = [0] + canon.msg_ints(m)
        if not all(isinstance(x, Integral) for x in items) or not valid_msg(m) or m.bytes() != [int(x) for x in items]:
            fail = ('items-accepted', 'from_bytes(%r) returned %r' % (items, m))
    except (ValueError, TypeError) as e:
        out = [-1, core.exn_code(e)]
    except Exception as e:  # noqa: BLE001
        out = [-1, core.exn_code(e)]
        fail = ('items-raises:' + type(e).__name__, 'from_bytes(%r) raised %r' % (items, e))
    return out, fail, 'items'


def item_cases(rng):
    from props import c03
    good = [[0x90, 1, 2], [0x80, 0, 127], [0xc5, 9], [0xe0, 1, 2], [0xf0, 1, 2, 0xf7], [0xf0, 0xf7], [0xf1, 5], [0xf2, 1, 2], [0xf3, 4], [0xf6], [0xf8], [0xfe]]
    bad_atoms = [('float', 0x90), ('float', 2), ('float', 0xf8), ('float', 0xf7), ('float', 1), ('str', 'a'), ('str', '1'), ('none',), ('other',), ('bool', 1), ('bool', 0),
                 ('float', 0xf0), ('int', 256), ('int', -1), ('int', 2 ** 70)]
    cases = []
    for g in good:
        cases.append([len(g)] + [x for b in g for x in c03.enc_atom(('int', b))])
        for pos in range(len(g)):
            for a in bad_atoms:
                for mode in ('replace', 'insert'):
                    atoms = [('int', b) for b in g]
                    if mode == 'replace':
                        atoms[pos] = a
                    else:
                        atoms.insert(pos, a)
                    cases.append([len(atoms)] + [x for at in atoms for x in c03.enc_atom(at)])
    for a in bad_atoms:
        cases.append([1] + c03.enc_atom(a))
    cases.append([0])
    return cases


def check_pyval(out):
    import mido
    n = 0
    for case in pyval_cases(None):
        n += 1
        try:
            m = mido.Message.from_bytes(case)
        except (ValueError, TypeError):
            out.count('pyval-rejected')
            continue
        except Exception as e:  # noqa: BLE001
            out.failures.append(('pyval-raises:' + type(e).__name__, 'from_bytes(%r) raised %r' % (case, e),
                                 {'component': 'pyval', 'case': repr(case)}))
            continue
        out.count('pyval-accepted')
        from numbers import Integral
        try:
            ok = (m.bytes() == list(case)) and valid_msg(m) and all(isinstance(x, Integral) for x in case)
        except Exception:  # noqa: BLE001
            ok = False
        if not ok:
            out.failures.append(('pyval-accepts', 'from_bytes(%r) returned %r' % (case, m), {'component': 'pyval', 'case': repr(case)}))
    out.evaluations += n
    out.components['pyval (implementation-only test of the type clause)'] = {'cases': n}
    # from_hex on non-hex text must raise ValueError
    for txt in ['', 'zz', '9', '90 1', '90 01 0', '9001 02', '90-01-02', 'F0 01', 'F0 F7', '90 01 02', u'90 01 02', '0x90 1 2']:
        try:
            m = mido.Message.from_hex(txt)
            try:
                bs = bytearray.fromhex(txt.replace(' ', ' '))
            except ValueError:
                bs = None
            if bs is None or list(m.bytes()) != list(bs):
                out.failures.append(('from_hex-accepts', 'from_hex(%r) returned %r' % (txt, m), {'component': 'from_hex', 'case': txt}))
        except ValueError:
            pass
        except Exception as e:  # noqa: BLE001
            out.failures.append(('from_hex-raises:' + type(e).__name__, 'from_hex(%r) raised %r' % (txt, e), {'component': 'from_hex', 'case': txt}))
        out.evaluations += 1
    # from_hex with a separator, also ones that are special characters somewhere (regular expressions, format strings, character classes):
    # the text of a message reads back as that message, any other text raises ValueError and nothing else
    seps = ['\\', ']', '[', '^', '-', '--', '->', '-]', '.', '*', '+', '(', ')', '$', '?', '{', '}', '|', ' - ', ' | ', ', ', '; ', ' ,', '\\d', '\\s', '[^', '%s', '{}', '::', '\t', 'x', '']
    msgs = [mido.Message('note_on', channel=3, note=60, velocity=100), mido.Message('sysex', data=[1, 2, 3]), mido.Message('clock'), mido.Message('songpos', pos=300)]
    for sep in seps:
        for m in msgs:
            out.evaluations += 1
            txt = m.hex(sep)
            try:
                back = mido.Message.from_hex(txt, sep=sep)
                if back != m:
                    out.failures.append(('from_hex-sep', 'from_hex(%r, sep=%r) gave %r, not %r' % (txt, sep, back, m), {'component': 'from_hex', 'sep': sep}))
            except Exception as e:  # noqa: BLE001
                out.failures.append(('from_hex-sep-raises:' + type(e).__name__, 'from_hex(%r, sep=%r) raised %r' % (txt, sep, e), {'component': 'from_hex', 'sep': sep}))
        for bad in ['zz', '9', '90 1 2', '90' + sep + '1', 'F0' + sep + '01']:
            out.evaluations += 1
            try:
                back = mido.Message.from_hex(bad, sep=sep)
                clean = bad.replace(sep, ' ') if sep else bad
                try:
                    want = list(bytearray.fromhex(clean))
                except ValueError:
                    want = None
                if want is None or back.bytes() != want:
                    out.failures.append(('from_hex-accepts', 'from_hex(%r, sep=%r) returned %r' % (bad, sep, back), {'component': 'from_hex', 'sep': sep}))
            except ValueError:
                pass
            except Exception as e:  # noqa: BLE001
                out.failures.append(('from_hex-raises:' + type(e).__name__, 'from_hex(%r, sep=%r) raised %r' % (bad, sep, e), {'component': 'from_hex', 'sep': sep}))


def corpus():
    return [[0xE0, 1], [0xF1], [0xF2, 1], [0xE0, 1, 2, 3], [0xF1, 1, 2], [0xF2, 1, 2, 3], [0xE5], [0xF2], [0xEF, 127, 127, 0]]


def run(out):
    rng = random.Random(out.seed)
    jobs = [('cases', corpus())]
    # longer strings over the boundary alphabet
    longer = []
    for n in (3, 4, 5, 6):
        for _ in range(6000 if out.tier == 'quick' else 40000):
            longer.append([rng.choice(ALPHA) for _ in range(n)])
    for _ in range(3000):
        n = rng.randrange(2, 40)
        longer.append([0xf0] + [rng.choice([0, 5, 127, 127, 128, 0xf7, 0xf8]) if rng.random() < 0.15 else rng.randrange(128) for _ in range(n)] + [rng.choice([0xf7, 0xf7, 0xf7, 0, 0xf0])])
    for m in canon.boundary_messages():
        if m[0] != 7 or len(m) < 200:
            bs = canon.std_layout(m)
            longer.append(bs)
            if len(bs) > 1:
                longer.append(bs[:-1])
            longer.append(bs + [0])
            longer.append(bs + [bs[-1]])
    step = max(1, len(longer) // core.NPROC)
    jobs += [('cases', longer[i:i + step]) for i in range(0, len(longer), step)]
    jobs += [('sweep', (0, 0, 1))] if False else []
    # exhaustive: length 0..2 always; length 3 in the thorough tier
    jobs.append(('cases', [[]]))
    jobs += [('sweep', (1, lo, lo + 64)) for lo in range(0, 256, 64)]
    jobs += [('sweep', (2, lo, lo + 16)) for lo in range(0, 256, 16)]
    if out.tier == 'thorough':
        jobs += [('sweep', (3, lo, lo + 2)) for lo in range(0, 256, 2)]
        out.exhaustive = True
    else:
        # stratified part of length 3: every status family's first status byte, all 65 536 continuations
        jobs += [('sweep', (3, st, st + 1)) for st in (0x00, 0x7f, 0x80, 0x9f, 0xc3, 0xe0, 0xef, 0xf0, 0xf1, 0xf2, 0xf3, 0xf6, 0xf7, 0xf8, 0xff)]
    for rec in core.pmap(_job, jobs):
        out.nontrivial_extra += rec.get('distinct', 0)
        core.merge_into(out, rec, 'dec')
    check_pyval(out)
    core.merge_into(out, core.eval_cases(COMP_ITEMS, item_cases(rng), impl_items, repeat=200), 'items (arbitrary Python items, model component 6)')
    out.rule = ('every byte string of length 0..2 over 0..255 (65 793) in both tiers, length 3 completely in the thorough tier '
                '(16 843 009 in total) and for 15 first bytes in the quick tier; strings of length 3..6 over a boundary alphabet '
                'incl. out-of-byte-range items, truncated/extended encodings of boundary messages, sysex with bad terminators; '
                'list/bytes/bytearray/tuple inputs; sequences with one item that is not an integer (floats equal to bytes, strings, None, other objects, bools) replaced or inserted at every position of every message shape, compared with the model; Fractions, complex numbers etc. on the implementation only. All sweep cases are distinct '
                'by construction; every case is non-trivial (a distinct input to the decoder).')
    out.sample({'component': 'dec', 'case': longer[3]})
    out.sample({'component': 'dec', 'case': [0xE0, 1, 2, 3]})
    core.kernel_crosscheck(out, [(COMP_DEC, c) for c in rng.sample(longer, 200)], 'C02')
    out.assumptions += ['items that are not Python ints (float, str, None, ...) are exercised on the implementation by an '
                        'oracle test only; the theorem C02_exact quantifies over all lists of integers of any length']
