"""Scheduled scenarios outside the port models: ParserQueue fed from several threads (C10) and close() called from several threads (C11).
Real threads, the deterministic scheduler of harness/sched.py, every schedule with a bounded number of preemptions; the statement on
the real run, and every run replayed on Model/ConcPQ.v (component 125) / Model/ConcClose.v (component 124)."""
import threading

import canon
import sched as S

COMP_CLOSE, COMP_PQ = 124, 125
LOCK_TYPES = (type(threading.Lock()), type(threading.RLock()))


def swap_locks(obj, sc):
    """replace whatever lock objects an instance holds by scheduled ones (found by type, not by attribute name)"""
    n = 0
    for k, v in list(vars(obj).items()):
        if isinstance(v, LOCK_TYPES):
            setattr(obj, k, S.SchedLock(sc))
            n += 1
    return n


def explore(make_run, max_preempt, limit):
    """stateless depth-first search over schedules: make_run(policy) -> (trace, failure)"""
    runs, stack = [], [([], 0)]
    while stack and len(runs) < limit:
        prefix, used = stack.pop()
        alts = []

        def policy(sc, cur_t, prefix=prefix, alts=alts):
            i = len(sc.trace)
            if i < len(prefix):
                return prefix[i]
            d = cur_t if (cur_t is not None and sc.enabled(cur_t)) else next((t for t in range(sc.n) if sc.enabled(t)), None)
            if d is None:
                return None
            pre_cost = 1 if (cur_t is not None and sc.enabled(cur_t)) else 0
            for t in range(sc.n):
                if t != d and sc.enabled(t) and policy.pre + pre_cost <= max_preempt:
                    alts.append((i, t, policy.pre + pre_cost))
            return d
        policy.pre = used
        trace, fail = make_run(policy)
        runs.append((trace, fail))
        for i, t, pre in alts:
            stack.append((trace[:i] + [t], pre))
    return runs, not stack


def drive(sc, policy, max_steps=400):
    cur_t = None
    while len(sc.trace) < max_steps and any(st != 'done' for st in sc.state):
        t = policy(sc, cur_t)
        if t is None:
            break
        sc.step(t)
        cur_t = t


# ------------------------------------------------------------------ ParserQueue: several feeding threads, one consumer
def run_pqueue(progs, policy):
    """progs: per thread a list of chunks (lists of message encodings) handed to put_bytes one after the other, or ('poll', k)"""
    import mido
    from mido.backends._parser_queue import ParserQueue
    sc = S.Sched(len(progs))

    log = []

    class Q(ParserQueue):
        def put(self, msg):                      # the public hook every message goes through on its way into the queue
            sc.yield_point()
            log.append((S.cur(), msg))
            return ParserQueue.put(self, msg)
    q = Q()
    swap_locks(q, sc)
    polled = []
    polls = [[] for _ in progs]

    def body_for(prog, t):
        def body(results):
            for step in prog:
                if step[0] == 'poll':
                    for _ in range(step[1]):
                        sc.yield_point()
                        m = q.poll()
                        polls[t].append(m)
                        if m is not None:
                            polled.append(m)
                else:
                    q.put_bytes([b for enc in step for b in enc])
        return body
    fail = None
    try:
        sc.start([body_for(p, t) for t, p in enumerate(progs)])
        drive(sc, policy)
        trace = list(sc.trace)
        complete = all(st == 'done' for st in sc.state)
        for t, oc in enumerate(sc.outcome):
            if oc is not None and oc[0] == 'raised':
                fail = ('pqueue-thread-raises:' + type(oc[1]).__name__, 'ParserQueue fed from several threads: thread %d raised %r under the schedule %r' % (t, oc[1], trace))
    finally:
        sc.stop()
    rest = list(q.iterpoll())
    out = [len(log)] + [x for (tt, m) in log for x in [tt] + canon.msg_ints(m)] + [-9]
    for t in range(len(progs)):
        out += [len(polls[t])] + [x for m in polls[t] for x in ([0] if m is None else [1] + canon.msg_ints(m))] + [-9]
    out += [len(rest)] + [x for m in rest for x in canon.msg_ints(m)]
    if fail is None and complete:
        got = [m.bytes() for m in polled] + [m.bytes() for m in rest]
        sent = [enc for p in progs for step in p if step[0] != 'poll' for enc in step]
        if sorted(got) != sorted(sent):
            fail = ('pqueue-lost-or-duplicated', 'ParserQueue fed from several threads: fed %r, handed out %r (schedule %r)' % (sent, got, trace))
        else:
            for t, p in enumerate(progs):
                mine = [enc for step in p if step[0] != 'poll' for enc in step]
                seen = [g for g in got if g in mine]
                if seen != mine:
                    fail = ('pqueue-order', 'ParserQueue fed from several threads: the messages thread %d fed in the order %r come out as %r (schedule %r)' % (t, mine, seen, trace))
                    break
    return trace, fail, pq_case(progs, trace), out


def pq_case(progs, trace):
    """the run as a case of Model/ConcPQ.v (component 125): programs, and the schedule in the model's steps - one scheduler step of a feeding
    thread is: take the lock and feed (two model steps), one put, or the release; a blocked attempt, a poll and a step of a finished thread are one"""
    import mido
    ops = []
    for p in progs:
        o = []
        for step in p:
            if step[0] == 'poll':
                o += [('poll',)] * step[1]
            else:
                o.append(('put', [canon.msg_ints(mido.Message.from_bytes(enc)) for enc in step]))
        ops.append(o)
    case = [1, len(progs)]
    for o in ops:
        case.append(len(o))
        for op in o:
            case += [1] if op[0] == 'poll' else [0, len(op[1])] + [x for m in op[1] for x in m]
    idx, phase, left, lock, sched = [0] * len(ops), [0] * len(ops), [0] * len(ops), None, []
    for t in trace:
        if idx[t] >= len(ops[t]) or ops[t][idx[t]][0] == 'poll':
            sched.append(t)
            idx[t] += 1 if idx[t] < len(ops[t]) else 0
        elif phase[t] == 0:
            if lock is None:
                lock, left[t] = t, len(ops[t][idx[t]][1])
                sched += [t, t]
                phase[t] = 1 if left[t] else 2
            else:
                sched.append(t)
        elif phase[t] == 1:
            sched.append(t)
            left[t] -= 1
            phase[t] = 1 if left[t] else 2
        else:
            sched.append(t)
            lock, phase[t] = None, 0
            idx[t] += 1
    return case + sched


def pqueue_scenarios(quick):
    def note(k):
        return [0x90, k, k]
    progs = [
        [[[note(1), note(2), note(3)]], [[note(11), note(12), note(13)]]],
        [[[note(1), note(2)], [note(3)]], [[note(11)], [note(12), note(13)]], [('poll', 3)]],
        [[[note(1), [0xf0, 1, 2, 0xf7], note(2)]], [[[0xf8], note(11), note(12)]], [('poll', 2)]],
    ]
    # the ('poll', k) entries are steps, not chunks
    fixed = []
    for p in progs:
        fixed.append([[step if (isinstance(step, tuple)) else step for step in th] for th in p])
    total, failures, exhausted, replays = 0, [], 0, []
    for p in fixed:
        # threads whose single step is a poll are written [('poll', k)]
        norm = [[(s if isinstance(s, tuple) else s) for s in th] for th in p]
        keep = []
        runs, done = explore(lambda policy, norm=norm: (lambda r: (keep.append(r[2:]), r[:2])[1])(run_pqueue(norm, policy)), 2 if quick else 3, 1500 if quick else 30000)
        total += len(runs)
        exhausted += int(done)
        failures += [f for _, f in runs if f is not None]
        replays += keep
    return total, exhausted, len(fixed), failures, replays


# ------------------------------------------------------------------ close() from several threads
def run_close(nthreads, autoreset, policy):
    import mido.ports as ports
    sc = S.Sched(nthreads)
    st = {'closes': 0, 'sent': 0}

    class Dev(ports.BaseIOPort):
        def _open(self, **kw):
            pass

        def _send(self, msg):
            st['sent'] += 1

        def _close(self):
            sc.yield_point()                     # releasing the device takes a moment
            st['closes'] += 1
    port = Dev('dev', autoreset=autoreset)
    swap_locks(port, sc)

    def body(results):
        port.close()
    fail = None
    try:
        sc.start([body] * nthreads)
        drive(sc, policy)
        trace = list(sc.trace)
        complete = all(s == 'done' for s in sc.state)
        for t, oc in enumerate(sc.outcome):
            if oc is not None and oc[0] == 'raised':
                fail = ('close-thread-raises:' + type(oc[1]).__name__, 'close() from %d threads: thread %d raised %r (schedule %r)' % (nthreads, t, oc[1], trace))
    finally:
        sc.stop()
    out = [st['closes'], 1 if port.closed else 0] + [1 if s_ == 'done' else 0 for s_ in sc.state]
    idx_phase, lock, closed, sched = [0] * nthreads, None, False, []
    for t in trace:
        ph = idx_phase[t]
        if ph == 0:
            if lock is None:
                lock = t
                sched += [t, t]
                idx_phase[t] = 2 if closed else 1
            else:
                sched.append(t)
        elif ph == 1:
            sched += [t, t]
            closed = True
            idx_phase[t] = 2
        elif ph == 2:
            sched.append(t)
            lock = None
            idx_phase[t] = 3
        else:
            sched.append(t)
    case = [1, nthreads] + sched
    if fail is None and complete:
        if st['closes'] != 1 or not port.closed:
            fail = ('closed-twice', 'close() from %d threads released the device %d times (closed=%r; schedule %r)' % (nthreads, st['closes'], port.closed, trace))
        elif autoreset and st['sent'] != 32:
            fail = ('autoreset', 'close() from %d threads on an autoreset port sent %d reset messages (schedule %r)' % (nthreads, st['sent'], trace))
    return trace, fail, (case if not autoreset else None), out


def close_scenarios(quick):
    total, failures, exhausted, n, replays = 0, [], 0, 0, []
    for nthreads in (2, 3):
        for autoreset in (False, True):
            n += 1
            keep = []
            runs, done = explore(lambda policy, a=autoreset, k=nthreads: (lambda r: (keep.append(r[2:]), r[:2])[1])(run_close(k, a, policy)), 2 if quick else 3, 800 if quick else 20000)
            total += len(runs)
            exhausted += int(done)
            failures += [f for _, f in runs if f is not None]
            replays += [k_ for k_ in keep if k_[0] is not None]
    return total, exhausted, n, failures, replays


def replay_on_model(out, comp, replays, label):
    """compare what the real runs produced with the model run on the same programs under the same (expanded) schedules"""
    import core
    cache, cases = {}, []
    for case, res in replays:
        if tuple(case) not in cache:
            cache[tuple(case)] = (res, None, label)
            cases.append(case)
    rec = core.eval_cases(comp, cases, lambda c: cache[tuple(c)])
    core.merge_into(out, rec, label)
