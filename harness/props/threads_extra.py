"""Scheduled scenarios outside the port models: ParserQueue fed from several threads (C10) and close() called from several threads (C11).
Real threads, the deterministic scheduler of harness/sched.py, every schedule with a bounded number of preemptions; implementation against
the statement (no model)."""
import threading

import canon
import sched as S

LOCK_TYPES = (type(threading.Lock()), type(threading.RLock()))


def swap_locks(obj, sc):
    """replace whatever lock objects an instance holds by scheduled ones (found by type, not by attribute name)"""
    n = 0
    for k, v in list(vars(obj).items()):
        if isinstance(v, LOCK_TYPES):
            setattr(obj, k, S.SchedLock(sc))
            n += 1
    return n


def explore(make_run, max_preempt, limit):
    """stateless depth-first search over schedules: make_run(policy) -> (trace, failure)"""
    runs, stack = [], [([], 0)]
    while stack and len(runs) < limit:
        prefix, used = stack.pop()
        alts = []

        def policy(sc, cur_t, prefix=prefix, alts=alts):
            i = len(sc.trace)
            if i < len(prefix):
                return prefix[i]
            d = cur_t if (cur_t is not None and sc.enabled(cur_t)) else next((t for t in range(sc.n) if sc.enabled(t)), None)
            if d is None:
                return None
            pre_cost = 1 if (cur_t is not None and sc.enabled(cur_t)) else 0
            for t in range(sc.n):
                if t != d and sc.enabled(t) and policy.pre + pre_cost <= max_preempt:
                    alts.append((i, t, policy.pre + pre_cost))
            return d
        policy.pre = used
        trace, fail = make_run(policy)
        runs.append((trace, fail))
        for i, t, pre in alts:
            stack.append((trace[:i] + [t], pre))
    return runs, not stack


def drive(sc, policy, max_steps=400):
    cur_t = None
    while len(sc.trace) < max_steps and any(st != 'done' for st in sc.state):
        t = policy(sc, cur_t)
        if t is None:
            break
        sc.step(t)
        cur_t = t


# ------------------------------------------------------------------ ParserQueue: several feeding threads, one consumer
def run_pqueue(progs, policy):
    """progs: per thread a list of chunks (lists of message encodings) handed to put_bytes one after the other, or ('poll', k)"""
    import mido
    from mido.backends._parser_queue import ParserQueue
    sc = S.Sched(len(progs))

    class Q(ParserQueue):
        def put(self, msg):                      # the public hook every message goes through on its way into the queue
            sc.yield_point()
            return ParserQueue.put(self, msg)
    q = Q()
    swap_locks(q, sc)
    polled = []

    def body_for(prog, t):
        def body(results):
            for step in prog:
                if step[0] == 'poll':
                    for _ in range(step[1]):
                        sc.yield_point()
                        m = q.poll()
                        if m is not None:
                            polled.append(m)
                else:
                    q.put_bytes([b for enc in step for b in enc])
        return body
    fail = None
    try:
        sc.start([body_for(p, t) for t, p in enumerate(progs)])
        drive(sc, policy)
        trace = list(sc.trace)
        complete = all(st == 'done' for st in sc.state)
        for t, oc in enumerate(sc.outcome):
            if oc is not None and oc[0] == 'raised':
                fail = ('pqueue-thread-raises:' + type(oc[1]).__name__, 'ParserQueue fed from several threads: thread %d raised %r under the schedule %r' % (t, oc[1], trace))
    finally:
        sc.stop()
    if fail is None and complete:
        got = [m.bytes() for m in polled] + [m.bytes() for m in q.iterpoll()]
        sent = [enc for p in progs for step in p if step[0] != 'poll' for enc in step]
        if sorted(got) != sorted(sent):
            fail = ('pqueue-lost-or-duplicated', 'ParserQueue fed from several threads: fed %r, handed out %r (schedule %r)' % (sent, got, trace))
        else:
            for t, p in enumerate(progs):
                mine = [enc for step in p if step[0] != 'poll' for enc in step]
                seen = [g for g in got if g in mine]
                if seen != mine:
                    fail = ('pqueue-order', 'ParserQueue fed from several threads: the messages thread %d fed in the order %r come out as %r (schedule %r)' % (t, mine, seen, trace))
                    break
    return trace, fail


def pqueue_scenarios(quick):
    def note(k):
        return [0x90, k, k]
    progs = [
        [[[note(1), note(2), note(3)]], [[note(11), note(12), note(13)]]],
        [[[note(1), note(2)], [note(3)]], [[note(11)], [note(12), note(13)]], [('poll', 3)]],
        [[[note(1), [0xf0, 1, 2, 0xf7], note(2)]], [[[0xf8], note(11), note(12)]], [('poll', 2)]],
    ]
    # the ('poll', k) entries are steps, not chunks
    fixed = []
    for p in progs:
        fixed.append([[step if (isinstance(step, tuple)) else step for step in th] for th in p])
    total, failures, exhausted = 0, [], 0
    for p in fixed:
        # threads whose single step is a poll are written [('poll', k)]
        norm = [[(s if isinstance(s, tuple) else s) for s in th] for th in p]
        runs, done = explore(lambda policy, norm=norm: run_pqueue(norm, policy), 2 if quick else 3, 1500 if quick else 30000)
        total += len(runs)
        exhausted += int(done)
        failures += [f for _, f in runs if f is not None]
    return total, exhausted, len(fixed), failures


# ------------------------------------------------------------------ close() from several threads
def run_close(nthreads, autoreset, policy):
    import mido.ports as ports
    sc = S.Sched(nthreads)
    st = {'closes': 0, 'sent': 0}

    class Dev(ports.BaseIOPort):
        def _open(self, **kw):
            pass

        def _send(self, msg):
            st['sent'] += 1

        def _close(self):
            sc.yield_point()                     # releasing the device takes a moment
            st['closes'] += 1
    port = Dev('dev', autoreset=autoreset)
    swap_locks(port, sc)

    def body(results):
        port.close()
    fail = None
    try:
        sc.start([body] * nthreads)
        drive(sc, policy)
        trace = list(sc.trace)
        complete = all(s == 'done' for s in sc.state)
        for t, oc in enumerate(sc.outcome):
            if oc is not None and oc[0] == 'raised':
                fail = ('close-thread-raises:' + type(oc[1]).__name__, 'close() from %d threads: thread %d raised %r (schedule %r)' % (nthreads, t, oc[1], trace))
    finally:
        sc.stop()
    if fail is None and complete:
        if st['closes'] != 1 or not port.closed:
            fail = ('closed-twice', 'close() from %d threads released the device %d times (closed=%r; schedule %r)' % (nthreads, st['closes'], port.closed, trace))
        elif autoreset and st['sent'] != 32:
            fail = ('autoreset', 'close() from %d threads on an autoreset port sent %d reset messages (schedule %r)' % (nthreads, st['sent'], trace))
    return trace, fail


def close_scenarios(quick):
    total, failures, exhausted, n = 0, [], 0, 0
    for nthreads in (2, 3):
        for autoreset in (False, True):
            n += 1
            runs, done = explore(lambda policy, a=autoreset, k=nthreads: run_close(k, a, policy), 2 if quick else 3, 800 if quick else 20000)
            total += len(runs)
            exhausted += int(done)
            failures += [f for _, f in runs if f is not None]
    return total, exhausted, n, failures
