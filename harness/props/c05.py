"""C05 — parsing does not depend on how the stream is chunked or consumed."""
import random

import canon
import core
from props import parser_common as pc

THEOREMS_DEPEND_ON = ['Gen/AgreeCodec.v']


def split_cases(stream, rng, every=True):
    """all 2-way splits of the stream (feed a, pending, feed b), byte-at-a-time, random k-way splits."""
    cases = []
    for cut in range(len(stream) + 1) if every else []:
        a, b = stream[:cut], stream[cut:]
        cases.append([0, len(a)] + a + [3, 0, len(b)] + b + [3, 4])
    bytewise = []
    for b in stream:
        bytewise += [1, b, 3]
    cases.append(bytewise + [4])
    mixed = []
    for b in stream:
        mixed += ([1, b] if rng.random() < 0.5 else [0, 1, b]) + ([2] if rng.random() < 0.3 else [])
    cases.append(mixed + [3, 4])
    for _ in range(3):
        cases.append(pc.random_pops(rng, stream))
    return cases


def corpus():
    return [
        [0, 3, 0xf0, 1, 2, 0, 3, 0x90, 60, 64, 0, 2, 3, 0xf7, 4],          # whole message fed while a sysex is open
        [1, 0xf0, 1, 0x7e, 1, 0xf8, 3, 2, 1, 0x01, 3, 4],                   # real-time byte inside an open sysex, fed bytewise
        [0, 2, 0x90, 60, 0, 3, 0x80, 1, 2, 3, 4],
        [0, 2, 0x90, 0x11, 0, 3, 0x81, 0x3c, 0x03, 4],
    ]


def run(out):
    rng = random.Random(out.seed)
    nstreams = 300 if out.tier == 'quick' else 20000
    cases = corpus()
    for i in range(nstreams):
        s = pc.random_stream(rng, 40 if i % 4 else 12)
        cases += split_cases(s, rng)
    # message boundaries: every cut inside every message of a concatenation
    for i in range(60 if out.tier == 'quick' else 4000):
        ms = [canon.random_message(rng, sysex_max=6) for _ in range(rng.randrange(1, 5))]
        s = [b for m in ms for b in canon.std_layout(m)]
        cases += split_cases(s, rng)
    for _ in range(1500 if out.tier == 'quick' else 100000):
        cases.append(pc.random_pops(rng))
    qcases = [pc.random_qops(rng) for _ in range(1500 if out.tier == 'quick' else 100000)]
    icases = [pc.random_iops(rng) for _ in range(1500 if out.tier == 'quick' else 100000)]
    icases += [[0, 3, 0x90, 1, 2, 0, 3, 0x90, 3, 4, 6, 7, 2, 7, 7], [6, 7, 0, 3, 0x90, 1, 2, 7, 6, 7], [0, 3, 0x90, 1, 2, 6, 7, 0, 3, 0x91, 1, 2, 7, 7, 7],
               # two live iterators advanced alternately; the first runs dry and stays finished when more arrives
               [0, 6, 0x90, 1, 2, 0x90, 3, 4, 6, 6, 8, 0, 8, 1, 8, 0, 0, 3, 0x91, 5, 6, 8, 0, 8, 1, 8, 1]]
    jobs = pc.chunk_jobs(cases, 'pops', pc.COMP_POPS) + pc.chunk_jobs(qcases, 'qops', pc.COMP_QOPS) + pc.chunk_jobs(icases, 'iops', pc.COMP_IOPS)
    for tag, rec in core.pmap(pc.job, jobs):
        core.merge_into(out, rec, tag)
    # Parser(data) constructor path and parse()
    import mido
    n = 0
    for _ in range(300):
        s = pc.random_stream(rng, 30)
        n += 1
        try:
            a = pc.msgs_out(list(mido.Parser(s)))
            b = pc.msgs_out(mido.parser.parse_all(s))
            first = mido.parse(s)
            c = [] if first is None else canon.msg_ints(first)
            if a != b or (b[0] > 0 and c != canon.msg_ints(mido.parser.parse_all(s)[0])) or (b[0] == 0 and first is not None):
                out.failures.append(('ctor', 'Parser(data)/parse(data) differ from parse_all on %r' % (s,), {'component': 'ctor', 'case': s}))
            # the constructor's data is fed like any other: Parser(head) followed by feed(tail) / feed_byte, for every cut
            for cut in range(len(s) + 1):
                for form in (list, bytes, bytearray, tuple):
                    p1 = mido.Parser(form(s[:cut]))
                    early = list(p1) if cut % 2 else []
                    if cut % 3:
                        p1.feed(form(s[cut:]))
                    else:
                        for x in s[cut:]:
                            p1.feed_byte(x)
                    got = pc.msgs_out(early + list(p1))
                    n += 1
                    if got != b:
                        out.failures.append(('ctor-then-feed', 'Parser(%s(%r)) then feeding %r gives %r, the whole stream parses to %r' % (form.__name__, s[:cut], s[cut:], got, b),
                                             {'component': 'ctor', 'case': s, 'cut': cut}))
                        break
        except Exception as e:  # noqa: BLE001
            out.failures.append(('ctor-raises', 'Parser(%r) raised %r' % (s, e), {'component': 'ctor', 'case': s}))
    out.evaluations += n
    out.components['ctor (implementation-only)'] = {'cases': n}
    out.extra['live_iterator_histories'] = len(icases)
    out.rule = ('operation histories on a real Parser (feed with list/bytes/bytearray, feed_byte, get_message, pending, list(parser), '
                'partial iteration; and histories in which any number of iterators are kept alive across feeds, get_message calls and other iterations and advanced in any order) compared step by step with the model, final queue included: for %d random streams every 2-way '
                'split, byte-at-a-time feeding, mixed feed/feed_byte and random interleavings; concatenated messages cut at every '
                'offset; random histories; ParserQueue histories (put_bytes, put, poll, iterpoll). Oracle on the implementation: '
                'retrieved + pending == parse_all(all fed), pending() == number retrievable, get_message() is None iff pending()==0. '
                'Non-trivial: a history with a non-zero item after the first; distinct by content.' % nstreams)
    out.sample({'component': 'pops', 'case': cases[10]})
    out.sample({'component': 'qops', 'case': qcases[0]})
    core.kernel_crosscheck(out, [(pc.COMP_POPS, c) for c in rng.sample(cases, 150)] + [(pc.COMP_QOPS, c) for c in qcases[:50]], 'C05')
    out.assumptions += ['feeding while an iterator over the same parser is live (generator aliasing) is not modelled: iteration is modelled '
                        'as take-all or take-k', 'ParserQueue.get (blocking) and __iter__ are not exercised; thread use of ParserQueue is C10']
