"""C04 — the parser is total and sound on arbitrary byte streams."""
import random

import core
from props import parser_common as pc

THEOREMS_DEPEND_ON = ['Gen/AgreeCodec.v']


def corpus():
    return [[0xf0, 0xf7, 0x00], [0xf1, 0x08], [0xf0, 1, 0xfe, 2, 0xf7], [0x90, 0x11, 0x81, 0x3c, 0x03], [0xf4, 1, 2],
            [0x90, 1, 0xf4, 2], [0xf0, 1, 0xf0, 2, 0xf7], [0x90, 1, 0xf8, 2], [0xf7], [0xf2, 1, 0xf9, 2]]


def long_messages(out, rng):
    """very long messages, on the implementation only (the extracted model appends at the end of a list: quadratic): a sysex has no
    length limit; sizes around powers of two, terminated or not, with a real-time byte inside.  Oracle: the property's statement."""
    import mido
    n_cases = 0
    for n in ([65534, 65535, 65536, 70000] if out.tier == 'quick' else [4095, 4096, 65534, 65535, 65536, 65537, 70000, 131071, 131072, 262145, 1048577]):
        body = [rng.randrange(128) for _ in range(n)]
        k = rng.randrange(n)
        for stream, want in (([0xf0] + body + [0xf7, 0x90, 1, 2], [[0xf0] + body + [0xf7], [0x90, 1, 2]]),
                             ([0x80, 5, 6, 0xf0] + body[:k] + [0xf8] + body[k:] + [0xf7], [[0x80, 5, 6], [0xf8], [0xf0] + body + [0xf7]]),
                             ([0xf0] + body, [])):
            n_cases += 1
            fail = pc.oracle_c04(stream)
            if fail is None:
                got = [m.bytes() for m in mido.parser.parse_all(stream)]
                if got != want:
                    fail = ('long-message', 'a stream with a sysex of %d data bytes parsed into messages of lengths %r, expected %r' % (n, [len(g) for g in got], [len(w) for w in want]))
            if fail is not None:
                out.failures.append((fail[0], fail[1][:600], {'component': 'long-messages', 'sysex_data_bytes': n, 'stream_head': stream[:8]}))
    out.evaluations += n_cases
    out.components['long messages (implementation against the statement)'] = {'cases': n_cases}


def run(out):
    rng = random.Random(out.seed)
    maxlen = 4 if out.tier == 'quick' else 5
    strings = corpus() + list(pc.all_strings(maxlen))
    nrand, rlen = (2000, 400) if out.tier == 'quick' else (20000, 3000)
    streams = [pc.random_stream(rng, rlen) for _ in range(nrand)]
    if out.tier == 'thorough':
        streams += [pc.random_stream(rng, 10000) for _ in range(200)]
    jobs = pc.chunk_jobs(strings, 'parse', pc.COMP_PARSE) + pc.chunk_jobs(streams, 'parse', pc.COMP_PARSE)
    jobs += pc.chunk_jobs(strings[::3] + streams[::4], 'tokens', pc.COMP_TOKENS)
    for tag, rec in core.pmap(pc.job, jobs):
        core.merge_into(out, rec, tag)
    long_messages(out, rng)
    out.exhaustive = True
    out.extra['exhaustive_scope'] = 'all %d strings of length <= %d over the %d-symbol class alphabet' % (
        sum(len(pc.ALPHABET) ** n for n in range(maxlen + 1)), maxlen, len(pc.ALPHABET))
    out.rule = ('parse_all and the Tokenizer on: every string of length <= %d over a 17-symbol alphabet with one representative per '
                'byte class (3 data bytes, each status family/length, sysex start/end, defined and undefined system common and '
                'real-time) and %d random streams (length < %d) mixing whole messages, messages cut short, status bytes and '
                'random bytes. Non-trivial: any case with a non-zero byte after the first; distinct by content.' % (maxlen, len(streams), rlen))
    out.sample({'component': 'parse', 'case': strings[7000]})
    out.sample({'component': 'parse', 'case': streams[0][:40]})
    core.kernel_crosscheck(out, [(pc.COMP_PARSE, c) for c in rng.sample(strings, 150)] + [(pc.COMP_PARSE, c) for c in streams[:50]], 'C04')
    out.assumptions += ['inputs are integers 0..255 (the property\'s domain); other items make feed_byte raise and are outside the model']
