"""C04 — the parser is total and sound on arbitrary byte streams."""
import random

import core
from props import parser_common as pc

THEOREMS_DEPEND_ON = ['Gen/AgreeCodec.v']


def corpus():
    return [[0xf0, 0xf7, 0x00], [0xf1, 0x08], [0xf0, 1, 0xfe, 2, 0xf7], [0x90, 0x11, 0x81, 0x3c, 0x03], [0xf4, 1, 2],
            [0x90, 1, 0xf4, 2], [0xf0, 1, 0xf0, 2, 0xf7], [0x90, 1, 0xf8, 2], [0xf7], [0xf2, 1, 0xf9, 2]]


def run(out):
    rng = random.Random(out.seed)
    maxlen = 4 if out.tier == 'quick' else 5
    strings = corpus() + list(pc.all_strings(maxlen))
    nrand, rlen = (2000, 400) if out.tier == 'quick' else (20000, 3000)
    streams = [pc.random_stream(rng, rlen) for _ in range(nrand)]
    if out.tier == 'thorough':
        streams += [pc.random_stream(rng, 10000) for _ in range(200)]
    jobs = pc.chunk_jobs(strings, 'parse', pc.COMP_PARSE) + pc.chunk_jobs(streams, 'parse', pc.COMP_PARSE)
    jobs += pc.chunk_jobs(strings[::3] + streams[::4], 'tokens', pc.COMP_TOKENS)
    for tag, rec in core.pmap(pc.job, jobs):
        core.merge_into(out, rec, tag)
    out.exhaustive = True
    out.extra['exhaustive_scope'] = 'all %d strings of length <= %d over the %d-symbol class alphabet' % (
        sum(len(pc.ALPHABET) ** n for n in range(maxlen + 1)), maxlen, len(pc.ALPHABET))
    out.rule = ('parse_all and the Tokenizer on: every string of length <= %d over a 17-symbol alphabet with one representative per '
                'byte class (3 data bytes, each status family/length, sysex start/end, defined and undefined system common and '
                'real-time) and %d random streams (length < %d) mixing whole messages, messages cut short, status bytes and '
                'random bytes. Non-trivial: any case with a non-zero byte after the first; distinct by content.' % (maxlen, len(streams), rlen))
    out.sample({'component': 'parse', 'case': strings[7000]})
    out.sample({'component': 'parse', 'case': streams[0][:40]})
    core.kernel_crosscheck(out, [(pc.COMP_PARSE, c) for c in rng.sample(strings, 150)] + [(pc.COMP_PARSE, c) for c in streams[:50]], 'C04')
    out.assumptions += ['inputs are integers 0..255 (the property\'s domain); other items make feed_byte raise and are outside the model']
